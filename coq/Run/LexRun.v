(* Run/LexRun.v -- correspondence runner for the lexical formatter and parser models (C02, C05). *)
From Coq Require Import List Bool NArith.
From Nv Require Export Model.LexFormatter Model.LexParser Model.LexSpec Gen.Unicode.
Import ListNotations.
Open Scope N_scope.

Definition lfmt_of (i : N) : lfmt := nth (N.to_nat i) shipped_lex_formats LEX_ASCII.

(* char::is_alphanumeric as dumped from std *)
Definition lex_is_alnum_std (c : N) : bool := in_ranges_cc alnum_ranges c.

Definition xlex_parse (F : lfmt) := lex_parse lex_is_alnum_std F.
Definition xlex_parse_term (F : lfmt) := lex_parse_term lex_is_alnum_std F.

Fixpoint lmism {A} (chk : A -> bool) (i : N) (cases : list A) : list N :=
  match cases with
  | [] => []
  | c :: rest => if chk c then lmism chk (N.succ i) rest else i :: lmism chk (N.succ i) rest
  end.

Definition llist_eqb {A} (f : A -> A -> bool) : list A -> list A -> bool :=
  fix go (a b : list A) : bool :=
  match a, b with
  | [], [] => true
  | x :: a', y :: b' => f x y && go a' b'
  | _, _ => false
  end.

Fixpoint lterm_eqb (a b : lterm) {struct a} : bool :=
  match a, b with
  | LAtom p n, LAtom p' n' => str_eqb p p' && str_eqb n n'
  | LCompound c ts, LCompound c' ts' => str_eqb c c' && llist_eqb lterm_eqb ts ts'
  | LSet l ts r, LSet l' ts' r' => str_eqb l l' && llist_eqb lterm_eqb ts ts' && str_eqb r r'
  | LStatement c s p, LStatement c' s' p' => str_eqb c c' && lterm_eqb s s' && lterm_eqb p p'
  | _, _ => false
  end.

Definition strs_eqb (a b : list str) : bool := llist_eqb str_eqb a b.
Definition lsentence_eqb (a b : lsentence) : bool :=
  lterm_eqb (ls_term a) (ls_term b) && str_eqb (ls_punct a) (ls_punct b) &&
  str_eqb (ls_stamp a) (ls_stamp b) && strs_eqb (ls_truth a) (ls_truth b).
Definition ltask_eqb (a b : ltask) : bool :=
  strs_eqb (lt_budget a) (lt_budget b) && lsentence_eqb (lt_sentence a) (lt_sentence b).
Definition lnarsese_eqb (a b : lnarsese) : bool :=
  match a, b with
  | NTerm t, NTerm t' => lterm_eqb t t'
  | NSentence s, NSentence s' => lsentence_eqb s s'
  | NTask k, NTask k' => ltask_eqb k k'
  | _, _ => false
  end.

(* the implementation's outcome: LOk value | LErr | LPanic (never LFuel: a model LFuel is a mismatch) *)
Definition lres_eqb {A} (f : A -> A -> bool) (a b : lres A) : bool :=
  match a, b with
  | LOk x, LOk y => f x y
  | LErr, LErr | LPanic, LPanic => true
  | _, _ => false
  end.

Definition pair_eqb (a b : str * str) : bool := str_eqb (fst a) (fst b) && str_eqb (snd a) (snd b).
Definition single (l : list str) : list (str * str) := map (fun s => (s, [])) l.

(* which dictionary: 0 atom prefixes (prefix_terms), 1 set brackets (prefix_terms), 2 connecters
   (prefix_terms), 3 copulas (prefix_terms), 4 punctuations (suffix_terms), 5 stamp brackets
   (suffix_terms), 6 set brackets (suffix_terms; not used by the parser) *)
Definition dict_order (F : lfmt) (which : N) : list (str * str) :=
  let C := compile F in
  match which with
  | 0 => single (c_prefixes C)
  | 1 => c_set_brackets C
  | 2 => single (c_connecters C)
  | 3 => single (c_copulas C)
  | 4 => single (c_punctuations C)
  | 5 => c_stamp_brackets C
  | _ => bifix_suffix_iter (l_set_brackets_raw F)
  end.

Fixpoint expand_range (lo : N) (n : nat) : list N :=
  match n with O => [] | S n' => lo :: expand_range (N.succ lo) n' end.
Definition expand_ranges (rs : list (N * N)) : list N :=
  concat (map (fun r => expand_range (fst r) (N.to_nat (snd r + 1 - fst r))) rs).

Inductive lcase :=
| LFmtC (fmt : N) (v : lnarsese) (impl : str)
| LParseC (fmt : N) (input : str) (impl : lres lnarsese)
| LParseTermC (fmt : N) (input : str) (impl : lres lterm)
| LDictC (fmt : N) (which : N) (impl : list (str * str))
| LVocabC (fmt : N) (v : lnarsese) (impl : bool)   (* the domain of C02 as the harness restates it *)
| LUnambC (fmt : N) (v : lnarsese) (k5 : bool)     (* the harness's known class K5 = failure of unamb_top *)
| LWhitespaceC.      (* the 25 White_Space points = std's char::is_whitespace, all scalars *)

Definition lcase_check (c : lcase) : bool :=
  match c with
  | LFmtC f v impl => str_eqb (lex_fmt (lfmt_of f) v) impl
  | LParseC f input impl => lres_eqb lnarsese_eqb (xlex_parse (lfmt_of f) input) impl
  | LParseTermC f input impl => lres_eqb lterm_eqb (xlex_parse_term (lfmt_of f) input) impl
  | LDictC f which impl => llist_eqb pair_eqb (dict_order (lfmt_of f) which) impl
  | LVocabC f v impl => Bool.eqb (vocab_ok (lfmt_of f) lex_is_alnum_std v) impl
  | LUnambC f v k5 => Bool.eqb (negb (unamb_top_b (lfmt_of f) v)) k5
  | LWhitespaceC => str_eqb (expand_ranges whitespace_ranges) white_space_points
  end.

Definition mismatches_lex := lmism lcase_check 0.
