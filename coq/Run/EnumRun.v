(* Run/EnumRun.v -- correspondence runner for the enum formatter and parser models. *)
From Coq Require Import ZArith List Bool.
From Nv Require Export Model.EnumParser Model.Number Base.FloatDec Gen.Unicode Run.TermRun.
Import ListNotations.
Open Scope N_scope.

Definition fmt_of (i : N) : efmt := nth (N.to_nat i) shipped_formats FORMAT_ASCII.

Definition is_alnum_std (c : N) : bool := in_ranges alnum_ranges c.

(* executable instance of the parser: floats are raw bit patterns, read by fread_dec, range-tested by C13's in01 *)
Definition xparse_narsese (E : efmt) := parse_narsese Z fread_dec 0%Z in01 is_alnum_std E.
Definition xparse_multi (E : efmt) := parse_multi Z fread_dec 0%Z in01 is_alnum_std E.
Definition xdoor_truth (E : efmt) := door_truth Z fread_dec 0%Z in01 E.
Definition xdoor_budget (E : efmt) := door_budget Z fread_dec 0%Z in01 E.
Definition xdoor_stamp (E : efmt) := door_stamp Z E.
Definition xdoor_punct (E : efmt) := door_punctuation Z E.

Inductive eres (A : Type) := EOk (a : A) | EErr | EPanic.
Arguments EOk {A} a.
Arguments EErr {A}.
Arguments EPanic {A}.

Definition of_pres {A} (r : pres Z A) : eres A :=
  match r with POk a _ => EOk a | PErr _ => EErr | PPanic => EPanic | PFuel => EPanic end.

Inductive ecase :=
| EFmt (fmt : N) (v : narsese Z) (shown : list (Z * str)) (impl : str)
| EParse (fmt : N) (input : str) (impl : eres (narsese Z))
| EDoorTruth (fmt : N) (input : str) (impl : eres (truthv Z))
| EDoorBudget (fmt : N) (input : str) (impl : eres (budgetv Z))
| EDoorStamp (fmt : N) (input : str) (impl : eres stamp)
| EDoorPunct (fmt : N) (input : str) (impl : eres punct)
| EMulti (fmt : N) (inputs : list str) (impl : option (list (outcome (narsese Z))))
| EFloat (buf : str) (impl : option Z)
(* NarseseValue wrappers and the sentence/task casts on an enum value (Model/Access.v NValue, Model/Sentence.v):
   is_term/is_sentence/is_task; try_into_term/_sentence/_task (Ok payload re-wrapped | None);
   try_into_task_compatible (Ok task re-wrapped | None); NarseseValue::try_cast_to_sentence (is Ok?, the value
   inside Ok / handed back inside Err) *)
| ECast (v : narsese Z) (is3 : bool * bool * bool) (into_t into_s into_k compat : option (narsese Z))
        (to_sentence : bool * narsese Z)
(* the ParseError of a rejected input: the cursor at which the error was raised (`index`, not clamped) and the
   window of the environment it shows (`env_slice`), both read from the error's Debug output.  Not part of any
   property; compared because the index is where the last attempted branch gave up, i.e. it observes the cursor
   movement on FAILING paths, and the window is generate_env_slice in full (not only "does not panic") *)
| EParseErrAt (fmt : N) (input : str) (index : N) (window : str).

Definition zlist_eqb (a b : list Z) : bool := list_eqb Z.eqb a b.
Definition stamp_eqb (a b : stamp) : bool :=
  match a, b with
  | Eternal, Eternal | Past, Past | Present, Present | Future, Future => true
  | Fixed x, Fixed y => Z.eqb x y
  | _, _ => false
  end.
Definition punct_eqb (a b : punct) : bool :=
  match a, b with
  | Judgement, Judgement | Goal, Goal | Question, Question | Quest, Quest => true
  | _, _ => false
  end.
Definition truth_eqb (a b : truthv Z) : bool :=
  Nat.eqb (length (truth_list a)) (length (truth_list b)) && zlist_eqb (truth_list a) (truth_list b).
Definition budget_eqb (a b : budgetv Z) : bool :=
  Nat.eqb (length (budget_list a)) (length (budget_list b)) && zlist_eqb (budget_list a) (budget_list b).
Definition sentence_eqb (a b : sentence Z) : bool :=
  match a, b with
  | SJudgement t tr st, SJudgement t' tr' st' | SGoal t tr st, SGoal t' tr' st' =>
      term_peqb t t' && truth_eqb tr tr' && stamp_eqb st st'
  | SQuestion t st, SQuestion t' st' | SQuest t st, SQuest t' st' => term_peqb t t' && stamp_eqb st st'
  | _, _ => false
  end.
Definition narsese_eqb (a b : narsese Z) : bool :=
  match a, b with
  | NTerm t, NTerm t' => term_peqb t t'
  | NSentence s, NSentence s' => sentence_eqb s s'
  | NTask (s, b), NTask (s', b') => sentence_eqb s s' && budget_eqb b b'
  | _, _ => false
  end.

Definition eres_eqb {A} (f : A -> A -> bool) (a b : eres A) : bool :=
  match a, b with
  | EOk x, EOk y => f x y
  | EErr, EErr | EPanic, EPanic => true
  | _, _ => false
  end.

Definition outcome_eqb (a b : outcome (narsese Z)) : bool :=
  match a, b with
  | OOk x, OOk y => narsese_eqb x y
  | OErr, OErr => true
  | _, _ => false
  end.

Definition ozeqb (a b : option Z) : bool :=
  match a, b with Some x, Some y => Z.eqb x y | None, None => true | _, _ => false end.

Definition ecase_check (c : ecase) : bool :=
  match c with
  | EFmt f v shown impl => str_eqb (fmt_narsese Z (fshow_tab shown) (fmt_of f) v) impl
  | EParse f input impl => eres_eqb narsese_eqb (of_pres (xparse_narsese (fmt_of f) input)) impl
  | EDoorTruth f input impl => eres_eqb truth_eqb (of_pres (xdoor_truth (fmt_of f) input)) impl
  | EDoorBudget f input impl => eres_eqb budget_eqb (of_pres (xdoor_budget (fmt_of f) input)) impl
  | EDoorStamp f input impl => eres_eqb stamp_eqb (of_pres (xdoor_stamp (fmt_of f) input)) impl
  | EDoorPunct f input impl => eres_eqb punct_eqb (of_pres (xdoor_punct (fmt_of f) input)) impl
  | EMulti f inputs impl =>
      match xparse_multi (fmt_of f) inputs, impl with
      | Some l, Some l' => list_eqb outcome_eqb l l'
      | None, None => true
      | _, _ => false
      end
  | EFloat buf impl => ozeqb (fread_dec buf) impl
  | ECast v is3 it isn ik compat ts =>
      let oeq (a b : option (narsese Z)) :=
        match a, b with Some x, Some y => narsese_eqb x y | None, None => true | _, _ => false end in
      Bool.eqb (nv_is_term v) (fst (fst is3)) && Bool.eqb (nv_is_sentence v) (snd (fst is3)) &&
      Bool.eqb (nv_is_task v) (snd is3) &&
      oeq (option_map NTerm (try_into_term v)) it &&
      oeq (option_map NSentence (try_into_sentence v)) isn &&
      oeq (option_map NTask (try_into_task v)) ik &&
      oeq (option_map NTask (try_into_task_compatible (@cast_to_task Z) v)) compat &&
      match nv_try_cast_to_sentence (@try_cast_to_sentence Z) v with
      | inl w => fst ts && narsese_eqb w (snd ts)
      | inr w => negb (fst ts) && narsese_eqb w (snd ts)
      end
  | EParseErrAt f input index window =>
      match xparse_narsese (fmt_of f) input with
      | PErr st =>
          let '(l, r) := err_window (s_len _ st) (s_head _ st) in
          (* env[l..r] of the real code panics unless l <= r <= len: the window must be a genuine slice *)
          Nat.leb l r && Nat.leb r (length input) &&
          N.eqb (N.of_nat (s_head _ st)) index && str_eqb (take (r - l) (drop l input)) window
      | _ => false
      end
  end.
Definition mismatches_enum := mism ecase_check 0.
