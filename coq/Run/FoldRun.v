(* Run/FoldRun.v -- correspondence runner for the lexical fold model (Model/Fold.v) and for the
   full float reader (Base/FloatDec2.v). *)
From Coq Require Import ZArith List Bool.
From Nv Require Export Model.Fold Base.FloatDec2 Run.EnumRun.
Import ListNotations.
Open Scope N_scope.

(* executable instance: floats are raw bit patterns read by fread_full (= str::parse::<f64>() on any
   string), range-tested by C13's in01 *)
Definition xfold_narsese (E : efmt) := fold_narsese Z fread_full in01 E.

Definition of_fres {A} (r : fres A) : eres A :=
  match r with FOk a => EOk a | FErr => EErr | FPanic => EPanic end.

Inductive fcase :=
| FFold (fmt : N) (x : lnarsese) (impl : eres (narsese Z))   (* TryFoldInto::try_fold_into on a lexical value *)
| FFloat (buf : str) (impl : option Z)                       (* str::parse::<f64>() *)
| FLexCat (x : lterm) (cat cap : N).                         (* GetCategory / GetCapacity of a lexical term *)

Definition fcase_check (c : fcase) : bool :=
  match c with
  | FFold f x impl => eres_eqb narsese_eqb (of_fres (xfold_narsese (fmt_of f) x)) impl
  | FFloat buf impl => ozeqb (fread_full buf) impl
  | FLexCat x cat cap => N.eqb (cat_index (lcategory x)) cat && N.eqb (cap_index (lcapacity x)) cap
  end.
Definition mismatches_fold := mism fcase_check 0.
