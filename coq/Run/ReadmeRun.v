(* Run/ReadmeRun.v -- correspondence runner for C11 (stub, filled below). *)
From Nv Require Export Model.Readme Gen.ReadmeGrammar Gen.EnumFormats Run.EnumRun.
Open Scope N_scope.
