(* Run/ReadmeRun.v -- correspondence runner for C11: the PEG interpreter, running the grammar
   REGENERATED from README.md, is the oracle that decides whether a text the real ASCII formatters
   printed is a sentence of the published grammar, and with which kind and tree.  Every case carries
   what the real ASCII lexical parser returned for the same text. *)
From Coq Require Import ZArith List Bool.
From Nv Require Export Model.Readme Gen.ReadmeGrammar Gen.EnumFormats Run.EnumRun.
Import ListNotations.
Open Scope N_scope.

(* ---- structural equality of lexical values ---- *)
Fixpoint lterm_eqb (a b : lterm) {struct a} : bool :=
  match a, b with
  | LAtom p n, LAtom p' n' => str_eqb p p' && str_eqb n n'
  | LCompound c ts, LCompound c' ts' => str_eqb c c' && list_eqb lterm_eqb ts ts'
  | LSet l ts r, LSet l' ts' r' => str_eqb l l' && str_eqb r r' && list_eqb lterm_eqb ts ts'
  | LStatement c s p, LStatement c' s' p' => str_eqb c c' && lterm_eqb s s' && lterm_eqb p p'
  | _, _ => false
  end.
Definition strs_eqb (a b : list str) : bool := list_eqb str_eqb a b.
Definition lsentence_eqb (a b : lsentence) : bool :=
  lterm_eqb (ls_term a) (ls_term b) && str_eqb (ls_punct a) (ls_punct b) &&
  str_eqb (ls_stamp a) (ls_stamp b) && strs_eqb (ls_truth a) (ls_truth b).
Definition ltask_eqb (a b : ltask) : bool :=
  strs_eqb (lt_budget a) (lt_budget b) && lsentence_eqb (lt_sentence a) (lt_sentence b).
Definition lnarsese_eqb (a b : lnarsese) : bool :=
  match a, b with
  | NTerm x, NTerm y => lterm_eqb x y
  | NSentence x, NSentence y => lsentence_eqb x y
  | NTask x, NTask y => ltask_eqb x y
  | _, _ => false          (* a different kind *)
  end.

(* ---- the class of a value (computed from the names of its atoms) ----
   0: inside the domain of C11;  1: known class K4 (a name with the pattern [-_] - [-_]);
   2: outside the domain: a name with a character that is a library identifier but no atom_char of the
      grammar (emoji above U+1F2FF, alphanumerics outside the categories L and N);  3: see below *)
Fixpoint lterm_names (x : lterm) : list str :=
  match x with
  | LAtom _ n => [n]
  | LCompound _ ts | LSet _ ts _ => flat_map lterm_names ts
  | LStatement _ s p => lterm_names s ++ lterm_names p
  end.
Definition lnarsese_term (v : lnarsese) : lterm :=
  match v with
  | NTerm t => t
  | NSentence s => ls_term s
  | NTask k => ls_term (lt_sentence k)
  end.
Fixpoint lterm_atoms (x : lterm) : list (str * str) :=
  match x with
  | LAtom p n => [(p, n)]
  | LCompound _ ts | LSet _ ts _ => flat_map lterm_atoms ts
  | LStatement _ s p => lterm_atoms s ++ lterm_atoms p
  end.
(* 3: outside the domain (lexical values only): the placeholder prefix `_` with a non-empty name -- the
   library prints and re-parses `_a` as Atom("_","a"), the grammar's `"_"+` alternative stops after `_` *)
Definition class_of (v : lnarsese) : N :=
  let names := lterm_names (lnarsese_term v) in
  if negb (forallb (forallb (atom_charb ucls_tab)) names) then 2
  else if negb (forallb (k4_free) names) then 1
  else if existsb (fun a => str_eqb (fst a) [95] && negb (str_eqb (snd a) [])) (lterm_atoms (lnarsese_term v)) then 3
  else 0.

(* the interpreter on the regenerated grammar *)
Definition oracle (text : str) : rres := readme_parse_g readme_grammar text.

Definition conforms (text : str) (w : lnarsese) : bool :=
  match oracle text with RValue v => lnarsese_eqb v w | _ => false end.

(* class 0: the text is a sentence of the grammar with the kind and tree the library's parser returned;
   classes 1 and 2: it is not (this is what makes K4 a finding and class 2 a domain restriction; a
   text of these classes that did conform would be a flaw of the class predicate) *)
(* class 3 has one conforming corner: a name made of underscores only (`__` is `"_"+` for the grammar and
   Atom("_","_") for the library, and the conversion of the parse tree says exactly that) *)
Definition underscore_names_only (w : lnarsese) : bool :=
  forallb (fun a => negb (str_eqb (fst a) [95]) || forallb (N.eqb 95) (snd a)) (lterm_atoms (lnarsese_term w)).
Definition verdict (tag : N) (text : str) (w : lnarsese) : bool :=
  (class_of w =? tag) &&
  (if tag =? 0 then conforms text w
   else if tag =? 3 then Bool.eqb (conforms text w) (underscore_names_only w)
   else negb (conforms text w)).

Inductive rcase :=
(* an enum value, the Display table of its floats, the text FORMAT_ASCII.format_narsese printed,
   what the ASCII lexical parser returned for the text, the harness' class tag *)
| REnum (v : narsese Z) (shown : list (Z * str)) (text : str) (impl : option lnarsese) (tag : N)
(* a lexical value, the text the lexical FORMAT_ASCII printed, the lexical parse of the text, the tag *)
| RLex (x : lnarsese) (text : str) (impl : option lnarsese) (tag : N)
(* a code point with what Rust's std says about it: is_alphanumeric, is_numeric, is_whitespace,
   is_ascii_punctuation, is_ascii_alphabetic -- ties the category tables (Python unicodedata) to std *)
| RUni (c : N) (alnum numeric white ascii_punct ascii_alpha : bool).

Definition rcase_check (c : rcase) : bool :=
  match c with
  | REnum v shown text impl tag =>
      str_eqb (fmt_narsese Z (fshow_tab shown) FORMAT_ASCII v) text &&
      match impl with
      | Some w => lnarsese_eqb (lex_of_narsese Z (fshow_tab shown) FORMAT_ASCII v) w && verdict tag text w
      | None => false
      end &&
      (* the domain of the conformance theorems is the class the harness calls 0, and the Display
         strings of the floats are digit-and-dot strings (hypothesis of the enum theorems) *)
      Bool.eqb (narsese_ok_readme ucls_tab v) (tag =? 0) && forallb (fun p => num_ok (snd p)) shown
  | RLex x text impl tag =>
      str_eqb (lfmt_narsese lex_ascii_layout x) text &&
      match impl with
      | Some w => verdict tag text w
      | None => false
      end &&
      Bool.eqb (lnarsese_wf ucls_tab opennars_lexicon x) (tag =? 0)
  | RUni c alnum numeric white ascii_punct ascii_alpha =>
      Bool.eqb (ucls_tab UNumber c) numeric &&
      Bool.eqb (ucls_tab UWhiteSpace c) white &&
      implb (ucls_tab ULetter c || ucls_tab UNumber c) alnum &&
      (if c <? 128 then
         Bool.eqb (ucls_tab UPunctuation c || ucls_tab USymbol c) ascii_punct &&
         Bool.eqb (ucls_tab ULetter c) ascii_alpha &&
         Bool.eqb (ucls_tab UAsciiDigit c) (ucls_tab UNumber c)
       else true)
  end.
Definition mismatches_readme := mism rcase_check 0.
