(* Run/TypstRun.v -- correspondence runner for the Typst renderer model (C16): evaluates
   Model/Typst.v on the harness' cases and compares with what FormatterTypst returned.
   Floats are raw bit patterns; f64::to_string is an oracle table written by the harness;
   `impl Debug for str` is [debug_str] over the table of \u{..}-escaped characters dumped from
   std by the harness at run time ([esc_ranges], an extra definition of every shard). *)
From Coq Require Import ZArith List Bool.
From Nv Require Export Model.Typst Run.TermRun.
Import ListNotations.
Open Scope N_scope.

(* oracle table for f64::to_string *)
Fixpoint shown_tab (table : list (Z * str)) (bits : Z) : str :=
  match table with
  | [] => [63; 63] (* "??": a float the harness did not announce; shows up as a mismatch *)
  | (b, s) :: rest => if (b =? bits)%Z then s else shown_tab rest bits
  end.

Inductive tycase :=
| TyValue (v : narsese Z) (shown : list (Z * str)) (impl : option str)       (* None = panic *)
| TyPunct (p : punct) (impl : option str)
| TyStamp (s : stamp) (impl : option str)
| TyTruth (t : truthv Z) (shown : list (Z * str)) (impl : option str)
| TyBudget (b : budgetv Z) (shown : list (Z * str)) (impl : option str)
| TyPost (s : str) (impl : option str)                                       (* post_process_whitespace *)
| TyDebug (s : str) (impl : str)                                             (* format!("{:?}", s) *)
| TyWsTable (std_ranges : list (N * N)).   (* char::is_whitespace of std; also: the escape table covers the whitespace *)

Definition tres_eqb (r : tres) (impl : option str) : bool :=
  match r, impl with
  | TOk s, Some s' => str_eqb s s'
  | TPanic, None => true
  | _, _ => false
  end.

Definition ranges_eqb (a b : list (N * N)) : bool :=
  list_eqb (fun x y => N.eqb (fst x) (fst y) && N.eqb (snd x) (snd y)) a b.

Definition tycase_check (esc : list (N * N)) (c : tycase) : bool :=
  let dbg := debug_str (rng_mem esc) in
  match c with
  | TyValue v shown impl => tres_eqb (typst_narsese Z (shown_tab shown) dbg v) impl
  | TyPunct p impl => tres_eqb (typst_punctuation p) impl
  | TyStamp s impl => tres_eqb (typst_stamp s) impl
  | TyTruth t shown impl => tres_eqb (typst_truth Z (shown_tab shown) t) impl
  | TyBudget b shown impl => tres_eqb (typst_budget Z (shown_tab shown) b) impl
  | TyPost s impl => tres_eqb (post_process s) impl
  | TyDebug s impl => str_eqb (dbg s) impl
  | TyWsTable r => ranges_eqb r ws_ranges && esc_covers_ws (rng_mem esc)
  end.

Definition mismatches_typst (esc : list (N * N)) := mism (tycase_check esc) 0.
