(* Base/Dec.v -- decimal printing and parsing of machine integers.
   show_N / show_Z model Rust `to_string` on usize / isize; read_usize / read_isize model
   `str::parse::<usize>()` / `::<isize>()` (core::num::from_str_radix, radix 10):
   optional sign ('+' for unsigned; '+' or '-' for signed), then at least one ASCII digit,
   nothing else, value in range.  Definitions only; round-trip lemmas are in Proofs/DecP.v. *)
From Nv Require Export Base.Str.
From Coq Require Import Decimal DecimalN DecimalZ.

Fixpoint uint_to_str (d : Decimal.uint) : str :=
  match d with
  | Decimal.Nil => []
  | Decimal.D0 d => 48 :: uint_to_str d
  | Decimal.D1 d => 49 :: uint_to_str d
  | Decimal.D2 d => 50 :: uint_to_str d
  | Decimal.D3 d => 51 :: uint_to_str d
  | Decimal.D4 d => 52 :: uint_to_str d
  | Decimal.D5 d => 53 :: uint_to_str d
  | Decimal.D6 d => 54 :: uint_to_str d
  | Decimal.D7 d => 55 :: uint_to_str d
  | Decimal.D8 d => 56 :: uint_to_str d
  | Decimal.D9 d => 57 :: uint_to_str d
  end.

Definition digit_cons (c : N) (d : Decimal.uint) : option Decimal.uint :=
  match c with
  | 48 => Some (Decimal.D0 d) | 49 => Some (Decimal.D1 d) | 50 => Some (Decimal.D2 d)
  | 51 => Some (Decimal.D3 d) | 52 => Some (Decimal.D4 d) | 53 => Some (Decimal.D5 d)
  | 54 => Some (Decimal.D6 d) | 55 => Some (Decimal.D7 d) | 56 => Some (Decimal.D8 d)
  | 57 => Some (Decimal.D9 d)
  | _ => None
  end.

Fixpoint str_to_uint (s : str) : option Decimal.uint :=
  match s with
  | [] => Some Decimal.Nil
  | c :: s' => match str_to_uint s' with Some d => digit_cons c d | None => None end
  end.

Definition show_N (n : N) : str := uint_to_str (N.to_uint n).

Definition show_Z (z : Z) : str :=
  match z with
  | Z0 => [48]
  | Zpos p => show_N (Npos p)
  | Zneg p => 45 :: show_N (Npos p)
  end.

(* digits only, at least one *)
Definition read_digits (s : str) : option N :=
  match s with
  | [] => None
  | _ => option_map N.of_uint (str_to_uint s)
  end.

Definition usize_max : N := 18446744073709551615.
Definition isize_max : Z := 9223372036854775807%Z.
Definition isize_min : Z := (-9223372036854775808)%Z.

Definition read_usize (s : str) : option N :=
  let body := match s with 43 :: s' => s' | _ => s end in
  match read_digits body with
  | Some n => if n <=? usize_max then Some n else None
  | None => None
  end.

Definition read_isize (s : str) : option Z :=
  let '(neg, body) := match s with 43 :: s' => (false, s') | 45 :: s' => (true, s') | _ => (false, s) end in
  match read_digits body with
  | Some n =>
      let z := if neg then Z.opp (Z.of_N n) else Z.of_N n in
      if ((isize_min <=? z) && (z <=? isize_max))%Z then Some z else None
  | None => None
  end.
