(* Base/Str.v -- characters (Unicode scalar values as N), strings (lists of characters) and
   the small list/string toolkit shared by every model.  Definitions only plus elementary lemmas. *)
From Coq Require Export List NArith ZArith Bool Lia.
Export ListNotations.
Open Scope N_scope.

Arguments N.add : simpl never.
Arguments N.sub : simpl never.
Arguments N.mul : simpl never.
Arguments N.eqb : simpl never.
Arguments N.ltb : simpl never.
Arguments N.leb : simpl never.
Arguments N.compare : simpl never.

Definition char := N.
Definition str := list N.

Fixpoint str_eqb (a b : str) : bool :=
  match a, b with
  | [], [] => true
  | x :: a', y :: b' => N.eqb x y && str_eqb a' b'
  | _, _ => false
  end.

Lemma str_eqb_spec a b : reflect (a = b) (str_eqb a b).
Proof.
  revert b; induction a as [|x a IH]; intros [|y b]; cbn [str_eqb]; try (constructor; congruence).
  destruct (N.eqb_spec x y) as [->|Hne]; cbn [andb].
  - destruct (IH b) as [->|Hne]; constructor; congruence.
  - constructor; congruence.
Qed.

Lemma str_eqb_refl a : str_eqb a a = true.
Proof. destruct (str_eqb_spec a a); congruence. Qed.

Lemma str_eqb_eq a b : str_eqb a b = true <-> a = b.
Proof. destruct (str_eqb_spec a b); split; congruence. Qed.

(* [starts p s]: p is a prefix of s  (Rust: s.starts_with(p)) *)
Fixpoint starts (p s : str) : bool :=
  match p, s with
  | [], _ => true
  | x :: p', y :: s' => N.eqb x y && starts p' s'
  | _ :: _, [] => false
  end.

Lemma starts_app p r : starts p (p ++ r) = true.
Proof. induction p as [|x p IH]; cbn [starts app]; [reflexivity|]. now rewrite N.eqb_refl, IH. Qed.

Lemma starts_spec p s : starts p s = true <-> exists r, s = p ++ r.
Proof.
  revert s; induction p as [|x p IH]; intros s; cbn [starts].
  - split; [intros _; now exists s | reflexivity].
  - destruct s as [|y s]; [split; [discriminate | intros [r Hr]; discriminate]|].
    rewrite andb_true_iff, N.eqb_eq, IH. split.
    + intros [-> [r ->]]. now exists r.
    + intros [r Hr]. cbn [app] in Hr. injection Hr as -> ->. split; [reflexivity | now exists r].
Qed.

Lemma starts_length p s : starts p s = true -> (length p <= length s)%nat.
Proof. intros H; apply starts_spec in H as [r ->]. rewrite app_length; lia. Qed.

(* [ends p s]: p is a suffix of s *)
Definition ends (p s : str) : bool := starts (rev p) (rev s).

Lemma ends_spec p s : ends p s = true <-> exists r, s = r ++ p.
Proof.
  unfold ends. rewrite starts_spec. split; intros [r Hr].
  - exists (rev r). apply (f_equal (@rev N)) in Hr. rewrite rev_involutive, rev_app_distr, rev_involutive in Hr. exact Hr.
  - exists (rev r). subst s. now rewrite rev_app_distr.
Qed.

Fixpoint drop {A} (n : nat) (l : list A) : list A :=
  match n, l with
  | O, _ => l
  | S n', [] => []
  | S n', _ :: l' => drop n' l'
  end.

Lemma drop_app_length {A} (p r : list A) : drop (length p) (p ++ r) = r.
Proof. induction p; cbn; auto. Qed.

Lemma drop_length_le {A} n (l : list A) : (length (drop n l) <= length l)%nat.
Proof. revert l; induction n as [|n IHn]; intros [|x l]; cbn [drop length]; auto; try (specialize (IHn l); lia). Qed.

Lemma drop_length {A} n (l : list A) : length (drop n l) = (length l - n)%nat.
Proof. revert l; induction n as [|n IHn]; intros [|x l]; cbn [drop length]; auto; try lia. apply IHn. Qed.

Lemma drop_nil {A} n : @drop A n [] = [].
Proof. destruct n; reflexivity. Qed.

Fixpoint take {A} (n : nat) (l : list A) : list A :=
  match n, l with
  | O, _ => []
  | S n', [] => []
  | S n', x :: l' => x :: take n' l'
  end.

Lemma take_drop {A} n (l : list A) : take n l ++ drop n l = l.
Proof. revert l; induction n as [|n IHn]; intros [|x l]; cbn [take drop app]; auto. now rewrite IHn. Qed.

Lemma take_length {A} n (l : list A) : length (take n l) = Nat.min n (length l).
Proof. revert l; induction n as [|n IHn]; intros [|x l]; cbn [take length Nat.min]; auto. Qed.

Definition nlen {A} (l : list A) : N := N.of_nat (length l).

Fixpoint memb (c : N) (l : list N) : bool :=
  match l with [] => false | x :: l' => N.eqb c x || memb c l' end.

Lemma memb_In c l : memb c l = true <-> In c l.
Proof.
  induction l as [|x l IH]; cbn [memb In]; [split; [discriminate|tauto]|].
  rewrite orb_true_iff, N.eqb_eq, IH. split; intros [H|H]; auto.
Qed.

(* option / result helpers *)
Definition obind {A B} (o : option A) (f : A -> option B) : option B :=
  match o with Some a => f a | None => None end.

(* lexicographic comparison of strings by code point (= Rust String::cmp, since UTF-8 preserves order) *)
Fixpoint str_cmp (a b : str) : comparison :=
  match a, b with
  | [], [] => Eq
  | [], _ :: _ => Lt
  | _ :: _, [] => Gt
  | x :: a', y :: b' => match N.compare x y with Eq => str_cmp a' b' | c => c end
  end.

(* ASCII classes *)
Definition is_ascii_digit (c : N) : bool := (48 <=? c) && (c <=? 57).
Definition digit_val (c : N) : N := c - 48.
