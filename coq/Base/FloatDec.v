(* Base/FloatDec.v -- executable instances of the float oracles of the parser/formatter models.
   fread_dec re-implements `str::parse::<f64>()` for buffers of ASCII digits and dots (all the
   enum parser ever passes): the decimal rational m / 10^k is rounded to nearest-even binary64 with
   Flocq's binary_normalize after an exact integer division with a sticky bit (>= 64 quotient bits).
   It is differentially checked against Rust on every run (correspondence stream `floats`).
   fshow is an oracle table written by the harness (Rust's shortest round-trip Display is not
   re-implemented). *)
From Coq Require Import ZArith List Bool.
From Flocq Require Import IEEE754.Binary IEEE754.Bits Core.
From Nv Require Import Base.Str.
Import ListNotations.

Definition dec_to_bits (m : N) (k : nat) : Z :=
  if (m =? 0)%N then 0%Z
  else
    let mz := Z.of_N m in
    let d := (10 ^ Z.of_nat k)%Z in
    let s := Z.max 0 (66 + Z.log2 d - Z.log2 mz)%Z in
    let num := (mz * 2 ^ s)%Z in
    let q := (num / d)%Z in
    let r := (num mod d)%Z in
    let m' := (2 * q + (if (r =? 0)%Z then 0 else 1))%Z in
    bits_of_b64 (binary_normalize 53 1024 (eq_refl _) (eq_refl _) BinarySingleNaN.mode_NE m' (- s - 1)%Z false).

(* (mantissa digits as a number, digits after the dot, total digits); None on a second dot / foreign char *)
Fixpoint dec_scan (s : str) (seen_dot : bool) (m : N) (k nd : nat) : option (N * nat * nat) :=
  match s with
  | [] => Some (m, k, nd)
  | c :: r =>
      if (c =? 46)%N then (if seen_dot then None else dec_scan r true m k nd)
      else if is_ascii_digit c then
        dec_scan r seen_dot (10 * m + digit_val c)%N (if seen_dot then S k else k) (S nd)
      else None
  end.

Definition fread_dec (buf : str) : option Z :=
  match dec_scan buf false 0%N O O with
  | Some (m, k, nd) => match nd with O => None | _ => Some (dec_to_bits m k) end
  | None => None
  end.

(* oracle table for f64::to_string *)
Fixpoint fshow_tab (table : list (Z * str)) (bits : Z) : str :=
  match table with
  | [] => [63; 63]%N (* "??": a float the harness did not announce; shows up as a mismatch *)
  | (b, s) :: rest => if (b =? bits)%Z then s else fshow_tab rest bits
  end.

(* range tables (Gen/Unicode.v is dumped from Rust's std by the harness) *)
Fixpoint in_ranges (ranges : list (N * N)) (c : N) : bool :=
  match ranges with
  | [] => false
  | (lo, hi) :: rest => ((lo <=? c)%N && (c <=? hi)%N) || in_ranges rest c
  end.
