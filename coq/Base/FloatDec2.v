(* Base/FloatDec2.v -- `str::parse::<f64>()` on ARBITRARY strings (core::num::dec2flt), as the
   lexical fold calls it on truth / budget entries (try_fold_float_vec).  Extends Base/FloatDec.v
   (digits and dots only) by: one optional sign, an optional exponent `[eE][+-]?digits`, and the
   special values inf / infinity / nan (ASCII case-insensitive, whole remaining string).
   Grammar of dec2flt::parse::parse_number:  digits* ('.' digits* )?  with at least one digit in
   total, then optionally  [eE] [+-]? digit+ ; anything left over is an error.  The decimal value
   m * 10^e is rounded to nearest-even binary64 by FloatDec.dec_to_bits (Flocq); results are raw
   IEEE-754 bit patterns.  Differentially checked against Rust on every run (stream `floats2`). *)
From Coq Require Import ZArith List Bool.
From Nv Require Import Base.Str Base.FloatDec.
Import ListNotations.

Open Scope N_scope.

(* greedy run of ASCII digits: (accumulated value, number of digits, rest) *)
Fixpoint scan_digits (s : str) (m : N) (n : nat) : N * nat * str :=
  match s with
  | c :: r => if is_ascii_digit c then scan_digits r (10 * m + digit_val c) (S n) else (m, n, s)
  | [] => (m, n, [])
  end.

(* exponent digits; dec2flt stops accumulating once the value reaches 0x10000 (it saturates) *)
Fixpoint scan_exp (s : str) (e : N) (n : nat) : N * nat * str :=
  match s with
  | c :: r =>
      if is_ascii_digit c then scan_exp r (if e <? 65536 then 10 * e + digit_val c else e) (S n)
      else (e, n, s)
  | [] => (e, n, [])
  end.

(* parse_number on the text after the sign: Some (mantissa, total digit count, decimal exponent) *)
Definition parse_number (s : str) : option (N * nat * Z) :=
  let '(m1, n1, s1) := scan_digits s 0 O in
  let '(m2, n2, s2) := match s1 with 46 :: r => scan_digits r m1 O | _ => (m1, O, s1) end in
  match (n1 + n2)%nat with
  | O => None
  | nd =>
      match s2 with
      | [] => Some (m2, nd, (- Z.of_nat n2)%Z)
      | c :: r =>
          if (c =? 101) || (c =? 69) then
            let '(neg, r') := match r with 45 :: r' => (true, r') | 43 :: r' => (false, r') | _ => (false, r) end in
            let '(e, ne, rest) := scan_exp r' 0 O in
            match ne, rest with
            | S _, [] => Some (m2, nd, ((if neg then - Z.of_N e else Z.of_N e) - Z.of_nat n2)%Z)
            | _, _ => None
            end
          else None
      end
  end.

Definition ascii_lower (c : N) : N := if (65 <=? c) && (c <=? 90) then c + 32 else c.

Definition bits_inf : Z := 0x7FF0000000000000%Z.
Definition bits_nan : Z := 0x7FF8000000000000%Z.
Definition sign_bit : Z := 0x8000000000000000%Z.

(* parse_inf_nan: the whole remaining text is inf / infinity / nan, ASCII case-insensitively *)
Definition parse_inf_nan (s : str) : option Z :=
  let l := map ascii_lower s in
  if str_eqb l [105; 110; 102] then Some bits_inf
  else if str_eqb l [105; 110; 102; 105; 110; 105; 116; 121] then Some bits_inf
  else if str_eqb l [110; 97; 110] then Some bits_nan
  else None.

(* magnitude bits of m * 10^e (m has at most nd decimal digits).  The two guards only bound the
   cost of the exact computation: beyond them the correctly rounded result is infinity resp. zero
   (largest finite binary64 < 1.8e308, half the smallest subnormal > 2.4e-324). *)
Definition mag_bits (m : N) (nd : nat) (e : Z) : Z :=
  if m =? 0 then 0%Z
  else if (400 <? e)%Z then bits_inf
  else if (e + Z.of_nat nd <? -400)%Z then 0%Z
  else if (0 <=? e)%Z then dec_to_bits (m * 10 ^ Z.to_N e) O
  else dec_to_bits m (Z.to_nat (- e)).

Definition fread_full (s : str) : option Z :=
  match s with
  | [] => None
  | c :: r =>
      let neg := c =? 45 in
      let body := if neg || (c =? 43) then r else s in
      match body with
      | [] => None
      | _ =>
          let sg (z : Z) : Z := if neg then (z + sign_bit)%Z else z in
          match parse_number body with
          | Some (m, nd, e) => Some (sg (mag_bits m nd e))
          | None => option_map sg (parse_inf_nan body)
          end
      end
  end.
