(* Props/C04.v -- the enum parser model is total.  Statements only; proofs in Proofs/EnumTotalP.v.
   F, fread, fzero, in01, is_alnum are the float type, f64::from_str, 0.0, the range test and
   char::is_alphanumeric: the theorems hold for EVERY instance of them, for every format record
   satisfying the boolean side-condition total_ok (true of the three shipped, regenerated tables),
   and for EVERY input string -- no bound on size or nesting.  "total" = Ok or Err: no panic branch
   of the model (index out of range, slice with start > end, unwrap of None, validate_01) is
   reachable and no loop or recursion runs out of its fuel (= the Rust loops terminate). *)
From Nv Require Import Model.EnumOk Proofs.EnumTotalP.

Theorem C04_shipped_side_conditions : forallb total_ok shipped_formats = true /\ state_facts_ok = true.
Proof. exact shipped_total_ok. Qed.
Print Assumptions C04_shipped_side_conditions.

Theorem C04_parse_total :
  forall (F : Type) (fread : str -> option F) (fzero : F) (in01 : F -> bool) (is_alnum : N -> bool) (E : efmt),
    total_ok E = true -> state_facts_ok = true ->
    forall input : str, is_total (parse_narsese F fread fzero in01 is_alnum E input) = true.
Proof. exact parse_narsese_total. Qed.
Print Assumptions C04_parse_total.

(* parse_multi: the whole call returns (Some), with exactly one outcome per input, from any prior state *)
Theorem C04_parse_multi_total :
  forall (F : Type) (fread : str -> option F) (fzero : F) (in01 : F -> bool) (is_alnum : N -> bool) (E : efmt),
    total_ok E = true -> state_facts_ok = true ->
    forall (inputs : list str) (st : pstate F),
      parse_multi_from F fread fzero in01 is_alnum E st inputs <> None /\
      (forall l, parse_multi_from F fread fzero in01 is_alnum E st inputs = Some l -> length l = length inputs).
Proof. exact parse_multi_total. Qed.
Print Assumptions C04_parse_multi_total.

Theorem C04_truth_door_total :
  forall (F : Type) (fread : str -> option F) (fzero : F) (in01 : F -> bool) (E : efmt),
    total_ok E = true -> state_facts_ok = true ->
    forall input : str, is_total (door_truth F fread fzero in01 E input) = true.
Proof. exact door_truth_total. Qed.
Print Assumptions C04_truth_door_total.

Theorem C04_budget_door_total :
  forall (F : Type) (fread : str -> option F) (fzero : F) (in01 : F -> bool) (E : efmt),
    total_ok E = true -> state_facts_ok = true ->
    forall input : str, is_total (door_budget F fread fzero in01 E input) = true.
Proof. exact door_budget_total. Qed.
Print Assumptions C04_budget_door_total.

Theorem C04_stamp_door_total :
  forall (F : Type) (fzero : F) (in01 : F -> bool) (E : efmt), total_ok E = true -> state_facts_ok = true ->
    forall input : str, is_total (door_stamp F E input) = true.
Proof. exact door_stamp_total. Qed.
Print Assumptions C04_stamp_door_total.

Theorem C04_punctuation_door_total :
  forall (F : Type) (fzero : F) (in01 : F -> bool) (E : efmt), total_ok E = true -> state_facts_ok = true ->
    forall input : str, is_total (door_punctuation F E input) = true.
Proof. exact door_punctuation_total. Qed.
Print Assumptions C04_punctuation_door_total.

(* the error value can always be built and displayed: the +-4 character window around the (clamped)
   cursor satisfies left <= right <= len for EVERY state, also when the cursor has overrun the input *)
Theorem C04_error_window_ok :
  forall (F : Type), state_facts_ok = true -> forall st : pstate F, err_window_ok F st = true.
Proof. exact err_window_ok_true. Qed.
Print Assumptions C04_error_window_ok.

(* instantiated at the three shipped formats *)
Theorem C04_shipped_total :
  forall (F : Type) (fread : str -> option F) (fzero : F) (in01 : F -> bool) (is_alnum : N -> bool) (E : efmt),
    shipped E -> forall input : str,
      is_total (parse_narsese F fread fzero in01 is_alnum E input) = true /\
      is_total (door_truth F fread fzero in01 E input) = true /\
      is_total (door_budget F fread fzero in01 E input) = true /\
      is_total (door_stamp F E input) = true /\
      is_total (door_punctuation F E input) = true.
Proof. exact shipped_total. Qed.
Print Assumptions C04_shipped_total.

(* non-vacuity: the side-condition is satisfiable and the parser does return values *)
Example ex_C04_nonvacuous :
  total_ok FORMAT_ASCII = true /\ shipped FORMAT_HAN /\
  exists v st, parse_narsese nat (fun _ => Some O) O (fun _ => true) (fun c => (97 <=? c) && (c <=? 122)) FORMAT_ASCII
                 [60; 97; 32; 45; 45; 62; 32; 98; 62; 46]%N = POk v st.
Proof. split; [vm_compute; reflexivity|]. split; [right; right; left; reflexivity|]. vm_compute. eexists; eexists; reflexivity. Qed.
