(* Props/C17.v -- term mutators change exactly what they say, or fail and change nothing.
   Statements only; proofs in Proofs/MutateP.v (integer parsing: Proofs/DecP.v).
   [mutate_tables_ok] is defined in Proofs/MutateP.v, [dec_val] (Horner value of a digit string) in Proofs/DecP.v. *)
From Nv Require Import Base.Str Base.Dec Model.Term Model.EqHash Model.Access Model.Mutate.
From Nv Require Import Proofs.DecP Proofs.AccessP Proofs.MutateP.

Theorem C17_tables : mutate_tables_ok = true.
Proof. exact mutate_tables_ok_true. Qed.
Print Assumptions C17_tables.

Theorem C17_set_name_named : forall c n new,
  set_atom_name (TName c n) new = (true, TName c new) /\ get_atom_name (TName c new) = ROk (Some new).
Proof. exact set_name_named. Qed.
Print Assumptions C17_set_name_named.

Theorem C17_set_name_interval : forall c i new,
  set_atom_name (TNum c i) new =
  match read_usize new with Some v => (true, TNum c v) | None => (false, TNum c i) end.
Proof. exact set_name_interval. Qed.
Print Assumptions C17_set_name_interval.

Theorem C17_set_name_interval_spec :
  (forall c i new v,
     set_atom_name (TNum c i) new = (true, TNum c v) <->
     exists body, (new = body \/ new = 43 :: body) /\ body <> [] /\
                  Forall (fun ch => is_ascii_digit ch = true) body /\
                  read_digits body = Some v /\ v = dec_val body /\ (v <= usize_max)%N) /\
  (forall c i new,
     fst (set_atom_name (TNum c i) new) = true <->
     exists body, (new = body \/ new = 43 :: body) /\ body <> [] /\
                  Forall (fun ch => is_ascii_digit ch = true) body /\ (dec_val body <= usize_max)%N) /\
  (forall c i new, fst (set_atom_name (TNum c i) new) = false -> set_atom_name (TNum c i) new = (false, TNum c i)) /\
  (forall c i v, (v <= usize_max)%N ->
     set_atom_name (TNum c i) (show_N v) = (true, TNum c v) /\
     set_atom_name (TNum c i) (43 :: show_N v) = (true, TNum c v) /\
     get_atom_name (TNum c v) = ROk (Some (show_N v))).
Proof. exact set_name_interval_spec. Qed.
Print Assumptions C17_set_name_interval_spec.

Theorem C17_set_name_placeholder : forall c new, set_atom_name (TUnit c) new = (true, TUnit c).
Proof. exact set_name_placeholder. Qed.
Print Assumptions C17_set_name_placeholder.

Theorem C17_set_name_other : forall t new, is_atom t = false -> set_atom_name t new = (false, t).
Proof. exact set_name_other. Qed.
Print Assumptions C17_set_name_other.

Theorem C17_set_name_err_unchanged : forall t new b t',
  set_atom_name t new = (b, t') -> b = false -> t' = t.
Proof. exact set_name_err_unchanged. Qed.
Print Assumptions C17_set_name_err_unchanged.

Theorem C17_get_atom_name : forall t,
  get_atom_name t =
  match t with
  | TName _ n => ROk (Some n)
  | TUnit _ => ROk (Some [])
  | TNum _ i => ROk (Some (show_N i))
  | _ => ROk None
  end.
Proof. exact get_atom_name_eq. Qed.
Print Assumptions C17_get_atom_name.

Theorem C17_push_vec : forall c l news, push_components (TVec c l) news = (true, TVec c (l ++ news)).
Proof. exact push_vec. Qed.
Print Assumptions C17_push_vec.

Theorem C17_push_img : forall c i l news, push_components (TImg c i l) news = (true, TImg c i (l ++ news)).
Proof. exact push_img. Qed.
Print Assumptions C17_push_img.

Theorem C17_push_set : forall c l news, push_components (TSet c l) news = (true, TSet c (set_extend l news)).
Proof. exact push_set. Qed.
Print Assumptions C17_push_set.

(* membership after a push on a set: exactly the old and the new members (up to term_eqb);
   unconditional -- transitivity of term_eqb is proved in Proofs/MutateP.v for every content of the eqk tables *)
Theorem C17_push_set_members : forall l news x,
  set_mem x (set_extend l news) = set_mem x l || set_mem x news.
Proof. exact push_set_members_full. Qed.
Print Assumptions C17_push_set_members.

(* structure: old elements are kept, in order, as a prefix; what follows comes from the new list *)
Theorem C17_push_set_prefix : forall l news,
  (exists suffix, set_extend l news = l ++ suffix /\ (forall y, In y suffix -> In y news)) /\
  (forall x, In x l -> In x (set_extend l news)) /\
  (forall x, set_mem x l = true -> set_mem x (set_extend l news) = true) /\
  (forall x, In x news -> term_eqb x x = true -> set_mem x (set_extend l news) = true) /\
  (forall x, set_mem x (set_extend l news) = true -> set_mem x l = true \/ set_mem x news = true).
Proof. exact push_set_members. Qed.
Print Assumptions C17_push_set_prefix.

Theorem C17_push_set_mk_set : forall l news, mk_set (l ++ news) = set_extend (mk_set l) news.
Proof. exact push_set_mk_set. Qed.
Print Assumptions C17_push_set_mk_set.

Theorem C17_push_fixed : forall t news,
  (match t with TVec _ _ | TImg _ _ _ | TSet _ _ => False | _ => True end) ->
  push_components t news = (false, t).
Proof. exact push_fixed. Qed.
Print Assumptions C17_push_fixed.

Theorem C17_push_fixed_capacity : forall t news,
  fst (push_components t news) = false <-> (capacity_of t <> CapVec /\ capacity_of t <> CapSet).
Proof. exact push_fixed_capacity. Qed.
Print Assumptions C17_push_fixed_capacity.

Theorem C17_push_err_unchanged : forall t news b t',
  push_components t news = (b, t') -> b = false -> t' = t.
Proof. exact push_err_unchanged. Qed.
Print Assumptions C17_push_err_unchanged.
