(* Props/C05.v -- C05, parser half: the lexical parser is total.
   For EVERY input string (no bound on size or nesting) and every lexical format whose regenerated
   table satisfies the boolean obligation [lex_total_ok] -- in particular the three shipped formats --
   the model of `impl_lexical::parse` and of `parse_term` returns LOk or LErr: never LPanic (an
   out-of-range slice or a usize underflow of the Rust code) and never LFuel (nesting fuel
   `S (length input)`; any larger fuel does as well).
   [lex_total_ok] = the source still has the length guard in `slice_starts_with_str` (T2 fact)
   /\ the left brackets of sets, compounds and statements are non-empty (progress)
   /\ the last character of the budget's closing bracket is not a character of any suffix item
      (truth / stamp brackets and content classes, punctuations): no suffix item reaches into the
      budget, so `&env[begin_index..right_border]` in parse_items is in range.
   The folding half of C05 (lexical value -> enum Narsese) is stated elsewhere. *)
From Nv Require Import Model.LexParser Proofs.LexPTotal Proofs.LexPItems.
Import ListNotations.

Theorem C05_lex_parse_total : forall (is_alnum : N -> bool) (F : lfmt) (input : str),
  lex_total_ok F = true ->
  lex_parse is_alnum F input <> LPanic /\ lex_parse is_alnum F input <> LFuel.
Proof. exact lex_parse_total. Qed.
Print Assumptions C05_lex_parse_total.

Theorem C05_lex_parse_term_total : forall (is_alnum : N -> bool) (F : lfmt) (input : str),
  lex_total_ok F = true ->
  lex_parse_term is_alnum F input <> LPanic /\ lex_parse_term is_alnum F input <> LFuel.
Proof. exact lex_parse_term_total. Qed.
Print Assumptions C05_lex_parse_term_total.

(* any fuel above the input length *)
Theorem C05_lex_parse_fuel_total : forall (is_alnum : N -> bool) (F : lfmt) (fuel : nat) (input : str),
  lex_total_ok F = true -> (length input < fuel)%nat ->
  lex_parse_fuel (compile F) is_alnum fuel input <> LPanic /\
  lex_parse_fuel (compile F) is_alnum fuel input <> LFuel.
Proof. exact lex_parse_fuel_total. Qed.
Print Assumptions C05_lex_parse_fuel_total.

Theorem C05_lex_parse_term_fuel_total : forall (is_alnum : N -> bool) (F : lfmt) (fuel : nat) (input : str),
  lex_total_ok F = true -> (length input < fuel)%nat ->
  lex_parse_term_fuel (compile F) is_alnum fuel input <> LPanic /\
  lex_parse_term_fuel (compile F) is_alnum fuel input <> LFuel.
Proof. exact lex_parse_term_fuel_total. Qed.
Print Assumptions C05_lex_parse_term_fuel_total.

(* table obligation, re-computed on the regenerated tables *)
Theorem C05_shipped_tables_ok : forallb lex_total_ok shipped_lex_formats = true.
Proof. exact shipped_lex_total_ok. Qed.
Print Assumptions C05_shipped_tables_ok.

Theorem C05_lex_parse_total_shipped : forall (is_alnum : N -> bool) (F : lfmt) (input : str),
  In F shipped_lex_formats ->
  lex_parse is_alnum F input <> LPanic /\ lex_parse is_alnum F input <> LFuel.
Proof. exact lex_parse_total_shipped. Qed.
Print Assumptions C05_lex_parse_total_shipped.

Theorem C05_lex_parse_term_total_shipped : forall (is_alnum : N -> bool) (F : lfmt) (input : str),
  In F shipped_lex_formats ->
  lex_parse_term is_alnum F input <> LPanic /\ lex_parse_term is_alnum F input <> LFuel.
Proof. exact lex_parse_term_total_shipped. Qed.
Print Assumptions C05_lex_parse_term_total_shipped.

(* the table obligation is not vacuous: a format whose budget and truth brackets coincide makes
   the model (and the real parser, see the harness stream `custom-format`) take `&env[3..0]` *)
Theorem C05_table_obligation_needed :
  exists (F : lfmt) (input : str), lex_total_ok F = false /\ lex_parse (fun _ => false) F input = LPanic.
Proof. exact lex_total_table_needed. Qed.
Print Assumptions C05_table_obligation_needed.
