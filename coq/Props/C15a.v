(* Props/C15a.v -- the Narsese value wrapper: wrap/unwrap and cast laws, for arbitrary payload types.
   Statements only; proofs in Proofs/AccessP.v ([is_some] is defined there). *)
From Nv Require Import Base.Str Model.Access.
From Nv Require Import Proofs.AccessP.

Theorem C15_wrap_unwrap : forall (T S K : Type) (t : T) (s : S) (k : K),
  (try_into_term (NTerm t : nvalue T S K) = Some t /\
   try_into_sentence (NTerm t : nvalue T S K) = None /\
   try_into_task (NTerm t : nvalue T S K) = None) /\
  (try_into_term (NSentence s : nvalue T S K) = None /\
   try_into_sentence (NSentence s : nvalue T S K) = Some s /\
   try_into_task (NSentence s : nvalue T S K) = None) /\
  (try_into_term (NTask k : nvalue T S K) = None /\
   try_into_sentence (NTask k : nvalue T S K) = None /\
   try_into_task (NTask k : nvalue T S K) = Some k) /\
  (forall v : nvalue T S K,
     nv_is_term v = is_some (try_into_term v) /\
     nv_is_sentence v = is_some (try_into_sentence v) /\
     nv_is_task v = is_some (try_into_task v) /\
     ((nv_is_term v = true /\ nv_is_sentence v = false /\ nv_is_task v = false) \/
      (nv_is_term v = false /\ nv_is_sentence v = true /\ nv_is_task v = false) \/
      (nv_is_term v = false /\ nv_is_sentence v = false /\ nv_is_task v = true))).
Proof. exact nv_wrap_unwrap. Qed.
Print Assumptions C15_wrap_unwrap.

Theorem C15_unwrap_iff : forall (T S K : Type) (v : nvalue T S K),
  (forall t, try_into_term v = Some t <-> v = NTerm t) /\
  (forall s, try_into_sentence v = Some s <-> v = NSentence s) /\
  (forall k, try_into_task v = Some k <-> v = NTask k).
Proof. exact nv_unwrap_iff. Qed.
Print Assumptions C15_unwrap_iff.

Theorem C15_task_compatible : forall (T S K : Type) (cast : S -> K) (v : nvalue T S K),
  try_into_task_compatible cast v =
  match v with NTask k => Some k | NSentence s => Some (cast s) | NTerm _ => None end.
Proof. exact nv_task_compatible. Qed.
Print Assumptions C15_task_compatible.

Theorem C15_task_compatible_cor : forall (T S K : Type) (cast : S -> K) (v : nvalue T S K),
  (try_into_task_compatible cast v = None <-> nv_is_term v = true) /\
  (forall k, try_into_task v = Some k -> try_into_task_compatible cast v = Some k) /\
  (forall s, try_into_sentence v = Some s -> try_into_task_compatible cast v = Some (cast s)).
Proof. exact nv_task_compatible_cor. Qed.
Print Assumptions C15_task_compatible_cor.

Theorem C15_value_cast : forall (T S K : Type) (tc : K -> S + K) (v : nvalue T S K),
  nv_try_cast_to_sentence tc v =
    match v with
    | NTerm t => inr (NTerm t)
    | NSentence s => inl (NSentence s)
    | NTask k => match tc k with inl s => inl (NSentence s) | inr k' => inr (NTask k') end
    end /\
  (forall r, nv_try_cast_to_sentence tc v = inl r ->
     nv_is_sentence r = true /\
     ((exists s, v = NSentence s /\ r = v) \/ (exists k s, v = NTask k /\ tc k = inl s /\ r = NSentence s))) /\
  (forall r, nv_try_cast_to_sentence tc v = inr r ->
     ((exists t, v = NTerm t /\ r = v) \/ (exists k k', v = NTask k /\ tc k = inr k' /\ r = NTask k')) /\
     nv_is_term r = nv_is_term v /\ nv_is_sentence r = nv_is_sentence v /\ nv_is_task r = nv_is_task v /\
     ((forall k k', tc k = inr k' -> k' = k) -> r = v)).
Proof. exact nv_value_cast. Qed.
Print Assumptions C15_value_cast.

Theorem C15_cast_roundtrip : forall (T S K : Type) (cast : S -> K) (tc : K -> S + K),
  (forall s, tc (cast s) = inl s) ->
  forall (s : S),
    nv_try_cast_to_sentence tc (NTask (cast s) : nvalue T S K) = inl (NSentence s) /\
    (forall k, try_into_task_compatible cast (NSentence s : nvalue T S K) = Some k ->
               nv_try_cast_to_sentence tc (NTask k : nvalue T S K) = inl (NSentence s)).
Proof. exact nv_cast_roundtrip. Qed.
Print Assumptions C15_cast_roundtrip.
