(* Props/C09c.v -- C09 (whitespace between tokens never changes what is parsed), TERM level, with the name
   condition [unamb] of Props/C09.v DISCHARGED for the ASCII and LaTeX formats.  Statements only; proofs in
   Proofs/EnumUnambP.v (on top of Proofs/EnumTermP.v / EnumTermCor.v).

     * C09c_tree_any_spacing : every surface tree whose ATOMS are well-formed (named atoms satisfy the
       property's condition on names name_ok, the placeholder is its bare prefix, intervals are digit
       strings, statement arms exist -- satoms_ok, spelled out in Props/C01c.v; it does not look at the
       spacing annotations: C09c_atoms_ignore_spacing), with ANY number of spaces at every token boundary,
       followed by any text k at which the name scan stops (empty, or starting with a space / separator /
       right bracket / copula, or a non-name character), is parsed by the enum term parser to its documented
       meaning, the cursor stopping exactly at the end of the tree's text;
     * C09c_formatted_any_spacing : in particular the formatter's output for a well-formed term, re-spaced
       arbitrarily (same_shape s (sst E t)), parses to the term;
     * C09c_formatted_respaced : instance: n spaces at every token boundary, n = 0 included (`<a-->b>`:
       the name condition "no name ends with `-`" of the property is what makes this true in ASCII).
   `ia` is any oracle for char::is_alphanumeric with the 24 facts alnum_facts (Rust's table has them:
   Props/C01c.v C01c_alnum_facts_std).  Han is not covered here and cannot be: Props/C09.v ex_C09_han_same_text.
   NOT COVERED HERE: sentence level, the lexical pipeline, Unicode whitespace; the correspondence of the model
   with the Rust parser on re-spaced inputs is the differential check of ./check C09. *)
From Nv Require Import Model.SstOf Model.SstOk Proofs.EnumTotalP Proofs.EnumFmtP Proofs.EnumTermP Proofs.EnumTermCor
  Proofs.EnumUnambP.

Theorem C09c_atoms_ignore_spacing : forall (ia : N -> bool) (E : efmt) (s1 s2 : sterm),
  same_shape s1 s2 -> satoms_ok ia E s1 = satoms_ok ia E s2.
Proof. exact satoms_ok_shape. Qed.
Print Assumptions C09c_atoms_ignore_spacing.

Theorem C09c_tree_any_spacing : forall (ia : N -> bool) (E : efmt), alnum_facts ia = true ->
  E = FORMAT_ASCII \/ E = FORMAT_LATEX ->
  forall (F : Type) (s : sterm) (v : term) (k : str) (L : nat) (st : pstate F),
    odesugar s = Some v -> satoms_ok ia E s = true -> stop_ok ia E k = true ->
    wf F L st -> s_rest st = render E s ++ k ->
    parse_term F ia E st = POk v (step F (length (render E s)) st).
Proof. exact tree_parses_plain. Qed.
Print Assumptions C09c_tree_any_spacing.

(* format-generic form: any record passing the two finite table checks *)
Theorem C09c_tree_any_spacing_generic : forall (ia : N -> bool) (E : efmt),
  parse_ok E = true -> unamb_fmt_ok ia E = true ->
  forall (F : Type) (s : sterm) (v : term) (k : str) (L : nat) (st : pstate F),
    odesugar s = Some v -> satoms_ok ia E s = true -> stop_ok ia E k = true ->
    wf F L st -> s_rest st = render E s ++ k ->
    parse_term F ia E st = POk v (step F (length (render E s)) st).
Proof. exact tree_parses. Qed.
Print Assumptions C09c_tree_any_spacing_generic.

Theorem C09c_formatted_any_spacing : forall (ia : N -> bool) (E : efmt), alnum_facts ia = true ->
  E = FORMAT_ASCII \/ E = FORMAT_LATEX ->
  forall (F : Type) (t : term) (s : sterm) (k : str) (L : nat) (st : pstate F),
    wf_term ia E t = true -> same_shape s (sst E t) -> stop_ok ia E k = true ->
    wf F L st -> s_rest st = render E s ++ k ->
    parse_term F ia E st = POk t (step F (length (render E s)) st).
Proof. exact C09_term_plain. Qed.
Print Assumptions C09c_formatted_any_spacing.

Theorem C09c_formatted_respaced : forall (ia : N -> bool) (E : efmt), alnum_facts ia = true ->
  E = FORMAT_ASCII \/ E = FORMAT_LATEX ->
  forall (F : Type) (n : nat) (t : term), wf_term ia E t = true ->
    parse_term F ia E (new_state F (render E (respace n (sst E t)))) =
    POk t (step F (length (render E (respace n (sst E t)))) (new_state F (render E (respace n (sst E t))))).
Proof. exact C09_respaced_plain. Qed.
Print Assumptions C09c_formatted_respaced.

(* the canonical tree with its own spacing is the formatter's output *)
Theorem C09c_canonical_is_formatted : forall (ia : N -> bool) (E : efmt),
  fmt_space_ok E = true -> arms_cover E = true ->
  forall t : term, wf_term ia E t = true -> fmt_term E t = render E (sst E t).
Proof. exact sst_renders. Qed.
Print Assumptions C09c_canonical_is_formatted.

(* non-vacuity and a concrete reading: <a-b --> c> written without any space, ASCII *)
Example ex_C09c_nospace :
  let t := TBox2 Inheritance (TName Word [97; 45; 98]%N) (TName Word [99]%N) in
  wf_term is_alnum_std FORMAT_ASCII t = true /\
  render FORMAT_ASCII (respace 0 (sst FORMAT_ASCII t)) = [60; 97; 45; 98; 45; 45; 62; 99; 62]%N /\   (* <a-b-->c> *)
  render FORMAT_ASCII (respace 2 (sst FORMAT_ASCII t)) =
    [60; 32; 32; 97; 45; 98; 32; 32; 45; 45; 62; 32; 32; 99; 32; 32; 62]%N.
Proof. exact ex_nospace. Qed.
