(* Props/C05F.v -- C05, fold half: folding ANY lexical value into enum Narsese returns Ok or Err, never
   panics -- together with the fold halves of C12 (every Ok value is well-formed) and C14 (the category of
   a lexical term is the category of the term it folds to).  Statements only; proofs in Proofs/FoldP.v.
   Model: Model/Fold.v (results FOk v | FErr | FPanic, every panicking Rust operation explicit); the arm
   tables come from the regenerated Gen/FoldArms.v.

   The lexical-PARSER half of C05 (impl_lexical/parser.rs) is not in this file. *)
From Nv Require Import Base.Str Model.Term Model.Access Model.Sentence Model.EnumFormat Model.EnumParser Model.Fold.
From Nv Require Import Proofs.FoldP.

(* the regenerated table facts totality rests on: test_term_vec_for_image panics for index > len only,
   and the enum parser's error window is clamped (the stamp / punctuation side doors build a ParseError eagerly) *)
Theorem C05F_tables : fold_static_ok = true.
Proof. exact fold_static_ok_true. Qed.
Print Assumptions C05F_tables.

(* for EVERY lexical value x (arbitrary strings in every field: unknown prefixes, connecters, copulas,
   wrong arities, missing or repeated placeholders, non-numeric / out-of-range / NaN / inf numbers,
   malformed stamps and punctuations), EVERY enum format E (not only the shipped ones), every float
   reader and range test: the fold does not panic.
   (Scope of the model: "bounded time" is not a statement of the model.  The one loop on this path whose
   termination depends on the format is `head_skip_spaces` inside the stamp side door, which does not
   terminate in Rust for a format with an EMPTY parse space; the model runs it on fuel.  All shipped
   formats have a non-empty parse space -- part of [door_fmt_ok], Props/C03.v.) *)
Theorem C05F_fold_total :
  forall (F : Type) (fread : str -> option F) (in01 : F -> bool) (E : efmt) (x : lnarsese),
    fold_narsese F fread in01 E x <> FPanic.
Proof. exact fold_total. Qed.
Print Assumptions C05F_fold_total.

Theorem C05F_fold_term_total : forall (E : efmt) (x : lterm), fold_term E x <> FPanic.
Proof. exact fold_term_never_panics. Qed.
Print Assumptions C05F_fold_term_total.

(* what makes it so: range validation precedes the panicking constructors ... *)
Theorem C05F_truth_ladder : forall (F : Type) (in01 : F -> bool) (l : list F),
  match truth_try_from_floats F in01 l with
  | FOk t => forallb in01 (truth_list t) = true /\ truth_list t = firstn 2 l
  | FErr => forallb in01 (firstn 2 l) = false
  | FPanic => False
  end.
Proof. exact truth_try_from_floats_spec. Qed.
Print Assumptions C05F_truth_ladder.

Theorem C05F_budget_ladder : forall (F : Type) (in01 : F -> bool) (l : list F),
  match budget_try_from_floats F in01 l with
  | FOk b => forallb in01 (budget_list b) = true /\ budget_list b = firstn 3 l
  | FErr => forallb in01 (firstn 3 l) = false
  | FPanic => False
  end.
Proof. exact budget_try_from_floats_spec. Qed.
Print Assumptions C05F_budget_ladder.

(* ... the index of the first placeholder never exceeds the number of remaining components ... *)
Theorem C05F_image_index : forall (i : N) (l : list term) (idx : N) (rest : list term),
  to_terms_with_image i l = (Some idx, rest) -> (idx <= i + nlen rest)%N.
Proof. exact to_terms_with_image_index. Qed.
Print Assumptions C05F_image_index.

(* ... and the side doors of the enum parser neither panic nor run out of fuel, on any string, in any format *)
Theorem C05F_door_stamp : forall (F : Type) (E : efmt) (input : str),
  door_stamp F E input <> PPanic /\ door_stamp F E input <> PFuel.
Proof. exact door_stamp_no_panic. Qed.
Print Assumptions C05F_door_stamp.

Theorem C05F_door_punctuation : forall (F : Type) (E : efmt) (input : str),
  door_punctuation F E input <> PPanic /\ door_punctuation F E input <> PFuel.
Proof. exact door_punctuation_no_panic. Qed.
Print Assumptions C05F_door_punctuation.

(* ---- C12, fold half ---- *)
(* every value returned as Ok by folding ANY lexical value is well-formed: truth / budget components pass
   the range test, image index <= number of components, names of non-placeholder atoms non-empty.
   Side condition on the format (boolean, true of the three shipped ones): the placeholder prefix -- the
   one prefix for which an empty name is accepted -- does not select an arm that stores the name. *)
Theorem C12_fold_wf :
  forall (F : Type) (fread : str -> option F) (in01 : F -> bool) (E : efmt) (x : lnarsese) (v : narsese F),
    atom_empty_ok E = true -> fold_narsese F fread in01 E x = FOk v -> wf_fold F in01 v = true.
Proof. exact fold_wf. Qed.
Print Assumptions C12_fold_wf.

Theorem C12_fold_wf_shipped :
  forall (F : Type) (fread : str -> option F) (in01 : F -> bool) (E : efmt) (x : lnarsese) (v : narsese F),
    In E shipped_formats -> fold_narsese F fread in01 E x = FOk v -> wf_fold F in01 v = true.
Proof. exact fold_wf_shipped. Qed.
Print Assumptions C12_fold_wf_shipped.

(* the side condition cannot be dropped: with the placeholder prefix equal to the (empty) word prefix the
   lexical atom ("", "") folds to Word("") *)
Theorem C12_fold_wf_needs_side_condition :
  let B := with_placeholder_prefix FORMAT_ASCII [] in
  atom_empty_ok B = false /\ exists t, fold_term B (LAtom [] []) = FOk t /\ wf_fold_term t = false.
Proof. exact fold_wf_needs_side_condition. Qed.
Print Assumptions C12_fold_wf_needs_side_condition.

(* ---- C14, fold half ---- *)
Theorem C14_fold_category_tables : fold_category_tables_ok = true.
Proof. exact fold_category_tables_ok_true. Qed.
Print Assumptions C14_fold_category_tables.

Theorem C14_fold_category : forall (E : efmt) (x : lterm) (t : term),
  fold_term E x = FOk t -> lcategory x = category_of t.
Proof. exact fold_category. Qed.
Print Assumptions C14_fold_category.

(* the implications above are not vacuous: a lexical task that folds *)
Example ex_fold_ok :
  exists v, fold_narsese N (fun s => match s with [c] => Some c | _ => None end) (fun c => N.leb c 49) FORMAT_ASCII
              (NTask {| lt_budget := [[48]%N]; lt_sentence := {| ls_term := LCompound [47]%N [LAtom [] [82]%N; LAtom [95]%N []];
                          ls_punct := [46]%N; ls_stamp := [58; 33; 45; 49; 58]%N; ls_truth := [[49]%N; [48]%N] |} |}) = FOk v.
Proof. exact fold_ok_example. Qed.
