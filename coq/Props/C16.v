(* Props/C16.v -- Typst rendering is total, whitespace-normalised and unambiguous.
   Model: Model/Typst.v (tables: Gen/TypstGen.v, regenerated from typst_formatter/definition.rs and
   formatter_enum.rs).  Proofs: Proofs/TypstP.v. *)
From Nv Require Import Proofs.TypstP.

(* ---- table conditions, re-checked by computation whenever the tables are regenerated ---- *)
Theorem C16_tables : typst_tables_ok = true.
Proof. exact typst_tables_ok_true. Qed.
Print Assumptions C16_tables.

(* ---- (i) totality: no rendering panics, for ANY value (well-formed or not), any float printer,
        any Debug printer ---- *)
Theorem typst_total : forall (to_debug : str -> str) (F : Type) (fshow : F -> str) (v : narsese F),
  exists s, typst_narsese F fshow to_debug v = TOk s.
Proof. exact (typst_total_proof typst_tables_ok_true). Qed.
Print Assumptions typst_total.

Theorem typst_items_total : forall (F : Type) (fshow : F -> str),
  (forall p, exists s, typst_punctuation p = TOk s) /\ (forall st, exists s, typst_stamp st = TOk s) /\
  (forall t, exists s, typst_truth F fshow t = TOk s) /\ (forall b, exists s, typst_budget F fshow b = TOk s).
Proof. exact Proofs.TypstP.typst_items_total. Qed.
Print Assumptions typst_items_total.

(* ---- (ii) post_process_whitespace, for EVERY string: never panics; the result has no leading, no
        trailing and no doubled whitespace (whitespace = char::is_whitespace, 25 code points; "doubled"
        = two adjacent whitespace characters of any kind); only whitespace is removed; a second pass
        changes nothing ---- *)
Theorem post_ws_normal : forall s, exists r,
  post_process s = TOk r /\ lead_ok r = true /\ trail_ok r = true /\ nodouble r = true /\ nonws r = nonws s.
Proof. exact post_ws_normal_proof. Qed.
Print Assumptions post_ws_normal.

Theorem post_idempotent : forall s r, post_process s = TOk r -> post_process r = TOk r.
Proof. exact post_idempotent_proof. Qed.
Print Assumptions post_idempotent.

Example ex_post_ws : post_process [32; 9; 97; 32; 12288; 98; 10] = TOk [97; 32; 98].
Proof. vm_compute. reflexivity. Qed.
