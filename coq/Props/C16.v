(* Props/C16.v -- Typst rendering is total, whitespace-normalised and unambiguous.
   Model: Model/Typst.v (tables: Gen/TypstGen.v, regenerated from typst_formatter/definition.rs and
   formatter_enum.rs).  Proofs: Proofs/Typst{P,Perm,Tok,Skel,Inj,DecP,InjP,Debug,Main,Value,ValueInj,Final}.v.
   Floats are printed by an abstract function fshow (f64::to_string); names by an abstract
   function to_debug (format!("{:?}", name)) or by [debug_str esc], the model of Rust's
   `impl Debug for str` over the table [esc] of \u{..}-escaped characters. *)
From Nv Require Import Proofs.TypstFinal Proofs.EqHashP.
From Coq Require Import Permutation.

(* ------------------------------------------------------------------------------------------ *)
(* (iii) table conditions, re-checked by computation whenever the tables are regenerated       *)
(* ------------------------------------------------------------------------------------------ *)
(* every atom constructor has a name, no compound lists itself as its component, statements have two
   components, the layout match has a catch-all arm *)
Theorem C16_tables : typst_tables_ok = true.
Proof. exact typst_tables_ok_true. Qed.
Print Assumptions C16_tables.

(* constants inside each class (atom prefixes, connecters, copulas, stamps, punctuations, brackets)
   are pairwise distinct after whitespace normalisation; connecters, copulas, punctuations and
   brackets are not blank; every constant is empty or space-delimited with no other whitespace
   (except the two separators that glue numbers) *)
Theorem C16_constants : typst_constants_ok = true.
Proof. exact typst_constants_ok_true. Qed.
Print Assumptions C16_constants.

(* constructor shapes vs categories, space-delimited features / brackets / separators, layout arms
   (set layout first and only for an empty connecter, infix only at arity 2, prefix otherwise) *)
Theorem C16_token_tables : tok_tables_ok = true.
Proof. exact tok_tables_ok_true. Qed.
Print Assumptions C16_token_tables.

(* what the decoder needs: every bracket / connecter / copula is one token and selects its
   constructor, atom prefixes select their constructor, no token a term can begin with is a
   connecter, a closer or quoted, the separator is not a closer *)
Theorem C16_decoder_tables : dec_tables_ok = true.
Proof. exact dec_tables_ok_true. Qed.
Print Assumptions C16_decoder_tables.

(* ------------------------------------------------------------------------------------------ *)
(* (i) totality: no rendering panics, for ANY value (well-formed or not)                        *)
(* ------------------------------------------------------------------------------------------ *)
Theorem typst_total : forall (to_debug : str -> str) (F : Type) (fshow : F -> str) (v : narsese F),
  exists s, typst_narsese F fshow to_debug v = TOk s.
Proof. exact (typst_total_proof typst_tables_ok_true). Qed.
Print Assumptions typst_total.

Theorem typst_items_total : forall (F : Type) (fshow : F -> str),
  (forall p, exists s, typst_punctuation p = TOk s) /\ (forall st, exists s, typst_stamp st = TOk s) /\
  (forall t, exists s, typst_truth F fshow t = TOk s) /\ (forall b, exists s, typst_budget F fshow b = TOk s).
Proof. exact Proofs.TypstP.typst_items_total. Qed.
Print Assumptions typst_items_total.

(* ------------------------------------------------------------------------------------------ *)
(* (ii) post_process_whitespace, for EVERY string                                              *)
(* ------------------------------------------------------------------------------------------ *)
(* never panics; the result has no leading, no trailing and no doubled whitespace (whitespace =
   char::is_whitespace, 25 code points; doubled = two adjacent whitespace characters of any kind);
   only whitespace is removed *)
Theorem post_ws_normal : forall s, exists r,
  post_process s = TOk r /\ lead_ok r = true /\ trail_ok r = true /\ nodouble r = true /\ nonws r = nonws s.
Proof. exact post_ws_normal_proof. Qed.
Print Assumptions post_ws_normal.

Theorem post_idempotent : forall s r, post_process s = TOk r -> post_process r = TOk r.
Proof. exact post_idempotent_proof. Qed.
Print Assumptions post_idempotent.

(* what the Rust function really does: of a run of whitespace it keeps the FIRST character, whatever
   it is; when the only whitespace in s is U+0020 the result is exactly the words of s joined by
   single spaces *)
Theorem post_is_unwords_words : forall s, only_sp s = true -> post_process s = TOk (unwords (words s)).
Proof. exact pp_words. Qed.
Print Assumptions post_is_unwords_words.

Example ex_post_ws : post_process [32; 9; 97; 32; 12288; 98; 10] = TOk [97; 32; 98].
Proof. exact ex_post_ws_proof. Qed.

(* the rendering of a term is the single-space join of its token list (any names; any Debug printer
   that leaves no whitespace but U+0020 -- Rust's does, see debug_only_space below) *)
Theorem typst_tokens : forall (to_debug : str -> str),
  (forall n, only_sp (to_debug n) = true) ->
  forall t, typst_term to_debug t = TOk (unwords (toks to_debug t)) /\
            Forall (fun x => is_token x = true) (toks to_debug t).
Proof.
  exact (fun d H t => conj (typst_tokens_proof d H tok_tables_ok_true t) (toks_tokens d H tok_tables_ok_true t)).
Qed.
Print Assumptions typst_tokens.

(* ------------------------------------------------------------------------------------------ *)
(* (iv) equal values render identically up to the order of unordered components                 *)
(* ------------------------------------------------------------------------------------------ *)
(* terms equal by the modelled `PartialEq` (on duplicate-free set payloads) are reorderings of one
   another: set payloads permuted, operands of symmetric statements possibly swapped, at every level *)
Theorem typst_equal_is_reorder : forall a b,
  set_ok a = true -> set_ok b = true -> term_eqb a b = true -> reorder a b.
Proof. exact eqb_reorder. Qed.
Print Assumptions typst_equal_is_reorder.

(* [sort_term] lists unordered components in ascending order of their rendering; it is a reordering *)
Theorem typst_sort_is_reorder : forall to_debug t, reorder t (sort_term to_debug t).
Proof. exact reorder_sort_proof. Qed.
Print Assumptions typst_sort_is_reorder.

(* reorderings of one another have THE SAME rendering once both are put in canonical order *)
Theorem typst_perm : forall to_debug a b, reorder a b ->
  typst_term to_debug (sort_term to_debug a) = typst_term to_debug (sort_term to_debug b).
Proof. exact typst_perm_proof. Qed.
Print Assumptions typst_perm.

(* one level, as multisets: the component renderings of two equal sets are permutations of each other *)
Theorem typst_perm_components : forall to_debug c l l', reorder (TSet c l) (TSet c l') ->
  Permutation (map (key to_debug) (map (sort_term to_debug) l)) (map (key to_debug) (map (sort_term to_debug) l')).
Proof. exact typst_perm_components_proof. Qed.
Print Assumptions typst_perm_components.

(* whole values: same punctuation, stamp, truth (same bits), budget; terms reorderings of one another *)
Theorem typst_perm_value : forall to_debug (F : Type) (fshow : F -> str) (v : narsese F) t t', reorder t t' ->
  typst_narsese F fshow to_debug (narsese_with F v (sort_term to_debug t)) =
  typst_narsese F fshow to_debug (narsese_with F v (sort_term to_debug t')).
Proof. exact typst_perm_value_proof. Qed.
Print Assumptions typst_perm_value.

Example ex_reorder :
  reorder (TSet SetExtension [TName Word [65]; TName Word [66]]) (TSet SetExtension [TName Word [66]; TName Word [65]]) /\
  reorder (TBox2 Similarity (TName Word [65]) (TName Word [66])) (TBox2 Similarity (TName Word [66]) (TName Word [65])).
Proof. exact ex_reorder_proof. Qed.

(* ------------------------------------------------------------------------------------------ *)
(* (v) unequal values never render to the same text                                            *)
(* ------------------------------------------------------------------------------------------ *)
(* Rust's `impl Debug for str`, for any table of \u-escaped characters: quote-initial, injective,
   whitespace-free on whitespace-free names; and if the table escapes every whitespace character that
   is not U+0020 and has no short escape (checked exhaustively against std by the harness), it
   leaves no whitespace but U+0020 *)
Theorem debug_injective : forall esc n n', debug_str esc n = debug_str esc n' -> n = n'.
Proof. exact debug_str_inj. Qed.
Print Assumptions debug_injective.

Theorem debug_ws_free : forall esc n, ws_free n = true -> ws_free (debug_str esc n) = true.
Proof. exact debug_str_ws_free. Qed.
Print Assumptions debug_ws_free.

Theorem debug_only_space : forall esc,
  (forall c, is_ws c = true -> c = 32 \/ c = 9 \/ c = 10 \/ c = 13 \/ esc c = true) ->
  forall n, only_sp (debug_str esc n) = true.
Proof. exact debug_str_only_sp. Qed.
Print Assumptions debug_only_space.

(* TERMS, full strength.  wf_term: names without whitespace, image index within the component list,
   no placeholder inside an image's own component list (= outside class K6).  Two well-formed terms
   with the same rendering are THE SAME term, component order included (hence semantically equal:
   typst_equal_refl). *)
Theorem typst_injective : forall (to_debug : str -> str),
  (forall n, only_sp (to_debug n) = true) ->
  (forall n n', to_debug n = to_debug n' -> n = n') ->
  (forall n, q34 (to_debug n) = true) ->
  (forall n, ws_free n = true -> ws_free (to_debug n) = true) ->
  forall a b, wf_term a = true -> wf_term b = true ->
  typst_term to_debug a = typst_term to_debug b -> a = b.
Proof. exact (fun d H1 H2 H3 H4 => typst_injective_proof d H1 H2 H3 H4 tok_tables_ok_true dec_tables_ok_true). Qed.
Print Assumptions typst_injective.

Theorem typst_injective_rust_debug : forall esc,
  (forall c, is_ws c = true -> c = 32 \/ c = 9 \/ c = 10 \/ c = 13 \/ esc c = true) ->
  forall a b, wf_term a = true -> wf_term b = true ->
  typst_term (debug_str esc) a = typst_term (debug_str esc) b -> a = b.
Proof. exact typst_injective_debug. Qed.
Print Assumptions typst_injective_rust_debug.

Theorem typst_equal_refl : forall a, term_eqb a a = true.
Proof. exact term_eqb_refl. Qed.
Print Assumptions typst_equal_refl.

(* the decoder behind it: reading the token list of a decodable skeleton back gives the skeleton *)
Theorem typst_decoder_inverts : forall fuel d k,
  wf_d d -> (dsize d <= fuel)%nat -> parse fuel (dflat d ++ k) = Some (d, k).
Proof. exact (parse_ok tok_tables_ok_true dec_tables_ok_true). Qed.
Print Assumptions typst_decoder_inverts.

(* class K6 is real: two unequal images, one rendering (both outside wf_term) *)
Theorem typst_K6_witness :
  let a := TImg ImageExtension 0 [placeholder; TName Word [66]] in
  let b := TImg ImageExtension 1 [placeholder; TName Word [66]] in
  a <> b /\ typst_term dbg0 a = typst_term dbg0 b /\ wf_term a = false /\ wf_term b = false.
Proof. exact typst_K6_witness_proof. Qed.
Print Assumptions typst_K6_witness.

Example typst_injective_example :
  wf_term (TBox2 Inheritance (TSet SetExtension [TName Word [65]]) (TImg ImageExtension 1 [TName Word [66]; TName Word [67]])) = true /\
  typst_term dbg0 (TBox2 Inheritance (TName Word [65]) (TName Word [66])) =
  TOk [108;114;40;97;110;103;108;101;46;108;32;34;65;34;32;97;114;114;111;119;46;114;32;34;66;34;32;97;110;103;108;101;46;114;41].
Proof. exact typst_injective_example_proof. Qed.

(* ------------------------------------------------------------------------------------------ *)
(* whole values: sentences, tasks, the Narsese value                                           *)
(* ------------------------------------------------------------------------------------------ *)
(* segment lists of the Sentence / Task impls have the expected shape with space-delimited separators;
   punctuations, stamps, number brackets and separators are single tokens that tell the cases apart;
   a task begins with a token no term begins with *)
Theorem C16_value_tables : value_tables_ok = true /\ value_dec_ok = true.
Proof. exact (conj value_tables_ok_true value_dec_ok_true). Qed.
Print Assumptions C16_value_tables.

(* the rendering of ANY value is the single-space join of a token list, hence has no leading,
   trailing or doubled whitespace; fshow is any float printer whose outputs are tokens (non-empty, no
   whitespace: true of f64::to_string, also for NaN and the infinities) *)
Theorem typst_value_tokens : forall (to_debug : str -> str),
  (forall n, only_sp (to_debug n) = true) ->
  forall (F : Type) (fshow : F -> str), (forall f, is_token (fshow f) = true) ->
  forall v, typst_narsese F fshow to_debug v = TOk (unwords (value_toks to_debug F fshow v)) /\
            Forall (fun x => is_token x = true) (value_toks to_debug F fshow v).
Proof.
  exact (fun d H F fs Hf v => conj (typst_value_tokens_proof d H F fs Hf tok_tables_ok_true value_tables_ok_true v)
                                   (value_toks_tokens d H F fs Hf tok_tables_ok_true value_tables_ok_true v)).
Qed.
Print Assumptions typst_value_tokens.

Theorem typst_tokens_normal : forall ts, Forall (fun t => is_token t = true) ts ->
  lead_ok (unwords ts) = true /\ trail_ok (unwords ts) = true /\ nodouble (unwords ts) = true.
Proof. exact unwords_normal. Qed.
Print Assumptions typst_tokens_normal.

(* VALUES, full strength, outside K6.  wf_value: the term is wf_term, every number is in the domain
   okf; on that domain the float printer prints only digits, '.' and '-' and is injective (the
   shortest-round-trip contract of f64::to_string on the numbers of [0,1]; distinct bit patterns --
   so 0.0 and -0.0, which f64 == identifies, are DIFFERENT values here and do render differently:
   the 0.0 / -0.0 observation (== identifies them, Display does not) concerns `equal values render identically` for
   ill-formed numbers: -0.0 is negative-signed, hence outside well-formedness; not this theorem).
   Two well-formed values -- term, sentence or task -- with the same rendering are the same value. *)
Theorem typst_value_injective : forall (to_debug : str -> str),
  (forall n, only_sp (to_debug n) = true) ->
  (forall n n', to_debug n = to_debug n' -> n = n') ->
  (forall n, q34 (to_debug n) = true) ->
  (forall n, ws_free n = true -> ws_free (to_debug n) = true) ->
  forall (F : Type) (fshow : F -> str) (okf : F -> Prop),
  (forall f, is_token (fshow f) = true) ->
  (forall f, okf f -> forallb numch (fshow f) = true) ->
  (forall f g, okf f -> okf g -> fshow f = fshow g -> f = g) ->
  forall v v', wf_value F okf v -> wf_value F okf v' ->
  typst_narsese F fshow to_debug v = typst_narsese F fshow to_debug v' -> v = v'.
Proof.
  exact (fun d H1 H2 H3 H4 F fs okf F1 F2 F3 =>
    typst_value_injective_proof d H1 H2 H3 H4 F fs okf F1 F2 F3
      tok_tables_ok_true dec_tables_ok_true value_tables_ok_true value_dec_ok_true).
Qed.
Print Assumptions typst_value_injective.

Theorem typst_value_injective_rust_debug : forall esc,
  (forall c, is_ws c = true -> c = 32 \/ c = 9 \/ c = 10 \/ c = 13 \/ esc c = true) ->
  forall (F : Type) (fshow : F -> str) (okf : F -> Prop),
  (forall f, is_token (fshow f) = true) ->
  (forall f, okf f -> forallb numch (fshow f) = true) ->
  (forall f g, okf f -> okf g -> fshow f = fshow g -> f = g) ->
  forall v v', wf_value F okf v -> wf_value F okf v' ->
  typst_narsese F fshow (debug_str esc) v = typst_narsese F fshow (debug_str esc) v' -> v = v'.
Proof. exact typst_value_injective_debug. Qed.
Print Assumptions typst_value_injective_rust_debug.

(* the hypothesis on the escape table is the boolean [esc_covers_ws] that the runner evaluates, on every
   run, on the table dumped from std (case TyWsTable of Run/TypstRun.v) *)
Theorem debug_table_condition : forall esc, esc_covers_ws esc = true ->
  forall c, is_ws c = true -> c = 32 \/ c = 9 \/ c = 10 \/ c = 13 \/ esc c = true.
Proof. exact esc_covers_ws_spec. Qed.
Print Assumptions debug_table_condition.

(* the hypotheses on the float printer are satisfiable, and the model runs on a task *)
Example typst_value_example :
  typst_narsese Z fshow01 dbg0 (NTask (SJudgement (TName Word [65]) (TruthDouble 1%Z 0%Z) (Fixed (-5)), BudgetSingle 0%Z)) =
  TOk (unwords [[108;114;40;92;36]; [48]; [92;36;41]; [115;112;97;99;101]; [34;65;34]; [46]; [115;112;97;99;101];
                [116;61]; [45;53]; [115;112;97;99;101]; [108;114;40;97;110;103;108;101;46;108]; [49;44;48]; [97;110;103;108;101;46;114;41]]).
Proof. exact typst_value_example_proof. Qed.
