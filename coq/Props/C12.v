(* Props/C12.v -- every value the enum parser model returns as Ok is well-formed, for ANY input string
   (valid or not), any format record and any float / Unicode oracle.  Statements only; proofs in
   Proofs/EnumParseP.v.  narsese_ok: every truth and budget component satisfies the range test in01
   (C13: in01 is exactly "finite and in [0,1]"), every image index <= number of components, names of
   named atoms non-empty, no empty set / vector compound (the image counts its placeholder), negation
   and differences have their arity by construction of the value type.
   The folding half (values produced by folding lexical values) is in Props/C03.v / C05F.v. *)
From Nv Require Import Model.EnumOk Model.EqHash Proofs.EnumParseP.

(* table obligation: set_atom_name really stores the name for the five named atom kinds *)
Theorem C12_setname_table : setname_table_ok = true.
Proof. exact setname_table_ok_true. Qed.
Print Assumptions C12_setname_table.

Theorem C12_parse_output_wf :
  forall (F : Type) (fread : str -> option F) (fzero : F) (in01 : F -> bool) (is_alnum : N -> bool) (E : efmt)
         (input : str) (v : narsese F) (st : pstate F),
    parse_narsese F fread fzero in01 is_alnum E input = POk v st -> narsese_ok F in01 v = true.
Proof. intros F fread fzero in01 is_alnum E. exact (parse_output_ok F fread fzero in01 is_alnum E setname_table_ok_true). Qed.
Print Assumptions C12_parse_output_wf.

Theorem C12_truth_door_wf :
  forall (F : Type) (fread : str -> option F) (fzero : F) (in01 : F -> bool) (E : efmt) (input : str) (t : truthv F) (st : pstate F),
    door_truth F fread fzero in01 E input = POk t st -> truth_ok F in01 t = true.
Proof. exact door_truth_ok. Qed.
Print Assumptions C12_truth_door_wf.

Theorem C12_budget_door_wf :
  forall (F : Type) (fread : str -> option F) (fzero : F) (in01 : F -> bool) (E : efmt) (input : str) (b : budgetv F) (st : pstate F),
    door_budget F fread fzero in01 E input = POk b st -> budget_ok F in01 b = true.
Proof. exact door_budget_ok. Qed.
Print Assumptions C12_budget_door_wf.

(* every parsed term satisfies the representation invariant of set payloads (duplicate-free up to ==, at every
   level): the hypothesis set_ok of the C06 / C07 theorems holds of everything the parser returns *)
Theorem C12_parse_output_set_ok :
  forall (F : Type) (fread : str -> option F) (fzero : F) (in01 : F -> bool) (is_alnum : N -> bool) (E : efmt)
         (input : str) (v : narsese F) (st : pstate F),
    parse_narsese F fread fzero in01 is_alnum E input = POk v st ->
    set_ok (match v with NTerm t => t | NSentence s => s_term s | NTask k => s_term (fst k) end) = true.
Proof. exact parse_output_set_ok. Qed.
Print Assumptions C12_parse_output_set_ok.

(* what narsese_ok means, spelled out on terms (so that the definition cannot be quietly weakened) *)
Theorem C12_term_ok_meaning : forall t : term,
  term_ok t = true ->
  match t with
  | TName _ n => n <> []
  | TSet _ l => l <> [] /\ forallb term_ok l = true /\ nodup_eqb l = true
  | TVec _ l => l <> [] /\ forallb term_ok l = true
  | TImg _ i l => (i <= nlen l)%N /\ forallb term_ok l = true
  | TBox1 _ a => term_ok a = true
  | TBox2 _ a b => term_ok a = true /\ term_ok b = true
  | _ => True
  end.
Proof. exact term_ok_meaning. Qed.
Print Assumptions C12_term_ok_meaning.

Example ex_C12_rejects : term_ok (TImg ImageExtension 2 [TName Word [97]%N]) = false /\ term_ok (TSet SetExtension []) = false /\ term_ok (TSet SetExtension [TName Word [97]%N; TName Word [97]%N]) = false /\
                         term_ok (TName Word []) = false /\ term_ok (TImg ImageExtension 1 [TName Word [97]%N]) = true.
Proof. vm_compute. repeat split. Qed.
