(* Props/C09.v -- "Whitespace between tokens never changes what is parsed": the TERM-LEVEL part for the
   enum parser model, all formats satisfying the finite table check parse_ok (the three shipped ones do).
   Statements only; proofs in Proofs/EnumTermP.v and Proofs/EnumTermCor.v.

   How "any number of spaces between tokens" is stated: a surface tree (Model/Sst.v, sterm) records
   the number of space keywords at EVERY token boundary of a term (after a left bracket, before a right
   bracket, on both sides of every separator, connecter and copula); render prints it; odesugar is its
   documented meaning and ignores the annotations.  Two trees have the same shape iff they differ only in
   these annotations (same_shape := equal spacing-free skeletons); respace 0 removes every space.

   COVERED HERE (theorems, every input size / nesting depth, any float type, any Unicode oracle):
     * C09_term_any_spacing       the enum term parser returns exactly odesugar t and stops exactly at the
                                  end of the text of t, for every annotation (central theorem);
     * C09_term_respacing         two trees of the same shape parse to the same value;
     * C09_term_all_spaces_removed / n spaces everywhere: instance with respace.
   Side conditions: parse_ok E (format level, computed) and unamb (atom NAMES only: name characters,
   no copula inside a name, the scan stops at the end of the name, the name does not start like a
   bracket / earlier prefix / delimiter).  unamb is a condition on the TEXT and is needed in all three
   formats because `-` is a name character and, in Han, every keyword consists of name characters.
   NOT COVERED HERE (done on top of TermParses by the sentence-level work, or only tested):
     * sentence / task level (punctuation, stamp, truth, budget and their numbers);
     * the lexical-parse-then-fold pipeline and its Unicode-whitespace clause;
     * spaces INSIDE keywords or names are not token boundaries and are not claimed.
   The correspondence of the model with the Rust parser on re-spaced inputs is the differential
   check of ./check C09 (harness/src/enumprops.rs). *)
From Nv Require Import Model.SstOk Proofs.EnumTotalP Proofs.EnumTermP Proofs.EnumTermCor.

(* table obligation: the three shipped formats satisfy the format-level side condition *)
Theorem C09_shipped_parse_ok : forallb parse_ok shipped_formats = true.
Proof. exact shipped_parse_ok. Qed.
Print Assumptions C09_shipped_parse_ok.

Theorem C09_term_any_spacing :
  forall (F : Type) (is_alnum : N -> bool) (E : efmt), parse_ok E = true ->
  forall (t : sterm) (v : term) (k : str) (L : nat) (st : pstate F) (fuel : nat),
    odesugar t = Some v -> unamb is_alnum E t k = true ->
    wf F L st -> s_rest st = render E t ++ k -> (sdepth t < fuel)%nat ->
    p_term F is_alnum E fuel st = POk v (step F (length (render E t)) st).
Proof. exact p_term_render. Qed.
Print Assumptions C09_term_any_spacing.

Theorem C09_term_any_spacing_shipped :
  forall (F : Type) (is_alnum : N -> bool) (E : efmt), shipped E ->
  forall (t : sterm) (v : term) (k : str) (L : nat) (st : pstate F) (fuel : nat),
    odesugar t = Some v -> unamb is_alnum E t k = true ->
    wf F L st -> s_rest st = render E t ++ k -> (sdepth t < fuel)%nat ->
    p_term F is_alnum E fuel st = POk v (step F (length (render E t)) st).
Proof. exact p_term_render_shipped. Qed.
Print Assumptions C09_term_any_spacing_shipped.

(* the entry point parse_term (its own fuel is always enough) *)
Theorem C09_parse_term_any_spacing :
  forall (F : Type) (is_alnum : N -> bool) (E : efmt), parse_ok E = true ->
  forall (t : sterm) (v : term) (k : str) (L : nat) (st : pstate F),
    odesugar t = Some v -> unamb is_alnum E t k = true ->
    wf F L st -> s_rest st = render E t ++ k ->
    parse_term F is_alnum E st = POk v (step F (length (render E t)) st).
Proof. exact parse_term_render. Qed.
Print Assumptions C09_parse_term_any_spacing.

(* the meaning of a tree does not look at the spacing annotations *)
Theorem C09_meaning_ignores_spacing : forall t1 t2 : sterm, same_shape t1 t2 -> odesugar t1 = odesugar t2.
Proof. exact same_shape_meaning. Qed.
Print Assumptions C09_meaning_ignores_spacing.

Theorem C09_respace_same_shape : forall (n : nat) (t : sterm), same_shape (respace n t) t.
Proof. exact same_shape_respace. Qed.
Print Assumptions C09_respace_same_shape.

(* two writings of the same term that differ only in spacing: same value *)
Theorem C09_term_respacing :
  forall (F : Type) (is_alnum : N -> bool) (E : efmt), parse_ok E = true ->
  forall (t1 t2 : sterm) (v : term) (k1 k2 : str) (L1 L2 : nat) (st1 st2 : pstate F),
    same_shape t1 t2 -> odesugar t1 = Some v ->
    unamb is_alnum E t1 k1 = true -> unamb is_alnum E t2 k2 = true ->
    wf F L1 st1 -> s_rest st1 = render E t1 ++ k1 ->
    wf F L2 st2 -> s_rest st2 = render E t2 ++ k2 ->
    parse_term F is_alnum E st1 = POk v (step F (length (render E t1)) st1) /\
    parse_term F is_alnum E st2 = POk v (step F (length (render E t2)) st2).
Proof. exact respacing_same_value. Qed.
Print Assumptions C09_term_respacing.

(* n spaces at every boundary; n = 0: all spaces removed (what the inline macros do) *)
Theorem C09_term_all_spaces_removed :
  forall (F : Type) (is_alnum : N -> bool) (E : efmt), parse_ok E = true ->
  forall (n : nat) (t : sterm) (v : term) (k1 k2 : str) (L1 L2 : nat) (st1 st2 : pstate F),
    odesugar t = Some v ->
    unamb is_alnum E t k1 = true -> unamb is_alnum E (respace n t) k2 = true ->
    wf F L1 st1 -> s_rest st1 = render E t ++ k1 ->
    wf F L2 st2 -> s_rest st2 = render E (respace n t) ++ k2 ->
    parse_term F is_alnum E st1 = POk v (step F (length (render E t)) st1) /\
    parse_term F is_alnum E st2 = POk v (step F (length (render E (respace n t))) st2).
Proof. exact respace_same_value. Qed.
Print Assumptions C09_term_all_spaces_removed.

(* the hypotheses are satisfiable: one tree with 0, 1 and 3 spaces at every boundary in each shipped
   format; parse_ok, unamb, odesugar hold and the re-computed parse agrees *)
Example ex_C09_satisfiable :
  forallb (fun E => ex_check E (ex_tree 0) && ex_check E (ex_tree 1) && ex_check E (ex_tree 3)) shipped_formats = true.
Proof. exact ex_hypotheses_satisfiable. Qed.

(* why the condition on names cannot be dropped: in Han the name `a具` directly followed by the copula `有`
   is the SAME text as the name `a` followed by the copula `具有` (different meanings); unamb accepts exactly
   the reading the parser takes, and one space after the name makes the first reading unambiguous.  So "removing
   all spaces leaves the parse unchanged" is only true of texts whose names do not run into a keyword. *)
Example ex_C09_han_same_text :
  let t1 := SStmt arm_property 0 0 0 0 (SAtom arm_word [97; 20855]%N) (SAtom arm_word [20540]%N) in
  let t2 := SStmt arm_instance_property 0 0 0 0 (SAtom arm_word [97]%N) (SAtom arm_word [20540]%N) in
  let t1' := SStmt arm_property 0 1 0 0 (SAtom arm_word [97; 20855]%N) (SAtom arm_word [20540]%N) in
  render FORMAT_HAN t1 = render FORMAT_HAN t2 /\ odesugar t1 <> odesugar t2 /\
  unamb ex_alnum FORMAT_HAN t1 [] = false /\ unamb ex_alnum FORMAT_HAN t2 [] = true /\
  unamb ex_alnum FORMAT_HAN t1' [] = true.
Proof. exact ex_han_same_text. Qed.

(* unamb really excludes something: a Han name containing the inheritance copula *)
Example ex_C09_unamb_rejects :
  unamb ex_alnum FORMAT_HAN (SAtom arm_word [97; 26159; 98]%N) [] = false /\
  unamb ex_alnum FORMAT_ASCII (SAtom arm_word [97; 26159; 98]%N) [] = true.
Proof. exact ex_unamb_rejects. Qed.
