(* Props/C15b.v -- C15 through the parser: the kind of the value parsed from a written input is decided
   by which items are written (task iff budget and punctuation, sentence iff punctuation without
   budget, term otherwise -- a budget, stamp or truth without punctuation is read and dropped), and
   format(cast_to_task s) -- budget brackets with nothing between -- parses to a task with an empty
   budget.  Statements only; proofs in Proofs/EnumSentP.v.  The term level is the hypothesis
   TermParses (see Props/C01b.v). *)
From Nv Require Import Model.SstSent Proofs.EnumTotalP Proofs.EnumParseP Proofs.EnumSentP.

Theorem C15b_kind_by_items :
  forall (F : Type) (fread : str -> option F) (in01 : F -> bool) (s : snarsese) (v : narsese F),
    odesugar_narsese F fread in01 s = Some v ->
    nv_is_task v = has (sn_budget s) && has (sn_punct s) /\
    nv_is_sentence v = negb (has (sn_budget s)) && has (sn_punct s) /\
    nv_is_term v = negb (has (sn_punct s)).
Proof. exact kind_by_items. Qed.
Print Assumptions C15b_kind_by_items.

Theorem C15b_parse_kind :
  forall (F : Type) (fread : str -> option F) (fzero : F) (in01 : F -> bool) (is_alnum : N -> bool) (E : efmt),
    sent_ok E = true -> fread [] = None -> in01 fzero = true ->
    forall unamb : sterm -> str -> bool, TermParses F is_alnum E unamb ->
    forall (s : snarsese) (v : narsese F),
      odesugar_narsese F fread in01 s = Some v ->
      sent_unamb F fread fzero in01 E unamb s = true ->
      exists st : pstate F,
        parse_narsese F fread fzero in01 is_alnum E (render_narsese E s) = POk v st /\
        nv_is_task v = has (sn_budget s) && has (sn_punct s) /\
        nv_is_sentence v = negb (has (sn_budget s)) && has (sn_punct s) /\
        nv_is_term v = negb (has (sn_punct s)).
Proof. exact parse_kind. Qed.
Print Assumptions C15b_parse_kind.

Theorem C15b_cast_to_task_parses :
  forall (F : Type) (fshow : F -> str) (fread : str -> option F) (fzero : F) (in01 : F -> bool)
         (is_alnum : N -> bool) (E : efmt) (kt ki : nat) (unamb : sterm -> str -> bool),
    sent_ok E = true -> fmt_tables_ok E kt ki = true ->
    fread [] = None -> in01 fzero = true ->
    (forall x : F, in01 x = true -> fread (fshow x) = Some x) ->
    (forall x : F, in01 x = true -> fshow x <> [] /\ Forall (fun c : N => is_float_char c = true) (fshow x)) ->
    TermParses F is_alnum E unamb ->
    forall (st : sterm) (s : sentence F),
      sent_vals_ok F in01 s = true ->
      fmt_term E (s_term s) = render E st -> odesugar st = Some (s_term s) ->
      sent_unamb F fread fzero in01 E unamb (canon_narsese F fshow kt ki st (NTask (cast_to_task s))) = true ->
      exists st' : pstate F,
        parse_narsese F fread fzero in01 is_alnum E (fmt_task F fshow E (cast_to_task s)) = POk (NTask (s, BudgetEmpty)) st'.
Proof. exact cast_to_task_parses. Qed.
Print Assumptions C15b_cast_to_task_parses.

(* non-vacuity: a truth written without punctuation is read and dropped, in the three shipped formats *)
Example ex_dropped_all_formats :
  forallb (fun E => ex_check E ex_dropped) shipped_formats = true /\
  map (fun E => ex_parsed E ex_dropped) shipped_formats =
    [Some (NTerm (TName Word [97]%N)); Some (NTerm (TName Word [97]%N)); Some (NTerm (TName Word [97]%N))].
Proof. exact ex_shipped_dropped. Qed.
