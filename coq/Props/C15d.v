(* Props/C15d.v -- C15, the clause "format(cast_to_task s) parses to a task with an empty budget", for the
   enum parser model in the ASCII and LaTeX formats, UNCONDITIONAL: for every well-formed sentence s the
   text the formatter prints for cast_to_task s -- the budget brackets with nothing between, one space,
   the sentence -- parses to  NTask (s, BudgetEmpty): a TASK (not a sentence), with the empty budget, whose
   sentence is s itself (term, punctuation, stamp, truth).  The hypotheses TermParses / sent_unamb of
   Props/C15b.v are discharged.  Statements only; proofs in Proofs/EnumFinalP.v.
   Hypotheses: as in Props/C01d.v (wf_term of the sentence's term; its numbers okn, a fixed stamp within
   isize; 30 facts about char::is_alphanumeric; the float oracles).
   Han: conditional form Props/C15b.v C15b_cast_to_task_parses.
   NOT COVERED HERE: the correspondence of the model with the Rust code (differential check of ./check C15). *)
From Nv Require Import Base.FloatDec Gen.Unicode Model.SstOf Model.SstOk Model.SstSent Proofs.EnumTotalP Proofs.EnumParseP
  Proofs.EnumFmtP Proofs.EnumTermP Proofs.EnumUnambP Proofs.EnumSentP Proofs.EnumFinalP.

Theorem C15d_cast_to_task_parses : forall (ia : N -> bool) (E : efmt),
  alnum_facts ia = true -> alnum_facts2 ia = true -> E = FORMAT_ASCII \/ E = FORMAT_LATEX ->
  forall (F : Type) (fshow : F -> str) (fread : str -> option F) (fzero : F) (in01 okn : F -> bool),
    fread [] = None -> in01 fzero = true -> (forall x : F, okn x = true -> in01 x = true) ->
    (forall x : F, okn x = true -> fread (fshow x) = Some x) ->
    (forall x : F, okn x = true -> fshow x <> [] /\ Forall (fun c : N => is_float_char c = true) (fshow x)) ->
    forall s : sentence F,
      wf_term ia E (s_term s) = true -> sent_vals_ok F okn s = true ->
      exists st : pstate F,
        parse_narsese F fread fzero in01 ia E (fmt_task F fshow E (cast_to_task s)) = POk (NTask (s, BudgetEmpty)) st.
Proof. exact C15_cast_plain. Qed.
Print Assumptions C15d_cast_to_task_parses.

(* instance at Rust's Unicode table *)
Theorem C15d_cast_to_task_parses_std : forall E : efmt, E = FORMAT_ASCII \/ E = FORMAT_LATEX ->
  forall (F : Type) (fshow : F -> str) (fread : str -> option F) (fzero : F) (in01 okn : F -> bool),
    fread [] = None -> in01 fzero = true -> (forall x : F, okn x = true -> in01 x = true) ->
    (forall x : F, okn x = true -> fread (fshow x) = Some x) ->
    (forall x : F, okn x = true -> fshow x <> [] /\ Forall (fun c : N => is_float_char c = true) (fshow x)) ->
    forall s : sentence F,
      wf_term is_alnum_std E (s_term s) = true -> sent_vals_ok F okn s = true ->
      exists st : pstate F,
        parse_narsese F fread fzero in01 is_alnum_std E (fmt_task F fshow E (cast_to_task s)) = POk (NTask (s, BudgetEmpty)) st.
Proof. exact C15_cast_std. Qed.
Print Assumptions C15d_cast_to_task_parses_std.

(* non-vacuity: a question over the term with all 30 constructors *)
Example ex_C15d_cast :
  forallb (fun E => wf_term is_alnum_std E (s_term ex_question_sentence) && sent_vals_ok str toy_in01 ex_question_sentence)
          [FORMAT_ASCII; FORMAT_LATEX] = true /\
  map (fun E => match parse_narsese str toy_read toy_zero toy_in01 is_alnum_std E
                        (fmt_task str toy_show E (cast_to_task ex_question_sentence)) with POk r _ => Some r | _ => None end)
      [FORMAT_ASCII; FORMAT_LATEX] =
  [Some (NTask (ex_question_sentence, BudgetEmpty)); Some (NTask (ex_question_sentence, BudgetEmpty))].
Proof. exact ex_final_cast. Qed.
