(* Props/C01c.v -- C01 (enum format-then-parse) at the TERM level, UNCONDITIONAL for the ASCII and LaTeX
   formats: the name condition [unamb] of the parser-side theorem is discharged from the property's own
   well-formedness.  Statements only; proofs in Proofs/EnumUnambP.v.

   THEOREMS (every term size / nesting depth / set order, any float type F, any oracle `ia` for
   char::is_alphanumeric satisfying the 24 listed facts; Rust's own table satisfies them: C01c_alnum_facts_std):
     * C01c_term_ascii / C01c_term_latex : for every well-formed term t (wf_term = the property's
       well-formedness, spelled out in Props/C01a.v), the term parser run on the formatter's output
       returns exactly t and consumes exactly the whole text;
     * C01c_unamb_of_wf_ascii / _latex : the discharged side condition itself;
     * C01c_unamb_generic : the format-generic form -- for ANY format record passing the finite table checks
       parse_ok and unamb_fmt_ok, every surface tree whose atoms are well-formed (names with name_ok, the bare
       placeholder, digit intervals), at any spacing, in front of any text the name scan stops at, satisfies
       unamb;  C01c_sst_atoms : the formatter's canonical tree of a well-formed term is such a tree;
     * C01c_han_fails / C01c_K3_witness : the Han format does NOT pass the check, and must not: the well-formed
       term Implication(Word "x将", Word "y") prints as 「x将得y」, the text of ImplicationPredictive(x, y),
       which is what the parser returns (known class K3; inherent to Han, whose keywords are name characters
       and whose tokens are printed without separators).
   The copula look-ahead of the name scan is covered for BOTH values of the regenerated switch
   copula_lookahead_len_guard (with and without the length guard at the starts_with_str call).
   NOT COVERED HERE: sentence / task level (punctuation, stamp, truth, budget), the Han format beyond the
   conditional theorem of Props/C01a.v + Props/C09.v, the correspondence of the model with the Rust code
   (differential check of ./check C01). *)
From Nv Require Import Base.FloatDec Gen.Unicode Model.SstOf Model.SstOk Proofs.EnumTotalP Proofs.EnumFmtP Proofs.EnumTermP Proofs.EnumUnambP.

(* ---- the Unicode facts used ---- *)
Theorem C01c_alnum_facts_meaning : forall ia : N -> bool,
  alnum_facts ia =
  forallb (fun c => negb (ia c)) [32; 40; 41; 44; 47; 60; 61; 62; 91; 92; 93; 123; 124; 125]%N   (* space ( ) , / < = > [ \ ] { | } *)
  && forallb ia [48; 49; 50; 51; 52; 53; 54; 55; 56; 57]%N.                                      (* 0 .. 9 *)
Proof. exact alnum_facts_meaning. Qed.
Print Assumptions C01c_alnum_facts_meaning.

(* Rust's char::is_alphanumeric (range table dumped from std, Gen/Unicode.v) satisfies them *)
Theorem C01c_alnum_facts_std : alnum_facts (fun c => in_ranges alnum_ranges c) = true.
Proof. exact alnum_facts_std. Qed.
Print Assumptions C01c_alnum_facts_std.

(* each listed fact is needed by the check of one of the two formats *)
Theorem C01c_alnum_facts_all_needed :
  alnum_facts ascii_alnum = true /\
  forallb (fun c => negb (unamb_fmt_ok (flip ascii_alnum c) FORMAT_ASCII && unamb_fmt_ok (flip ascii_alnum c) FORMAT_LATEX))
          (nonalnum_chars ++ digits) = true.
Proof. exact alnum_facts_all_needed. Qed.
Print Assumptions C01c_alnum_facts_all_needed.

(* ---- the finite table check, spelled out ---- *)
Theorem C01c_unamb_fmt_ok_meaning : forall (ia : N -> bool) (E : efmt),
  unamb_fmt_ok ia E =
  forallb (head_not_name ia E) (statement_brackets_1 E :: space_parse E :: compound_separator E :: list_right_brackets E)
  && forallb (fun p => forallb (fun kw => match p with [] => head_not_name ia E kw | _ => incompat kw p end)
                               ((space_parse E :: compound_separator E :: list_right_brackets E) ++ left_brackets E))
             (map (fun a => fst a E) parse_atom_arms)
  && prefix_order_ok ia E
  && forallb (fun c => nonempty c
                       && forallb (fun j => negb (forallb (name_charb ia E) (take j c)) || ends [45]%N (take j c))
                                  (seq 1 (length c - 1))
                       && negb (forallb is_ascii_digit c))
             (gen_copulas E)
  && forallb (name_charb ia E) [48; 49; 50; 51; 52; 53; 54; 55; 56; 57]%N.
Proof. exact unamb_fmt_ok_meaning. Qed.
Print Assumptions C01c_unamb_fmt_ok_meaning.

Theorem C01c_tables : forall ia : N -> bool, alnum_facts ia = true ->
  unamb_fmt_ok ia FORMAT_ASCII = true /\ unamb_fmt_ok ia FORMAT_LATEX = true.
Proof. exact unamb_fmt_ok_plain. Qed.
Print Assumptions C01c_tables.

Theorem C01c_han_fails : unamb_fmt_ok (fun c => in_ranges alnum_ranges c) FORMAT_HAN = false.
Proof. exact unamb_fmt_ok_han_fails. Qed.
Print Assumptions C01c_han_fails.

(* ---- atoms of a surface tree ---- *)
Theorem C01c_satoms_ok_meaning : forall (ia : N -> bool) (E : efmt) (s : sterm),
  satoms_ok ia E s =
  match s with
  | SAtom arm name =>
      match nth_error parse_atom_arms arm with
      | Some (_, AIUnit _) =>
          match name with
          | [] => true
          | _ => forallb (name_charb ia E) name && negb (ends [45]%N name)
                 && negb (existsb (fun c => has_infix c name) (gen_copulas E))
          end
      | Some (_, AIName _) => name_ok ia E name
      | Some (_, AINum _) => nonempty name && forallb is_ascii_digit name
      | None => false
      end
  | SSet _ _ _ items _ | SComp _ _ _ items _ => forallb (satoms_ok ia E) items
  | SStmt arm _ _ _ _ x y => is_some (nth_error parse_statement_arms arm) && satoms_ok ia E x && satoms_ok ia E y
  end.
Proof. exact satoms_ok_meaning. Qed.
Print Assumptions C01c_satoms_ok_meaning.

Theorem C01c_sst_atoms : forall (ia : N -> bool) (E : efmt) (t : term),
  arms_cover E = true -> wf_term ia E t = true -> satoms_ok ia E (sst E t) = true.
Proof. exact sst_satoms_ok. Qed.
Print Assumptions C01c_sst_atoms.

Theorem C01c_unamb_generic : forall (ia : N -> bool) (E : efmt),
  parse_ok E = true -> unamb_fmt_ok ia E = true ->
  forall (s : sterm) (k : str), satoms_ok ia E s = true -> stop_ok ia E k = true -> unamb ia E s k = true.
Proof. exact unamb_of_satoms_ok. Qed.
Print Assumptions C01c_unamb_generic.

(* ---- the discharged side condition ---- *)
Theorem C01c_unamb_of_wf_ascii : forall ia : N -> bool, alnum_facts ia = true ->
  forall t : term, wf_term ia FORMAT_ASCII t = true -> unamb ia FORMAT_ASCII (sst FORMAT_ASCII t) [] = true.
Proof. exact unamb_of_wf_ascii. Qed.
Print Assumptions C01c_unamb_of_wf_ascii.

Theorem C01c_unamb_of_wf_latex : forall ia : N -> bool, alnum_facts ia = true ->
  forall t : term, wf_term ia FORMAT_LATEX t = true -> unamb ia FORMAT_LATEX (sst FORMAT_LATEX t) [] = true.
Proof. exact unamb_of_wf_latex. Qed.
Print Assumptions C01c_unamb_of_wf_latex.

(* ---- C01, term level: format then parse returns the term and consumes the whole text ---- *)
Theorem C01c_term_ascii : forall ia : N -> bool, alnum_facts ia = true ->
  forall (F : Type) (t : term), wf_term ia FORMAT_ASCII t = true ->
  parse_term F ia FORMAT_ASCII (new_state F (fmt_term FORMAT_ASCII t)) =
  POk t (step F (length (fmt_term FORMAT_ASCII t)) (new_state F (fmt_term FORMAT_ASCII t))).
Proof. exact C01_term_ascii. Qed.
Print Assumptions C01c_term_ascii.

Theorem C01c_term_latex : forall ia : N -> bool, alnum_facts ia = true ->
  forall (F : Type) (t : term), wf_term ia FORMAT_LATEX t = true ->
  parse_term F ia FORMAT_LATEX (new_state F (fmt_term FORMAT_LATEX t)) =
  POk t (step F (length (fmt_term FORMAT_LATEX t)) (new_state F (fmt_term FORMAT_LATEX t))).
Proof. exact C01_term_latex. Qed.
Print Assumptions C01c_term_latex.

(* instances at Rust's Unicode table *)
Theorem C01c_term_ascii_std : forall (F : Type) (t : term),
  wf_term is_alnum_std FORMAT_ASCII t = true ->
  parse_term F is_alnum_std FORMAT_ASCII (new_state F (fmt_term FORMAT_ASCII t)) =
  POk t (step F (length (fmt_term FORMAT_ASCII t)) (new_state F (fmt_term FORMAT_ASCII t))).
Proof. exact C01_term_ascii_std. Qed.
Print Assumptions C01c_term_ascii_std.

Theorem C01c_term_latex_std : forall (F : Type) (t : term),
  wf_term is_alnum_std FORMAT_LATEX t = true ->
  parse_term F is_alnum_std FORMAT_LATEX (new_state F (fmt_term FORMAT_LATEX t)) =
  POk t (step F (length (fmt_term FORMAT_LATEX t)) (new_state F (fmt_term FORMAT_LATEX t))).
Proof. exact C01_term_latex_std. Qed.
Print Assumptions C01c_term_latex_std.

(* the term of a sentence / task / Narsese value *)
Theorem C01c_value_term_plain : forall (ia : N -> bool) (E : efmt), alnum_facts ia = true ->
  E = FORMAT_ASCII \/ E = FORMAT_LATEX ->
  forall (F : Type) (v : narsese F), wf_value ia E v = true ->
  let t := match v with NTerm t => t | NSentence s => s_term s | NTask k => s_term (fst k) end in
  parse_term F ia E (new_state F (fmt_term E t)) = POk t (step F (length (fmt_term E t)) (new_state F (fmt_term E t))).
Proof. exact C01_value_term_plain. Qed.
Print Assumptions C01c_value_term_plain.

(* ---- Han: K3 in the model ---- *)
Theorem C01c_K3_witness :
  let t := TBox2 Implication (TName Word [120; 23558]%N) (TName Word [121]%N) in                 (* <x将 ==> y> *)
  let r := TBox2 ImplicationPredictive (TName Word [120]%N) (TName Word [121]%N) in              (* <x =/> y>  *)
  wf_term is_alnum_std FORMAT_HAN t = true /\
  unamb is_alnum_std FORMAT_HAN (sst FORMAT_HAN t) [] = false /\
  fmt_term FORMAT_HAN t = [12300; 120; 23558; 24471; 121; 12301]%N /\                               (* 「x将得y」 *)
  fmt_term FORMAT_HAN r = fmt_term FORMAT_HAN t /\
  exists st', parse_term unit is_alnum_std FORMAT_HAN (new_state unit (fmt_term FORMAT_HAN t)) = POk r st'.
Proof. exact K3_witness. Qed.
Print Assumptions C01c_K3_witness.

(* non-vacuity: the term using every constructor is well-formed in both formats *)
Example ex_C01c_hypotheses :
  alnum_facts is_alnum_std = true /\
  wf_term is_alnum_std FORMAT_ASCII ex_term = true /\ wf_term is_alnum_std FORMAT_LATEX ex_term = true.
Proof. exact ex_plain_hypotheses. Qed.
