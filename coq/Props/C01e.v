(* Props/C01e.v -- C01 (enum format-then-parse) for the HAN format, UNCONDITIONAL on a natural decidable
   subdomain: values all of whose atom names are KEYWORD-FREE.  With the C09 (every re-spacing) and C15
   (cast_to_task) corollaries on the same subdomain.  Statements only; proofs in Proofs/EnumHanP.v.

   BACKGROUND.  For ASCII and LaTeX, Props/C01d.v states parse (format v) = Ok v for every well-formed
   value.  For Han only a conditional form existed (C01d_value_han, under sent_unamb), because Han's
   keywords are ordinary letters and the property's well-formedness does not exclude
     K2  the word 预算 (any top-level text 预...算) is read as a budget            (C01b_han_K2)
     K3  「x将得y」: a name ending in 将, followed by the copula 得, reads x 将得 y  (C01c_K3_witness).

   THE CONDITION.  names_kwfree E v: no character of any atom name of v occurs in ANY keyword of the
   format record E (its 60 string fields).  For Han these are 57 characters (C01e_kwfree_name_han: the
   space, 14 brackets / separators / punctuation marks, 42 ideographs).  Decidable, local to a name,
   independent of context and spacing.  Names like 猫, 鸟狗, abc, x1, b-_c satisfy it; the K2 / K3
   witnesses do not (C01e_excludes_K2_K3).

   THE THEOREMS.
     C01e_value_han (and _std at Rust's Unicode table): for every enum Narsese value v -- term, sentence or
       task; any size, nesting, set order; every punctuation, stamp, truth and budget arity -- that is
       well-formed (wf_value, vals_ok: exactly the hypotheses of Props/C01d.v) and has keyword-free names,
       parsing the Han text of v returns POk v.
     C01e_C09_value_han / _nospace: the same for EVERY re-spacing of that text (any number of spaces at every
       token boundary, none included).
     C01e_C15_cast_han: the Han text of cast_to_task s parses to the task (s, empty budget).
     C01e_parse_input_han: ANY surface input (derived copulas, any readable number texts, any spacing)
       whose atoms are well-formed and keyword-free, with a punctuation between term and stamp / truth.
     C01e_unamb_han / C01e_C09_term_han: the term level (the name condition [unamb] of Props/C01c.v holds
       of every re-spacing, before every continuation the name scan stops at).
     C01e_value_generic, C01e_sent_unamb_kwfree, C01e_unamb_of_kwfree: the same for EVERY format record that
       passes two finite table checks (kwfree_term_ok, kwfree_sent_ok; spelled out below).  All three
       shipped formats pass them (C01e_tables_shipped): the argument is not Han-specific.

   HYPOTHESES beyond Props/C01d.v: ia = char::is_alphanumeric enters through 20 facts (alnum_facts_han):
   the ten characters the name scan must stop at -- space 」 ， 』 】 ） after an atom inside a term,
   。 ！ ？ ； after the term of a sentence -- are not alphanumeric, the ten ASCII digits are.  True of the
   table dumped from Rust's std (C01e_alnum_facts_han_std), each one needed (C01e_alnum_facts_han_all_needed).

   WHAT FOLLOWS AN ATOM (why no further condition is needed).  Inside a term an atom is followed by a
   space, the separator ，, a right bracket 』 】 ） 」, or a copula; after the term of a sentence by a
   punctuation 。！？；, a space or the end of the input.  The copulas are letters, but parse_atom's
   look-ahead is_copula_starts_at_head stops the scan in front of them, and no copula can start INSIDE a
   keyword-free name (its first character is a keyword character).  All the other followers start with
   a non-alphanumeric character.  The Han keywords that start with a letter and are not copulas (atom
   prefixes, connecters, stamp markers 过去 现在 将来 发生在, truth / budget brackets 真 值 预 算) never
   follow an atom directly: connecters and prefixes stand after a left bracket / separator, and the
   formatter always prints a punctuation between the term and a stamp / truth.  In a hand-written input
   without punctuation they can: C01e_follows_ok_needed (猫真1值 reads the WORD 猫真1值) -- this is the
   hypothesis follows_ok of C01e_parse_input_han, true of every text of a value.

   NOT COVERED HERE: the correspondence of the model with the Rust code (differential check of ./check C01). *)
From Nv Require Import Base.FloatDec Gen.Unicode Model.SstOf Model.SstOk Model.SstSent Proofs.EnumTotalP Proofs.EnumParseP
  Proofs.EnumFmtP Proofs.EnumTermP Proofs.EnumUnambP Proofs.EnumSentP Proofs.EnumFinalP Proofs.EnumHanP.

(* ---- the condition ---- *)
Theorem C01e_kwfree_name_meaning : forall (E : efmt) (n : str),
  kwfree_name E n = forallb (fun c => negb (memb c (concat (probe_fields E)))) n.   (* probe_fields: the 60 string fields *)
Proof. exact kwfree_name_meaning. Qed.
Print Assumptions C01e_kwfree_name_meaning.

Theorem C01e_kwfree_name_han : forall n : str,
  kwfree_name FORMAT_HAN n =
  forallb (fun c => negb (memb c
    [32;                                                                     (* space *)
     20219; 19968; 20854; 25152; 38382; 38388; 38548; 25805; 20316; 26576;   (* atom prefixes 任一 其一 所问 间隔 操作 某 *)
     65288; 65289; 65292; 12302; 12303; 12304; 12305;                        (* （ ） ， 『 』 【 】 *)
     22806; 20132; 20869; 24046; 31215; 20687; 19982; 25110; 38750; 25509; 36830; 21516; 26102;
                                                   (* connecters 外交 内交 外差 内差 积 外像 内像 与 或 非 接连 同时 *)
     12300; 12301;                                                           (* 「 」 *)
     26159; 20284; 24471; 20026; 26377; 20855; 23558; 29616; 26366;          (* copulas 是 似 得 同 为 有 具有 将得 现得 曾得 将同 现同 曾同 *)
     12290; 65281; 65311; 65307;                                             (* 。 ！ ？ ； *)
     36807; 21435; 22312; 26469; 21457; 29983;                               (* stamps 过去 现在 将来 发生在 *)
     30495; 20540; 12289; 39044; 31639]%N)) n.                               (* 真 值 、 预 算 *)
Proof. exact kwfree_name_han. Qed.
Print Assumptions C01e_kwfree_name_han.

Theorem C01e_term_kwfree_meaning : forall (E : efmt) (t : term),
  term_kwfree E t =
  match t with
  | TName _ n => kwfree_name E n
  | TUnit _ | TNum _ _ => true
  | TSet _ l | TVec _ l | TImg _ _ l => forallb (term_kwfree E) l
  | TBox1 _ a => term_kwfree E a
  | TBox2 _ a b => term_kwfree E a && term_kwfree E b
  end.
Proof. exact term_kwfree_meaning. Qed.
Print Assumptions C01e_term_kwfree_meaning.

Theorem C01e_names_kwfree_meaning : forall (E : efmt) (F : Type) (v : narsese F),
  names_kwfree E v = term_kwfree E (match v with NTerm t => t | NSentence s => s_term s | NTask k => s_term (fst k) end).
Proof. exact names_kwfree_meaning. Qed.
Print Assumptions C01e_names_kwfree_meaning.

Theorem C01e_skwfree_meaning : forall (E : efmt) (s : sterm),
  skwfree E s =
  match s with
  | SAtom _ name => kwfree_name E name
  | SSet _ _ _ items _ | SComp _ _ _ items _ => forallb (skwfree E) items
  | SStmt _ _ _ _ _ x y => skwfree E x && skwfree E y
  end.
Proof. exact skwfree_meaning. Qed.
Print Assumptions C01e_skwfree_meaning.

(* the K2 / K3 witnesses are well-formed and outside the subdomain *)
Theorem C01e_excludes_K2_K3 :
  wf_term is_alnum_std FORMAT_HAN (TName Word [39044; 31639]%N) = true /\          (* 预算 *)
  term_kwfree FORMAT_HAN (TName Word [39044; 31639]%N) = false /\
  wf_term is_alnum_std FORMAT_HAN k3_term = true /\ term_kwfree FORMAT_HAN k3_term = false.   (* 「x将得y」 *)
Proof. exact kwfree_excludes_K2_K3. Qed.
Print Assumptions C01e_excludes_K2_K3.

Theorem C01e_kw_chars_han_count :
  length (nodup N.eq_dec (kw_chars FORMAT_HAN)) = 57%nat /\
  length (filter is_alnum_std (nodup N.eq_dec (kw_chars FORMAT_HAN))) = 42%nat.
Proof. exact kw_chars_han_count. Qed.
Print Assumptions C01e_kw_chars_han_count.

(* ---- the Unicode facts ---- *)
Theorem C01e_alnum_facts_han_meaning : forall ia : N -> bool,
  alnum_facts_han ia =
  forallb (fun c => negb (ia c)) [32; 12301; 65292; 12303; 12305; 65289; 12290; 65281; 65311; 65307]%N   (* space 」 ， 』 】 ） 。 ！ ？ ； *)
  && forallb ia [48; 49; 50; 51; 52; 53; 54; 55; 56; 57]%N.
Proof. exact alnum_facts_han_meaning. Qed.
Print Assumptions C01e_alnum_facts_han_meaning.

Theorem C01e_alnum_facts_han_std : alnum_facts_han (fun c => in_ranges alnum_ranges c) = true.
Proof. exact alnum_facts_han_std. Qed.
Print Assumptions C01e_alnum_facts_han_std.

Theorem C01e_alnum_facts_han_all_needed :
  alnum_facts_han ascii_alnum = true /\
  forallb (fun c => negb (kwfree_term_ok (flip ascii_alnum c) FORMAT_HAN && kwfree_sent_ok (flip ascii_alnum c) FORMAT_HAN))
          (han_nonalnum_chars ++ digits) = true.
Proof. exact alnum_facts_han_all_needed. Qed.
Print Assumptions C01e_alnum_facts_han_all_needed.

(* ---- the two finite table checks, spelled out ---- *)
Theorem C01e_kwfree_term_ok_meaning : forall (ia : N -> bool) (E : efmt),
  kwfree_term_ok ia E =
  (* the keywords compared with the first character of a name are among the 60 fields (the arm tables are regenerated) *)
  forallb (fun kw => existsb (str_eqb kw) (probe_fields E))
          ((statement_brackets_1 E :: space_parse E :: compound_separator E :: list_right_brackets E)
           ++ left_brackets E ++ map (fun a => fst a E) parse_atom_arms ++ gen_copulas E ++ [task_budget_brackets_0 E])
  (* the name scan stops in front of the statement's right bracket, a space, the separator, a right bracket *)
  && forallb (head_not_name ia E) (statement_brackets_1 E :: space_parse E :: compound_separator E :: list_right_brackets E)
  (* no delimiter / left bracket starts the text of an atom: incompatible with its non-empty prefix; non-empty
     when the prefix is empty (the text then starts with a keyword-free character) *)
  && forallb (fun p => forallb (fun kw => match p with [] => nonempty kw | _ => incompat kw p end)
                               ((space_parse E :: compound_separator E :: list_right_brackets E) ++ left_brackets E))
             (map (fun a => fst a E) parse_atom_arms)
  (* the same for the prefixes parse_atom tests earlier *)
  && forallb (fun i => match nth_error (map (fun a => fst a E) parse_atom_arms) i with
                       | Some p => forallb (fun q => match p with [] => nonempty q | _ => incompat q p end)
                                           (firstn i (map (fun a => fst a E) parse_atom_arms))
                       | None => true
                       end) (seq 0 (length (map (fun a => fst a E) parse_atom_arms)))
  (* a copula has a first character (a keyword character: no copula starts inside a keyword-free name) *)
  && forallb nonempty (gen_copulas E)
  (* interval names: the digits are name characters and occur in no keyword *)
  && forallb (name_charb ia E) [48; 49; 50; 51; 52; 53; 54; 55; 56; 57]%N
  && kwfree_name E [48; 49; 50; 51; 52; 53; 54; 55; 56; 57]%N.
Proof. exact kwfree_term_ok_meaning. Qed.
Print Assumptions C01e_kwfree_term_ok_meaning.

Theorem C01e_kwfree_sent_ok_meaning : forall (ia : N -> bool) (E : efmt),
  kwfree_sent_ok ia E =
  (* the name scan stops in front of every punctuation mark *)
  forallb (fun x => head_not_name ia E (fst (fst x) E)) punct_arms
  (* a budget needs its closing bracket (regenerated parser switch) *)
  && budget_requires_close && nonempty (task_budget_brackets_1 E)
  (* a composite term does not start with the budget's left bracket *)
  && forallb (fun lb => diverge (task_budget_brackets_0 E) lb) (left_brackets E)
  (* nor does an atom: a word starts with a keyword-free character, a non-empty prefix diverges from the
     bracket -- or IS it (ASCII `$x`, LaTeX `\$x`; not Han) and then no closing bracket can follow *)
  && forallb (fun p => match p with
                       | [] => nonempty (task_budget_brackets_0 E)
                       | _ => diverge (task_budget_brackets_0 E) p
                              || (str_eqb p (task_budget_brackets_0 E) && close_ok ia E)
                       end) (map (fun a => fst a E) parse_atom_arms).
Proof. exact kwfree_sent_ok_meaning. Qed.
Print Assumptions C01e_kwfree_sent_ok_meaning.

Theorem C01e_close_ok_meaning : forall (ia : N -> bool) (E : efmt),
  close_ok ia E =
  nonempty (task_budget_brackets_1 E) && memb (last (task_budget_brackets_1 E) 0%N) (task_budget_brackets_1 E)
  && negb (name_charb ia E (last (task_budget_brackets_1 E) 0%N))
  && negb (is_int_char (last (task_budget_brackets_1 E) 0%N)) && negb (is_float_char (last (task_budget_brackets_1 E) 0%N))
  && forallb (fun kw => forallb (fun c => negb (c =? last (task_budget_brackets_1 E) 0)%N) kw)
       (space_parse E :: map (fun x => fst (fst x) E) punct_arms
        ++ sentence_stamp_brackets_0 E :: sentence_stamp_brackets_1 E :: map (fun x => fst (fst x) E) stamp_arms
        ++ [sentence_truth_brackets_0 E; sentence_truth_brackets_1 E; sentence_truth_separator E]).
Proof. exact close_ok_meaning. Qed.
Print Assumptions C01e_close_ok_meaning.

Theorem C01e_tables_han : forall ia : N -> bool, alnum_facts_han ia = true ->
  kwfree_term_ok ia FORMAT_HAN = true /\ kwfree_sent_ok ia FORMAT_HAN = true.
Proof. exact kwfree_tables_han. Qed.
Print Assumptions C01e_tables_han.

(* all three shipped formats pass *)
Theorem C01e_tables_shipped : forall ia : N -> bool,
  alnum_facts ia = true -> alnum_facts2 ia = true -> alnum_facts_han ia = true ->
  forall E, shipped E -> kwfree_term_ok ia E = true /\ kwfree_sent_ok ia E = true.
Proof. exact kwfree_tables_shipped. Qed.
Print Assumptions C01e_tables_shipped.

(* ---- format-generic: the name condition, the back-off conditions, the round trip ---- *)
Theorem C01e_unamb_of_kwfree : forall (ia : N -> bool) (E : efmt),
  parse_ok E = true -> kwfree_term_ok ia E = true ->
  forall (s : sterm) (k : str),
    satoms_ok ia E s = true -> skwfree E s = true -> stop_ok ia E k = true -> unamb ia E s k = true.
Proof. exact unamb_of_kwfree. Qed.
Print Assumptions C01e_unamb_of_kwfree.

Theorem C01e_sent_unamb_kwfree :
  forall (F : Type) (fread : str -> option F) (fzero : F) (in01 : F -> bool) (ia : N -> bool) (E : efmt),
    parse_ok E = true -> kwfree_term_ok ia E = true -> sent_ok E = true -> kwfree_sent_ok ia E = true ->
    forall s : snarsese,
      sitems_ok s = true -> satoms_ok ia E (sn_term s) = true -> skwfree E (sn_term s) = true ->
      follows_ok s = true -> stamp_nf E s = true ->
      sent_unamb F fread fzero in01 E (unamb ia E) s = true.
Proof. exact sent_unamb_kwfree. Qed.
Print Assumptions C01e_sent_unamb_kwfree.

Theorem C01e_value_generic :
  forall (F : Type) (fshow : F -> str) (fread : str -> option F) (fzero : F) (in01 okn : F -> bool)
         (ia : N -> bool) (E : efmt) (kt ki : nat),
    parse_ok E = true -> sent_ok E = true -> fmt_tables_ok E kt ki = true -> fmt_space_ok E = true -> arms_cover E = true ->
    kwfree_term_ok ia E = true -> kwfree_sent_ok ia E = true ->
    fread [] = None -> in01 fzero = true -> (forall x : F, okn x = true -> in01 x = true) ->
    (forall x : F, okn x = true -> fread (fshow x) = Some x) ->
    (forall x : F, okn x = true -> fshow x <> [] /\ Forall (fun c : N => is_float_char c = true) (fshow x)) ->
    forall v : narsese F, wf_value ia E v = true -> names_kwfree E v = true -> vals_ok F okn v = true ->
      exists st : pstate F, parse_narsese F fread fzero in01 ia E (fmt_narsese F fshow E v) = POk v st.
Proof. exact C01_value_kwfree. Qed.
Print Assumptions C01e_value_generic.

(* ---- Han, term level ---- *)
Theorem C01e_unamb_han : forall ia : N -> bool, alnum_facts_han ia = true ->
  forall (t : term) (s : sterm) (k : str),
    wf_term ia FORMAT_HAN t = true -> term_kwfree FORMAT_HAN t = true -> same_shape s (sst FORMAT_HAN t) ->
    stop_ok ia FORMAT_HAN k = true -> unamb ia FORMAT_HAN s k = true.
Proof. exact unamb_han_kwfree. Qed.
Print Assumptions C01e_unamb_han.

Theorem C01e_C09_term_han : forall ia : N -> bool, alnum_facts_han ia = true ->
  forall (F : Type) (t : term) (s : sterm) (k : str) (L : nat) (st : pstate F),
    wf_term ia FORMAT_HAN t = true -> term_kwfree FORMAT_HAN t = true -> same_shape s (sst FORMAT_HAN t) ->
    stop_ok ia FORMAT_HAN k = true -> wf F L st -> s_rest st = render FORMAT_HAN s ++ k ->
    parse_term F ia FORMAT_HAN st = POk t (step F (length (render FORMAT_HAN s)) st).
Proof. exact C09_term_han_kwfree. Qed.
Print Assumptions C01e_C09_term_han.

(* ---- Han, whole inputs and values: THE theorems ---- *)
Theorem C01e_parse_input_han : forall ia : N -> bool, alnum_facts_han ia = true ->
  forall (F : Type) (fread : str -> option F) (fzero : F) (in01 : F -> bool),
    fread [] = None -> in01 fzero = true ->
    forall (s : snarsese) (v : narsese F),
      odesugar_narsese F fread in01 s = Some v -> satoms_ok ia FORMAT_HAN (sn_term s) = true ->
      skwfree FORMAT_HAN (sn_term s) = true -> follows_ok s = true ->
      exists st : pstate F, parse_narsese F fread fzero in01 ia FORMAT_HAN (render_narsese FORMAT_HAN s) = POk v st.
Proof. exact parse_kwfree_input_han. Qed.
Print Assumptions C01e_parse_input_han.

Theorem C01e_value_han : forall ia : N -> bool, alnum_facts_han ia = true ->
  forall (F : Type) (fshow : F -> str) (fread : str -> option F) (fzero : F) (in01 okn : F -> bool),
    fread [] = None -> in01 fzero = true -> (forall x : F, okn x = true -> in01 x = true) ->
    (forall x : F, okn x = true -> fread (fshow x) = Some x) ->
    (forall x : F, okn x = true -> fshow x <> [] /\ Forall (fun c : N => is_float_char c = true) (fshow x)) ->
    forall v : narsese F, wf_value ia FORMAT_HAN v = true -> names_kwfree FORMAT_HAN v = true -> vals_ok F okn v = true ->
      exists st : pstate F,
        parse_narsese F fread fzero in01 ia FORMAT_HAN (fmt_narsese F fshow FORMAT_HAN v) = POk v st.
Proof. exact C01_value_han_kwfree. Qed.
Print Assumptions C01e_value_han.

Theorem C01e_value_han_std :
  forall (F : Type) (fshow : F -> str) (fread : str -> option F) (fzero : F) (in01 okn : F -> bool),
    fread [] = None -> in01 fzero = true -> (forall x : F, okn x = true -> in01 x = true) ->
    (forall x : F, okn x = true -> fread (fshow x) = Some x) ->
    (forall x : F, okn x = true -> fshow x <> [] /\ Forall (fun c : N => is_float_char c = true) (fshow x)) ->
    forall v : narsese F,
      wf_value is_alnum_std FORMAT_HAN v = true -> names_kwfree FORMAT_HAN v = true -> vals_ok F okn v = true ->
      exists st : pstate F,
        parse_narsese F fread fzero in01 is_alnum_std FORMAT_HAN (fmt_narsese F fshow FORMAT_HAN v) = POk v st.
Proof. exact C01_value_han_kwfree_std. Qed.
Print Assumptions C01e_value_han_std.

(* ---- C09 on the subdomain: the formatter's output is the rendering of the canonical surface input (Han:
   no space around copulas, after separators, between the items of a sentence; one between budget and
   sentence), and EVERY surface input with the same erasure parses to the value ---- *)
Theorem C01e_value_canonical_han : forall ia : N -> bool,
  forall (F : Type) (fshow : F -> str) (v : narsese F), wf_value ia FORMAT_HAN v = true ->
    fmt_narsese F fshow FORMAT_HAN v =
    render_narsese FORMAT_HAN (canon_narsese F fshow 0 1 (sst FORMAT_HAN (nv_term v)) v).
Proof. exact value_canonical_han. Qed.
Print Assumptions C01e_value_canonical_han.

Theorem C01e_C09_value_han : forall ia : N -> bool, alnum_facts_han ia = true ->
  forall (F : Type) (fshow : F -> str) (fread : str -> option F) (fzero : F) (in01 okn : F -> bool),
    fread [] = None -> in01 fzero = true -> (forall x : F, okn x = true -> in01 x = true) ->
    (forall x : F, okn x = true -> fread (fshow x) = Some x) ->
    (forall x : F, okn x = true -> fshow x <> [] /\ Forall (fun c : N => is_float_char c = true) (fshow x)) ->
    forall (v : narsese F) (s' : snarsese),
      wf_value ia FORMAT_HAN v = true -> names_kwfree FORMAT_HAN v = true -> vals_ok F okn v = true ->
      erase s' = erase (canon_narsese F fshow 0 1 (sst FORMAT_HAN (nv_term v)) v) ->
      exists st : pstate F, parse_narsese F fread fzero in01 ia FORMAT_HAN (render_narsese FORMAT_HAN s') = POk v st.
Proof. exact C09_value_han_kwfree. Qed.
Print Assumptions C01e_C09_value_han.

Theorem C01e_C09_value_han_nospace : forall ia : N -> bool, alnum_facts_han ia = true ->
  forall (F : Type) (fshow : F -> str) (fread : str -> option F) (fzero : F) (in01 okn : F -> bool),
    fread [] = None -> in01 fzero = true -> (forall x : F, okn x = true -> in01 x = true) ->
    (forall x : F, okn x = true -> fread (fshow x) = Some x) ->
    (forall x : F, okn x = true -> fshow x <> [] /\ Forall (fun c : N => is_float_char c = true) (fshow x)) ->
    forall v : narsese F,
      wf_value ia FORMAT_HAN v = true -> names_kwfree FORMAT_HAN v = true -> vals_ok F okn v = true ->
      exists st : pstate F,
        parse_narsese F fread fzero in01 ia FORMAT_HAN
          (render_narsese FORMAT_HAN (erase (canon_narsese F fshow 0 1 (sst FORMAT_HAN (nv_term v)) v))) = POk v st.
Proof. exact C09_value_han_nospace. Qed.
Print Assumptions C01e_C09_value_han_nospace.

(* ---- C15 on the subdomain ---- *)
Theorem C01e_C15_cast_han : forall ia : N -> bool, alnum_facts_han ia = true ->
  forall (F : Type) (fshow : F -> str) (fread : str -> option F) (fzero : F) (in01 okn : F -> bool),
    fread [] = None -> in01 fzero = true -> (forall x : F, okn x = true -> in01 x = true) ->
    (forall x : F, okn x = true -> fread (fshow x) = Some x) ->
    (forall x : F, okn x = true -> fshow x <> [] /\ Forall (fun c : N => is_float_char c = true) (fshow x)) ->
    forall s : sentence F,
      wf_term ia FORMAT_HAN (s_term s) = true -> term_kwfree FORMAT_HAN (s_term s) = true -> sent_vals_ok F okn s = true ->
      exists st : pstate F,
        parse_narsese F fread fzero in01 ia FORMAT_HAN (fmt_task F fshow FORMAT_HAN (cast_to_task s)) =
        POk (NTask (s, BudgetEmpty)) st.
Proof. exact C15_cast_han_kwfree. Qed.
Print Assumptions C01e_C15_cast_han.

(* ---- follows_ok is needed in Han for hand-written inputs (never for texts of values) ---- *)
Theorem C01e_follows_ok_needed :
  odesugar_narsese str toy_read toy_in01 ex_han_no_punct = Some (NTerm (TName Word [29483]%N)) /\
  satoms_ok is_alnum_std FORMAT_HAN (sn_term ex_han_no_punct) = true /\ skwfree FORMAT_HAN (sn_term ex_han_no_punct) = true /\
  follows_ok ex_han_no_punct = false /\
  render_narsese FORMAT_HAN ex_han_no_punct = [29483; 30495; 49; 20540]%N /\                         (* 猫真1值 *)
  exists st, parse_narsese str toy_read toy_zero toy_in01 is_alnum_std FORMAT_HAN (render_narsese FORMAT_HAN ex_han_no_punct)
             = POk (NTerm (TName Word [29483; 30495; 49; 20540]%N)) st.
Proof. exact follows_ok_needed_han. Qed.
Print Assumptions C01e_follows_ok_needed.

(* ---- non-vacuity ---- *)
Example ex_C01e_oracles :
  toy_read [] = None /\ toy_in01 toy_zero = true /\ (forall x, toy_in01 x = true -> toy_in01 x = true) /\
  (forall x, toy_in01 x = true -> toy_read (toy_show x) = Some x) /\
  (forall x, toy_in01 x = true -> toy_show x <> [] /\ Forall (fun c => is_float_char c = true) (toy_show x)).
Proof. exact toy_oracles_final. Qed.

(* five Han values -- the task 预0.5、0.75、1算 「猫是鸟狗」。发生在-12真1、0.9值 ; the question 『abc，任一x1，间隔42』？ ;
   the bare word 鸟狗 ; the task of Props/C01d.v over the term with all 30 constructors (names A1, b-_c, x1, 猫) ;
   the judgement on the lone variable 任一x -- satisfy every hypothesis, and the parser model (run by
   vm_compute, independently of the theorems) returns each value, also on the text with every space removed *)
Example ex_C01e_han :
  alnum_facts_han is_alnum_std = true /\
  forallb ex_hyp_han ex_han_values = true /\
  map (ex_roundtrip FORMAT_HAN) ex_han_values = map Some ex_han_values /\
  map ex_nospace_han ex_han_values = map Some ex_han_values /\
  fmt_narsese str toy_show FORMAT_HAN ex_han_task =
    [39044; 48; 46; 53; 12289; 48; 46; 55; 53; 12289; 49; 31639; 32; 12300; 29483; 26159; 40479; 29399; 12301; 12290;
     21457; 29983; 22312; 45; 49; 50; 30495; 49; 12289; 48; 46; 57; 20540]%N.
Proof. exact ex_han_kwfree. Qed.
