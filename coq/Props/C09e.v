(* Props/C09e.v -- C09 (whitespace between tokens never changes what is parsed) for WHOLE enum inputs --
   terms, sentences, tasks -- in the ASCII and LaTeX formats, UNCONDITIONAL: the hypotheses TermParses,
   unamb and sent_unamb of Props/C09b.v are discharged.  Statements only; proofs in Proofs/EnumFinalP.v.

   A surface input (Model/SstSent.v: snarsese; its term: Model/Sst.v: sterm) records the NUMBER OF SPACE
   KEYWORDS AT EVERY BOUNDARY the syntax has: before the first item and after the last; after the budget;
   before the punctuation, the stamp and the truth; inside the budget and truth after the left bracket,
   on both sides of every separator and before the right bracket; inside a stamp after the left bracket,
   between the fixed marker and its integer and before the right bracket; and inside the term after every
   left bracket, before every right bracket, on both sides of every separator, connecter and copula.
   "Differ only in spacing" = equal erasures ([erase] sets every annotation to 0).

     * C09d_value_any_spacing : for every well-formed value v (Props/C01d.v) EVERY surface input with the
       erasure of the formatter's canonical input -- the same tokens with any number of spaces at every
       boundary, none included -- parses to v;  C09d_value_canonical: the canonical input renders to the
       formatter's output;  C09d_value_nospace: the instance "every space removed" (what enum_nse! hands
       to the parser);
     * C09d_inputs_any_spacing : the general form, not restricted to formatter output: two surface inputs
       with equal erasures, the first having a meaning v (documented meaning odesugar_narsese: derived
       copulas, image index, any readable number text such as `1.` or `.5`, a stamp / truth without
       punctuation is dropped), well-formed atoms (satoms_ok, Props/C01c.v) and a punctuation wherever a
       stamp or truth is written (follows_ok), BOTH parse to v.
   Hypotheses: as in Props/C01d.v (30 facts about char::is_alphanumeric; the float oracles).
   In LaTeX the left stamp bracket is empty: an annotation "spaces after it" denotes the same text as the
   same number of additional spaces before the stamp; the theorems cover both ways of writing it.
   Han cannot be covered (Props/C09.v ex_C09_han_same_text).
   NOT COVERED HERE: the lexical pipeline; Unicode whitespace other than the format's space keyword; the
   correspondence of the model with the Rust parser on re-spaced inputs (differential check of ./check C09). *)
From Nv Require Import Base.FloatDec Gen.Unicode Model.SstOf Model.SstOk Model.SstSent Proofs.EnumTotalP Proofs.EnumParseP
  Proofs.EnumFmtP Proofs.EnumTermP Proofs.EnumUnambP Proofs.EnumSentP Proofs.EnumFinalP.

Theorem C09d_value_canonical : forall (ia : N -> bool) (E : efmt),
  alnum_facts ia = true -> alnum_facts2 ia = true -> E = FORMAT_ASCII \/ E = FORMAT_LATEX ->
  forall (F : Type) (fshow : F -> str) (v : narsese F), wf_value ia E v = true ->
    fmt_narsese F fshow E v = render_narsese E (canon_narsese F fshow 1 1 (sst E (nv_term v)) v).
Proof. exact value_canonical. Qed.
Print Assumptions C09d_value_canonical.

Theorem C09d_value_any_spacing : forall (ia : N -> bool) (E : efmt),
  alnum_facts ia = true -> alnum_facts2 ia = true -> E = FORMAT_ASCII \/ E = FORMAT_LATEX ->
  forall (F : Type) (fshow : F -> str) (fread : str -> option F) (fzero : F) (in01 okn : F -> bool),
    fread [] = None -> in01 fzero = true -> (forall x : F, okn x = true -> in01 x = true) ->
    (forall x : F, okn x = true -> fread (fshow x) = Some x) ->
    (forall x : F, okn x = true -> fshow x <> [] /\ Forall (fun c : N => is_float_char c = true) (fshow x)) ->
    forall (v : narsese F) (s' : snarsese),
      wf_value ia E v = true -> vals_ok F okn v = true ->
      erase s' = erase (canon_narsese F fshow 1 1 (sst E (nv_term v)) v) ->
      exists st : pstate F, parse_narsese F fread fzero in01 ia E (render_narsese E s') = POk v st.
Proof. exact C09_value_plain. Qed.
Print Assumptions C09d_value_any_spacing.

Theorem C09d_value_nospace : forall (ia : N -> bool) (E : efmt),
  alnum_facts ia = true -> alnum_facts2 ia = true -> E = FORMAT_ASCII \/ E = FORMAT_LATEX ->
  forall (F : Type) (fshow : F -> str) (fread : str -> option F) (fzero : F) (in01 okn : F -> bool),
    fread [] = None -> in01 fzero = true -> (forall x : F, okn x = true -> in01 x = true) ->
    (forall x : F, okn x = true -> fread (fshow x) = Some x) ->
    (forall x : F, okn x = true -> fshow x <> [] /\ Forall (fun c : N => is_float_char c = true) (fshow x)) ->
    forall v : narsese F,
      wf_value ia E v = true -> vals_ok F okn v = true ->
      exists st : pstate F,
        parse_narsese F fread fzero in01 ia E
          (render_narsese E (erase (canon_narsese F fshow 1 1 (sst E (nv_term v)) v))) = POk v st.
Proof. exact C09_value_nospace. Qed.
Print Assumptions C09d_value_nospace.

Theorem C09d_inputs_any_spacing : forall (ia : N -> bool) (E : efmt),
  alnum_facts ia = true -> alnum_facts2 ia = true -> E = FORMAT_ASCII \/ E = FORMAT_LATEX ->
  forall (F : Type) (fread : str -> option F) (fzero : F) (in01 : F -> bool),
    fread [] = None -> in01 fzero = true ->
    forall (s s' : snarsese) (v : narsese F),
      erase s = erase s' ->
      odesugar_narsese F fread in01 s = Some v -> satoms_ok ia E (sn_term s) = true -> follows_ok s = true ->
      (exists st : pstate F, parse_narsese F fread fzero in01 ia E (render_narsese E s) = POk v st) /\
      (exists st : pstate F, parse_narsese F fread fzero in01 ia E (render_narsese E s') = POk v st).
Proof. exact C09_inputs_plain. Qed.
Print Assumptions C09d_inputs_any_spacing.

(* every surface input with well-formed atoms parses to its documented meaning (the theorem behind the above) *)
Theorem C09d_input_parses : forall (ia : N -> bool) (E : efmt),
  alnum_facts ia = true -> alnum_facts2 ia = true -> E = FORMAT_ASCII \/ E = FORMAT_LATEX ->
  forall (F : Type) (fread : str -> option F) (fzero : F) (in01 : F -> bool),
    fread [] = None -> in01 fzero = true ->
    forall (s : snarsese) (v : narsese F),
      odesugar_narsese F fread in01 s = Some v -> satoms_ok ia E (sn_term s) = true -> follows_ok s = true ->
      exists st : pstate F, parse_narsese F fread fzero in01 ia E (render_narsese E s) = POk v st.
Proof. exact parse_wf_input_plain. Qed.
Print Assumptions C09d_input_parses.

(* non-vacuity: the texts with every space removed of a full task and of `$x. :|: %1;0.9%` parse to the values *)
Example ex_C09d_nospace :
  map (fun E => ex_nospace E ex_task_value) [FORMAT_ASCII; FORMAT_LATEX] = [Some ex_task_value; Some ex_task_value] /\
  map (fun E => ex_nospace E ex_dollar_value) [FORMAT_ASCII; FORMAT_LATEX] = [Some ex_dollar_value; Some ex_dollar_value] /\
  render_narsese FORMAT_ASCII (erase (canon_narsese str toy_show 1 1 (sst FORMAT_ASCII (nv_term ex_dollar_value)) ex_dollar_value))
    = [36; 120; 46; 58; 124; 58; 37; 49; 59; 48; 46; 57; 37]%N.                           (* $x.:|:%1;0.9% *)
Proof. exact ex_final_nospace. Qed.
