(* Props/C03c.v -- C03 at the VALUE level (terms, sentences, tasks), ASCII and LaTeX: direct enum parsing and
   lexical parsing + folding of the text of a well-formed value both succeed and give the same value.
   Statements only; proofs in Proofs/AgreeValueP.v (definitions in Model/AgreeValue.v).

   Objects.  v : narsese F is an enum value (F the float type; fshow / fread = f64 Display / FromStr, abstract,
   with the shortest-round-trip contract on [0,1] as hypotheses H_rt, H_cs).  fmt_narsese F fshow E v is the
   enum formatter's text; value_text F fshow E tt v is the same text with tt standing for the term inside
   (fmt_narsese F fshow E v = value_text (fmt_term E (nv_term v)) v, C03c_value_text_fmt).  The lexical value
   that text denotes is lex_of_narsese F fshow E v (Model/Readme.v; = the one of Proofs/FoldP3.v used by
   C03_fold_lex_of_narsese, = lex_value_of (lex_tree E (sst E t)) v: C03c_lex_trees_same): the lexical tree of
   the term, the punctuation keyword, the stamp text, the numbers as printed.
   wf_value / vals_ok: the property's well-formedness (names, arities, image index; numbers in [0,1], fixed
   stamp within isize).

   WHAT IS PROVED, for (E, L) = (FORMAT_ASCII, LEX_ASCII) and (FORMAT_LATEX, LEX_LATEX), char::is_alphanumeric
   = the table dumped from Rust's std, EVERY well-formed value v:
   (a) C03c_lex_pipeline_ascii_latex -- UNCONDITIONAL (oracle hypotheses only):
         lex_parse L s = LOk (lex_of_narsese v)   and   fold (lex_of_narsese v) = FOk v
       for every text s with the whitespace-free form of fmt_narsese v (the text itself; any Unicode
       White_Space inserted anywhere: C09 for the lexical pipeline at the value level);
   (b) C03_value_ascii_latex -- with the enum side  parse_narsese E (fmt_narsese v) = POk v _  (C01 for whole
       values, assembled in Proofs/EnumFinalP.v) as the explicit premise Henum: both pipelines return v;
   (c) C03c_agree_value_tree_ascii_latex -- WITHOUT Henum, for the text of v with its term written as ANY
       surface tree st that means it and has well-formed atoms (the formatter's own tree, any re-spacing,
       derived copulas at any depth), under the decidable back-off condition sent_unamb of the sentence-level
       enum theorem (Props/C01b.v) evaluated on that text: both pipelines return v.
   Domain of the lexical side: ALL well-formed values, including those outside C02's vocab_ok -- images
   (placeholder atom with an empty name), names containing keyword characters (`a_b`, `x-y`): the value layer
   of the lexical parser is re-proved for the domain lvalue_ok (C03c_lex_value_layer), which contains vocab_ok
   (C03c_vocab_in_domain), under explicit unambiguity conditions that are derived from the enum-side
   conditions of the term as in Props/C03b.v.
   The table conditions agree_value_all are finite checks on the regenerated tables (C03c_tables_ok); they FAIL
   for Han (C03c_han_tables_fail: the budget bracket is a name character, bare atoms are not delimited --
   known classes K2, K5), for which nothing is claimed here.

   Consolidation (C03c_lfmt_is_lex_fmt): the second lexical formatter model of Model/Readme.v (lfmt_narsese, used
   by C11) IS the lexical formatter model of Model/LexFormatter.v (lex_fmt, tied to the code by C02's
   correspondence check), for every lexical format; and the enum formatter prints what the lexical formatter
   of the same name prints for lex_of_narsese v (C03c_fmt_narsese_is_lex_fmt: ASCII and LaTeX; not Han,
   whose two spacing strings differ). *)
From Nv Require Import Model.AgreeValue.
From Nv Require Import Proofs.LexPTotal Proofs.LexPMain Proofs.LexPTables Proofs.FoldP2 Proofs.FoldP3 Proofs.EnumSentP
                       Proofs.EnumUnambP Proofs.EnumTermCor Proofs.AgreeP Proofs.AgreeValueP.
Import ListNotations.

(* ---- 1. consolidation of the formatter models ---- *)
Theorem C03c_lfmt_is_lex_fmt : forall (L : lfmt) (x : lnarsese), lfmt_narsese (layout_of_lfmt L) x = lex_fmt L x.
Proof. exact lfmt_is_lex_fmt. Qed.
Print Assumptions C03c_lfmt_is_lex_fmt.

Theorem C03c_lfmt_ascii_is_lex_fmt : forall x : lnarsese, lfmt_narsese lex_ascii_layout x = lex_fmt LEX_ASCII x.
Proof. exact lfmt_ascii_is_lex_fmt. Qed.
Print Assumptions C03c_lfmt_ascii_is_lex_fmt.

Theorem C03c_fmt_narsese_is_lex_fmt : forall (F : Type) (fshow : F -> str) (E : efmt) (L : lfmt),
  same_layout E L = true ->
  forall v : narsese F, fmt_narsese F fshow E v = lex_fmt L (Readme.lex_of_narsese F fshow E v).
Proof. exact fmt_narsese_is_lex_fmt. Qed.
Print Assumptions C03c_fmt_narsese_is_lex_fmt.

Theorem C03c_same_layout_shipped :
  same_layout FORMAT_ASCII LEX_ASCII = true /\ same_layout FORMAT_LATEX LEX_LATEX = true /\
  same_layout FORMAT_HAN LEX_HAN = false.
Proof. exact same_layout_shipped. Qed.
Print Assumptions C03c_same_layout_shipped.

(* the three maps "enum term -> lexical term" of the development coincide *)
Theorem C03c_lex_trees_same : forall (E : efmt) (t : term) (s : sterm),
  sst_of E t = Some s ->
  lex_tree E s = FoldP2.lex_of_term E t /\ Readme.lex_of_term E t = FoldP2.lex_of_term E t.
Proof. exact (fun E t s H => conj (lex_tree_sst E t s H) (lex_of_term_same E t)). Qed.
Print Assumptions C03c_lex_trees_same.

Theorem C03c_lex_of_narsese_same : forall (F : Type) (fshow : F -> str) (E : efmt) (v : narsese F),
  Readme.lex_of_narsese F fshow E v = FoldP3.lex_of_narsese F fshow E v.
Proof. exact lex_of_narsese_same. Qed.
Print Assumptions C03c_lex_of_narsese_same.

Theorem C03c_value_text_fmt : forall (F : Type) (fshow : F -> str) (E : efmt) (v : narsese F),
  fmt_narsese F fshow E v = value_text F fshow E (fmt_term E (nv_term v)) v.
Proof. exact value_text_fmt. Qed.
Print Assumptions C03c_value_text_fmt.

(* ---- 2. the tables ---- *)
Theorem C03c_tables_ok :
  agree_value_all std_alnum FORMAT_ASCII LEX_ASCII = true /\ agree_value_all std_alnum FORMAT_LATEX LEX_LATEX = true.
Proof. exact plain_agree_value_all. Qed.
Print Assumptions C03c_tables_ok.

Theorem C03c_han_tables_fail :
  agree_value_all std_alnum FORMAT_HAN LEX_HAN = false /\ budget_left_nonident std_alnum LEX_HAN = false /\
  lex_clean_atoms_ok LEX_HAN std_alnum = false /\ agree_items FORMAT_HAN LEX_HAN = true.
Proof. exact han_agree_value_all_fails. Qed.
Print Assumptions C03c_han_tables_fail.

(* ---- 3. the lexical value layer on the domain with prefix-only atoms (extends C02_items_layer) ---- *)
Theorem C03c_lex_value_layer : forall (L : lfmt) (ia : N -> bool),
  lex_term_ok L ia = true -> lex_items_ok L = true -> lex_clean_ok L ia = true ->
  lex_clean_atoms_ok L ia = true -> budget_left_nonident ia L = true ->
  forall (v : lnarsese) (fuel : nat),
  lvalue_ok ia L v = true -> unamb_top L v -> (length (text0 L v) < fuel)%nat ->
  parse_env (compile L) ia fuel (text0 L v) = LOk v.
Proof. exact parse_env_text0_2. Qed.
Print Assumptions C03c_lex_value_layer.

Theorem C03c_vocab_in_domain : forall (L : lfmt) (ia : N -> bool) (v : lnarsese),
  vocab_ok L ia v = true -> lvalue_ok ia L v = true.
Proof. exact vocab_lvalue_ok. Qed.
Print Assumptions C03c_vocab_in_domain.

(* C02 on the extended domain: format-then-parse of the lexical formatter, under the explicit unambiguity
   conditions (which vocab_ok's "no keyword inside a name" clause is what derives them from; here names may
   contain keyword characters, so they stay explicit; they are decidable: C02_unamb_b_sound).  This closes
   the gap "prefix-only atoms (empty names) are outside C02's domain" for the formats passing the checks *)
Theorem C03c_lex_roundtrip_extended : forall (L : lfmt) (ia : N -> bool),
  lex_term_ok L ia = true -> lex_items_ok L = true -> lex_space_ok L ia = true -> lex_clean_ok L ia = true ->
  lex_clean_atoms_ok L ia = true -> budget_left_nonident ia L = true ->
  forall v : lnarsese, lvalue_ok ia L v = true -> unamb_top L v -> lex_parse ia L (lex_fmt L v) = LOk v.
Proof. exact lex_roundtrip2. Qed.
Print Assumptions C03c_lex_roundtrip_extended.

(* every well-formed enum value's lexical value is in that domain (ASCII, LaTeX) *)
Theorem C03c_enum_value_in_domain :
  forall (F : Type) (fshow : F -> str) (in01 : F -> bool) (E : efmt) (L : lfmt),
  (E = FORMAT_ASCII /\ L = LEX_ASCII) \/ (E = FORMAT_LATEX /\ L = LEX_LATEX) ->
  (forall x, in01 x = true -> fshow x <> [] /\ Forall (fun c => is_float_char c = true) (fshow x)) ->
  forall v : narsese F, wf_value std_alnum E v = true -> vals_ok F in01 v = true ->
  lvalue_ok std_alnum L (Readme.lex_of_narsese F fshow E v) = true /\ unamb_top L (Readme.lex_of_narsese F fshow E v).
Proof. exact enum_value_in_domain_plain. Qed.
Print Assumptions C03c_enum_value_in_domain.

(* the formatter route (consolidation + extended C02): the enum formatter prints the lexical formatter's text of
   lex_of_narsese v, and the lexical parser reads that text back *)
Theorem C03c_lex_parse_fmt_via_lex_fmt :
  forall (F : Type) (fshow : F -> str) (in01 : F -> bool) (ia : N -> bool) (E : efmt) (L : lfmt),
  agree_value_all ia E L = true ->
  (forall x, in01 x = true -> fshow x <> [] /\ Forall (fun c => is_float_char c = true) (fshow x)) ->
  unamb_fmt_ok ia E = true -> fmt_space_ok E = true -> arms_cover E = true ->
  forall v : narsese F, same_layout E L = true -> wf_value ia E v = true -> vals_ok F in01 v = true ->
  fmt_narsese F fshow E v = lex_fmt L (Readme.lex_of_narsese F fshow E v) /\
  lex_parse ia L (lex_fmt L (Readme.lex_of_narsese F fshow E v)) = LOk (Readme.lex_of_narsese F fshow E v).
Proof. exact lex_parse_fmt_via_lex_fmt. Qed.
Print Assumptions C03c_lex_parse_fmt_via_lex_fmt.

(* ---- 4. general theorems: any pair of records passing the finite checks ---- *)
(* lexical side: the term written as any surface tree st; name conditions = the enum-side unamb of st written
   without spaces (as in C03b); every text with the same whitespace-free form *)
Theorem C03c_lex_parse_value_tree :
  forall (F : Type) (fshow : F -> str) (fread : str -> option F) (in01 : F -> bool) (ia : N -> bool) (E : efmt) (L : lfmt),
  agree_value_all ia E L = true ->
  (forall x, in01 x = true -> fshow x <> [] /\ Forall (fun c => is_float_char c = true) (fshow x)) ->
  forall (st : sterm) (v : narsese F) (s : str),
  odesugar st = Some (nv_term v) -> SstOk.unamb ia E (respace 0 st) [] = true -> vals_ok F in01 v = true ->
  idealize_env (compile L) s = idealize_env (compile L) (value_text F fshow E (render E st) v) ->
  lex_parse ia L s = LOk (lex_value_of F fshow E (lex_tree E st) v).
Proof. exact (fun F fshow fread in01 ia E L Hall H_cs => lex_parse_value_tree F fshow in01 ia E L Hall H_cs). Qed.
Print Assumptions C03c_lex_parse_value_tree.

(* fold third for the lexical reading of ANY surface tree that means the value's term *)
Theorem C03c_fold_value_tree :
  forall (F : Type) (fshow : F -> str) (fread : str -> option F) (in01 : F -> bool) (ia : N -> bool) (E : efmt) (L : lfmt),
  agree_value_all ia E L = true ->
  (forall x, in01 x = true -> fread (fshow x) = Some x) ->
  forall (st : sterm) (v : narsese F),
  odesugar st = Some (nv_term v) -> vals_ok F in01 v = true ->
  fold_narsese F fread in01 E (lex_value_of F fshow E (lex_tree E st) v) = FOk v.
Proof. exact fold_value_tree. Qed.
Print Assumptions C03c_fold_value_tree.

(* both pipelines, self-delimiting formats, under the sentence-level back-off condition on the text *)
Theorem C03c_agree_value_tree :
  forall (F : Type) (fshow : F -> str) (fread : str -> option F) (fzero : F) (in01 : F -> bool) (ia : N -> bool)
         (E : efmt) (L : lfmt) (kt ki : nat),
  agree_value_all ia E L = true -> unamb_fmt_ok ia E = true -> sent_ok E = true -> fmt_tables_ok E kt ki = true ->
  fread [] = None -> in01 fzero = true ->
  (forall x, in01 x = true -> fread (fshow x) = Some x) ->
  (forall x, in01 x = true -> fshow x <> [] /\ Forall (fun c => is_float_char c = true) (fshow x)) ->
  forall (st : sterm) (v : narsese F),
  odesugar st = Some (nv_term v) -> satoms_ok ia E st = true -> vals_ok F in01 v = true ->
  sent_unamb F fread fzero in01 E (SstOk.unamb ia E) (canon_narsese F fshow kt ki st v) = true ->
  (exists st', parse_narsese F fread fzero in01 ia E (value_text F fshow E (render E st) v) = EnumParser.POk v st') /\
  lex_parse ia L (value_text F fshow E (render E st) v) = LOk (lex_value_of F fshow E (lex_tree E st) v) /\
  lex_then_fold_narsese F fread in01 ia L E (value_text F fshow E (render E st) v) = FOk v.
Proof. exact agree_value_tree. Qed.
Print Assumptions C03c_agree_value_tree.

(* the text is the rendering of the canonical surface input of Model/SstSent.v (what C01b speaks about) *)
Theorem C03c_value_text_canon : forall (F : Type) (fshow : F -> str) (E : efmt) (kt ki : nat),
  fmt_tables_ok E kt ki = true ->
  forall (st : sterm) (v : narsese F),
  value_text F fshow E (render E st) v = render_narsese E (canon_narsese F fshow kt ki st v).
Proof. exact value_text_canon. Qed.
Print Assumptions C03c_value_text_canon.

(* ---- 5. ASCII and LaTeX ---- *)
(* (a) the lexical pipeline, unconditional; any text with the same whitespace-free form *)
Theorem C03c_lex_pipeline_ascii_latex :
  forall (F : Type) (fshow : F -> str) (fread : str -> option F) (in01 : F -> bool) (E : efmt) (L : lfmt),
  (E = FORMAT_ASCII /\ L = LEX_ASCII) \/ (E = FORMAT_LATEX /\ L = LEX_LATEX) ->
  (forall x, in01 x = true -> fread (fshow x) = Some x) ->
  (forall x, in01 x = true -> fshow x <> [] /\ Forall (fun c => is_float_char c = true) (fshow x)) ->
  forall (v : narsese F) (s : str),
  wf_value std_alnum E v = true -> vals_ok F in01 v = true ->
  idealize_env (compile L) s = idealize_env (compile L) (fmt_narsese F fshow E v) ->
  lex_parse std_alnum L s = LOk (Readme.lex_of_narsese F fshow E v) /\
  fold_narsese F fread in01 E (Readme.lex_of_narsese F fshow E v) = FOk v /\
  lex_then_fold_narsese F fread in01 std_alnum L E s = FOk v.
Proof. exact lex_pipeline_plain. Qed.
Print Assumptions C03c_lex_pipeline_ascii_latex.

(* ... the term inside written with n space keywords at every token boundary *)
Theorem C03c_lex_pipeline_respaced_ascii_latex :
  forall (F : Type) (fshow : F -> str) (fread : str -> option F) (in01 : F -> bool) (E : efmt) (L : lfmt),
  (E = FORMAT_ASCII /\ L = LEX_ASCII) \/ (E = FORMAT_LATEX /\ L = LEX_LATEX) ->
  (forall x, in01 x = true -> fread (fshow x) = Some x) ->
  (forall x, in01 x = true -> fshow x <> [] /\ Forall (fun c => is_float_char c = true) (fshow x)) ->
  forall (n : nat) (v : narsese F),
  wf_value std_alnum E v = true -> vals_ok F in01 v = true ->
  let text := value_text F fshow E (render E (respace n (sst E (nv_term v)))) v in
  lex_parse std_alnum L text = LOk (Readme.lex_of_narsese F fshow E v) /\
  lex_then_fold_narsese F fread in01 std_alnum L E text = FOk v.
Proof. exact lex_pipeline_respaced_plain. Qed.
Print Assumptions C03c_lex_pipeline_respaced_ascii_latex.

(* ... the same strings written with a derived copula on top of the term *)
Theorem C03c_lex_pipeline_sugar_ascii_latex :
  forall (F : Type) (fshow : F -> str) (fread : str -> option F) (in01 : F -> bool) (E : efmt) (L : lfmt),
  (E = FORMAT_ASCII /\ L = LEX_ASCII) \/ (E = FORMAT_LATEX /\ L = LEX_LATEX) ->
  (forall x, in01 x = true -> fread (fshow x) = Some x) ->
  (forall x, in01 x = true -> fshow x <> [] /\ Forall (fun c => is_float_char c = true) (fshow x)) ->
  forall (arm sp0 sp1 sp2 sp3 : nat) (a b : term) (v : narsese F),
  wf_term std_alnum E a = true -> wf_term std_alnum E b = true -> vals_ok F in01 v = true ->
  let st := SStmt arm sp0 sp1 sp2 sp3 (sst E a) (sst E b) in
  odesugar st = Some (nv_term v) ->
  lex_parse std_alnum L (value_text F fshow E (render E st) v) = LOk (lex_value_of F fshow E (lex_tree E st) v) /\
  lex_then_fold_narsese F fread in01 std_alnum L E (value_text F fshow E (render E st) v) = FOk v.
Proof. exact lex_pipeline_sugar_plain. Qed.
Print Assumptions C03c_lex_pipeline_sugar_ascii_latex.

(* (c) both pipelines on any writing of the term, under sent_unamb of that text *)
Theorem C03c_agree_value_tree_ascii_latex :
  forall (F : Type) (fshow : F -> str) (fread : str -> option F) (fzero : F) (in01 : F -> bool) (E : efmt) (L : lfmt),
  (E = FORMAT_ASCII /\ L = LEX_ASCII) \/ (E = FORMAT_LATEX /\ L = LEX_LATEX) ->
  (forall x, in01 x = true -> fread (fshow x) = Some x) ->
  (forall x, in01 x = true -> fshow x <> [] /\ Forall (fun c => is_float_char c = true) (fshow x)) ->
  fread [] = None -> in01 fzero = true ->
  forall (st : sterm) (v : narsese F),
  odesugar st = Some (nv_term v) -> satoms_ok std_alnum E st = true -> vals_ok F in01 v = true ->
  sent_unamb F fread fzero in01 E (SstOk.unamb std_alnum E) (canon_narsese F fshow 1 1 st v) = true ->
  (exists st', parse_narsese F fread fzero in01 std_alnum E (value_text F fshow E (render E st) v) = EnumParser.POk v st') /\
  lex_parse std_alnum L (value_text F fshow E (render E st) v) = LOk (lex_value_of F fshow E (lex_tree E st) v) /\
  lex_then_fold_narsese F fread in01 std_alnum L E (value_text F fshow E (render E st) v) = FOk v.
Proof. exact agree_value_tree_plain. Qed.
Print Assumptions C03c_agree_value_tree_ascii_latex.

(* (b) C03 for whole values.  Henum = C01 for whole values in exactly the shape of the final enum-side theorem:
   the direct enum parse of the formatter's text returns the value *)
Theorem C03_value_ascii_latex :
  forall (F : Type) (fshow : F -> str) (fread : str -> option F) (fzero : F) (in01 : F -> bool) (E : efmt) (L : lfmt),
  (E = FORMAT_ASCII /\ L = LEX_ASCII) \/ (E = FORMAT_LATEX /\ L = LEX_LATEX) ->
  (forall x, in01 x = true -> fread (fshow x) = Some x) ->
  (forall x, in01 x = true -> fshow x <> [] /\ Forall (fun c => is_float_char c = true) (fshow x)) ->
  (forall v : narsese F, wf_value std_alnum E v = true -> vals_ok F in01 v = true ->
     exists st, parse_narsese F fread fzero in01 std_alnum E (fmt_narsese F fshow E v) = EnumParser.POk v st) ->
  forall v : narsese F, wf_value std_alnum E v = true -> vals_ok F in01 v = true ->
  (exists st, parse_narsese F fread fzero in01 std_alnum E (fmt_narsese F fshow E v) = EnumParser.POk v st) /\
  lex_parse std_alnum L (fmt_narsese F fshow E v) = LOk (Readme.lex_of_narsese F fshow E v) /\
  lex_then_fold_narsese F fread in01 std_alnum L E (fmt_narsese F fshow E v) = FOk v.
Proof. exact agree_value_plain. Qed.
Print Assumptions C03_value_ascii_latex.

(* ... as an equation between the two pipelines (of_door: POk v _ => FOk v, PErr => FErr, otherwise FPanic) *)
Theorem C03_value_ascii_latex_eq :
  forall (F : Type) (fshow : F -> str) (fread : str -> option F) (fzero : F) (in01 : F -> bool) (E : efmt) (L : lfmt),
  (E = FORMAT_ASCII /\ L = LEX_ASCII) \/ (E = FORMAT_LATEX /\ L = LEX_LATEX) ->
  (forall x, in01 x = true -> fread (fshow x) = Some x) ->
  (forall x, in01 x = true -> fshow x <> [] /\ Forall (fun c => is_float_char c = true) (fshow x)) ->
  (forall v : narsese F, wf_value std_alnum E v = true -> vals_ok F in01 v = true ->
     exists st, parse_narsese F fread fzero in01 std_alnum E (fmt_narsese F fshow E v) = EnumParser.POk v st) ->
  forall v : narsese F, wf_value std_alnum E v = true -> vals_ok F in01 v = true ->
  of_door F (parse_narsese F fread fzero in01 std_alnum E (fmt_narsese F fshow E v)) =
  lex_then_fold_narsese F fread in01 std_alnum L E (fmt_narsese F fshow E v).
Proof. exact agree_value_plain_eq. Qed.
Print Assumptions C03_value_ascii_latex_eq.

(* ---- 6. the hypotheses are satisfiable ---- *)
(* toy oracles (a float is its own decimal text): Display / FromStr contract *)
Example ex_C03c_toy_oracles :
  toy_read [] = None /\ toy_in01 toy_zero = true /\
  (forall x, toy_in01 x = true -> toy_read (toy_show x) = Some x) /\
  (forall x, toy_in01 x = true -> toy_show x <> [] /\ Forall (fun c => is_float_char c = true) (toy_show x)).
Proof. exact toy_oracles_ok. Qed.

(* a task with an image (placeholder) and the name `a_b`, a question about a query variable, the bare
   placeholder: well-formed, in01, sent_unamb of the canonical text, lexical value in lvalue_ok -- in both
   formats; the first and the last are OUTSIDE vocab_ok *)
Example ex_C03c_hyps :
  forallb (fun p => ex_value_check p ex_value_task && ex_value_check p ex_value_question && ex_value_check p ex_value_term)
          [(FORMAT_ASCII, LEX_ASCII); (FORMAT_LATEX, LEX_LATEX)] = true /\
  vocab_ok LEX_ASCII std_alnum (Readme.lex_of_narsese str toy_show FORMAT_ASCII ex_value_task) = false /\
  vocab_ok LEX_ASCII std_alnum (Readme.lex_of_narsese str toy_show FORMAT_ASCII ex_value_term) = false.
Proof. exact ex_value_hyps. Qed.

(* Han: the two formatters differ by a space before the stamp (`预算 a。现在` vs `预算 a。 现在`) *)
Example ex_C03c_han_layout_differs :
  let v : narsese str := NTask (SJudgement (TName Word [97]%N) TruthEmpty Present, BudgetEmpty) in
  fmt_narsese str toy_show FORMAT_HAN v = [39044; 31639; 32; 97; 12290; 29616; 22312]%N /\
  lex_fmt LEX_HAN (Readme.lex_of_narsese str toy_show FORMAT_HAN v) = [39044; 31639; 32; 97; 12290; 32; 29616; 22312]%N /\
  idealize_env (compile LEX_HAN) (fmt_narsese str toy_show FORMAT_HAN v) =
  idealize_env (compile LEX_HAN) (lex_fmt LEX_HAN (Readme.lex_of_narsese str toy_show FORMAT_HAN v)).
Proof. exact ex_han_layout_differs. Qed.

(* `$0.5;0.25$ <rob --> (/, a_b, _, +7)>. :!-5: %1;0.9%` : the text, and -- re-computed -- the lexical value and
   the common result of the two pipelines *)
Example ex_C03c_ascii_text :
  let v := ex_value_task in
  let text := fmt_narsese str toy_show FORMAT_ASCII v in
  text = [36; 48; 46; 53; 59; 48; 46; 50; 53; 36; 32; 60; 114; 111; 98; 32; 45; 45; 62; 32; 40; 47; 44; 32; 97; 95; 98; 44; 32;
          95; 44; 32; 43; 55; 41; 62; 46; 32; 58; 33; 45; 53; 58; 32; 37; 49; 59; 48; 46; 57; 37]%N /\
  lex_parse std_alnum LEX_ASCII text = LOk (Readme.lex_of_narsese str toy_show FORMAT_ASCII v) /\
  lex_then_fold_narsese str toy_read toy_in01 std_alnum LEX_ASCII FORMAT_ASCII text = FOk v /\
  of_door str (parse_narsese str toy_read toy_zero toy_in01 std_alnum FORMAT_ASCII text) = FOk v.
Proof. exact ex_value_ascii_text. Qed.

(* `<rob  {--x >.` (derived copula, uneven spacing) means <{rob} --> x>. ; tab / no-break space / ideographic
   space around it change nothing for the lexical pipeline *)
Example ex_C03c_sugar_ascii :
  let st := SStmt arm_instance 0 2 0 1 (SAtom arm_word [114; 111; 98]%N) (SAtom arm_word [120]%N) in
  let v : narsese str := NSentence (SJudgement (TBox2 Inheritance (TSet SetExtension [TName Word [114; 111; 98]%N]) (TName Word [120]%N))
                                               TruthEmpty Eternal) in
  let text := value_text str toy_show FORMAT_ASCII (render FORMAT_ASCII st) v in
  odesugar st = Some (nv_term v) /\ satoms_ok std_alnum FORMAT_ASCII st = true /\
  sent_unamb str toy_read toy_zero toy_in01 FORMAT_ASCII (SstOk.unamb std_alnum FORMAT_ASCII)
             (canon_narsese str toy_show 1 1 st v) = true /\
  text = [60; 114; 111; 98; 32; 32; 123; 45; 45; 120; 32; 62; 46]%N /\
  lex_then_fold_narsese str toy_read toy_in01 std_alnum LEX_ASCII FORMAT_ASCII text = FOk v /\
  lex_then_fold_narsese str toy_read toy_in01 std_alnum LEX_ASCII FORMAT_ASCII ([9; 160]%N ++ text ++ [12288]%N) = FOk v /\
  of_door str (parse_narsese str toy_read toy_zero toy_in01 std_alnum FORMAT_ASCII text) = FOk v.
Proof. exact ex_value_sugar_ascii. Qed.
