(* Props/C06.v -- `impl PartialEq for Term` is an equivalence relation that coincides with the
   table-independent specification, and does not depend on iteration / insertion order. *)
From Nv Require Import Proofs.EqHashP.
From Coq Require Import Permutation.

Theorem C06_tables : eq_tables_ok = true.
Proof. exact eq_tables_ok_true. Qed.
Print Assumptions C06_tables.

Theorem C06_sound_complete : forall a b,
  set_ok a = true -> set_ok b = true -> (term_eqb a b = true <-> sem_eq a b).
Proof. exact term_eqb_sem_eq. Qed.
Print Assumptions C06_sound_complete.

Theorem C06_refl : forall a, term_eqb a a = true.
Proof. exact term_eqb_refl. Qed.
Print Assumptions C06_refl.

Theorem C06_sym : forall a b, set_ok a = true -> set_ok b = true -> term_eqb a b = term_eqb b a.
Proof. exact term_eqb_sym. Qed.
Print Assumptions C06_sym.

Theorem C06_trans : forall a b c,
  set_ok a = true -> set_ok b = true -> set_ok c = true ->
  term_eqb a b = true -> term_eqb b c = true -> term_eqb a c = true.
Proof. exact term_eqb_trans. Qed.
Print Assumptions C06_trans.

(* same description, any iteration order at every set level ([perm_rep] is defined in Proofs/EqHashP.v) *)
Theorem C06_order_stable : forall a a' b b',
  set_ok a = true -> set_ok b = true -> perm_rep a a' -> perm_rep b b' ->
  term_eqb a b = term_eqb a' b'.
Proof. exact order_stable. Qed.
Print Assumptions C06_order_stable.

Theorem C06_perm_rep_eq : forall a a',
  set_ok a = true -> perm_rep a a' -> term_eqb a a' = true /\ set_ok a' = true.
Proof. exact perm_rep_eq. Qed.
Print Assumptions C06_perm_rep_eq.

(* insertion order and duplicates do not matter for a set built by repeated insert *)
Theorem C06_mk_set_ok : forall l,
  forallb set_ok l = true ->
  nodup_eqb (mk_set l) = true /\ forallb set_ok (mk_set l) = true /\
  (forall x, set_ok x = true -> set_mem x (mk_set l) = set_mem x l).
Proof. exact mk_set_spec. Qed.
Print Assumptions C06_mk_set_ok.

Theorem C06_dup_stable : forall c l l',
  forallb set_ok l = true -> forallb set_ok l' = true ->
  term_eqb (TSet c (mk_set (l ++ l'))) (TSet c (mk_set (l' ++ l))) = true.
Proof. exact mk_set_app_comm. Qed.
Print Assumptions C06_dup_stable.

Theorem C06_dup_stable2 : forall c l,
  forallb set_ok l = true -> term_eqb (TSet c (mk_set (l ++ l))) (TSet c (mk_set l)) = true.
Proof. exact mk_set_app_dup. Qed.
Print Assumptions C06_dup_stable2.
