(* Props/C01d.v -- C01 (enum format-then-parse), the FINAL statement for WHOLE VALUES -- terms, sentences
   and tasks -- in the ASCII and LaTeX formats, with every side condition discharged.  Statements only;
   proofs in Proofs/EnumFinalP.v (assembling Proofs/EnumTermP.v, EnumFmtP.v, EnumUnambP.v, EnumSentP.v).

   THE THEOREMS  C01d_value_ascii / C01d_value_latex (and their instances at Rust's Unicode table,
   C01d_value_ascii_std / _latex_std):
       for every enum Narsese value v -- a term, a sentence or a task; every term size, nesting depth and
       set order; every punctuation, stamp kind, truth and budget arity -- that is well-formed,
       formatting v and parsing the text returns  POk v : the same kind, the same constructors, the
       same ordered components, the same set payloads in the same model order, the same image index, the
       same punctuation, stamp, truth and budget numbers.

   HYPOTHESES, all of them:
     (a) the PROPERTY's well-formedness:
         wf_value ia E v   -- the term inside (wf_term, spelled out in Props/C01a.v / Model/SstOf.v): names
                              are non-empty identifiers of the format that do not begin with an atom
                              prefix, do not begin or end with `-`, contain no copula; sets and
                              connecter compounds non-empty (an image's own component list may be
                              empty), arities fixed by the constructors.  EXTRAS, each justified there:
                              (i) an interval value is <= usize::MAX and (ii) a set payload is
                              duplicate-free up to term equality -- representation invariants of the
                              Rust types (usize, HashSet), true of every Rust value, needed because the
                              model's payloads are N and list; (iii) an image index is <= the number of
                              components (otherwise the formatter prints no placeholder at all);
                              (iv) the known class K1 is excluded: a placeholder among an image's own
                              components before its index (C01a witness);
         vals_ok F okn v   -- every truth / budget number satisfies okn, "finite, non-negative-signed
                              and within [0,1]"; a fixed stamp lies within isize (NOT a restriction on
                              Rust values: the payload is an isize; the model's payload is a Z);
     (b) oracles, universally quantified (the theorem holds for EVERY float type and functions with
         these properties; Rust's f64 has them by the contract of Display / FromStr):
         fread [] = None                       "".parse::<f64>() is an error;
         in01 fzero = true                     0.0 passes the range test (the padding of number arrays);
         okn x -> in01 x                       a number of the property's range passes the parser's range test;
         okn x -> fread (fshow x) = Some x     shortest-round-trip Display / FromStr;
         okn x -> fshow x is a non-empty string of ASCII digits and dots
                                               (true of non-negative finite f64 below 1e16; NOT of -0.0,
                                                which passes the range test and prints as `-0`: this is
                                                why okn and not in01 bounds the values);
         ia = char::is_alphanumeric enters through 30 facts only: alnum_facts (24, Props/C01c.v) and
         alnum_facts2 (6: `! $ . ? @` and the LaTeX quest mark are not alphanumeric), both true of the
         table dumped from Rust's std (C01d_alnum_facts2_std) and each one needed (C01d_alnum_facts2_all_needed).
     Nothing else: the table side conditions (parse_ok, sent_ok, fmt_tables_ok, fmt_space_ok, arms_cover,
     unamb_fmt_ok, final_fmt_ok, budget_requires_close) are discharged by computation on the REGENERATED
     tables inside the proofs, so an edited keyword / arm / parser switch breaks the theorem itself.

   HOW THE BUDGET / VARIABLE CLASH IS SETTLED.  In ASCII `$` (LaTeX `\$`) is the budget's left AND right
   bracket and also the prefix of the independent variable.  consume_one tries the budget branch first on
   `$x. %1%`; C01d_sent_unamb_wf proves that this attempt FAILS (and the parser backs off to the term with
   the cursor restored) because the closing `$` occurs nowhere in the rest of the text of a sentence whose
   term is a lone independent variable: not in the name (not a name character), not in a punctuation,
   stamp or truth keyword (table check final_fmt_ok), not in an integer or a number text.  Every other
   term's text does not start with the budget's left bracket at all.

   HAN.  C01d_value_han states what holds: the same conclusion GIVEN sent_unamb of the canonical input
   (its first clause is the name condition unamb).  These conditions do not follow from well-formedness in
   Han, whose keywords are name characters: witnesses C01b_han_K2 (Props/C01b.v: the word 预算 is taken for
   an empty budget) and C01c_K3_witness (Props/C01c.v: 「x将得y」); final_fmt_ok itself fails for Han
   (C01d_han_fails).

   NOT COVERED HERE: the correspondence of the model with the Rust code (differential check of ./check C01). *)
From Nv Require Import Base.FloatDec Gen.Unicode Model.SstOf Model.SstOk Model.SstSent Proofs.EnumTotalP Proofs.EnumParseP
  Proofs.EnumFmtP Proofs.EnumTermP Proofs.EnumUnambP Proofs.EnumSentP Proofs.EnumFinalP.

(* ---- the Unicode facts beyond Props/C01c.v ---- *)
Theorem C01d_alnum_facts2_meaning : forall ia : N -> bool,
  alnum_facts2 ia = forallb (fun c => negb (ia c)) [33; 36; 46; 63; 64; 191]%N.       (* ! $ . ? @ and the inverted question mark *)
Proof. exact alnum_facts2_meaning. Qed.
Print Assumptions C01d_alnum_facts2_meaning.

Theorem C01d_alnum_facts2_std : alnum_facts2 (fun c => in_ranges alnum_ranges c) = true.
Proof. exact alnum_facts2_std. Qed.
Print Assumptions C01d_alnum_facts2_std.

(* each listed fact is needed by the check of one of the two formats *)
Theorem C01d_alnum_facts2_all_needed :
  alnum_facts2 ascii_alnum = true /\
  forallb (fun c => negb (final_fmt_ok (flip ascii_alnum c) FORMAT_ASCII && final_fmt_ok (flip ascii_alnum c) FORMAT_LATEX))
          nonalnum_chars2 = true.
Proof. exact alnum_facts2_all_needed. Qed.
Print Assumptions C01d_alnum_facts2_all_needed.

(* ---- the finite table check of the sentence level, spelled out ---- *)
Theorem C01d_final_fmt_ok_meaning : forall (ia : N -> bool) (E : efmt),
  final_fmt_ok ia E =
  (* the name scan stops in front of every punctuation mark *)
  forallb (fun x => head_not_name ia E (fst (fst x) E)) punct_arms
  (* a budget needs its closing bracket (regenerated parser switch); c = the last character of that bracket *)
  && budget_requires_close
  && nonempty (task_budget_brackets_1 E) && memb (last (task_budget_brackets_1 E) 0%N) (task_budget_brackets_1 E)
  (* a composite term does not start with the budget's left bracket *)
  && forallb (fun lb => diverge (task_budget_brackets_0 E) lb) (left_brackets E)
  (* an atom's text starts with it only if its prefix IS that bracket *)
  && forallb (fun p => match p with
                       | [] => head_not_name ia E (task_budget_brackets_0 E)
                       | _ => diverge (task_budget_brackets_0 E) p || str_eqb p (task_budget_brackets_0 E)
                       end) (map (fun a => fst a E) parse_atom_arms)
  (* c is not a name character, not an integer or number character, and occurs in no keyword written after a term *)
  && negb (name_charb ia E (last (task_budget_brackets_1 E) 0%N))
  && negb (is_int_char (last (task_budget_brackets_1 E) 0%N)) && negb (is_float_char (last (task_budget_brackets_1 E) 0%N))
  && forallb (fun kw => forallb (fun c => negb (c =? last (task_budget_brackets_1 E) 0)%N) kw)
       (space_parse E :: map (fun x => fst (fst x) E) punct_arms
        ++ sentence_stamp_brackets_0 E :: sentence_stamp_brackets_1 E :: map (fun x => fst (fst x) E) stamp_arms
        ++ [sentence_truth_brackets_0 E; sentence_truth_brackets_1 E; sentence_truth_separator E]).
Proof. exact final_fmt_ok_meaning. Qed.
Print Assumptions C01d_final_fmt_ok_meaning.

Theorem C01d_tables : forall ia : N -> bool, alnum_facts ia = true -> alnum_facts2 ia = true ->
  final_fmt_ok ia FORMAT_ASCII = true /\ final_fmt_ok ia FORMAT_LATEX = true.
Proof. exact final_fmt_ok_plain. Qed.
Print Assumptions C01d_tables.

Theorem C01d_han_fails : final_fmt_ok (fun c => in_ranges alnum_ranges c) FORMAT_HAN = false.
Proof. exact final_fmt_ok_han_fails. Qed.
Print Assumptions C01d_han_fails.

(* ---- the back-off conditions of consume_one, discharged (format-generic) ----
   any surface input (any spacing) whose items are readable (sitems_ok: what a defined meaning implies),
   whose term has well-formed atoms, in which a punctuation is written whenever a stamp or a truth is
   (follows_ok), and whose stamp annotation is in normal form *)
Theorem C01d_sitems_ok_meaning : forall s : snarsese,
  sitems_ok s =
  match sn_punct s with Some (_, a) => is_some (nth_error punct_arms a) | None => true end
  && match sn_stamp s with
     | Some (_, x) => match stamp_kind (ss_arm x) with Some SAFixed => forallb is_int_char (ss_int x) | _ => true end
     | None => true
     end
  && match sn_truth s with Some (_, n) => forallb (forallb is_float_char) (nl_texts n) | None => true end.
Proof. exact sitems_ok_meaning. Qed.
Print Assumptions C01d_sitems_ok_meaning.

Theorem C01d_follows_ok_meaning : forall s : snarsese,
  follows_ok s = has (sn_punct s) || (negb (has (sn_stamp s)) && negb (has (sn_truth s))).
Proof. exact follows_ok_meaning. Qed.
Print Assumptions C01d_follows_ok_meaning.

Theorem C01d_sent_unamb_wf :
  forall (F : Type) (fread : str -> option F) (fzero : F) (in01 : F -> bool) (ia : N -> bool) (E : efmt),
    parse_ok E = true -> unamb_fmt_ok ia E = true -> sent_ok E = true -> final_fmt_ok ia E = true ->
    forall s : snarsese,
      sitems_ok s = true -> satoms_ok ia E (sn_term s) = true -> follows_ok s = true -> stamp_nf E s = true ->
      sent_unamb F fread fzero in01 E (unamb ia E) s = true.
Proof. exact sent_unamb_wf. Qed.
Print Assumptions C01d_sent_unamb_wf.

(* ---- the format-generic round trip: every format record passing the finite table checks ---- *)
Theorem C01d_value_generic :
  forall (F : Type) (fshow : F -> str) (fread : str -> option F) (fzero : F) (in01 okn : F -> bool)
         (ia : N -> bool) (E : efmt) (kt ki : nat),
    parse_ok E = true -> sent_ok E = true -> fmt_tables_ok E kt ki = true -> fmt_space_ok E = true -> arms_cover E = true ->
    fread [] = None -> in01 fzero = true -> (forall x : F, okn x = true -> in01 x = true) ->
    (forall x : F, okn x = true -> fread (fshow x) = Some x) ->
    (forall x : F, okn x = true -> fshow x <> [] /\ Forall (fun c : N => is_float_char c = true) (fshow x)) ->
    unamb_fmt_ok ia E = true -> final_fmt_ok ia E = true ->
    forall v : narsese F, wf_value ia E v = true -> vals_ok F okn v = true ->
      exists st : pstate F, parse_narsese F fread fzero in01 ia E (fmt_narsese F fshow E v) = POk v st.
Proof. exact C01_value. Qed.
Print Assumptions C01d_value_generic.

(* ---- THE theorems ---- *)
Theorem C01d_value_ascii : forall ia : N -> bool, alnum_facts ia = true -> alnum_facts2 ia = true ->
  forall (F : Type) (fshow : F -> str) (fread : str -> option F) (fzero : F) (in01 okn : F -> bool),
    fread [] = None -> in01 fzero = true -> (forall x : F, okn x = true -> in01 x = true) ->
    (forall x : F, okn x = true -> fread (fshow x) = Some x) ->
    (forall x : F, okn x = true -> fshow x <> [] /\ Forall (fun c : N => is_float_char c = true) (fshow x)) ->
    forall v : narsese F, wf_value ia FORMAT_ASCII v = true -> vals_ok F okn v = true ->
      exists st : pstate F,
        parse_narsese F fread fzero in01 ia FORMAT_ASCII (fmt_narsese F fshow FORMAT_ASCII v) = POk v st.
Proof. exact C01_value_ascii. Qed.
Print Assumptions C01d_value_ascii.

Theorem C01d_value_latex : forall ia : N -> bool, alnum_facts ia = true -> alnum_facts2 ia = true ->
  forall (F : Type) (fshow : F -> str) (fread : str -> option F) (fzero : F) (in01 okn : F -> bool),
    fread [] = None -> in01 fzero = true -> (forall x : F, okn x = true -> in01 x = true) ->
    (forall x : F, okn x = true -> fread (fshow x) = Some x) ->
    (forall x : F, okn x = true -> fshow x <> [] /\ Forall (fun c : N => is_float_char c = true) (fshow x)) ->
    forall v : narsese F, wf_value ia FORMAT_LATEX v = true -> vals_ok F okn v = true ->
      exists st : pstate F,
        parse_narsese F fread fzero in01 ia FORMAT_LATEX (fmt_narsese F fshow FORMAT_LATEX v) = POk v st.
Proof. exact C01_value_latex. Qed.
Print Assumptions C01d_value_latex.

(* instances at Rust's Unicode table *)
Theorem C01d_value_ascii_std :
  forall (F : Type) (fshow : F -> str) (fread : str -> option F) (fzero : F) (in01 okn : F -> bool),
    fread [] = None -> in01 fzero = true -> (forall x : F, okn x = true -> in01 x = true) ->
    (forall x : F, okn x = true -> fread (fshow x) = Some x) ->
    (forall x : F, okn x = true -> fshow x <> [] /\ Forall (fun c : N => is_float_char c = true) (fshow x)) ->
    forall v : narsese F, wf_value is_alnum_std FORMAT_ASCII v = true -> vals_ok F okn v = true ->
      exists st : pstate F,
        parse_narsese F fread fzero in01 is_alnum_std FORMAT_ASCII (fmt_narsese F fshow FORMAT_ASCII v) = POk v st.
Proof. exact C01_value_ascii_std. Qed.
Print Assumptions C01d_value_ascii_std.

Theorem C01d_value_latex_std :
  forall (F : Type) (fshow : F -> str) (fread : str -> option F) (fzero : F) (in01 okn : F -> bool),
    fread [] = None -> in01 fzero = true -> (forall x : F, okn x = true -> in01 x = true) ->
    (forall x : F, okn x = true -> fread (fshow x) = Some x) ->
    (forall x : F, okn x = true -> fshow x <> [] /\ Forall (fun c : N => is_float_char c = true) (fshow x)) ->
    forall v : narsese F, wf_value is_alnum_std FORMAT_LATEX v = true -> vals_ok F okn v = true ->
      exists st : pstate F,
        parse_narsese F fread fzero in01 is_alnum_std FORMAT_LATEX (fmt_narsese F fshow FORMAT_LATEX v) = POk v st.
Proof. exact C01_value_latex_std. Qed.
Print Assumptions C01d_value_latex_std.

(* ---- Han: what holds ---- *)
Theorem C01d_value_han : forall (ia : N -> bool)
  (F : Type) (fshow : F -> str) (fread : str -> option F) (fzero : F) (in01 okn : F -> bool),
    fread [] = None -> in01 fzero = true -> (forall x : F, okn x = true -> in01 x = true) ->
    (forall x : F, okn x = true -> fread (fshow x) = Some x) ->
    (forall x : F, okn x = true -> fshow x <> [] /\ Forall (fun c : N => is_float_char c = true) (fshow x)) ->
    forall v : narsese F, wf_value ia FORMAT_HAN v = true -> vals_ok F okn v = true ->
      sent_unamb F fread fzero in01 FORMAT_HAN (unamb ia FORMAT_HAN)
                 (canon_narsese F fshow 0 1 (sst FORMAT_HAN (nv_term v)) v) = true ->
      exists st : pstate F,
        parse_narsese F fread fzero in01 ia FORMAT_HAN (fmt_narsese F fshow FORMAT_HAN v) = POk v st.
Proof. exact C01_value_han. Qed.
Print Assumptions C01d_value_han.

(* ---- non-vacuity ---- *)
(* the oracle hypotheses are satisfiable (toy float type: a number is its text) *)
Example ex_C01d_oracles :
  toy_read [] = None /\ toy_in01 toy_zero = true /\ (forall x, toy_in01 x = true -> toy_in01 x = true) /\
  (forall x, toy_in01 x = true -> toy_read (toy_show x) = Some x) /\
  (forall x, toy_in01 x = true -> toy_show x <> [] /\ Forall (fun c => is_float_char c = true) (toy_show x)).
Proof. exact toy_oracles_final. Qed.

(* a task with a budget, a fixed stamp and a truth over the term that uses all 30 constructors: the
   hypotheses hold in both formats, and the parser model (run by vm_compute, independently of the
   theorems) returns the value -- also on the text with every space removed *)
Example ex_C01d_task :
  alnum_facts is_alnum_std = true /\ alnum_facts2 is_alnum_std = true /\
  forallb (fun E => ex_hyp E ex_task_value) [FORMAT_ASCII; FORMAT_LATEX] = true /\
  map (fun E => ex_roundtrip E ex_task_value) [FORMAT_ASCII; FORMAT_LATEX] = [Some ex_task_value; Some ex_task_value] /\
  map (fun E => ex_nospace E ex_task_value) [FORMAT_ASCII; FORMAT_LATEX] = [Some ex_task_value; Some ex_task_value].
Proof. exact ex_final_task. Qed.

(* the back-off case: the judgement  $x. :|: %1;0.9%  -- the text starts with the budget's left bracket *)
Example ex_C01d_dollar :
  forallb (fun E => ex_hyp E ex_dollar_value) [FORMAT_ASCII; FORMAT_LATEX] = true /\
  fmt_narsese str toy_show FORMAT_ASCII ex_dollar_value = [36; 120; 46; 32; 58; 124; 58; 32; 37; 49; 59; 48; 46; 57; 37]%N /\
  forallb (fun E => starts (task_budget_brackets_0 E) (fmt_narsese str toy_show E ex_dollar_value)) [FORMAT_ASCII; FORMAT_LATEX] = true /\
  map (fun E => ex_roundtrip E ex_dollar_value) [FORMAT_ASCII; FORMAT_LATEX] = [Some ex_dollar_value; Some ex_dollar_value] /\
  map (fun E => ex_nospace E ex_dollar_value) [FORMAT_ASCII; FORMAT_LATEX] = [Some ex_dollar_value; Some ex_dollar_value] /\
  render_narsese FORMAT_ASCII (erase (canon_narsese str toy_show 1 1 (sst FORMAT_ASCII (nv_term ex_dollar_value)) ex_dollar_value))
    = [36; 120; 46; 58; 124; 58; 37; 49; 59; 48; 46; 57; 37]%N.                           (* $x.:|:%1;0.9% *)
Proof. exact ex_final_dollar. Qed.
