(* Props/C10.v -- "Derived copulas and surface sugar mean what the documentation says": the TERM-LEVEL
   part for the enum parser model, every format satisfying the finite table check parse_ok (the three
   shipped ones do: C10_shipped_parse_ok).  Statements only; proofs in Proofs/EnumTermCor.v (on top of
   the central theorem of Proofs/EnumTermP.v).

   Each theorem reads: the text  <left bracket, ANY number of spaces, subject, spaces, THE COPULA, spaces,
   predicate, spaces, right bracket>  followed by any continuation k is parsed by parse_term to exactly
   the documented value, and the cursor stops at the end of that text.  Subject / predicate / components
   are arbitrary surface trees with their own spacing; unamb is the condition on atom names (see C09.v).

   COVERED HERE:
     * C10_instance / C10_property / C10_instance_property : inheritance with the subject, the predicate
       or both wrapped in a one-element extension / intension set;
     * C10_equivalence_retrospective : predictive equivalence with the operands swapped;
     * C10_image : index = position of the FIRST placeholder among the components, the remaining
       components in their order (extension and intension image);
     * C10_interval : an interval atom denotes the decimal value of its digits (read_usize = usize::from_str);
       C10_interval_shown : in particular the decimal text of n denotes n;
     * C10_placeholder : the placeholder prefix followed by ANY name characters is the placeholder.
   NOT COVERED HERE: the lexical-parse-then-fold pipeline (other Props), the sentence level; the
   agreement of the model with the Rust parser is the differential check of ./check C10. *)
From Nv Require Import Model.SstOk Proofs.EnumTotalP Proofs.EnumTermP Proofs.EnumTermCor.

Theorem C10_shipped_parse_ok : forallb parse_ok shipped_formats = true.
Proof. exact shipped_parse_ok. Qed.
Print Assumptions C10_shipped_parse_ok.

(* which arms of the regenerated tables the theorems below talk about *)
Theorem C10_arms_table :
  nth_error parse_atom_arms arm_placeholder = Some (atom_prefix_placeholder, AIUnit Placeholder) /\
  nth_error parse_atom_arms arm_interval = Some (atom_prefix_interval, AINum Interval) /\
  nth_error parse_atom_arms arm_word = Some (atom_prefix_word, AIName Word) /\
  nth_error parse_compound_arms arm_image_ext = Some (compound_connecter_image_extension, CIImg ImageExtension) /\
  nth_error parse_compound_arms arm_image_int = Some (compound_connecter_image_intension, CIImg ImageIntension) /\
  nth_error parse_statement_arms arm_instance = Some (statement_copula_instance, SBHelper HelperInstance) /\
  nth_error parse_statement_arms arm_property = Some (statement_copula_property, SBHelper HelperProperty) /\
  nth_error parse_statement_arms arm_instance_property = Some (statement_copula_instance_property, SBHelper HelperInstanceProperty) /\
  nth_error parse_statement_arms arm_equiv_retro = Some (statement_copula_equivalence_retrospective, SBHelper HelperSwapEquivPred).
Proof. exact arms_table. Qed.
Print Assumptions C10_arms_table.

Theorem C10_instance :
  forall (F : Type) (is_alnum : N -> bool) (E : efmt), parse_ok E = true ->
  forall (sp0 sp1 sp2 sp3 : nat) (s p : sterm) (vs vp : term) (k : str) (L : nat) (st : pstate F),
    odesugar s = Some vs -> odesugar p = Some vp ->
    unamb is_alnum E (SStmt arm_instance sp0 sp1 sp2 sp3 s p) k = true ->
    wf F L st ->
    s_rest st = (statement_brackets_0 E ++ sp E sp0 ++ render E s ++ sp E sp1 ++ statement_copula_instance E ++
                 sp E sp2 ++ render E p ++ sp E sp3 ++ statement_brackets_1 E) ++ k ->
    parse_term F is_alnum E st =
      POk (TBox2 Inheritance (TSet SetExtension [vs]) vp)
          (step F (length (statement_brackets_0 E ++ sp E sp0 ++ render E s ++ sp E sp1 ++ statement_copula_instance E ++
                           sp E sp2 ++ render E p ++ sp E sp3 ++ statement_brackets_1 E)) st).
Proof. exact instance_parses. Qed.
Print Assumptions C10_instance.

Theorem C10_property :
  forall (F : Type) (is_alnum : N -> bool) (E : efmt), parse_ok E = true ->
  forall (sp0 sp1 sp2 sp3 : nat) (s p : sterm) (vs vp : term) (k : str) (L : nat) (st : pstate F),
    odesugar s = Some vs -> odesugar p = Some vp ->
    unamb is_alnum E (SStmt arm_property sp0 sp1 sp2 sp3 s p) k = true ->
    wf F L st ->
    s_rest st = (statement_brackets_0 E ++ sp E sp0 ++ render E s ++ sp E sp1 ++ statement_copula_property E ++
                 sp E sp2 ++ render E p ++ sp E sp3 ++ statement_brackets_1 E) ++ k ->
    parse_term F is_alnum E st =
      POk (TBox2 Inheritance vs (TSet SetIntension [vp]))
          (step F (length (statement_brackets_0 E ++ sp E sp0 ++ render E s ++ sp E sp1 ++ statement_copula_property E ++
                           sp E sp2 ++ render E p ++ sp E sp3 ++ statement_brackets_1 E)) st).
Proof. exact property_parses. Qed.
Print Assumptions C10_property.

Theorem C10_instance_property :
  forall (F : Type) (is_alnum : N -> bool) (E : efmt), parse_ok E = true ->
  forall (sp0 sp1 sp2 sp3 : nat) (s p : sterm) (vs vp : term) (k : str) (L : nat) (st : pstate F),
    odesugar s = Some vs -> odesugar p = Some vp ->
    unamb is_alnum E (SStmt arm_instance_property sp0 sp1 sp2 sp3 s p) k = true ->
    wf F L st ->
    s_rest st = (statement_brackets_0 E ++ sp E sp0 ++ render E s ++ sp E sp1 ++ statement_copula_instance_property E ++
                 sp E sp2 ++ render E p ++ sp E sp3 ++ statement_brackets_1 E) ++ k ->
    parse_term F is_alnum E st =
      POk (TBox2 Inheritance (TSet SetExtension [vs]) (TSet SetIntension [vp]))
          (step F (length (statement_brackets_0 E ++ sp E sp0 ++ render E s ++ sp E sp1 ++ statement_copula_instance_property E ++
                           sp E sp2 ++ render E p ++ sp E sp3 ++ statement_brackets_1 E)) st).
Proof. exact instance_property_parses. Qed.
Print Assumptions C10_instance_property.

Theorem C10_equivalence_retrospective :
  forall (F : Type) (is_alnum : N -> bool) (E : efmt), parse_ok E = true ->
  forall (sp0 sp1 sp2 sp3 : nat) (s p : sterm) (vs vp : term) (k : str) (L : nat) (st : pstate F),
    odesugar s = Some vs -> odesugar p = Some vp ->
    unamb is_alnum E (SStmt arm_equiv_retro sp0 sp1 sp2 sp3 s p) k = true ->
    wf F L st ->
    s_rest st = (statement_brackets_0 E ++ sp E sp0 ++ render E s ++ sp E sp1 ++ statement_copula_equivalence_retrospective E ++
                 sp E sp2 ++ render E p ++ sp E sp3 ++ statement_brackets_1 E) ++ k ->
    parse_term F is_alnum E st =
      POk (TBox2 EquivalencePredictive vp vs)
          (step F (length (statement_brackets_0 E ++ sp E sp0 ++ render E s ++ sp E sp1 ++ statement_copula_equivalence_retrospective E ++
                           sp E sp2 ++ render E p ++ sp E sp3 ++ statement_brackets_1 E)) st).
Proof. exact equiv_retro_parses. Qed.
Print Assumptions C10_equivalence_retrospective.

(* components desugar to  pre ++ placeholder :: post  with no placeholder in pre *)
Theorem C10_image :
  forall (F : Type) (is_alnum : N -> bool) (E : efmt), parse_ok E = true ->
  forall (ext : bool) (sp0 : nat) (gaps : nat -> nat * nat) (items : list sterm) (sp1 : nat)
         (pre post : list term) (k : str) (L : nat) (st : pstate F),
    omap odesugar items = Some (pre ++ placeholder :: post) ->
    forallb (fun x => negb (term_eqb x placeholder)) pre = true ->
    unamb is_alnum E (SComp (if ext then arm_image_ext else arm_image_int) sp0 gaps items sp1) k = true ->
    wf F L st ->
    s_rest st = (compound_brackets_0 E ++ sp E sp0 ++
                 (if ext then compound_connecter_image_extension E else compound_connecter_image_intension E) ++
                 render_items E (render E) gaps true 0 items ++ sp E sp1 ++ compound_brackets_1 E) ++ k ->
    parse_term F is_alnum E st =
      POk (TImg (if ext then ImageExtension else ImageIntension) (N.of_nat (length pre)) (pre ++ post))
          (step F (length (compound_brackets_0 E ++ sp E sp0 ++
                           (if ext then compound_connecter_image_extension E else compound_connecter_image_intension E) ++
                           render_items E (render E) gaps true 0 items ++ sp E sp1 ++ compound_brackets_1 E)) st).
Proof. exact image_parses. Qed.
Print Assumptions C10_image.

Theorem C10_interval :
  forall (F : Type) (is_alnum : N -> bool) (E : efmt), parse_ok E = true ->
  forall (name : str) (n : N) (k : str) (L : nat) (st : pstate F),
    name <> [] -> read_usize name = Some n ->
    unamb is_alnum E (SAtom arm_interval name) k = true ->
    wf F L st -> s_rest st = (atom_prefix_interval E ++ name) ++ k ->
    parse_term F is_alnum E st = POk (TNum Interval n) (step F (length (atom_prefix_interval E ++ name)) st).
Proof. exact interval_parses. Qed.
Print Assumptions C10_interval.

(* read_usize is the decimal value: the decimal text of n denotes n (n within usize) *)
Theorem C10_interval_shown : forall n : N, (n <= usize_max)%N ->
  odesugar (SAtom arm_interval (show_N n)) = Some (TNum Interval n).
Proof. exact odesugar_interval_show. Qed.
Print Assumptions C10_interval_shown.

Theorem C10_placeholder :
  forall (F : Type) (is_alnum : N -> bool) (E : efmt), parse_ok E = true ->
  forall (name : str) (k : str) (L : nat) (st : pstate F),
    unamb is_alnum E (SAtom arm_placeholder name) k = true ->
    wf F L st -> s_rest st = (atom_prefix_placeholder E ++ name) ++ k ->
    parse_term F is_alnum E st = POk placeholder (step F (length (atom_prefix_placeholder E ++ name)) st).
Proof. exact placeholder_parses. Qed.
Print Assumptions C10_placeholder.

(* satisfiable: the example tree uses an instance copula, a retrospective equivalence, an extension
   image with its placeholder in second position, an interval; see its meaning *)
Example ex_C10_meaning :
  odesugar (ex_tree 2) =
    Some (TBox2 Inheritance
            (TSet SetExtension [TSet SetExtension [TName Word [114; 111; 98]%N; TName VariableIndependent [120]%N]])
            (TImg ImageExtension 1
               [TName Word [116; 105; 109]%N; TNum Interval 42;
                TBox2 EquivalencePredictive (TBox1 Negation (TSet SetIntension [TName Operator [103; 111]%N])) (TName Word [97]%N)])).
Proof. exact ex_meaning. Qed.

Example ex_C10_satisfiable :
  forallb (fun E => ex_check E (ex_tree 0) && ex_check E (ex_tree 1) && ex_check E (ex_tree 3)) shipped_formats = true.
Proof. exact ex_hypotheses_satisfiable. Qed.

(* second tree: property and instance-property copulas, intension image whose FIRST placeholder is written
   with a name after its prefix and whose second placeholder stays a component, a product, `c-d` as a name *)
Example ex_C10_meaning2 :
  odesugar (ex_tree2 1) =
    Some (TBox2 Inheritance
            (TSet SetExtension [TBox2 Inheritance (TName Word [99; 45; 100]%N) (TSet SetIntension [TName VariableQuery [113]%N])])
            (TSet SetIntension
               [TImg ImageIntension 0
                  [TVec Product [TName Word [117]%N; TName VariableDependent [49]%N]; TUnit Placeholder]])).
Proof. exact ex_meaning2. Qed.

Example ex_C10_satisfiable2 :
  forallb (fun E => ex_check E (ex_tree2 0) && ex_check E (ex_tree2 2)) shipped_formats = true.
Proof. exact ex_hypotheses_satisfiable2. Qed.
