(* Props/C03d.v -- C03 for WHOLE values (terms, sentences, tasks), ASCII and LaTeX, UNCONDITIONAL:
   for every well-formed value v, BOTH pipelines read the enum formatter's text back to v --
   the direct enum parser (final C01 theorem, Props/C01d.v) and lexical parse followed by fold
   (Props/C03c.v) -- so they agree.  The only hypotheses are the f64 oracle contract (Display / FromStr
   round trip on the numbers of the value, number texts are digit/dot strings, "" does not read,
   0.0 is in range) and the property's well-formedness (wf_value, vals_ok; extras listed in C01d.v).
   std_alnum is char::is_alphanumeric as dumped from Rust's std on every run (Gen/Unicode.v).
   Statement only; proof in Proofs/AgreeFinalP.v.  Han: nothing is claimed at this level (K2, K3, K5). *)
From Nv Require Import Model.AgreeValue Proofs.AgreeValueP Proofs.EnumFinalP Proofs.LexPTables Proofs.AgreeFinalP.

Theorem C03_value_agreement_ascii_latex :
  forall (F : Type) (fshow : F -> str) (fread : str -> option F) (fzero : F) (in01 : F -> bool) (E : efmt) (L : lfmt),
  (E = FORMAT_ASCII /\ L = LEX_ASCII) \/ (E = FORMAT_LATEX /\ L = LEX_LATEX) ->
  fread [] = None -> in01 fzero = true ->
  (forall x, in01 x = true -> fread (fshow x) = Some x) ->
  (forall x, in01 x = true -> fshow x <> [] /\ Forall (fun c => is_float_char c = true) (fshow x)) ->
  forall v : narsese F, wf_value std_alnum E v = true -> vals_ok F in01 v = true ->
  (exists st, parse_narsese F fread fzero in01 std_alnum E (fmt_narsese F fshow E v) = EnumParser.POk v st) /\
  lex_parse std_alnum L (fmt_narsese F fshow E v) = LOk (Readme.lex_of_narsese F fshow E v) /\
  lex_then_fold_narsese F fread in01 std_alnum L E (fmt_narsese F fshow E v) = FOk v.
Proof. exact agree_value_final. Qed.
Print Assumptions C03_value_agreement_ascii_latex.
