(* Props/C03e.v -- C03 (direct enum parse = lexical parse + fold) and the matching halves of C09 for the HAN
   formats, UNCONDITIONAL on the decidable subdomain of KEYWORD-FREE NAMES: term level and value level
   (terms, sentences, tasks).  Statements only; proofs in Proofs/HanAgreeP.v.

   BACKGROUND.  Props/C03b.v proves the term-level agreement for Han only under two explicit name conditions
   (SstOk.unamb of the tree as written and of the tree written without spaces; with a space before the copula the
   two REAL pipelines disagree on 「a具 有值」: known class K3, ex_C03b_han_space_disagree).  Props/C03c.v / C03d.v
   claim nothing for Han at the value level: the table checks same_layout, lex_clean_atoms_ok and
   budget_left_nonident fail (C03c_han_tables_fail).  Props/C01e.v settles the ENUM side on the subdomain of
   keyword-free names; this file settles the LEXICAL side and the agreement on the same subdomain.

   THE CONDITION.  As in Props/C01e.v: skwfree E t (surface trees) / term_kwfree E t / names_kwfree E v (values) --
   no character of any atom name occurs in any keyword of the enum format record (for Han: 57 characters).
   It implies the lexical condition of Props/C02e.v (C03e_kw_sub_han: every character of a lexical keyword of
   LEX_HAN is a character of a field of FORMAT_HAN; C03e_lex_value_kwfree_han).  skwfree ignores spacing, so
   every re-spacing of a tree is covered, the space-free one in particular.

   THE THEOREMS (E = FORMAT_HAN, L = LEX_HAN, std_alnum = char::is_alphanumeric as dumped from Rust's std).
     Term level.
       C03_han_term_kwfree: for EVERY surface tree t with well-formed keyword-free atoms -- any spacing at
         every token boundary, plain or derived copulas, images, intervals -- with meaning odesugar t = Some x,
         the enum parse_term and lexical parse_term + fold both return x on render E t.
       C03_han_fmt_term_kwfree: the enum formatter's own text of a well-formed term, and every uniform
         re-spacing of it.  C09_han_both_pipelines_kwfree: two writings that differ only in spacing.
         C09_han_lex_any_text_kwfree: the lexical pipeline on ANY text with the same whitespace-free form
         (Unicode White_Space anywhere).
     Value level.
       C03e_texts_same_stripped_han: for EVERY well-formed value (no name condition) the enum formatter's text and
         the lexical formatter's text of lex_of_narsese v have the same whitespace-free form (they differ -- the
         lexical formatter prints space.format_items = " " before stamp and truth, the enum formatter
         space.format_terms = "" -- by characters the lexical parser filters: ex_C03c_han_layout_differs).
       C03e_lex_pipeline_han: for every well-formed value v with keyword-free names and every text s with the
         whitespace-free form of fmt_narsese v: lex_parse s = LOk (lex_of_narsese v), fold gives v.
       C03_value_agreement_han_kwfree: BOTH pipelines read fmt_narsese v back to v (enum side: Props/C01e.v).
       C03e_agree_value_tree_han: the same with the term of v written as ANY surface tree with well-formed
         keyword-free atoms (re-spaced, derived copulas at any depth).
     Generic forms (C03e_*_generic): every pair of format records passing the finite check agree_value_kw
       (= agree_value_all of Props/C03c.v with lex_clean_atoms_ok and budget_left_nonident REPLACED by the
       keyword-freeness checks of Props/C02e.v and the keyword-character inclusion) and kwfree_term_ok /
       kwfree_sent_ok of Props/C01e.v.  All three shipped pairs pass (C03e_tables_shipped).

   HOW the failing checks of Props/C03c.v are replaced.  budget_left_nonident ("the budget's opening bracket is
   not a name character" -- 预 is one): a bare word starts with a keyword-free character, 预 is a keyword.
   lex_clean_atoms_ok ("truth / stamp / punctuation brackets end with a non-name character"): a bare name ends
   with a keyword-free character, the brackets end with keyword characters; the bracket-less stamp 发生在+digits is
   searched backwards for 在, which is in no prefix and no name.  same_layout: not needed -- the lexical parser
   works on the whitespace-free text (C09d_lex_parse_idealize) and those coincide.

   HYPOTHESES: the f64 oracle contract (Display / FromStr round trip on the numbers of the value, number texts
   are digit/dot strings, "" does not read, 0.0 is in range), the property's well-formedness (wf_value, vals_ok).
   NOT COVERED: the correspondence of the models with the Rust code (differential check of ./check C03). *)
From Nv Require Import Model.AgreeValue Model.LexKwfree.
From Nv Require Import Proofs.LexPTotal Proofs.LexPMain Proofs.LexPTables Proofs.FoldP2 Proofs.FoldP3 Proofs.EnumTermCor Proofs.EnumUnambP Proofs.EnumSentP Proofs.EnumFinalP
                       Proofs.EnumHanP Proofs.AgreeP Proofs.AgreeValueP Proofs.HanAgreeP.
Import ListNotations.

(* ---- the tables ---- *)
Theorem C03e_tables_meaning : forall (ia : N -> bool) (E : efmt) (L : lfmt),
  agree_value_kw ia E L =
  agree_all ia E L && lex_c02_kw_ok L ia && agree_items E L && lefts_nonempty (compile L) && door_fmt_ok E &&
  forallb (fun c => memb c (concat (probe_fields E))) (concat (keywords L)).
Proof. exact agree_value_kw_meaning. Qed.
Print Assumptions C03e_tables_meaning.

Theorem C03e_tables_han : agree_value_kw std_alnum FORMAT_HAN LEX_HAN = true.
Proof. exact han_agree_value_kw. Qed.
Print Assumptions C03e_tables_han.

Theorem C03e_tables_shipped : forallb (fun p => agree_value_kw std_alnum (fst p) (snd p)) shipped_pairs = true.
Proof. exact shipped_agree_value_kw. Qed.
Print Assumptions C03e_tables_shipped.

Theorem C03e_alnum_facts_han_std : alnum_facts_han std_alnum = true.
Proof. exact alnum_facts_han_std_alnum. Qed.
Print Assumptions C03e_alnum_facts_han_std.

(* enum-side keyword-freeness implies the lexical one *)
Theorem C03e_kwfree_name_lex : forall (E : efmt) (L : lfmt), lex_kw_sub E L = true ->
  forall n : str, kwfree_name E n = true -> lkwfree_name L n = true.
Proof. exact kwfree_name_lex. Qed.
Print Assumptions C03e_kwfree_name_lex.

Theorem C03e_skwfree_lex_tree : forall (E : efmt) (L : lfmt), lex_kw_sub E L = true ->
  forall st : sterm, skwfree E st = true -> lterm_kwfree L (lex_tree E st) = true.
Proof. exact skwfree_lex_tree. Qed.
Print Assumptions C03e_skwfree_lex_tree.

(* ---- generic: any pair of records passing the finite checks ---- *)
(* the enum-side name condition of the tree written without spaces (from which the lexical conditions are derived) *)
Theorem C03e_unamb_respace0_generic : forall (ia : N -> bool) (E : efmt) (L : lfmt),
  agree_value_kw ia E L = true -> kwfree_term_ok ia E = true ->
  forall st : sterm, satoms_ok ia E st = true -> skwfree E st = true -> SstOk.unamb ia E (respace 0 st) [] = true.
Proof. exact unamb_respace0_kw. Qed.
Print Assumptions C03e_unamb_respace0_generic.

Theorem C03e_agree_term_generic : forall (ia : N -> bool) (E : efmt) (L : lfmt),
  agree_value_kw ia E L = true -> kwfree_term_ok ia E = true ->
  forall (G : Type) (t : sterm) (x : term),
  odesugar t = Some x -> satoms_ok ia E t = true -> skwfree E t = true ->
  parse_term G ia E (new_state G (render E t)) =
    EnumParser.POk x (step G (length (render E t)) (new_state G (render E t))) /\
  lex_then_fold ia L E (render E t) = FOk x.
Proof. exact agree_term_kw. Qed.
Print Assumptions C03e_agree_term_generic.

Theorem C03e_texts_same_stripped_generic :
  forall (F : Type) (fshow : F -> str) (in01 : F -> bool) (ia : N -> bool) (E : efmt) (L : lfmt),
  agree_value_kw ia E L = true -> kwfree_term_ok ia E = true ->
  (forall x, in01 x = true -> fshow x <> [] /\ Forall (fun c => is_float_char c = true) (fshow x)) ->
  fmt_space_ok E = true -> arms_cover E = true ->
  forall v : narsese F, wf_value ia E v = true -> vals_ok F in01 v = true ->
  idealize_env (compile L) (fmt_narsese F fshow E v) =
  idealize_env (compile L) (lex_fmt L (Readme.lex_of_narsese F fshow E v)).
Proof. exact fmt_texts_same_stripped. Qed.
Print Assumptions C03e_texts_same_stripped_generic.

Theorem C03e_lex_parse_value_tree_generic :
  forall (F : Type) (fshow : F -> str) (in01 : F -> bool) (ia : N -> bool) (E : efmt) (L : lfmt),
  agree_value_kw ia E L = true -> kwfree_term_ok ia E = true ->
  (forall x, in01 x = true -> fshow x <> [] /\ Forall (fun c => is_float_char c = true) (fshow x)) ->
  forall (st : sterm) (v : narsese F) (s : str),
  odesugar st = Some (nv_term v) -> satoms_ok ia E st = true -> skwfree E st = true -> vals_ok F in01 v = true ->
  idealize_env (compile L) s = idealize_env (compile L) (value_text F fshow E (render E st) v) ->
  lex_parse ia L s = LOk (lex_value_of F fshow E (lex_tree E st) v).
Proof. exact lex_parse_value_tree_kw. Qed.
Print Assumptions C03e_lex_parse_value_tree_generic.

Theorem C03e_agree_value_generic :
  forall (F : Type) (fshow : F -> str) (fread : str -> option F) (in01 : F -> bool) (ia : N -> bool) (E : efmt) (L : lfmt),
  agree_value_kw ia E L = true -> kwfree_term_ok ia E = true ->
  (forall x, in01 x = true -> fread (fshow x) = Some x) ->
  (forall x, in01 x = true -> fshow x <> [] /\ Forall (fun c => is_float_char c = true) (fshow x)) ->
  fmt_space_ok E = true -> arms_cover E = true ->
  forall (fzero : F) (kt ki : nat),
  sent_ok E = true -> fmt_tables_ok E kt ki = true -> kwfree_sent_ok ia E = true ->
  fread [] = None -> in01 fzero = true ->
  forall v : narsese F, wf_value ia E v = true -> names_kwfree E v = true -> vals_ok F in01 v = true ->
  (exists st, parse_narsese F fread fzero in01 ia E (fmt_narsese F fshow E v) = EnumParser.POk v st) /\
  lex_parse ia L (fmt_narsese F fshow E v) = LOk (Readme.lex_of_narsese F fshow E v) /\
  lex_then_fold_narsese F fread in01 ia L E (fmt_narsese F fshow E v) = FOk v.
Proof. exact agree_value_fmt_kw. Qed.
Print Assumptions C03e_agree_value_generic.

(* ---- Han, term level ---- *)
Theorem C03_han_term_kwfree : forall (G : Type) (t : sterm) (x : term),
  odesugar t = Some x -> satoms_ok std_alnum FORMAT_HAN t = true -> skwfree FORMAT_HAN t = true ->
  parse_term G std_alnum FORMAT_HAN (new_state G (render FORMAT_HAN t)) =
    EnumParser.POk x (step G (length (render FORMAT_HAN t)) (new_state G (render FORMAT_HAN t))) /\
  lex_then_fold std_alnum LEX_HAN FORMAT_HAN (render FORMAT_HAN t) = FOk x.
Proof. exact han_agree_term_kwfree. Qed.
Print Assumptions C03_han_term_kwfree.

(* the enum formatter's own output for a well-formed term, and n spaces at every token boundary of it *)
Theorem C03_han_fmt_term_kwfree : forall (G : Type) (n : nat) (x : term),
  wf_term std_alnum FORMAT_HAN x = true -> term_kwfree FORMAT_HAN x = true ->
  (parse_term G std_alnum FORMAT_HAN (new_state G (fmt_term FORMAT_HAN x)) =
     EnumParser.POk x (step G (length (fmt_term FORMAT_HAN x)) (new_state G (fmt_term FORMAT_HAN x))) /\
   lex_then_fold std_alnum LEX_HAN FORMAT_HAN (fmt_term FORMAT_HAN x) = FOk x) /\
  (parse_term G std_alnum FORMAT_HAN (new_state G (render FORMAT_HAN (respace n (sst FORMAT_HAN x)))) =
     EnumParser.POk x (step G (length (render FORMAT_HAN (respace n (sst FORMAT_HAN x))))
                        (new_state G (render FORMAT_HAN (respace n (sst FORMAT_HAN x))))) /\
   lex_then_fold std_alnum LEX_HAN FORMAT_HAN (render FORMAT_HAN (respace n (sst FORMAT_HAN x))) = FOk x).
Proof. exact han_agree_fmt_term_kwfree. Qed.
Print Assumptions C03_han_fmt_term_kwfree.

(* C09 for both pipelines: two writings that differ only in the numbers of spaces at the token boundaries *)
Theorem C09_han_both_pipelines_kwfree : forall (G : Type) (t1 t2 : sterm) (x : term),
  same_shape t1 t2 -> odesugar t1 = Some x -> satoms_ok std_alnum FORMAT_HAN t1 = true -> skwfree FORMAT_HAN t1 = true ->
  of_door G (parse_term G std_alnum FORMAT_HAN (new_state G (render FORMAT_HAN t1))) = FOk x /\
  of_door G (parse_term G std_alnum FORMAT_HAN (new_state G (render FORMAT_HAN t2))) = FOk x /\
  lex_then_fold std_alnum LEX_HAN FORMAT_HAN (render FORMAT_HAN t1) = FOk x /\
  lex_then_fold std_alnum LEX_HAN FORMAT_HAN (render FORMAT_HAN t2) = FOk x.
Proof. exact han_respacing_both_pipelines_kwfree. Qed.
Print Assumptions C09_han_both_pipelines_kwfree.

(* C09, lexical pipeline: any text with the same whitespace-free form (any Unicode White_Space anywhere) *)
Theorem C09_han_lex_any_text_kwfree : forall (t : sterm) (x : term) (s : str),
  odesugar t = Some x -> satoms_ok std_alnum FORMAT_HAN t = true -> skwfree FORMAT_HAN t = true ->
  idealize_env (compile LEX_HAN) s = render FORMAT_HAN (respace 0 t) ->
  lex_then_fold std_alnum LEX_HAN FORMAT_HAN s = FOk x.
Proof. exact han_lex_then_fold_any_text_kwfree. Qed.
Print Assumptions C09_han_lex_any_text_kwfree.

(* ---- Han, value level ---- *)
Theorem C03e_texts_same_stripped_han : forall (F : Type) (fshow : F -> str) (in01 : F -> bool),
  (forall x, in01 x = true -> fshow x <> [] /\ Forall (fun c => is_float_char c = true) (fshow x)) ->
  forall v : narsese F, wf_value std_alnum FORMAT_HAN v = true -> vals_ok F in01 v = true ->
  idealize_env (compile LEX_HAN) (fmt_narsese F fshow FORMAT_HAN v) =
  idealize_env (compile LEX_HAN) (lex_fmt LEX_HAN (Readme.lex_of_narsese F fshow FORMAT_HAN v)).
Proof. exact han_fmt_texts_same_stripped. Qed.
Print Assumptions C03e_texts_same_stripped_han.

Theorem C03e_lex_value_kwfree_han : forall (F : Type) (fshow : F -> str) (v : narsese F),
  wf_value std_alnum FORMAT_HAN v = true -> names_kwfree FORMAT_HAN v = true ->
  lnames_kwfree LEX_HAN (Readme.lex_of_narsese F fshow FORMAT_HAN v) = true.
Proof. exact han_lex_value_names_kwfree. Qed.
Print Assumptions C03e_lex_value_kwfree_han.

(* the lexical pipeline on the ENUM formatter's text, and on every text with the same whitespace-free form *)
Theorem C03e_lex_pipeline_han :
  forall (F : Type) (fshow : F -> str) (fread : str -> option F) (in01 : F -> bool),
  (forall x, in01 x = true -> fread (fshow x) = Some x) ->
  (forall x, in01 x = true -> fshow x <> [] /\ Forall (fun c => is_float_char c = true) (fshow x)) ->
  forall (v : narsese F) (s : str),
  wf_value std_alnum FORMAT_HAN v = true -> names_kwfree FORMAT_HAN v = true -> vals_ok F in01 v = true ->
  idealize_env (compile LEX_HAN) s = idealize_env (compile LEX_HAN) (fmt_narsese F fshow FORMAT_HAN v) ->
  lex_parse std_alnum LEX_HAN s = LOk (Readme.lex_of_narsese F fshow FORMAT_HAN v) /\
  fold_narsese F fread in01 FORMAT_HAN (Readme.lex_of_narsese F fshow FORMAT_HAN v) = FOk v /\
  lex_then_fold_narsese F fread in01 std_alnum LEX_HAN FORMAT_HAN s = FOk v.
Proof. exact han_lex_pipeline_kwfree. Qed.
Print Assumptions C03e_lex_pipeline_han.

(* ... the lexical formatter's text of the same value in particular (C02 for the lexical values of enum values,
   placeholders of images included) *)
Theorem C03e_lex_parse_lex_fmt_han :
  forall (F : Type) (fshow : F -> str) (fread : str -> option F) (in01 : F -> bool),
  (forall x, in01 x = true -> fread (fshow x) = Some x) ->
  (forall x, in01 x = true -> fshow x <> [] /\ Forall (fun c => is_float_char c = true) (fshow x)) ->
  forall v : narsese F,
  wf_value std_alnum FORMAT_HAN v = true -> names_kwfree FORMAT_HAN v = true -> vals_ok F in01 v = true ->
  lex_parse std_alnum LEX_HAN (lex_fmt LEX_HAN (Readme.lex_of_narsese F fshow FORMAT_HAN v)) =
  LOk (Readme.lex_of_narsese F fshow FORMAT_HAN v).
Proof. exact han_lex_parse_lex_fmt_kwfree. Qed.
Print Assumptions C03e_lex_parse_lex_fmt_han.

(* both pipelines, the term written as ANY surface tree with well-formed keyword-free atoms *)
Theorem C03e_agree_value_tree_han :
  forall (F : Type) (fshow : F -> str) (fread : str -> option F) (fzero : F) (in01 : F -> bool),
  fread [] = None -> in01 fzero = true ->
  (forall x, in01 x = true -> fread (fshow x) = Some x) ->
  (forall x, in01 x = true -> fshow x <> [] /\ Forall (fun c => is_float_char c = true) (fshow x)) ->
  forall (st : sterm) (v : narsese F),
  odesugar st = Some (nv_term v) -> satoms_ok std_alnum FORMAT_HAN st = true -> skwfree FORMAT_HAN st = true ->
  vals_ok F in01 v = true ->
  (exists st', parse_narsese F fread fzero in01 std_alnum FORMAT_HAN (value_text F fshow FORMAT_HAN (render FORMAT_HAN st) v)
               = EnumParser.POk v st') /\
  lex_parse std_alnum LEX_HAN (value_text F fshow FORMAT_HAN (render FORMAT_HAN st) v) =
    LOk (lex_value_of F fshow FORMAT_HAN (lex_tree FORMAT_HAN st) v) /\
  lex_then_fold_narsese F fread in01 std_alnum LEX_HAN FORMAT_HAN (value_text F fshow FORMAT_HAN (render FORMAT_HAN st) v) = FOk v.
Proof. exact han_agree_value_tree_kwfree. Qed.
Print Assumptions C03e_agree_value_tree_han.

(* C03 for whole Han values with keyword-free names: THE theorem *)
Theorem C03_value_agreement_han_kwfree :
  forall (F : Type) (fshow : F -> str) (fread : str -> option F) (fzero : F) (in01 : F -> bool),
  fread [] = None -> in01 fzero = true ->
  (forall x, in01 x = true -> fread (fshow x) = Some x) ->
  (forall x, in01 x = true -> fshow x <> [] /\ Forall (fun c => is_float_char c = true) (fshow x)) ->
  forall v : narsese F,
  wf_value std_alnum FORMAT_HAN v = true -> names_kwfree FORMAT_HAN v = true -> vals_ok F in01 v = true ->
  (exists st, parse_narsese F fread fzero in01 std_alnum FORMAT_HAN (fmt_narsese F fshow FORMAT_HAN v) = EnumParser.POk v st) /\
  lex_parse std_alnum LEX_HAN (fmt_narsese F fshow FORMAT_HAN v) = LOk (Readme.lex_of_narsese F fshow FORMAT_HAN v) /\
  lex_then_fold_narsese F fread in01 std_alnum LEX_HAN FORMAT_HAN (fmt_narsese F fshow FORMAT_HAN v) = FOk v.
Proof. exact han_agree_value_kwfree. Qed.
Print Assumptions C03_value_agreement_han_kwfree.

(* ... as an equation between the two pipelines (of_door: POk v _ => FOk v, PErr => FErr, otherwise FPanic) *)
Theorem C03_value_agreement_han_kwfree_eq :
  forall (F : Type) (fshow : F -> str) (fread : str -> option F) (fzero : F) (in01 : F -> bool),
  fread [] = None -> in01 fzero = true ->
  (forall x, in01 x = true -> fread (fshow x) = Some x) ->
  (forall x, in01 x = true -> fshow x <> [] /\ Forall (fun c => is_float_char c = true) (fshow x)) ->
  forall v : narsese F,
  wf_value std_alnum FORMAT_HAN v = true -> names_kwfree FORMAT_HAN v = true -> vals_ok F in01 v = true ->
  of_door F (parse_narsese F fread fzero in01 std_alnum FORMAT_HAN (fmt_narsese F fshow FORMAT_HAN v)) =
  lex_then_fold_narsese F fread in01 std_alnum LEX_HAN FORMAT_HAN (fmt_narsese F fshow FORMAT_HAN v).
Proof. exact han_agree_value_kwfree_eq. Qed.
Print Assumptions C03_value_agreement_han_kwfree_eq.

(* ---- the K3 space-disagreement example lies outside the subdomain ---- *)
Theorem C03e_K3_space_outside :
  let t := SStmt arm_property 0 1 0 0 (SAtom arm_word [97; 20855]%N) (SAtom arm_word [20540]%N) in   (* 「a具 有值」 *)
  satoms_ok std_alnum FORMAT_HAN t = true /\ skwfree FORMAT_HAN t = false /\
  kwfree_name FORMAT_HAN [97; 20855]%N = false /\ kwfree_name FORMAT_HAN [20540]%N = false.
Proof. exact k3_space_outside_kwfree. Qed.
Print Assumptions C03e_K3_space_outside.

(* ---- non-vacuity ---- *)
Example ex_C03e_toy_oracles :
  toy_read [] = None /\ toy_in01 toy_zero = true /\
  (forall x, toy_in01 x = true -> toy_read (toy_show x) = Some x) /\
  (forall x, toy_in01 x = true -> toy_show x <> [] /\ Forall (fun c => is_float_char c = true) (toy_show x)).
Proof. exact toy_oracles_agree. Qed.

(* the five Han values of Props/C01e.v satisfy the hypotheses of C03_value_agreement_han_kwfree, and -- re-computed by
   vm_compute on the three models, independently of the theorems -- both pipelines return each value on the enum
   formatter's text; the lexical parser reads that text and the lexical formatter's text as lex_of_narsese v *)
Example ex_C03e_han_values :
  forallb ex_hyp_han_std ex_han_values = true /\
  map (fun v => of_door str (parse_narsese str toy_read toy_zero toy_in01 std_alnum FORMAT_HAN (ex_han_text v))) ex_han_values
    = map (@FOk _) ex_han_values /\
  map (fun v => lex_then_fold_narsese str toy_read toy_in01 std_alnum LEX_HAN FORMAT_HAN (ex_han_text v)) ex_han_values
    = map (@FOk _) ex_han_values /\
  map (fun v => lex_parse std_alnum LEX_HAN (ex_han_text v)) ex_han_values = map (fun v => LOk (ex_han_lex v)) ex_han_values /\
  map (fun v => lex_parse std_alnum LEX_HAN (lex_fmt LEX_HAN (ex_han_lex v))) ex_han_values
    = map (fun v => LOk (ex_han_lex v)) ex_han_values.
Proof. exact ex_han_agree_kwfree. Qed.

(* the two nested surface trees of Props/C03b.v (derived copulas, both images, interval, sets, every variable kind,
   a placeholder) at 0, 1 and 3 spaces per boundary satisfy the hypotheses of C03_han_term_kwfree *)
Example ex_C03e_han_trees :
  forallb (fun n => satoms_ok std_alnum FORMAT_HAN (ex_tree n) && skwfree FORMAT_HAN (ex_tree n) &&
                    satoms_ok std_alnum FORMAT_HAN (ex_tree2 n) && skwfree FORMAT_HAN (ex_tree2 n)) [0; 1; 3]%nat = true.
Proof. exact ex_han_tree_kwfree. Qed.
