(* Props/C15c.v -- C15: the LEXICAL parser classifies by the same table as the enum parser
   ("identically in both parsers").  Statements only; proofs in Proofs/LexClassP.v.
   mid_fold is the model of impl_lexical MidParseResult::fold (Model/LexParser.v); compare
   C15_classify_kind in Props/C15.v: the four right-hand sides are the same boolean functions of
   (budget present, punctuation present), and both are errors exactly when there is no term. *)
From Nv Require Import Model.LexParser Proofs.LexClassP.

Theorem C15_lex_classify_kind : forall (m : mid_result) (v : lnarsese),
  mid_fold m = Some v ->
  lhas (m_term m) = true /\
  nv_is_task v = lhas (m_budget m) && lhas (m_punct m) /\
  nv_is_sentence v = negb (lhas (m_budget m)) && lhas (m_punct m) /\
  nv_is_term v = negb (lhas (m_punct m)).
Proof. exact lex_classify_kind. Qed.
Print Assumptions C15_lex_classify_kind.

Theorem C15_lex_classify_error : forall m : mid_result, mid_fold m = None <-> m_term m = None.
Proof. exact lex_classify_none. Qed.
Print Assumptions C15_lex_classify_error.

Theorem C15_lex_classify_spec : forall m : mid_result,
  match mid_fold m with
  | Some (NTask k) => m_budget m = Some (lt_budget k) /\ m_term m = Some (ls_term (lt_sentence k)) /\ m_punct m = Some (ls_punct (lt_sentence k))
  | Some (NSentence s) => m_budget m = None /\ m_term m = Some (ls_term s) /\ m_punct m = Some (ls_punct s)
  | Some (NTerm t) => m_term m = Some t /\ m_punct m = None
  | None => m_term m = None
  end.
Proof. exact lex_classify_spec. Qed.
Print Assumptions C15_lex_classify_spec.
