(* Props/C03.v -- C03: direct enum parsing and lexical parsing + folding give the same value.
   Statements only; proofs in Proofs/FoldP.v, Proofs/FoldP2.v.

   The full statement (DESIGN section 4, C03):
     C03_agree : shipped F -> prints F t s -> unamb F t ->
                 parse_narsese F _ s = fold F =<< lex_parse (lexfmt F) s        (both = Ok (desugar_n t))
   factors through three theorems: (1) the enum parser returns desugar t on every printing of t (C01),
   (2) the lexical parser returns the lexical tree of that printing (C02), (3) folding that tree returns
   desugar t.  THIS FILE PROVES (3) for terms -- [C03_fold_lex_of_term] for the enum formatter's own
   output and [C03_fold_sugared] for the same trees written with the derived copulas at any nesting depth
   (via [C10_fold_unsugar]) -- together with the table obligations that tie the two sides: same
   vocabulary ([C03_vocab_same]), same constructor per keyword in fold, enum parser and enum formatter
   ([C03_fold_*_arm_matches_parser], [C03_fold_arm_keys_are_parser_keys], used inside (3)).
   (3) is proved for whole values too ([C03_fold_lex_of_narsese]: numbers through the abstract Display /
   FromStr round trip, stamp and punctuation texts through the enum parser's side doors).
   NOT proved here: (1), (2) (no lexical-parser model exists yet).
   Until then the agreement of the two real pipelines on generated texts is decided by the harness
   (stream `parsed` of nvh C03), which is differential testing, not proof. *)
From Nv Require Import Base.Str Base.Dec Model.Term Model.EqHash Model.Access Model.Sentence.
From Nv Require Import Model.EnumFormat Model.EnumFormatter Model.EnumParser Model.Fold Gen.LexVocab.
From Nv Require Import Base.FloatDec Base.FloatDec2 Proofs.FoldP Proofs.FoldP2 Proofs.FoldP3 Proofs.FloatDec2P.

(* ---- the lexical and the enum format instance of the same name describe the same vocabulary ---- *)
(* every keyword class of the lexical instance (atom prefixes, connecters, copulas, set bracket pairs,
   punctuations, stamp bracket pairs) equals, as a duplicate-free set, the key set of the corresponding
   arm table evaluated in the enum instance; brackets, separators, formatting spaces equal field by field *)
Theorem C03_vocab_same :
  vocab_same LEX_FORMAT_ASCII FORMAT_ASCII = true /\
  vocab_same LEX_FORMAT_LATEX FORMAT_LATEX = true /\
  vocab_same LEX_FORMAT_HAN FORMAT_HAN = true.
Proof. exact vocab_same_shipped. Qed.
Print Assumptions C03_vocab_same.

Theorem C03_vocab_same_discriminates :
  vocab_same LEX_FORMAT_ASCII FORMAT_LATEX = false /\ vocab_same LEX_FORMAT_HAN FORMAT_ASCII = false.
Proof. exact vocab_same_discriminates. Qed.
Print Assumptions C03_vocab_same_discriminates.

(* the keywords the fold compares with are pairwise distinct inside each class, in every shipped format *)
Theorem C03_fold_kw_distinct_shipped : forallb fold_kw_distinct shipped_formats = true.
Proof. exact fold_kw_distinct_shipped. Qed.
Print Assumptions C03_fold_kw_distinct_shipped.

(* ---- for every keyword, the fold arm builds what the enum parser's arm builds ---- *)
(* (a copy-paste slip such as folding the intensional difference to DifferenceExtension breaks these) *)
Theorem C03_fold_atom_arm_matches_parser : forall (E : efmt) (g : efmt -> str) (i : atom_init),
  fold_kw_distinct E = true -> In (g, i) parse_atom_arms ->
  exists a, first_eq E (g E) fold_atom_arms = Some a /\ atom_match i a = true.
Proof. exact fold_atom_arm_matches_parser. Qed.
Print Assumptions C03_fold_atom_arm_matches_parser.

Theorem C03_fold_compound_arm_matches_parser : forall (E : efmt) (g : efmt -> str) (i : comp_init),
  fold_kw_distinct E = true -> In (g, i) parse_compound_arms ->
  exists a, first_eq E (g E) fold_compound_arms = Some a /\ comp_match i a = true.
Proof. exact fold_compound_arm_matches_parser. Qed.
Print Assumptions C03_fold_compound_arm_matches_parser.

Theorem C03_fold_statement_arm_matches_parser : forall (E : efmt) (g : efmt -> str) (b : stmt_build),
  fold_kw_distinct E = true -> In (g, b) parse_statement_arms ->
  exists b', first_eq E (g E) fold_statement_arms = Some b' /\ stmt_match b b' = true.
Proof. exact fold_statement_arm_matches_parser. Qed.
Print Assumptions C03_fold_statement_arm_matches_parser.

Theorem C03_fold_arm_keys_are_parser_keys :
  (forall g a, In (g, a) fold_atom_arms -> exists i, In (g, i) parse_atom_arms /\ atom_match i a = true) /\
  (forall g a, In (g, a) fold_compound_arms -> exists i, In (g, i) parse_compound_arms /\ comp_match i a = true) /\
  (forall g b, In (g, b) fold_statement_arms -> exists b', In (g, b') parse_statement_arms /\ stmt_match b' b = true).
Proof. exact fold_arm_keys_are_parser_keys. Qed.
Print Assumptions C03_fold_arm_keys_are_parser_keys.

(* ---- (3): folding the lexical tree of what the enum formatter prints ---- *)
(* [lex_of_term E t] is EnumFormatter.fmt_term with trees in place of strings; [norm] re-inserts set
   payloads (identity on duplicate-free sets); [lex_wf]: names non-empty, intervals in usize range, image
   index within the components and no placeholder component before it (else: known class K1) *)
Theorem C03_fold_lex_of_term_norm : forall (E : efmt), fold_kw_distinct E = true ->
  forall t : term, lex_wf t = true -> fold_term E (lex_of_term E t) = FOk (norm t).
Proof. exact fold_lex_of_term. Qed.
Print Assumptions C03_fold_lex_of_term_norm.

Theorem C03_fold_lex_of_term : forall (E : efmt) (t : term),
  fold_kw_distinct E = true -> set_ok t = true -> lex_wf t = true -> fold_term E (lex_of_term E t) = FOk t.
Proof. exact fold_lex_of_term_id. Qed.
Print Assumptions C03_fold_lex_of_term.

(* the same strings written with the derived copulas, at any nesting position *)
Theorem C03_fold_sugared : forall (E : efmt) (x : lterm) (t : term),
  fold_kw_distinct E = true -> set_ok t = true -> lex_wf t = true ->
  unsugar E x = lex_of_term E t -> fold_term E x = FOk t.
Proof. exact fold_sugared_lex_of_term. Qed.
Print Assumptions C03_fold_sugared.

Example ex_fold_sugared :
  let S := TName Word [83]%N in let P := TName Word [80]%N in
  let t := TBox2 Inheritance (TSet SetExtension [S]) P in
  let x := LStatement (statement_copula_instance FORMAT_ASCII) (LAtom [] [83]%N) (LAtom [] [80]%N) in
  fold_kw_distinct FORMAT_ASCII = true /\ set_ok t = true /\ lex_wf t = true /\
  unsugar FORMAT_ASCII x = lex_of_term FORMAT_ASCII t /\ fold_term FORMAT_ASCII x = FOk t.
Proof. exact ex_fold_sugared. Qed.

(* ---- (3) for whole values: sentences and tasks ---- *)
(* [lex_of_narsese]: the lexical value of the formatter's output (term tree, punctuation keyword, stamp text,
   the numbers as printed).  Numbers: the float type is abstract; the one fact used is the Display/FromStr
   round trip on numbers that pass the range test.  Stamp and punctuation texts are read back by the enum
   parser's side doors under the boolean format conditions [door_fmt_ok] (true of the shipped formats). *)
Theorem C03_door_fmt_ok_shipped : forallb door_fmt_ok shipped_formats = true.
Proof. exact door_fmt_ok_shipped. Qed.
Print Assumptions C03_door_fmt_ok_shipped.

Theorem C03_door_stamp_reads_back : forall (F : Type) (E : efmt) (st : stamp),
  In E shipped_formats -> stamp_in_range st = true -> exists s', door_stamp F E (fmt_stamp E st) = POk st s'.
Proof. exact door_stamp_fmt_shipped. Qed.
Print Assumptions C03_door_stamp_reads_back.

Theorem C03_door_punctuation_reads_back : forall (F : Type) (E : efmt) (p : punct),
  In E shipped_formats -> exists s', door_punctuation F E (fmt_punct E p) = POk p s'.
Proof. exact door_punctuation_fmt_shipped. Qed.
Print Assumptions C03_door_punctuation_reads_back.

Theorem C03_fold_lex_of_narsese :
  forall (F : Type) (fshow : F -> str) (fread : str -> option F) (in01 : F -> bool) (E : efmt),
    fold_kw_distinct E = true -> door_fmt_ok E = true ->
    (forall x, in01 x = true -> fread (fshow x) = Some x) ->
    forall v : narsese F, narsese_wf F in01 v = true ->
      fold_narsese F fread in01 E (lex_of_narsese F fshow E v) = FOk v.
Proof. exact fold_lex_of_narsese_fmt. Qed.
Print Assumptions C03_fold_lex_of_narsese.

Example ex_fold_lex_of_narsese :
  let fshow := fun c : N => [c] in
  let fread := fun s : str => match s with [c] => Some c | _ => None end in
  let in01 := fun _ : N => true in
  let v : narsese N := NTask (SJudgement (TBox2 Inheritance (TName Word [65]%N) (TSet SetIntension [TName Word [66]%N]))
                                         (TruthDouble 49 48)%N (Fixed (-1)%Z), BudgetSingle 48%N) in
  fold_kw_distinct FORMAT_ASCII = true /\ door_fmt_ok FORMAT_ASCII = true /\
  (forall x, in01 x = true -> fread (fshow x) = Some x) /\ narsese_wf N in01 v = true /\
  fold_narsese N fread in01 FORMAT_ASCII (lex_of_narsese N fshow FORMAT_ASCII v) = FOk v.
Proof. exact fold_lex_of_narsese_example. Qed.

(* the numbers: the reader the fold uses (str::parse::<f64>() on any string) and the reader of the enum
   parser (digits and dots) take a digits-and-dots buffer apart identically (the bit-level corollary
   fread_full s = fread_dec s is Proofs/FloatDec2P.fread_full_extends_fread_dec; it mentions Flocq's
   binary64 and therefore rests on the reals axioms, so it is not restated in this file) *)
Theorem C03_same_decimal : forall s : str,
  Forall (fun c => digit_or_dot c = true) s ->
  parse_number s =
  match dec_scan s false 0%N O O with
  | Some (m, k, S nd) => Some (m, S nd, (- Z.of_nat k)%Z)
  | _ => None
  end.
Proof. exact same_decimal. Qed.
Print Assumptions C03_same_decimal.

(* outside the domain: K1 (the witness of the known finding, at the fold level) *)
Theorem C03_fold_K1_witness :
  let t := TImg ImageExtension 1 [placeholder; TName Word [66]%N] in
  set_ok t = true /\ lex_wf t = false /\
  fold_term FORMAT_ASCII (lex_of_term FORMAT_ASCII t) = FOk (TImg ImageExtension 0 [placeholder; TName Word [66]%N]).
Proof. exact fold_lex_K1_witness. Qed.
Print Assumptions C03_fold_K1_witness.

(* ---- C10 at the fold level: derived copulas, image index, interval, placeholder ---- *)
Theorem C10_fold_instance : forall (E : efmt), fold_kw_distinct E = true -> forall s p : term,
  fold_statement E s (statement_copula_instance E) p = FOk (TBox2 Inheritance (TSet SetExtension [s]) p).
Proof. exact fold_instance. Qed.
Print Assumptions C10_fold_instance.

Theorem C10_fold_property : forall (E : efmt), fold_kw_distinct E = true -> forall s p : term,
  fold_statement E s (statement_copula_property E) p = FOk (TBox2 Inheritance s (TSet SetIntension [p])).
Proof. exact fold_property. Qed.
Print Assumptions C10_fold_property.

Theorem C10_fold_instance_property : forall (E : efmt), fold_kw_distinct E = true -> forall s p : term,
  fold_statement E s (statement_copula_instance_property E) p =
  FOk (TBox2 Inheritance (TSet SetExtension [s]) (TSet SetIntension [p])).
Proof. exact fold_instance_property. Qed.
Print Assumptions C10_fold_instance_property.

Theorem C10_fold_equivalence_retrospective : forall (E : efmt), fold_kw_distinct E = true -> forall s p : term,
  fold_statement E s (statement_copula_equivalence_retrospective E) p = FOk (TBox2 EquivalencePredictive p s).
Proof. exact fold_equivalence_retrospective. Qed.
Print Assumptions C10_fold_equivalence_retrospective.

(* expanding the derived copulas of ANY lexical term, at any depth, does not change what it folds to
   (value or error): <S {-- P> ~ <{S} --> P>, <S --] P> ~ <S --> [P]>, <S {-] P> ~ <{S} --> [P]>,
   <S <\> P> ~ <P </> S> *)
Theorem C10_fold_unsugar : forall (E : efmt), fold_kw_distinct E = true ->
  forall x : lterm, fold_term E (unsugar E x) = fold_term E x.
Proof. exact fold_unsugar. Qed.
Print Assumptions C10_fold_unsugar.

(* an image connecter yields the image whose index is the position of the first placeholder *)
Theorem C10_fold_image : forall (E : efmt), fold_kw_distinct E = true ->
  forall (g : efmt -> str) (c : img_ctor) (l1 l2 : list term),
    In (g, CFImage c) fold_compound_arms ->
    forallb (fun x => negb (is_placeholder x)) l1 = true ->
    fold_compound E (g E) (l1 ++ placeholder :: l2) = FOk (TImg c (nlen l1) (l1 ++ l2)).
Proof. exact fold_image. Qed.
Print Assumptions C10_fold_image.

Theorem C10_fold_image_needs_placeholder : forall (E : efmt), fold_kw_distinct E = true ->
  forall (g : efmt -> str) (c : img_ctor) (l : list term),
    In (g, CFImage c) fold_compound_arms ->
    forallb (fun x => negb (is_placeholder x)) l = true -> fold_compound E (g E) l = FErr.
Proof. exact fold_image_no_placeholder. Qed.
Print Assumptions C10_fold_image_needs_placeholder.

Theorem C10_fold_interval : forall (E : efmt), fold_kw_distinct E = true -> forall (name : str) (n : N),
  read_usize name = Some n -> fold_atom E (atom_prefix_interval E) name = FOk (TNum Interval n).
Proof. exact fold_interval. Qed.
Print Assumptions C10_fold_interval.

Theorem C10_fold_placeholder : forall (E : efmt), fold_kw_distinct E = true -> forall name : str,
  fold_atom E (atom_prefix_placeholder E) name = FOk (TUnit Placeholder).
Proof. exact fold_placeholder. Qed.
Print Assumptions C10_fold_placeholder.

(* `+0007` is the interval 7 *)
Example ex_interval_0007 : read_usize [48; 48; 48; 55]%N = Some 7%N.
Proof. exact interval_0007_example. Qed.
