(* Props/C08.v -- parsing depends only on format and input.  Statements only; proofs in
   Proofs/EnumParseP.v, Proofs/EnumTotalP.v.  The model's parse_multi threads ONE parser state through
   all inputs exactly as the Rust does (parse_multi_from: reset_to, then run_parse on the state the
   previous input left, whether it succeeded, failed half-way or was only partially consumed). *)
From Nv Require Import Model.EnumOk Proofs.EnumTotalP Proofs.EnumParseP Gen.LexFormats.

(* table obligation (T5): reset_to clears the mid result -- regenerated from the source on every run *)
Theorem C08_reset_clears_mid : reset_clears_mid = true.
Proof. exact reset_clears_mid_true. Qed.
Print Assumptions C08_reset_clears_mid.

Theorem C08_reset_is_fresh : forall (F : Type) (st : pstate F) (input : str), reset_to F st input = new_state F input.
Proof. intros F. exact (reset_to_fresh F reset_clears_mid_true). Qed.
Print Assumptions C08_reset_is_fresh.

(* every position of a batch has the outcome of parsing that input alone, whatever state the parser
   was left in (any st), for ANY list of inputs -- valid, partial or invalid *)
Theorem C08_multi_independent :
  forall (F : Type) (fread : str -> option F) (fzero : F) (in01 : F -> bool) (is_alnum : N -> bool) (E : efmt)
         (inputs : list str) (st : pstate F),
    parse_multi_from F fread fzero in01 is_alnum E st inputs =
    seq_opt (map (fun i => to_outcome F (parse_narsese F fread fzero in01 is_alnum E i)) inputs).
Proof. intros F fread fzero in01 is_alnum E. exact (parse_multi_independent F fread fzero in01 is_alnum E reset_clears_mid_true). Qed.
Print Assumptions C08_multi_independent.

(* with totality: for the shipped formats the batch never fails as a whole *)
Theorem C08_multi_shipped :
  forall (F : Type) (fread : str -> option F) (fzero : F) (in01 : F -> bool) (is_alnum : N -> bool) (E : efmt),
    shipped E -> forall (inputs : list str),
    exists outs, parse_multi F fread fzero in01 is_alnum E inputs = Some outs /\ length outs = length inputs /\
                 forall k i, nth_error inputs k = Some i ->
                   option_map Some (nth_error outs k) = Some (to_outcome F (parse_narsese F fread fzero in01 is_alnum E i)).
Proof. exact multi_shipped. Qed.
Print Assumptions C08_multi_shipped.

(* parsing from a character vector builds the same state from the same characters *)
Theorem C08_parse_chars_same :
  forall (F : Type) (fread : str -> option F) (fzero : F) (in01 : F -> bool) (is_alnum : N -> bool) (E : efmt) (input : str),
    parse_chars F fread fzero in01 is_alnum E input = parse_narsese F fread fzero in01 is_alnum E input.
Proof. exact parse_chars_same. Qed.
Print Assumptions C08_parse_chars_same.

(* non-vacuity / regression: the history of the fixed finding, in the model *)
Example ex_C08_history :
  let p := parse_multi nat (fun _ => Some O) O (fun _ => true) (fun c => (65 <=? c) && (c <=? 90)) FORMAT_ASCII in
  match p [[65; 32; 66]; [46]; [36; 48; 46; 53; 36; 32; 67]; [68; 46]]%N with
  | Some [OErr; OErr; OOk (NTerm _); OOk (NSentence _)] => True
  | _ => False
  end.
Proof. vm_compute. exact I. Qed.

(* the lexical parser: its state is nothing but the (shared, immutable) format reference -- regenerated from
   `struct ParseState` of impl_lexical/parser.rs on every run (T2); the model lex_parse is accordingly a
   function of format and input only, so "parsing depends only on format and input" holds by construction *)
Theorem C08_lexical_state_is_format_only : lex_state_fields = [[102; 111; 114; 109; 97; 116]%N].
Proof. reflexivity. Qed.
Print Assumptions C08_lexical_state_is_format_only.
