(* Props/C15.v -- classification of a parsed input by the items present, and the sentence/task casts
   of both models.  Statements only; proofs in Proofs/EnumParseP.v.  (Wrap/unwrap laws of the Narsese
   value are in Props/C15a.v.)  Not a theorem yet: "format(cast_to_task s) parses to a task with an
   empty budget" needs the parser-correctness theorem of C01; it is decided by the correspondence
   stream and the real-code search of the C15 check. *)
From Nv Require Import Model.EnumOk Proofs.EnumParseP.

(* transform_mid_result: which result kind for which filled slots *)
Theorem C15_classify_kind :
  forall (F : Type) (st : pstate F) (v : narsese F) (st' : pstate F),
    transform_mid_result F st = POk v st' ->
    has (m_term F (s_mid st)) = true /\
    nv_is_task v = has (m_budget F (s_mid st)) && has (m_punct F (s_mid st)) /\
    nv_is_sentence v = negb (has (m_budget F (s_mid st))) && has (m_punct F (s_mid st)) /\
    nv_is_term v = negb (has (m_punct F (s_mid st))).
Proof. exact classify_kind. Qed.
Print Assumptions C15_classify_kind.

(* ... and the value is assembled from exactly those slots; an error iff there is no term *)
Theorem C15_classify_spec :
  forall (F : Type) (st : pstate F),
    match transform_mid_result F st with
    | POk (NTask (s, b)) _ =>
        m_budget F (s_mid st) = Some b /\ has (m_punct F (s_mid st)) = true /\ m_term F (s_mid st) = Some (s_term s) /\
        m_punct F (s_mid st) = Some (s_punct s)
    | POk (NSentence s) _ =>
        m_budget F (s_mid st) = None /\ m_term F (s_mid st) = Some (s_term s) /\ m_punct F (s_mid st) = Some (s_punct s)
    | POk (NTerm t) _ => m_term F (s_mid st) = Some t /\ m_punct F (s_mid st) = None
    | PErr _ => m_term F (s_mid st) = None
    | PPanic => m_term F (s_mid st) = None
    | PFuel => False
    end.
Proof. exact classify_spec. Qed.
Print Assumptions C15_classify_spec.

Theorem C15_cast_roundtrip_enum : forall (F : Type) (s : sentence F), try_cast_to_sentence (cast_to_task s) = inl s.
Proof. exact cast_roundtrip_enum. Qed.
Print Assumptions C15_cast_roundtrip_enum.

Theorem C15_cast_back_enum : forall (F : Type) (k : task F),
  try_cast_to_sentence k = if budget_empty (snd k) then inl (fst k) else inr k.
Proof. exact cast_back_enum. Qed.
Print Assumptions C15_cast_back_enum.

Theorem C15_cast_roundtrip_lex : forall s : lsentence, ltry_cast_to_sentence (lcast_to_task s) = inl s.
Proof. exact cast_roundtrip_lex. Qed.
Print Assumptions C15_cast_roundtrip_lex.

Theorem C15_cast_back_lex : forall k : ltask,
  ltry_cast_to_sentence k = match lt_budget k with [] => inl (lt_sentence k) | _ => inr k end.
Proof. exact cast_back_lex. Qed.
Print Assumptions C15_cast_back_lex.
