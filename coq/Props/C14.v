(* Props/C14.v -- component access, category and capacity of terms are mutually consistent.
   Statements only; proofs in Proofs/AccessP.v.  [img_ok], [access_tables_ok], [box2_is_difference],
   [box2_is_symmetric] are defined in Proofs/AccessP.v. *)
From Nv Require Import Base.Str Base.Dec Model.Term Model.EqHash Model.Access.
From Nv Require Import Proofs.AccessP.

(* the regenerated tables have the content the theorems below rest on *)
Theorem C14_tables : access_tables_ok = true.
Proof. exact access_tables_ok_true. Qed.
Print Assumptions C14_tables.

Theorem C14_tables_complete :
  (forall c, In c all_name_ctor) /\ (forall c, In c all_unit_ctor) /\ (forall c, In c all_num_ctor) /\
  (forall c, In c all_set_ctor) /\ (forall c, In c all_vec_ctor) /\ (forall c, In c all_img_ctor) /\
  (forall c, In c all_box1_ctor) /\ (forall c, In c all_box2_ctor).
Proof. exact all_ctor_complete. Qed.
Print Assumptions C14_tables_complete.

Theorem C14_extract_eq_incl : forall t,
  (match t with TImg _ i l => (i <= nlen l)%N | _ => True end) ->
  extract_terms t = ROk (get_components_incl t).
Proof. exact extract_eq_incl. Qed.
Print Assumptions C14_extract_eq_incl.

(* for hereditarily well-formed terms: the same, and the components are again well-formed *)
Theorem C14_extract_eq_incl_wf : forall t,
  img_ok t = true ->
  extract_terms t = ROk (get_components_incl t) /\
  Forall (fun x => img_ok x = true) (get_components_incl t).
Proof. exact extract_eq_incl_wf. Qed.
Print Assumptions C14_extract_eq_incl_wf.

Theorem C14_extract_panics_iff : forall t,
  extract_terms t = RPanic <-> (exists c i l, t = TImg c i l /\ (nlen l < i)%N).
Proof. exact extract_panics_iff. Qed.
Print Assumptions C14_extract_panics_iff.

Theorem C14_extract_never_err : forall t, extract_terms t <> RErr.
Proof. exact extract_never_err. Qed.
Print Assumptions C14_extract_never_err.

Theorem C14_image_placeholder : forall c i l, (i <= nlen l)%N ->
  nth_error (get_components_incl (TImg c i l)) (N.to_nat i) = Some placeholder /\
  length (get_components_incl (TImg c i l)) = S (length l) /\
  get_components (TImg c i l) = l /\
  get_components_incl (TImg c i l) = take (N.to_nat i) l ++ placeholder :: drop (N.to_nat i) l.
Proof. exact image_placeholder. Qed.
Print Assumptions C14_image_placeholder.

Theorem C14_image_remove_placeholder : forall c i l, (i <= nlen l)%N ->
  take (N.to_nat i) (get_components_incl (TImg c i l)) ++
  drop (S (N.to_nat i)) (get_components_incl (TImg c i l)) = get_components (TImg c i l).
Proof. exact image_remove_placeholder. Qed.
Print Assumptions C14_image_remove_placeholder.

Theorem C14_image_no_placeholder_beyond : forall c i l,
  (nlen l < i)%N -> get_components_incl (TImg c i l) = l.
Proof. exact image_no_placeholder_beyond. Qed.
Print Assumptions C14_image_no_placeholder_beyond.

Theorem C14_non_image_incl : forall t,
  (forall c i l, t <> TImg c i l) -> get_components_incl t = get_components t.
Proof. exact non_image_incl. Qed.
Print Assumptions C14_non_image_incl.

Theorem C14_category_partition : forall t,
  (is_atom t = true /\ is_compound t = false /\ is_statement t = false) \/
  (is_atom t = false /\ is_compound t = true /\ is_statement t = false) \/
  (is_atom t = false /\ is_compound t = false /\ is_statement t = true).
Proof. exact category_partition. Qed.
Print Assumptions C14_category_partition.

Theorem C14_category_by_shape : forall t,
  is_atom t = (match t with TName _ _ | TUnit _ | TNum _ _ => true | _ => false end) /\
  is_statement t = (match t with TBox2 c _ _ => negb (box2_is_difference c) | _ => false end) /\
  is_compound t = (match t with
                   | TName _ _ | TUnit _ | TNum _ _ => false
                   | TBox2 c _ _ => box2_is_difference c
                   | _ => true end).
Proof. exact category_by_shape. Qed.
Print Assumptions C14_category_by_shape.

(* capacity class vs component count and ordered/unordered nature (the latter read off the
   equality / hash tables: unordered classes are compared symmetrically / hashed order-independently) *)
Theorem C14_capacity_count : forall t,
  match capacity_of t with
  | CapAtom => is_atom t = true /\ get_components t = [t]
  | CapUnary => exists c a, t = TBox1 c a /\ get_components t = [a] /\ length (get_components t) = 1%nat
  | CapBinaryVec =>
      exists c a b, t = TBox2 c a b /\ get_components t = [a; b] /\ length (get_components t) = 2%nat /\
                    eqk_box2 c = EqPayload /\ hashk_box2 c = HashOrdered
  | CapBinarySet =>
      exists c a b, t = TBox2 c a b /\ get_components t = [a; b] /\ length (get_components t) = 2%nat /\
                    eqk_box2 c = EqSymmetric /\ hashk_box2 c = HashUnordered
  | CapVec =>
      (exists c l, t = TVec c l /\ get_components t = l /\ hashk_vec c = HashOrdered) \/
      (exists c i l, t = TImg c i l /\ get_components t = l /\ hashk_img c = HashIndexThenOrdered)
  | CapSet => exists c l, t = TSet c l /\ get_components t = l /\ hashk_set c = HashUnordered
  end.
Proof. exact capacity_count. Qed.
Print Assumptions C14_capacity_count.

Theorem C14_base_num :
  base_num CapAtom = 1%N /\ base_num CapUnary = 1%N /\ base_num CapBinaryVec = 2%N /\ base_num CapBinarySet = 2%N.
Proof. exact base_num_values. Qed.
Print Assumptions C14_base_num.

Theorem C14_atom_iff_capacity : forall t, is_atom t = true <-> capacity_of t = CapAtom.
Proof. exact atom_iff_capacity. Qed.
Print Assumptions C14_atom_iff_capacity.

Theorem C14_compound_components : forall t,
  get_compound_components t = if is_compound t then Some (get_components t) else None.
Proof. exact compound_components. Qed.
Print Assumptions C14_compound_components.

Theorem C14_compound_components_shape : forall t,
  get_compound_components t =
  match t with
  | TName _ _ | TUnit _ | TNum _ _ => None
  | TBox2 c a b => if box2_is_difference c then Some [a; b] else None
  | _ => Some (comps_payload t)
  end.
Proof. exact compound_components_shape. Qed.
Print Assumptions C14_compound_components_shape.

Theorem C14_lexical_extract : forall x,
  lextract x = match x with LAtom _ _ => [x] | LCompound _ ts => ts | LSet _ ts _ => ts | LStatement _ s p => [s; p] end.
Proof. exact lexical_extract. Qed.
Print Assumptions C14_lexical_extract.

Theorem C14_lexical_category_partition : forall x,
  (category_eqb (lcategory x) CatAtom = true /\ category_eqb (lcategory x) CatCompound = false /\ category_eqb (lcategory x) CatStatement = false) \/
  (category_eqb (lcategory x) CatAtom = false /\ category_eqb (lcategory x) CatCompound = true /\ category_eqb (lcategory x) CatStatement = false) \/
  (category_eqb (lcategory x) CatAtom = false /\ category_eqb (lcategory x) CatCompound = false /\ category_eqb (lcategory x) CatStatement = true).
Proof. exact lexical_category_partition. Qed.
Print Assumptions C14_lexical_category_partition.

Theorem C14_lexical_capacity_count : forall x,
  match lcapacity x with
  | CapAtom => lcategory x = CatAtom /\ lextract x = [x]
  | CapBinaryVec => lcategory x = CatStatement /\ length (lextract x) = 2%nat
  | CapVec => lcategory x = CatCompound
  | _ => False
  end.
Proof. exact lexical_capacity_count. Qed.
Print Assumptions C14_lexical_capacity_count.
