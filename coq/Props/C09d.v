(* Props/C09d.v -- C09, lexical side, FULL GENERALITY: the lexical parser ignores every Unicode
   White_Space character, wherever it stands, for EVERY input (well-formed or not, parsed or rejected).
   Statements only; proofs in Proofs/LexFuelP.v.

   The lexical parser first filters its input ([idealize_env]: every `char::is_whitespace` character is
   dropped when `remove_spaces_before_parse`) and then works on the filtered text only.  In the MODEL the
   nesting fuel of the term layer is S (length input) of the ORIGINAL text, so the statement
        idealize_env s = idealize_env s'  ->  lex_parse s = lex_parse s'
   is not definitional: it needs FUEL INDEPENDENCE -- the result of the fuelled parser is the same for every
   fuel above the length of the whitespace-free text (C09d_segment_term_fuel_indep and the theorems after
   it).  The one hypothesis is the progress half of C05's table obligation: the opening brackets of sets,
   compounds and statements are non-empty ([lefts_nonempty], true of the three shipped tables by
   computation), so that every nested call is on a strictly shorter text.

   The results are equalities of parser RESULTS (LOk value / LErr / ...), so they cover rejected inputs and
   every kind of value (term, sentence, task), and they hold for every char::is_alphanumeric oracle.
   Relation to C03b_idealize_insert_ws (Props/C03b.v): that theorem says that inserting whitespace leaves
   idealize_env unchanged; here it is the PARSE RESULT that is unchanged. *)
From Nv Require Import Model.LexParser Proofs.LexPTotal Proofs.LexFuelP.
Import ListNotations.

(* ---- fuel independence ---- *)
Theorem C09d_segment_term_fuel_indep : forall (C : lcfmt) (ia : N -> bool), lefts_nonempty C = true ->
  forall (f1 f2 : nat) (env : str), (length env < f1)%nat -> (length env < f2)%nat ->
  segment_term C ia f1 env = segment_term C ia f2 env.
Proof. exact segment_term_fuel_indep. Qed.
Print Assumptions C09d_segment_term_fuel_indep.

Theorem C09d_parse_env_fuel_indep : forall (C : lcfmt) (ia : N -> bool), lefts_nonempty C = true ->
  forall (f1 f2 : nat) (env : str), (length env < f1)%nat -> (length env < f2)%nat ->
  parse_env C ia f1 env = parse_env C ia f2 env.
Proof. exact parse_env_fuel_indep. Qed.
Print Assumptions C09d_parse_env_fuel_indep.

(* the entry points agree with the fuelled parser at every fuel above the length of the whitespace-free text *)
Theorem C09d_lex_parse_any_fuel : forall (ia : N -> bool) (L : lfmt), lefts_nonempty (compile L) = true ->
  forall (f : nat) (s : str), (length (idealize_env (compile L) s) < f)%nat ->
  lex_parse_fuel (compile L) ia f s = lex_parse ia L s.
Proof. exact lex_parse_any_fuel. Qed.
Print Assumptions C09d_lex_parse_any_fuel.

Theorem C09d_lex_parse_term_any_fuel : forall (ia : N -> bool) (L : lfmt), lefts_nonempty (compile L) = true ->
  forall (f : nat) (s : str), (length (idealize_env (compile L) s) < f)%nat ->
  lex_parse_term_fuel (compile L) ia f s = lex_parse_term ia L s.
Proof. exact lex_parse_term_any_fuel. Qed.
Print Assumptions C09d_lex_parse_term_any_fuel.

(* ---- C09: the result depends on the whitespace-free text only ---- *)
Theorem C09d_lex_parse_idealize : forall (ia : N -> bool) (L : lfmt), lefts_nonempty (compile L) = true ->
  forall s s' : str, idealize_env (compile L) s = idealize_env (compile L) s' -> lex_parse ia L s = lex_parse ia L s'.
Proof. exact lex_parse_idealize. Qed.
Print Assumptions C09d_lex_parse_idealize.

Theorem C09d_lex_parse_term_idealize : forall (ia : N -> bool) (L : lfmt), lefts_nonempty (compile L) = true ->
  forall s s' : str, idealize_env (compile L) s = idealize_env (compile L) s' ->
  lex_parse_term ia L s = lex_parse_term ia L s'.
Proof. exact lex_parse_term_idealize. Qed.
Print Assumptions C09d_lex_parse_term_idealize.

(* parsing a text = parsing it with all 25 White_Space code points deleted *)
Theorem C09d_lex_parse_strip_whitespace : forall (ia : N -> bool) (L : lfmt),
  lefts_nonempty (compile L) = true -> l_remove_spaces_before_parse L = true ->
  forall s : str, lex_parse ia L s = lex_parse ia L (filter (fun c => negb (is_whitespace c)) s).
Proof. exact lex_parse_strip_whitespace. Qed.
Print Assumptions C09d_lex_parse_strip_whitespace.

Theorem C09d_lex_parse_term_strip_whitespace : forall (ia : N -> bool) (L : lfmt),
  lefts_nonempty (compile L) = true -> l_remove_spaces_before_parse L = true ->
  forall s : str, lex_parse_term ia L s = lex_parse_term ia L (filter (fun c => negb (is_whitespace c)) s).
Proof. exact lex_parse_term_strip_whitespace. Qed.
Print Assumptions C09d_lex_parse_term_strip_whitespace.

(* inserting any string of White_Space code points anywhere -- between tokens in particular -- does not
   change the result *)
Theorem C09d_lex_parse_insert_whitespace : forall (ia : N -> bool) (L : lfmt),
  lefts_nonempty (compile L) = true -> l_remove_spaces_before_parse L = true ->
  forall a w b : str, forallb is_whitespace w = true -> lex_parse ia L (a ++ w ++ b) = lex_parse ia L (a ++ b).
Proof. exact lex_parse_insert_whitespace. Qed.
Print Assumptions C09d_lex_parse_insert_whitespace.

Theorem C09d_lex_parse_term_insert_whitespace : forall (ia : N -> bool) (L : lfmt),
  lefts_nonempty (compile L) = true -> l_remove_spaces_before_parse L = true ->
  forall a w b : str, forallb is_whitespace w = true ->
  lex_parse_term ia L (a ++ w ++ b) = lex_parse_term ia L (a ++ b).
Proof. exact lex_parse_term_insert_whitespace. Qed.
Print Assumptions C09d_lex_parse_term_insert_whitespace.

(* ---- the three shipped tables (re-computed on the regenerated Gen/LexFormats.v) ---- *)
Theorem C09d_shipped_tables_ok :
  forallb (fun L => lefts_nonempty (compile L) && l_remove_spaces_before_parse L) shipped_lex_formats = true.
Proof. exact shipped_lefts_rm. Qed.
Print Assumptions C09d_shipped_tables_ok.

Theorem C09d_lex_parse_idealize_shipped : forall (ia : N -> bool) (L : lfmt) (s s' : str),
  In L shipped_lex_formats ->
  idealize_env (compile L) s = idealize_env (compile L) s' -> lex_parse ia L s = lex_parse ia L s'.
Proof. exact lex_parse_idealize_shipped. Qed.
Print Assumptions C09d_lex_parse_idealize_shipped.

Theorem C09d_lex_parse_term_idealize_shipped : forall (ia : N -> bool) (L : lfmt) (s s' : str),
  In L shipped_lex_formats ->
  idealize_env (compile L) s = idealize_env (compile L) s' -> lex_parse_term ia L s = lex_parse_term ia L s'.
Proof. exact lex_parse_term_idealize_shipped. Qed.
Print Assumptions C09d_lex_parse_term_idealize_shipped.

Theorem C09d_lex_parse_insert_whitespace_shipped : forall (ia : N -> bool) (L : lfmt) (a w b : str),
  In L shipped_lex_formats -> forallb is_whitespace w = true ->
  lex_parse ia L (a ++ w ++ b) = lex_parse ia L (a ++ b).
Proof. exact lex_parse_insert_whitespace_shipped. Qed.
Print Assumptions C09d_lex_parse_insert_whitespace_shipped.

Theorem C09d_lex_parse_term_insert_whitespace_shipped : forall (ia : N -> bool) (L : lfmt) (a w b : str),
  In L shipped_lex_formats -> forallb is_whitespace w = true ->
  lex_parse_term ia L (a ++ w ++ b) = lex_parse_term ia L (a ++ b).
Proof. exact lex_parse_term_insert_whitespace_shipped. Qed.
Print Assumptions C09d_lex_parse_term_insert_whitespace_shipped.

Theorem C09d_lex_parse_strip_whitespace_shipped : forall (ia : N -> bool) (L : lfmt) (s : str),
  In L shipped_lex_formats ->
  lex_parse ia L s = lex_parse ia L (filter (fun c => negb (is_whitespace c)) s).
Proof. exact lex_parse_strip_whitespace_shipped. Qed.
Print Assumptions C09d_lex_parse_strip_whitespace_shipped.

(* ---- non-vacuity: `$0.5$ <a --> b>. %1%` and the same text with tab, no-break space, ideographic space,
   line separator and newline inserted INSIDE the number, the copula and between the tokens ---- *)
Example ex_C09d_ws_ascii :
  let s := [36; 48; 46; 53; 36; 32; 60; 97; 32; 45; 45; 62; 32; 98; 62; 46; 32; 37; 49; 37]%N in
  let s' := [36; 48; 9; 46; 53; 36; 60; 97; 160; 45; 12288; 45; 62; 98; 8232; 62; 46; 37; 49; 37; 10]%N in
  idealize_env (compile LEX_ASCII) s = idealize_env (compile LEX_ASCII) s' /\
  lex_parse (fun _ => false) LEX_ASCII s = lex_parse (fun _ => false) LEX_ASCII s' /\
  lex_parse (fun c => ((97 <=? c) && (c <=? 122))%N) LEX_ASCII s' =
    LOk (NTask {| lt_budget := [[48; 46; 53]%N];
                  lt_sentence := {| ls_term := LStatement [45; 45; 62]%N (LAtom [] [97]%N) (LAtom [] [98]%N);
                                    ls_punct := [46]%N; ls_stamp := []; ls_truth := [[49]%N] |} |}).
Proof. exact ex_ws_ascii. Qed.
