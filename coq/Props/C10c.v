(* Props/C10c.v -- C10 (derived copulas and surface sugar mean what the documentation says), TERM level,
   with the name condition [unamb] of Props/C10.v DISCHARGED: it is replaced by the local, decidable condition
   "the atoms of subject / predicate / components are well-formed" (satoms_ok, spelled out in Props/C01c.v:
   names satisfy the property's name_ok, placeholder = bare prefix, intervals = digit strings) and "the
   name scan stops in front of the continuation k" (stop_ok: k empty, or k starts with a copula or a
   non-name character).  Statements only; proofs in Proofs/EnumUnambP.v.

   Each theorem holds for every format record passing the finite table checks parse_ok and unamb_fmt_ok
   (ASCII and LaTeX do, given the 24 facts about char::is_alphanumeric: C10c_tables; Han does not),
   every spacing, every size of the operands:
     * C10c_instance / C10c_property / C10c_instance_property / C10c_equivalence_retrospective;
     * C10c_image (index = position of the first placeholder);
     * C10c_any_tree: the general statement they are instances of.
   NOT COVERED HERE: sentence level, lexical-parse-then-fold pipeline, Han; the correspondence of the model
   with the Rust parser is the differential check of ./check C10. *)
From Nv Require Import Model.SstOf Model.SstOk Proofs.EnumTotalP Proofs.EnumTermP Proofs.EnumTermCor Proofs.EnumUnambP.

Theorem C10c_tables : forall ia : N -> bool, alnum_facts ia = true ->
  (parse_ok FORMAT_ASCII = true /\ unamb_fmt_ok ia FORMAT_ASCII = true) /\
  (parse_ok FORMAT_LATEX = true /\ unamb_fmt_ok ia FORMAT_LATEX = true).
Proof. exact plain_tables. Qed.
Print Assumptions C10c_tables.

Theorem C10c_any_tree : forall (ia : N -> bool) (E : efmt),
  parse_ok E = true -> unamb_fmt_ok ia E = true ->
  forall (F : Type) (s : sterm) (v : term) (k : str) (L : nat) (st : pstate F),
    odesugar s = Some v -> satoms_ok ia E s = true -> stop_ok ia E k = true ->
    wf F L st -> s_rest st = render E s ++ k ->
    parse_term F ia E st = POk v (step F (length (render E s)) st).
Proof. exact tree_parses. Qed.
Print Assumptions C10c_any_tree.

Theorem C10c_instance : forall (ia : N -> bool) (E : efmt),
  parse_ok E = true -> unamb_fmt_ok ia E = true ->
  forall (F : Type) (sp0 sp1 sp2 sp3 : nat) (s p : sterm) (vs vp : term) (k : str) (L : nat) (st : pstate F),
    odesugar s = Some vs -> odesugar p = Some vp ->
    satoms_ok ia E s = true -> satoms_ok ia E p = true -> stop_ok ia E k = true ->
    wf F L st ->
    s_rest st = (statement_brackets_0 E ++ sp E sp0 ++ render E s ++ sp E sp1 ++ statement_copula_instance E ++
                 sp E sp2 ++ render E p ++ sp E sp3 ++ statement_brackets_1 E) ++ k ->
    parse_term F ia E st =
      POk (TBox2 Inheritance (TSet SetExtension [vs]) vp)
          (step F (length (statement_brackets_0 E ++ sp E sp0 ++ render E s ++ sp E sp1 ++ statement_copula_instance E ++
                           sp E sp2 ++ render E p ++ sp E sp3 ++ statement_brackets_1 E)) st).
Proof. exact instance_parses_wf. Qed.
Print Assumptions C10c_instance.

Theorem C10c_property : forall (ia : N -> bool) (E : efmt),
  parse_ok E = true -> unamb_fmt_ok ia E = true ->
  forall (F : Type) (sp0 sp1 sp2 sp3 : nat) (s p : sterm) (vs vp : term) (k : str) (L : nat) (st : pstate F),
    odesugar s = Some vs -> odesugar p = Some vp ->
    satoms_ok ia E s = true -> satoms_ok ia E p = true -> stop_ok ia E k = true ->
    wf F L st ->
    s_rest st = (statement_brackets_0 E ++ sp E sp0 ++ render E s ++ sp E sp1 ++ statement_copula_property E ++
                 sp E sp2 ++ render E p ++ sp E sp3 ++ statement_brackets_1 E) ++ k ->
    parse_term F ia E st =
      POk (TBox2 Inheritance vs (TSet SetIntension [vp]))
          (step F (length (statement_brackets_0 E ++ sp E sp0 ++ render E s ++ sp E sp1 ++ statement_copula_property E ++
                           sp E sp2 ++ render E p ++ sp E sp3 ++ statement_brackets_1 E)) st).
Proof. exact property_parses_wf. Qed.
Print Assumptions C10c_property.

Theorem C10c_instance_property : forall (ia : N -> bool) (E : efmt),
  parse_ok E = true -> unamb_fmt_ok ia E = true ->
  forall (F : Type) (sp0 sp1 sp2 sp3 : nat) (s p : sterm) (vs vp : term) (k : str) (L : nat) (st : pstate F),
    odesugar s = Some vs -> odesugar p = Some vp ->
    satoms_ok ia E s = true -> satoms_ok ia E p = true -> stop_ok ia E k = true ->
    wf F L st ->
    s_rest st = (statement_brackets_0 E ++ sp E sp0 ++ render E s ++ sp E sp1 ++ statement_copula_instance_property E ++
                 sp E sp2 ++ render E p ++ sp E sp3 ++ statement_brackets_1 E) ++ k ->
    parse_term F ia E st =
      POk (TBox2 Inheritance (TSet SetExtension [vs]) (TSet SetIntension [vp]))
          (step F (length (statement_brackets_0 E ++ sp E sp0 ++ render E s ++ sp E sp1 ++ statement_copula_instance_property E ++
                           sp E sp2 ++ render E p ++ sp E sp3 ++ statement_brackets_1 E)) st).
Proof. exact instance_property_parses_wf. Qed.
Print Assumptions C10c_instance_property.

Theorem C10c_equivalence_retrospective : forall (ia : N -> bool) (E : efmt),
  parse_ok E = true -> unamb_fmt_ok ia E = true ->
  forall (F : Type) (sp0 sp1 sp2 sp3 : nat) (s p : sterm) (vs vp : term) (k : str) (L : nat) (st : pstate F),
    odesugar s = Some vs -> odesugar p = Some vp ->
    satoms_ok ia E s = true -> satoms_ok ia E p = true -> stop_ok ia E k = true ->
    wf F L st ->
    s_rest st = (statement_brackets_0 E ++ sp E sp0 ++ render E s ++ sp E sp1 ++ statement_copula_equivalence_retrospective E ++
                 sp E sp2 ++ render E p ++ sp E sp3 ++ statement_brackets_1 E) ++ k ->
    parse_term F ia E st =
      POk (TBox2 EquivalencePredictive vp vs)
          (step F (length (statement_brackets_0 E ++ sp E sp0 ++ render E s ++ sp E sp1 ++ statement_copula_equivalence_retrospective E ++
                           sp E sp2 ++ render E p ++ sp E sp3 ++ statement_brackets_1 E)) st).
Proof. exact equiv_retro_parses_wf. Qed.
Print Assumptions C10c_equivalence_retrospective.

Theorem C10c_image : forall (ia : N -> bool) (E : efmt),
  parse_ok E = true -> unamb_fmt_ok ia E = true ->
  forall (F : Type) (ext : bool) (sp0 : nat) (gaps : nat -> nat * nat) (items : list sterm) (sp1 : nat)
         (pre post : list term) (k : str) (L : nat) (st : pstate F),
    omap odesugar items = Some (pre ++ placeholder :: post) ->
    forallb (fun x => negb (term_eqb x placeholder)) pre = true ->
    forallb (satoms_ok ia E) items = true -> stop_ok ia E k = true ->
    wf F L st ->
    s_rest st = (compound_brackets_0 E ++ sp E sp0 ++
                 (if ext then compound_connecter_image_extension E else compound_connecter_image_intension E) ++
                 render_items E (render E) gaps true 0 items ++ sp E sp1 ++ compound_brackets_1 E) ++ k ->
    parse_term F ia E st =
      POk (TImg (if ext then ImageExtension else ImageIntension) (N.of_nat (length pre)) (pre ++ post))
          (step F (length (compound_brackets_0 E ++ sp E sp0 ++
                           (if ext then compound_connecter_image_extension E else compound_connecter_image_intension E) ++
                           render_items E (render E) gaps true 0 items ++ sp E sp1 ++ compound_brackets_1 E)) st).
Proof. exact image_parses_wf. Qed.
Print Assumptions C10c_image.

(* the hypotheses are satisfiable: the example trees of Props/C10.v (instance, retrospective equivalence, image,
   interval; property, instance-property, `c-d` as a name) have well-formed atoms in ASCII and LaTeX at every spacing *)
Example ex_C10c_satisfiable :
  forallb (fun E => satoms_ok is_alnum_std E (ex_tree 0) && satoms_ok is_alnum_std E (ex_tree 3)
                    && satoms_ok is_alnum_std E (ex_tree2 0) && satoms_ok is_alnum_std E (ex_tree2 2))
          [FORMAT_ASCII; FORMAT_LATEX] = true.
Proof. exact ex_trees_satoms. Qed.
