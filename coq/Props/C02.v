(* Props/C02.v -- C02: lexical Narsese survives format-then-parse in every shipped format.

   Model: Model/LexFormatter.v (lex_fmt), Model/LexParser.v (lex_parse), tables Gen/LexFormats.v
   (regenerated, T2).  Domain: [vocab_ok F ia x] (Model/LexSpec.v) -- every prefix, connecter, set
   bracket pair, copula and punctuation is a keyword of F; the stamp is empty or one of F's stamp
   forms; truth / budget entries are non-empty digit/dot strings; names are non-empty identifiers
   containing no keyword of F; compounds and sets have at least one component (any number, any
   nesting, any connecter/arity mix, any number of truth / budget entries).
   `= LOk x` is structural equality: field for field, in the same order.
   `ia` is char::is_alphanumeric: a universally quantified function in the general theorems (the
   boolean table obligations mention it), the range table dumped from Rust's std in the theorems
   about the shipped tables ([std_alnum], Gen/Unicode.v).

   FULL STATEMENT (proved for ASCII and LaTeX, C02_ascii / C02_latex):
       vocab_ok F ia x = true -> lex_parse ia F (lex_fmt F x) = LOk x.
   For Han it is FALSE (known class K5, C02_K5_witness): Han prints terms without separators and
   its keywords are ordinary name characters, so the end of a name together with the beginning of
   what follows can create a keyword.  What is proved for Han (C02_han, C02_han_clean) carries the
   explicit unambiguity conditions [unamb_top] (the prefix dictionary finds the atom's own prefix;
   no copula matches inside a name, given everything that follows it) and, for a bare atom only,
   the border conditions [top_clean].
   The general theorems (C02_roundtrip, C02_roundtrip_general, C02_roundtrip_selfdelim) hold for
   every format record whose tables satisfy the boolean obligations. *)
From Nv Require Import Model.LexSpec Proofs.LexPTerm Proofs.LexPAssemble Proofs.LexPStrip Proofs.LexPFinal
                       Proofs.LexPClean Proofs.LexPTables Proofs.LexPMain.
Import ListNotations.

(* ---- general theorems: any format whose tables satisfy the boolean obligations ---- *)
Theorem C02_roundtrip : forall (F : lfmt) (ia : N -> bool) (v : lnarsese),
  lex_rt_ok F ia = true ->
  vocab_ok F ia v = true -> unamb_top F v -> top_clean F v ->
  lex_parse ia F (lex_fmt F v) = LOk v.
Proof. exact lex_roundtrip. Qed.
Print Assumptions C02_roundtrip.

(* the border conditions follow from the vocabulary, except for a bare atom in formats such as Han *)
Theorem C02_roundtrip_general : forall (F : lfmt) (ia : N -> bool) (v : lnarsese),
  lex_c02_ok F ia = true ->
  vocab_ok F ia v = true -> unamb_top F v ->
  (lex_clean_atoms_ok F ia = true \/ bare_atom v = false) ->
  lex_parse ia F (lex_fmt F v) = LOk v.
Proof. exact lex_roundtrip_general. Qed.
Print Assumptions C02_roundtrip_general.

(* self-delimiting formats: the unambiguity conditions follow from the vocabulary as well *)
Theorem C02_roundtrip_selfdelim : forall (F : lfmt) (ia : N -> bool) (v : lnarsese),
  lex_c02_ok F ia = true -> lex_selfdelim F ia = true -> lex_clean_atoms_ok F ia = true ->
  vocab_ok F ia v = true ->
  lex_parse ia F (lex_fmt F v) = LOk v.
Proof. exact lex_roundtrip_selfdelim_full. Qed.
Print Assumptions C02_roundtrip_selfdelim.

Theorem C02_vocab_unamb : forall (F : lfmt) (ia : N -> bool),
  lex_selfdelim F ia = true -> forall v, vocab_ok F ia v = true -> unamb_top F v.
Proof. exact vocab_unamb_top. Qed.
Print Assumptions C02_vocab_unamb.

(* ---- layers ---- *)
(* term layer: structural induction over the term, any continuation k that may follow an atom *)
Theorem C02_term_layer : forall (F : lfmt) (ia : N -> bool), lex_term_ok F ia = true ->
  forall (t : lterm) (k : str) (fuel : nat),
  term_ok F ia t = true -> unamb F t k -> follow_ok F ia k = true ->
  (length (f0 F t ++ k) < fuel)%nat ->
  segment_term (compile F) ia fuel (f0 F t ++ k) = LOk (t, length (f0 F t)).
Proof. exact segment_term_f0. Qed.
Print Assumptions C02_term_layer.

(* item layer + term layer on the whitespace-free text *)
Theorem C02_items_layer : forall (F : lfmt) (ia : N -> bool),
  lex_term_ok F ia = true -> lex_items_ok F = true ->
  forall (v : lnarsese) (fuel : nat),
  vocab_ok F ia v = true -> unamb_top F v -> top_clean F v ->
  (length (text0 F v) < fuel)%nat ->
  parse_env (compile F) ia fuel (text0 F v) = LOk v.
Proof. exact parse_env_text0. Qed.
Print Assumptions C02_items_layer.

(* what idealize_env leaves of the formatter's output *)
Theorem C02_strip : forall (F : lfmt) (ia : N -> bool), lex_space_ok F ia = true ->
  forall v, vocab_ok F ia v = true -> idealize_env (compile F) (lex_fmt F v) = text0 F v.
Proof. exact idealize_fmt. Qed.
Print Assumptions C02_strip.

(* tasks: no border condition at all *)
Theorem C02_task : forall (F : lfmt) (ia : N -> bool) (k : ltask),
  lex_rt_ok F ia = true ->
  vocab_ok F ia (NTask k) = true -> unamb F (ls_term (lt_sentence k)) [] ->
  lex_parse ia F (lex_fmt F (NTask k)) = LOk (NTask k).
Proof. exact lex_roundtrip_task. Qed.
Print Assumptions C02_task.

(* the term entry point: parse_term (format_term t) = t *)
Theorem C02_term_entry : forall (F : lfmt) (ia : N -> bool) (t : lterm),
  lex_term_ok F ia = true -> lex_space_ok F ia = true ->
  term_ok F ia t = true -> unamb F t [] ->
  lex_parse_term ia F (lex_fmt_term F t) = LOk t.
Proof. exact lex_term_roundtrip. Qed.
Print Assumptions C02_term_entry.

(* ---- table obligations on the regenerated tables (vm_compute) ---- *)
Theorem C02_tables_ok : forallb (fun F => lex_c02_ok F std_alnum) shipped_lex_formats = true.
Proof. exact shipped_lex_c02_ok. Qed.
Print Assumptions C02_tables_ok.

(* dictionary iteration order: no keyword is tried before a longer one extending it on the matching
   side; keywords are distinct; compiling a dictionary loses no keyword *)
Theorem C02_dict_order_ok : forallb dict_order_ok shipped_lex_formats = true.
Proof. exact shipped_dict_order_ok. Qed.
Print Assumptions C02_dict_order_ok.

Theorem C02_ascii_latex_selfdelim :
  lex_selfdelim LEX_ASCII std_alnum = true /\ lex_selfdelim LEX_LATEX std_alnum = true /\
  lex_clean_atoms_ok LEX_ASCII std_alnum = true /\ lex_clean_atoms_ok LEX_LATEX std_alnum = true.
Proof. exact ascii_latex_selfdelim_all. Qed.
Print Assumptions C02_ascii_latex_selfdelim.

Theorem C02_han_not_selfdelim :
  lex_selfdelim LEX_HAN std_alnum = false /\ lex_clean_atoms_ok LEX_HAN std_alnum = false.
Proof. exact han_not_selfdelim_all. Qed.
Print Assumptions C02_han_not_selfdelim.

(* ---- the shipped formats ---- *)
Theorem C02_ascii : forall v : lnarsese,
  vocab_ok LEX_ASCII std_alnum v = true -> lex_parse std_alnum LEX_ASCII (lex_fmt LEX_ASCII v) = LOk v.
Proof. exact ascii_roundtrip. Qed.
Print Assumptions C02_ascii.

Theorem C02_latex : forall v : lnarsese,
  vocab_ok LEX_LATEX std_alnum v = true -> lex_parse std_alnum LEX_LATEX (lex_fmt LEX_LATEX v) = LOk v.
Proof. exact latex_roundtrip. Qed.
Print Assumptions C02_latex.

Theorem C02_han : forall v : lnarsese,
  vocab_ok LEX_HAN std_alnum v = true -> unamb_top LEX_HAN v -> bare_atom v = false ->
  lex_parse std_alnum LEX_HAN (lex_fmt LEX_HAN v) = LOk v.
Proof. exact han_roundtrip. Qed.
Print Assumptions C02_han.

Theorem C02_han_clean : forall v : lnarsese,
  vocab_ok LEX_HAN std_alnum v = true -> unamb_top LEX_HAN v -> top_clean LEX_HAN v ->
  lex_parse std_alnum LEX_HAN (lex_fmt LEX_HAN v) = LOk v.
Proof. exact han_roundtrip_clean. Qed.
Print Assumptions C02_han_clean.

(* ---- known class K5 (Han): in the vocabulary, yet parsed differently ---- *)
Theorem C02_K5_witness :
  vocab_ok LEX_HAN std_alnum k5_witness = true /\
  lex_parse std_alnum LEX_HAN (lex_fmt LEX_HAN k5_witness) =
  LOk (NTerm (LStatement [23558; 24471] (LAtom [] [120]) (LAtom [] [121]))).
Proof. exact k5_witness_fails. Qed.
Print Assumptions C02_K5_witness.

(* the unambiguity conditions are decidable; the boolean form is what the correspondence check
   compares with the harness's restatement of the known class K5 (K5 = not unamb_top_b) *)
Theorem C02_unamb_b_sound : forall (F : lfmt) (v : lnarsese), unamb_top_b F v = true -> unamb_top F v.
Proof. exact unamb_top_b_sound. Qed.
Print Assumptions C02_unamb_b_sound.

Theorem C02_han_b : forall v : lnarsese,
  vocab_ok LEX_HAN std_alnum v = true -> unamb_top_b LEX_HAN v = true -> bare_atom v = false ->
  lex_parse std_alnum LEX_HAN (lex_fmt LEX_HAN v) = LOk v.
Proof. exact han_roundtrip_b. Qed.
Print Assumptions C02_han_b.

(* ---- the hypotheses are satisfiable ---- *)
Example ex_C02_sample_task :
  vocab_ok LEX_ASCII std_alnum sample_task_ascii = true /\
  lex_parse std_alnum LEX_ASCII (lex_fmt LEX_ASCII sample_task_ascii) = LOk sample_task_ascii.
Proof. exact sample_task_ascii_ok. Qed.
