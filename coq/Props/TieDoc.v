(* Props/TieDoc.v -- THE VOCABULARY AS DOCUMENTED (properties C03 and C10 only: they are the ones that speak of "the same
   vocabulary for every constructor" and of what "the documentation says"; a change of vocabulary breaks neither a round
   trip nor totality, so the other properties do not carry this obligation). *)
From Coq Require Import List NArith Bool.
Import ListNotations.
From Nv Require Import Base.Str Model.EnumFormat Gen.EnumFormats Gen.LexDoc Proofs.TieDocP.
Open Scope N_scope.

(* the vocabulary AS DOCUMENTED: every lexical dictionary entry whose same-line comment names its constructor
   (`"{--" // 实例`, `r"\circ\!\!\!\rightarrow{}" // 实例`, `"为" // 实例`) is the keyword the same-named enum format holds in the
   field of that constructor -- C03's "same vocabulary for every constructor" and C10's "mean what the documentation says"
   as an obligation between the two hand-written tables (Gen/LexDoc.v is regenerated from the comments on every run) *)
Theorem documented_vocabulary_agrees : forall p, In p lexdoc_pairs -> fst p = snd p.
Proof. exact documented_vocabulary_agrees_holds. Qed.

Print Assumptions documented_vocabulary_agrees.
