(* Props/C02e.v -- C02 (lexical format-then-parse) for the HAN format, UNCONDITIONAL on a natural decidable
   subdomain: values all of whose atom names are KEYWORD-FREE.  Statements only; proofs in
   Proofs/HanAgreeP.v (definitions in Model/LexKwfree.v).  The enum-side counterpart is Props/C01e.v.

   BACKGROUND.  For ASCII and LaTeX, Props/C02.v states lex_parse (lex_fmt x) = LOk x for every value of the
   vocabulary.  For Han it is FALSE as stated (known class K5, C02_K5_witness: Statement("得", "x将", "y")
   prints 「x将得y」 and reads back as x 将得 y), and what Props/C02.v proves for Han (C02_han, C02_han_clean)
   carries the explicit conditions unamb_top (the prefix dictionary finds the atom's own prefix; no copula
   matches inside a name given everything that follows it) and, for a bare atom, top_clean (no budget /
   truth / stamp / punctuation is cut from the borders of the name).

   THE CONDITION.  lnames_kwfree L x: no character of any atom name of x occurs in ANY keyword of the lexical
   format record L (LexSpec.keywords: atom prefixes, connecters, copulas, punctuations, set and stamp
   brackets, compound / statement brackets, separators, truth and budget brackets).  For Han these are 56
   characters (C02e_lkwfree_name_han) -- the 57 of Props/C01e.v without the space, which is not an
   identifier character: on identifier strings the enum-side and the lexical condition are the same
   predicate (C02e_kwfree_same_han).  Names like 猫, 鸟狗, abc, x1 satisfy it; the K5 witness does not
   (C02e_K5_outside).

   THE THEOREMS.
     C02_han_kwfree: for every lexical Narsese value x of the vocabulary (vocab_ok: C02's domain) with
       keyword-free names -- term, sentence or task; bare atoms included -- lex_parse (lex_fmt x) = LOk x.
       No unamb_top, no top_clean, no bare_atom hypothesis is left.
     C02_han_kwfree_extended: the same on the larger domain lvalue_ok of Props/C03c.v (prefix-only atoms such as
       the placeholder of an image: outside vocab_ok).
     C02_han_kwfree_term: the term entry point.
     C02e_unamb_of_kwfree, C02e_top_clean_of_kwfree: the two conditions of the general theorem C02_roundtrip
       follow from keyword-freeness, for EVERY lexical format record passing the finite checks
       lex_c02_kw_ok = lex_c02_ok (as in Props/C02.v) + lex_kwfree_term_ok + lex_kwfree_atoms_ok (spelled out
       below).  All three shipped formats pass (C02e_tables_shipped): the argument is not Han-specific; the
       checks lex_selfdelim / lex_clean_atoms_ok they replace are false for Han (C02e_replaced_checks).

   WHY IT WORKS.  A non-empty keyword starts and ends with a keyword character; a keyword-free name contains
   none.  So (a) a dictionary prefix tried before the empty (word) prefix does not start the name, and before
   a non-empty prefix it is prefix-incomparable with it (table); (b) no copula starts inside the name, whatever
   follows; (c) the budget's opening bracket does not start a bare word; (d) the truth's closing bracket, a
   punctuation, a stamp's closing bracket do not end a bare name, and the opening bracket of the bracket-less
   fixed stamp (发生在) is not found by the backward scan: its last character is in no prefix and no name.

   NOT COVERED HERE: the correspondence of the model with the Rust code (differential check of ./check C02). *)
From Nv Require Import Model.LexSpec Model.LexKwfree Model.AgreeValue.
From Nv Require Import Proofs.LexPFinal Proofs.LexPClean Proofs.LexPTables Proofs.LexPMain Proofs.EnumHanP Proofs.HanAgreeP.
Import ListNotations.

(* ---- the condition ---- *)
Theorem C02e_lkwfree_name_meaning : forall (L : lfmt) (n : str),
  lkwfree_name L n = forallb (fun c => negb (memb c (concat (keywords L)))) n.
Proof. exact lkwfree_name_meaning. Qed.
Print Assumptions C02e_lkwfree_name_meaning.

Theorem C02e_lterm_kwfree_meaning : forall (L : lfmt) (t : lterm),
  lterm_kwfree L t =
  match t with
  | LAtom _ n => lkwfree_name L n
  | LCompound _ ts | LSet _ ts _ => forallb (lterm_kwfree L) ts
  | LStatement _ s p => lterm_kwfree L s && lterm_kwfree L p
  end.
Proof. exact lterm_kwfree_meaning. Qed.
Print Assumptions C02e_lterm_kwfree_meaning.

Theorem C02e_lnames_kwfree_meaning : forall (L : lfmt) (v : lnarsese),
  lnames_kwfree L v =
  lterm_kwfree L (match v with NTerm t => t | NSentence s => ls_term s | NTask k => ls_term (lt_sentence k) end).
Proof. exact lnames_kwfree_meaning. Qed.
Print Assumptions C02e_lnames_kwfree_meaning.

(* on the subdomain, vocab_ok's name clause is "non-empty string of identifier characters": a keyword-free name
   contains no keyword *)
Theorem C02e_name_ok_kwfree : forall (L : lfmt) (ia : N -> bool) (n : str), lkwfree_name L n = true ->
  LexSpec.name_ok L ia n = LexParser.nonempty n && forallb (ident L ia) n.
Proof. exact name_ok_kwfree. Qed.
Print Assumptions C02e_name_ok_kwfree.

(* Han: the 56 keyword characters *)
Theorem C02e_lkwfree_name_han : forall n : str,
  lkwfree_name LEX_HAN n =
  forallb (fun c => negb (memb c
    [20219; 19968; 20854; 25152; 38382; 38388; 38548; 25805; 20316; 26576;   (* atom prefixes 任一 其一 所问 间隔 操作 某 *)
     65288; 65289; 65292; 12302; 12303; 12304; 12305;                        (* （ ） ， 『 』 【 】 *)
     22806; 20132; 20869; 24046; 31215; 20687; 19982; 25110; 38750; 25509; 36830; 21516; 26102;
                                                   (* connecters 外交 内交 外差 内差 积 外像 内像 与 或 非 接连 同时 *)
     12300; 12301;                                                           (* 「 」 *)
     26159; 20284; 24471; 20026; 26377; 20855; 23558; 29616; 26366;          (* copulas 是 似 得 同 为 有 具有 将得 现得 曾得 将同 现同 曾同 *)
     12290; 65281; 65311; 65307;                                             (* 。 ！ ？ ； *)
     36807; 21435; 22312; 26469; 21457; 29983;                               (* stamps 过去 现在 将来 发生在 *)
     30495; 20540; 12289; 39044; 31639]%N)) n.                               (* 真 值 、 预 算 *)
Proof. exact lkwfree_name_han. Qed.
Print Assumptions C02e_lkwfree_name_han.

(* the enum-side condition of Props/C01e.v is the lexical one plus "no space"; on identifier strings (the
   names of vocab_ok) they coincide *)
Theorem C02e_kwfree_enum_lex_han : forall n : str,
  kwfree_name FORMAT_HAN n = forallb (fun c => negb (c =? 32)%N) n && lkwfree_name LEX_HAN n.
Proof. exact kwfree_name_enum_lex_han. Qed.
Print Assumptions C02e_kwfree_enum_lex_han.

Theorem C02e_kwfree_same_han : forall n : str,
  forallb (ident LEX_HAN std_alnum) n = true -> kwfree_name FORMAT_HAN n = lkwfree_name LEX_HAN n.
Proof. exact kwfree_name_same_han. Qed.
Print Assumptions C02e_kwfree_same_han.

(* ---- the finite table checks, spelled out ---- *)
Theorem C02e_tables_meaning : forall (L : lfmt) (ia : N -> bool),
  lex_c02_kw_ok L ia = lex_c02_ok L ia && lex_kwfree_term_ok L && lex_kwfree_atoms_ok L.
Proof. exact lex_c02_kw_ok_meaning. Qed.
Print Assumptions C02e_tables_meaning.

(* term layer: in the prefix dictionary's iteration order, an entry q tried before the entry p is
   prefix-incomparable with p, or -- p empty (the word prefix) -- non-empty; every copula is non-empty *)
Theorem C02e_lex_kwfree_term_ok_meaning : forall L : lfmt,
  lex_kwfree_term_ok L =
  prefix_first_kw (c_prefixes (compile L)) && forallb LexParser.nonempty (c_copulas (compile L)).
Proof. exact lex_kwfree_term_ok_meaning. Qed.
Print Assumptions C02e_lex_kwfree_term_ok_meaning.

Theorem C02e_prefix_first_kw_meaning : forall (q : str) (rest : list str),
  prefix_first_kw (q :: rest) =
  forallb (fun p => match p with [] => LexParser.nonempty q | _ => negb (compat q p) end) rest && prefix_first_kw rest.
Proof. exact prefix_first_kw_meaning. Qed.
Print Assumptions C02e_prefix_first_kw_meaning.

(* item layer, bare atoms: the truth's closing bracket and the punctuations are non-empty; a stamp form without
   closing bracket has an opening bracket whose last character occurs in no atom prefix *)
Theorem C02e_lex_kwfree_atoms_ok_meaning : forall L : lfmt,
  lex_kwfree_atoms_ok L =
  LexParser.nonempty (snd (l_truth_brackets L)) &&
  forallb LexParser.nonempty (c_punctuations (compile L)) &&
  forallb (fun t => match snd t with
                    | [] => last_is (fun e => forallb (fun p => negb (memb e p)) (c_prefixes (compile L))) (fst t)
                    | _ => true
                    end) (c_stamp_brackets (compile L)).
Proof. exact lex_kwfree_atoms_ok_meaning. Qed.
Print Assumptions C02e_lex_kwfree_atoms_ok_meaning.

Theorem C02e_tables_shipped : forallb (fun L => lex_c02_kw_ok L std_alnum) shipped_lex_formats = true.
Proof. exact shipped_lex_c02_kw_ok. Qed.
Print Assumptions C02e_tables_shipped.

Theorem C02e_replaced_checks :
  lex_selfdelim LEX_HAN std_alnum = false /\ lex_clean_atoms_ok LEX_HAN std_alnum = false /\
  budget_left_nonident std_alnum LEX_HAN = false /\ same_layout FORMAT_HAN LEX_HAN = false /\
  lex_kwfree_term_ok LEX_HAN = true /\ lex_kwfree_atoms_ok LEX_HAN = true /\ lex_kw_sub FORMAT_HAN LEX_HAN = true.
Proof. exact han_replaced_checks. Qed.
Print Assumptions C02e_replaced_checks.

(* the checks discriminate: a prefix dictionary with 某 and 某任 fails the term check; with Han's bracket-less stamp
   opened by 某 (an atom prefix) instead of 发生在, every table check of Props/C02.v still passes but the stamp clause
   of lex_kwfree_atoms_ok fails -- and the bare atom 某12 (in the vocabulary, keyword-free name) does NOT survive the
   round trip: the clause is needed; formats of different names fail the keyword-character inclusion *)
Theorem C02e_checks_discriminate :
  lex_kwfree_term_ok ex_han_bad_prefixes = false /\
  (let x := NTerm (LAtom [26576]%N [49; 50]%N) in
   lex_kwfree_atoms_ok ex_han_bad_stamp = false /\ lex_kwfree_term_ok ex_han_bad_stamp = true /\
   lex_c02_ok ex_han_bad_stamp std_alnum = true /\
   vocab_ok ex_han_bad_stamp std_alnum x = true /\ lnames_kwfree ex_han_bad_stamp x = true /\
   lex_fmt ex_han_bad_stamp x = [26576; 49; 50]%N /\
   lex_parse std_alnum ex_han_bad_stamp (lex_fmt ex_han_bad_stamp x) = LErr) /\
  lex_kw_sub FORMAT_ASCII LEX_HAN = false /\ lex_kw_sub FORMAT_HAN LEX_ASCII = false.
Proof. exact kw_checks_discriminate. Qed.
Print Assumptions C02e_checks_discriminate.

(* ---- format-generic: the two conditions of C02_roundtrip from keyword-freeness; the round trip ---- *)
Theorem C02e_atom_unamb_of_kwfree : forall L : lfmt, lex_kwfree_term_ok L = true ->
  forall p n k : str,
    In p (c_prefixes (compile L)) -> (LexParser.nonempty n || LexParser.nonempty p) = true -> lkwfree_name L n = true ->
    atom_unamb L p n k.
Proof. exact atom_unamb_kw. Qed.
Print Assumptions C02e_atom_unamb_of_kwfree.

Theorem C02e_unamb_of_kwfree : forall (L : lfmt) (ia : N -> bool), lex_c02_kw_ok L ia = true ->
  forall v : lnarsese, vocab_ok L ia v = true -> lnames_kwfree L v = true -> unamb_top L v.
Proof. exact unamb_top_of_kwfree. Qed.
Print Assumptions C02e_unamb_of_kwfree.

Theorem C02e_top_clean_of_kwfree : forall (L : lfmt) (ia : N -> bool), lex_c02_kw_ok L ia = true ->
  forall v : lnarsese, vocab_ok L ia v = true -> lnames_kwfree L v = true -> top_clean L v.
Proof. exact top_clean_of_kwfree. Qed.
Print Assumptions C02e_top_clean_of_kwfree.

Theorem C02e_roundtrip_generic : forall (L : lfmt) (ia : N -> bool), lex_c02_kw_ok L ia = true ->
  forall v : lnarsese, vocab_ok L ia v = true -> lnames_kwfree L v = true ->
  lex_parse ia L (lex_fmt L v) = LOk v.
Proof. exact lex_roundtrip_vocab_kw. Qed.
Print Assumptions C02e_roundtrip_generic.

Theorem C02e_roundtrip_generic_extended : forall (L : lfmt) (ia : N -> bool), lex_c02_kw_ok L ia = true ->
  forall v : lnarsese, lvalue_ok ia L v = true -> lnames_kwfree L v = true ->
  lex_parse ia L (lex_fmt L v) = LOk v.
Proof. exact lex_roundtrip_kw. Qed.
Print Assumptions C02e_roundtrip_generic_extended.

(* the value layer on the whitespace-free text (what the item segmenters see) *)
Theorem C02e_value_layer : forall (L : lfmt) (ia : N -> bool),
  lex_term_ok L ia = true -> lex_items_ok L = true -> lex_clean_ok L ia = true -> lex_kwfree_atoms_ok L = true ->
  forall (v : lnarsese) (fuel : nat),
  lvalue_ok ia L v = true -> top_atom_kwfree L (top_term v) = true -> unamb_top L v ->
  (length (text0 L v) < fuel)%nat ->
  parse_env (compile L) ia fuel (text0 L v) = LOk v.
Proof. exact parse_env_text0_kw. Qed.
Print Assumptions C02e_value_layer.

(* ---- Han: THE theorem ---- *)
Theorem C02_han_kwfree : forall x : lnarsese,
  vocab_ok LEX_HAN std_alnum x = true -> lnames_kwfree LEX_HAN x = true ->
  lex_parse std_alnum LEX_HAN (lex_fmt LEX_HAN x) = LOk x.
Proof. exact han_roundtrip_kwfree. Qed.
Print Assumptions C02_han_kwfree.

Theorem C02_han_kwfree_extended : forall x : lnarsese,
  lvalue_ok std_alnum LEX_HAN x = true -> lnames_kwfree LEX_HAN x = true ->
  lex_parse std_alnum LEX_HAN (lex_fmt LEX_HAN x) = LOk x.
Proof. exact han_roundtrip_kwfree_extended. Qed.
Print Assumptions C02_han_kwfree_extended.

Theorem C02_han_kwfree_term : forall t : lterm,
  term_ok LEX_HAN std_alnum t = true -> lterm_kwfree LEX_HAN t = true ->
  lex_parse_term std_alnum LEX_HAN (lex_fmt_term LEX_HAN t) = LOk t.
Proof. exact han_term_roundtrip_kwfree. Qed.
Print Assumptions C02_han_kwfree_term.

(* the conditions of Props/C02.v's Han theorems hold on the subdomain (so C02_han / C02_han_clean apply) *)
Theorem C02e_han_conditions : forall x : lnarsese,
  vocab_ok LEX_HAN std_alnum x = true -> lnames_kwfree LEX_HAN x = true -> unamb_top LEX_HAN x /\ top_clean LEX_HAN x.
Proof. exact han_conditions_kwfree. Qed.
Print Assumptions C02e_han_conditions.

(* ---- K5 lies outside the subdomain ---- *)
Theorem C02e_K5_outside :
  vocab_ok LEX_HAN std_alnum k5_witness = true /\ lnames_kwfree LEX_HAN k5_witness = false /\
  lkwfree_name LEX_HAN [120; 23558]%N = false /\ kwfree_name FORMAT_HAN [120; 23558]%N = false.   (* x将 *)
Proof. exact k5_outside_kwfree. Qed.
Print Assumptions C02e_K5_outside.

(* ---- non-vacuity ---- *)
(* the lexical values of the five Han values of Props/C01e.v (task 预0.5、0.75、1算 「猫是鸟狗」。 发生在-12 真1、0.9值 ;
   question 『abc，任一x1，间隔42』？ ; the bare word 鸟狗 ; the task over the term with all 30 constructors -- images,
   hence prefix-only placeholders: outside vocab_ok, inside lvalue_ok ; the judgement on 任一x): the hypotheses
   hold, one of them is a bare atom; the lexical formatter's text of the first *)
Example ex_C02e_han_hyps :
  map (fun v => vocab_ok LEX_HAN std_alnum (ex_han_lex v)) ex_han_values = [true; true; true; false; true] /\
  forallb (fun v => lvalue_ok std_alnum LEX_HAN (ex_han_lex v) && lnames_kwfree LEX_HAN (ex_han_lex v)) ex_han_values = true /\
  map (fun v => bare_atom (ex_han_lex v)) ex_han_values = [false; false; true; false; false] /\
  lex_fmt LEX_HAN (ex_han_lex ex_han_task) =
    [39044; 48; 46; 53; 12289; 48; 46; 55; 53; 12289; 49; 31639; 32; 12300; 29483; 26159; 40479; 29399; 12301; 12290; 32;
     21457; 29983; 22312; 45; 49; 50; 32; 30495; 49; 12289; 48; 46; 57; 20540]%N.
Proof. exact ex_han_c02_kwfree. Qed.

(* re-computed (vm_compute on the parser model, independently of the theorems): each round trip *)
Example ex_C02e_han_roundtrips :
  map (fun v => lex_parse std_alnum LEX_HAN (lex_fmt LEX_HAN (ex_han_lex v))) ex_han_values
    = map (fun v => LOk (ex_han_lex v)) ex_han_values.
Proof. exact ex_han_roundtrips. Qed.
