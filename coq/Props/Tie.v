(* Props/Tie.v -- THE TABLES OF THE MODEL ARE THE TABLES OF THE COMPILED LIBRARY.

   Gen/EnumFormats.v, Gen/LexFormats.v are regenerated from the SOURCE TEXT of the format instances
   (tools/translate.py, tables T1 and T2); Gen/FormatsDump.v is regenerated from the library AS COMPILED
   (harness `nvh dump-formats`: every keyword constant, the array copulas() returns, every dictionary in the order the
   dependency iterates it, every fn(char) -> bool field evaluated on all 1 112 064 Unicode scalar values (what a Rust `char` can hold: `is_scalar`)
   and dumped as ranges).  The statements below are obligations between the two, re-checked on every run:

   * every keyword field of the three enum formats, and the array `copulas()`, as read = as compiled;
   * `is_valid_atom_name` / `is_identifier` / the three content classes as read (is_alphanumeric || c == '_' || ...,
     matches!(c, '0'..='9' | ...)) agree with the compiled function on EVERY code point (Proofs/RangesP.v: equality on
     the boundary points decides equality everywhere);
   * the model of the dependency's dictionaries (Model/LexFormat.v: sorted insertion, duplicate rules, iteration
     order), applied to the literals in source order, yields exactly the entries, in exactly the order, that the real
     dictionaries hold and iterate -- the part of nar_dev_utils the lexical parser's keyword search depends on;
   * char::is_whitespace: the model's 25 White_Space code points = std's function on every code point.

   Nothing here is an assumption about the code: each statement is closed by computation on regenerated data. *)
From Coq Require Import List NArith Bool.
Import ListNotations.
From Nv Require Import Base.Str Base.FloatDec Model.EnumFormat Model.LexFormat Gen.EnumFormats Gen.LexFormats Gen.Unicode
  Gen.FormatsDump Proofs.RangesP Proofs.TieP.
Open Scope N_scope.

(* the pairing is total: three formats, three dumps, on both sides *)
Theorem lex_pairs_complete : length shipped_lex_formats = length shipped_lex_dumps /\ length lex_pairs = 3%nat.
Proof. exact lex_pairs_complete_holds. Qed.
Theorem enum_pairs_complete : length shipped_formats = length shipped_enum_dumps /\ length enum_pairs = 3%nat.
Proof. exact enum_pairs_complete_holds. Qed.

(* the dictionaries the lazy_static instances hold = the model's construction from the literals *)
Theorem lexical_dictionaries_as_compiled :
  forall F D, In (F, D) lex_pairs ->
    let C := compile F in
    c_prefixes C = d_prefixes D /\ c_set_brackets C = d_set_brackets_by_prefix D /\
    bifix_suffix_iter (l_set_brackets_raw F) = d_set_brackets_by_suffix D /\
    c_connecters C = d_connecters D /\ c_copulas C = d_copulas D /\ c_punctuations C = d_punctuations D /\
    c_stamp_brackets C = d_stamp_brackets D.
Proof. exact lexical_dictionaries_as_compiled_holds. Qed.

(* the character predicates of the lexical formats, as read from the source = as compiled, on every `char` *)
Theorem lexical_predicates_as_compiled :
  forall F D, In (F, D) lex_pairs -> forall c, is_scalar c = true ->
    is_identifier F (in_ranges_cc alnum_ranges) c = in_rs (d_is_identifier D) c /\
    in_class (l_is_truth_content F) c = in_rs (d_is_truth_content D) c /\
    in_class (l_is_stamp_content F) c = in_rs (d_is_stamp_content D) c /\
    in_class (l_is_budget_content F) c = in_rs (d_is_budget_content D) c.
Proof. exact lexical_predicates_as_compiled_holds. Qed.

(* char::is_whitespace (space.is_for_parse of every lexical format; the dump step refuses anything else) *)
Theorem whitespace_as_compiled : forall c, is_whitespace c = in_rs whitespace_ranges c.
Proof. exact whitespace_as_compiled_holds. Qed.

(* every keyword constant of the enum formats, copulas(), and is_valid_atom_name on every `char` *)
Theorem enum_formats_as_compiled :
  forall F D, In (F, D) enum_pairs ->
    efmt_fields F = e_fields D /\ gen_copulas F = e_copulas D /\
    forall c, is_scalar c = true -> name_charb (in_ranges alnum_ranges) F c = in_rs (e_is_valid_atom_name D) c.
Proof. exact enum_formats_as_compiled_holds. Qed.

Print Assumptions lex_pairs_complete.
Print Assumptions enum_pairs_complete.
Print Assumptions lexical_dictionaries_as_compiled.
Print Assumptions lexical_predicates_as_compiled.
Print Assumptions whitespace_as_compiled.
Print Assumptions enum_formats_as_compiled.
