(* Props/C03b.v -- C03 at the TERM level: direct enum parsing and lexical parsing + folding give the same
   value; with the lexical-pipeline halves of C09 (spacing, Unicode whitespace) and C10 (derived copulas,
   image index, interval, placeholder).  Statements only; proofs in Proofs/AgreeP.v.

   Objects.  A surface tree t (Model/Sst.v) of an enum format E records which keyword arm was written and
   how many space keywords stand at every token boundary; render E t is its text, odesugar t its
   documented meaning (derived copulas expanded, image index = position of the first placeholder,
   interval = decimal value, a placeholder ignores trailing text).  lex_tree E t (Model/SstLex.v) is
   the LEXICAL value the text denotes (copulas as written).  L is the lexical format of the same name:
   agree_ok ia E L is a finite check on the regenerated tables (same brackets and separator; every
   keyword of an enum parser arm is in the lexical dictionary of its class; the lexical copulas are
   copulas the enum name scan stops at; same identifier predicate; the order of the two prefix tests is
   compatible; the enum space keyword is whitespace, no other keyword and no name character is).

   MAIN THEOREM (C03b_agree_term): for every surface tree t, ANY spacing, plain or derived copulas, with
   odesugar t = Some v, under the enum-side name conditions unamb (Model/SstOk.v) for the tree as written
   and for the tree written without spaces,
        parse_term E (render E t) = POk v _          (the enum pipeline)
        lex_then_fold L E (render E t) = FOk v       (lexical parse_term, then fold with E)
   -- both succeed with the SAME value (syntactically equal model values: same constructors, image index,
   components in the same order; set payloads the same list, i.e. the same insertion history).
   Instances: the enum formatter's own output (t := sst E x for a well-formed term x), n spaces at every
   boundary (respace n), Unicode White_Space inserted anywhere (lexical side).
   The three shipped pairs satisfy every table condition (C03b_tables_ok, by computation on the
   regenerated tables, char::is_alphanumeric = the range table dumped from Rust's std).

   The unamb conditions concern atom NAMES only (name characters; no copula starts inside a name given
   what follows it; the scan stops at the end of the name; the text does not start like a bracket /
   delimiter / earlier prefix).  The lexical unambiguity conditions of C02 are DERIVED from the enum-side
   condition on the space-free tree (C03b_lex_unamb_of_enum).  BOTH instances are needed because the
   lexical parser filters whitespace before parsing: ex_C03b_han_space_disagree shows a Han text with a
   space on which the two pipelines return different values (known class K3: a name ending in the first
   character of a two-character copula).

   ASCII AND LATEX, UNCONDITIONAL (C03_term_ascii_latex and the theorems after it): for these two formats
   unamb follows from the well-formedness of the atoms (Proofs/EnumUnambP.v, finite check unamb_fmt_ok),
   at any spacing; so for every well-formed term x both pipelines read fmt_term x -- and every re-spacing
   of it, and the same text with a derived copula on top -- back to the same value, with NO side
   condition beyond the property's own wf_term.  For Han the check fails (K3) and the conditional
   theorem above is what is proved.

   NOT covered here: the sentence / task layer (punctuation, stamp, truth, budget): C03.v has the fold
   third for whole values; agreement of the two REAL pipelines with the models is the correspondence
   check of ./check C03 (differential testing). *)
From Nv Require Import Model.SstLex Model.SstOf.
From Nv Require Import Proofs.LexPTerm Proofs.LexPTables Proofs.FoldP2 Proofs.EnumTermCor Proofs.EnumUnambP Proofs.AgreeP.
Import ListNotations.

(* ---- the tables ---- *)
Theorem C03b_tables_ok : forallb (fun p => agree_all std_alnum (fst p) (snd p)) shipped_pairs = true.
Proof. exact shipped_agree_all. Qed.
Print Assumptions C03b_tables_ok.

Theorem C03b_tables_discriminate :
  agree_ok std_alnum FORMAT_ASCII LEX_LATEX = false /\ agree_ok std_alnum FORMAT_HAN LEX_ASCII = false /\
  agree_ok (fun _ => true) FORMAT_ASCII LEX_ASCII = false.
Proof. exact agree_ok_discriminates. Qed.
Print Assumptions C03b_tables_discriminate.

(* ---- 1. the space-free text of a tree is the lexical formatter's text (empty spacing) of lex_tree ---- *)
Theorem C03b_render_is_lex_text : forall (ia : N -> bool) (E : efmt) (L : lfmt), agree_ok ia E L = true ->
  forall t : sterm, shape_ok t = true -> render E (respace 0 t) = lex_fmt_term_g L [] (lex_tree E t).
Proof. exact render_respace0. Qed.
Print Assumptions C03b_render_is_lex_text.

Theorem C03b_meaning_is_well_shaped : forall (t : sterm) (v : term), odesugar t = Some v -> shape_ok t = true.
Proof. exact odesugar_shape_ok. Qed.
Print Assumptions C03b_meaning_is_well_shaped.

(* ---- 2. whitespace: the lexical parser works on the space-free text, whatever the spacing ---- *)
Theorem C03b_idealize_render : forall (ia : N -> bool) (E : efmt) (L : lfmt), agree_ok ia E L = true ->
  forall t : sterm, names_ok ia E t = true -> idealize_env (compile L) (render E t) = render E (respace 0 t).
Proof. exact idealize_render. Qed.
Print Assumptions C03b_idealize_render.

(* Unicode clause: a string of White_Space characters inserted ANYWHERE is invisible to the lexical parser *)
Theorem C03b_idealize_insert_ws : forall (ia : N -> bool) (E : efmt) (L : lfmt), agree_ok ia E L = true ->
  forall a w b : str, allws L w = true -> idealize_env (compile L) (a ++ w ++ b) = idealize_env (compile L) (a ++ b).
Proof. exact idealize_insert_ws. Qed.
Print Assumptions C03b_idealize_insert_ws.

(* ---- the lexical term layer with prefix-only atoms (generalises C02_term_layer: the placeholder of an
   image has an empty name) ---- *)
Theorem C03b_lex_term_layer : forall (L : lfmt) (ia : N -> bool), lex_term_ok L ia = true ->
  forall (x : lterm) (k : str) (fuel : nat),
  lterm_ok ia L x = true -> LexSpec.unamb L x k -> follow_ok L ia k = true ->
  (length (f0 L x ++ k) < fuel)%nat ->
  segment_term (compile L) ia fuel (f0 L x ++ k) = LOk (x, length (f0 L x)).
Proof. exact segment_term_f0_2. Qed.
Print Assumptions C03b_lex_term_layer.

(* ---- the lexical side conditions follow from the enum side ---- *)
Theorem C03b_lex_unamb_of_enum : forall (ia : N -> bool) (E : efmt) (L : lfmt), agree_ok ia E L = true ->
  forall (t : sterm) (forbid : list str) (k : str), shape_ok t = true ->
  unamb_ctx ia E forbid (respace 0 t) k = true -> LexSpec.unamb L (lex_tree E t) k.
Proof. exact lex_unamb_of_enum. Qed.
Print Assumptions C03b_lex_unamb_of_enum.

Theorem C03b_lex_tree_in_domain : forall (ia : N -> bool) (E : efmt) (L : lfmt), agree_ok ia E L = true ->
  total_ok E = true -> forall (t : sterm) (v : term),
  odesugar t = Some v -> names_ok ia E t = true -> lterm_ok ia L (lex_tree E t) = true.
Proof. exact lex_tree_ok. Qed.
Print Assumptions C03b_lex_tree_in_domain.

(* ---- 3. fold: for EVERY surface tree that has a meaning ---- *)
Theorem C03b_fold_lex_tree : forall (E : efmt), fold_kw_distinct E = true ->
  forall (t : sterm) (v : term), odesugar t = Some v -> fold_term E (lex_tree E t) = FOk v.
Proof. exact fold_lex_tree. Qed.
Print Assumptions C03b_fold_lex_tree.

(* ---- 4. the lexical parser returns lex_tree ---- *)
Theorem C03b_lex_parse_term_render : forall (ia : N -> bool) (E : efmt) (L : lfmt), agree_all ia E L = true ->
  forall (t : sterm) (v : term),
  odesugar t = Some v -> SstOk.unamb ia E (respace 0 t) [] = true ->
  lex_parse_term ia L (render E t) = LOk (lex_tree E t).
Proof. exact lex_parse_term_render. Qed.
Print Assumptions C03b_lex_parse_term_render.

(* ... for every text with the same whitespace-free form *)
Theorem C03b_lex_parse_term_any_text : forall (ia : N -> bool) (E : efmt) (L : lfmt), agree_all ia E L = true ->
  forall (t : sterm) (v : term) (s : str),
  odesugar t = Some v -> SstOk.unamb ia E (respace 0 t) [] = true ->
  idealize_env (compile L) s = render E (respace 0 t) ->
  lex_parse_term ia L s = LOk (lex_tree E t).
Proof. exact lex_parse_term_tree. Qed.
Print Assumptions C03b_lex_parse_term_any_text.

(* ---- 5. agreement ---- *)
Theorem C03b_agree_term : forall (F : Type) (ia : N -> bool) (E : efmt) (L : lfmt), agree_all ia E L = true ->
  forall (t : sterm) (v : term),
  odesugar t = Some v -> SstOk.unamb ia E t [] = true -> SstOk.unamb ia E (respace 0 t) [] = true ->
  parse_term F ia E (new_state F (render E t)) =
    POk v (step F (length (render E t)) (new_state F (render E t))) /\
  lex_then_fold ia L E (render E t) = FOk v.
Proof. exact agree_term. Qed.
Print Assumptions C03b_agree_term.

Theorem C03b_agree_term_eq : forall (F : Type) (ia : N -> bool) (E : efmt) (L : lfmt), agree_all ia E L = true ->
  forall (t : sterm) (v : term),
  odesugar t = Some v -> SstOk.unamb ia E t [] = true -> SstOk.unamb ia E (respace 0 t) [] = true ->
  of_door F (parse_term F ia E (new_state F (render E t))) = lex_then_fold ia L E (render E t).
Proof. exact agree_term_eq. Qed.
Print Assumptions C03b_agree_term_eq.

(* the lexical pipeline alone needs the space-free condition only, and accepts any text with the same
   whitespace-free form *)
Theorem C03b_lex_then_fold_any_text : forall (ia : N -> bool) (E : efmt) (L : lfmt), agree_all ia E L = true ->
  forall (t : sterm) (v : term) (s : str),
  odesugar t = Some v -> SstOk.unamb ia E (respace 0 t) [] = true ->
  idealize_env (compile L) s = render E (respace 0 t) ->
  lex_then_fold ia L E s = FOk v.
Proof. exact lex_then_fold_tree. Qed.
Print Assumptions C03b_lex_then_fold_any_text.

(* C09, both pipelines: n space keywords at every token boundary (n = 0: all spaces removed) *)
Theorem C09_both_pipelines_respace : forall (F : Type) (ia : N -> bool) (E : efmt) (L : lfmt), agree_all ia E L = true ->
  forall (n : nat) (t : sterm) (v : term),
  odesugar t = Some v -> SstOk.unamb ia E (respace n t) [] = true -> SstOk.unamb ia E (respace 0 t) [] = true ->
  parse_term F ia E (new_state F (render E (respace n t))) =
    POk v (step F (length (render E (respace n t))) (new_state F (render E (respace n t)))) /\
  lex_then_fold ia L E (render E (respace n t)) = FOk v.
Proof. exact agree_term_respace. Qed.
Print Assumptions C09_both_pipelines_respace.

(* C09, lexical pipeline, Unicode clause *)
Theorem C09_lex_unicode_whitespace : forall (ia : N -> bool) (E : efmt) (L : lfmt), agree_all ia E L = true ->
  forall (t : sterm) (v : term) (a b w : str),
  odesugar t = Some v -> SstOk.unamb ia E (respace 0 t) [] = true ->
  render E (respace 0 t) = a ++ b -> allws L w = true ->
  lex_then_fold ia L E (a ++ w ++ b) = FOk v.
Proof. exact lex_then_fold_ws. Qed.
Print Assumptions C09_lex_unicode_whitespace.

(* the enum formatter's own output *)
Theorem C03b_agree_term_fmt : forall (F : Type) (ia : N -> bool) (E : efmt) (L : lfmt), agree_all ia E L = true ->
  forall x : term,
  fmt_space_ok E = true -> arms_cover E = true ->
  wf_term ia E x = true ->
  SstOk.unamb ia E (sst E x) [] = true -> SstOk.unamb ia E (respace 0 (sst E x)) [] = true ->
  parse_term F ia E (new_state F (fmt_term E x)) =
    POk x (step F (length (fmt_term E x)) (new_state F (fmt_term E x))) /\
  lex_then_fold ia L E (fmt_term E x) = FOk x.
Proof. exact agree_term_fmt. Qed.
Print Assumptions C03b_agree_term_fmt.

(* ---- the shipped formats ---- *)
Theorem C03b_agree_term_shipped : forall (F : Type) (E : efmt) (L : lfmt) (t : sterm) (v : term),
  In (E, L) shipped_pairs ->
  odesugar t = Some v -> SstOk.unamb std_alnum E t [] = true -> SstOk.unamb std_alnum E (respace 0 t) [] = true ->
  parse_term F std_alnum E (new_state F (render E t)) =
    POk v (step F (length (render E t)) (new_state F (render E t))) /\
  lex_then_fold std_alnum L E (render E t) = FOk v.
Proof. exact agree_term_shipped. Qed.
Print Assumptions C03b_agree_term_shipped.

Theorem C03b_agree_term_fmt_shipped : forall (F : Type) (E : efmt) (L : lfmt) (x : term),
  In (E, L) shipped_pairs ->
  wf_term std_alnum E x = true ->
  SstOk.unamb std_alnum E (sst E x) [] = true -> SstOk.unamb std_alnum E (respace 0 (sst E x)) [] = true ->
  parse_term F std_alnum E (new_state F (fmt_term E x)) =
    POk x (step F (length (fmt_term E x)) (new_state F (fmt_term E x))) /\
  lex_then_fold std_alnum L E (fmt_term E x) = FOk x.
Proof. exact agree_term_fmt_shipped. Qed.
Print Assumptions C03b_agree_term_fmt_shipped.

(* ---- self-delimiting formats: unamb discharged from the well-formedness of the atoms ---- *)
Theorem C03b_agree_term_selfdelim : forall (F : Type) (ia : N -> bool) (E : efmt) (L : lfmt),
  agree_all ia E L = true -> unamb_fmt_ok ia E = true ->
  forall (t : sterm) (v : term),
  odesugar t = Some v -> satoms_ok ia E t = true ->
  parse_term F ia E (new_state F (render E t)) =
    POk v (step F (length (render E t)) (new_state F (render E t))) /\
  lex_then_fold ia L E (render E t) = FOk v.
Proof. exact agree_term_selfdelim. Qed.
Print Assumptions C03b_agree_term_selfdelim.

(* C03 for ASCII and LaTeX terms: everything the enum formatter emits for a well-formed term *)
Theorem C03_term_ascii_latex : forall (F : Type) (E : efmt) (L : lfmt) (x : term),
  (E = FORMAT_ASCII /\ L = LEX_ASCII) \/ (E = FORMAT_LATEX /\ L = LEX_LATEX) ->
  wf_term std_alnum E x = true ->
  parse_term F std_alnum E (new_state F (fmt_term E x)) =
    POk x (step F (length (fmt_term E x)) (new_state F (fmt_term E x))) /\
  lex_then_fold std_alnum L E (fmt_term E x) = FOk x.
Proof. exact agree_fmt_plain. Qed.
Print Assumptions C03_term_ascii_latex.

(* ... every re-spacing of it (C09 for both pipelines: n space keywords at every token boundary) *)
Theorem C03_term_ascii_latex_respaced : forall (F : Type) (E : efmt) (L : lfmt) (n : nat) (x : term),
  (E = FORMAT_ASCII /\ L = LEX_ASCII) \/ (E = FORMAT_LATEX /\ L = LEX_LATEX) ->
  wf_term std_alnum E x = true ->
  parse_term F std_alnum E (new_state F (render E (respace n (sst E x)))) =
    POk x (step F (length (render E (respace n (sst E x)))) (new_state F (render E (respace n (sst E x))))) /\
  lex_then_fold std_alnum L E (render E (respace n (sst E x))) = FOk x.
Proof. exact agree_fmt_respaced_plain. Qed.
Print Assumptions C03_term_ascii_latex_respaced.

(* ... the same strings written with a derived copula (C10 for both pipelines): any statement arm over the
   texts of two well-formed terms, any spacing around the copula; v is the documented meaning *)
Theorem C03_term_ascii_latex_sugar :
  forall (F : Type) (E : efmt) (L : lfmt) (arm sp0 sp1 sp2 sp3 : nat) (x y : term) (v : term),
  (E = FORMAT_ASCII /\ L = LEX_ASCII) \/ (E = FORMAT_LATEX /\ L = LEX_LATEX) ->
  wf_term std_alnum E x = true -> wf_term std_alnum E y = true ->
  let t := SStmt arm sp0 sp1 sp2 sp3 (sst E x) (sst E y) in
  odesugar t = Some v ->
  parse_term F std_alnum E (new_state F (render E t)) =
    POk v (step F (length (render E t)) (new_state F (render E t))) /\
  lex_then_fold std_alnum L E (render E t) = FOk v.
Proof. exact agree_sugar_plain. Qed.
Print Assumptions C03_term_ascii_latex_sugar.

(* ... and any surface tree at all whose atoms are well-formed (derived copulas at any depth, any spacing) *)
Theorem C03_tree_ascii_latex : forall (F : Type) (E : efmt) (L : lfmt) (t : sterm) (v : term),
  (E = FORMAT_ASCII /\ L = LEX_ASCII) \/ (E = FORMAT_LATEX /\ L = LEX_LATEX) ->
  odesugar t = Some v -> satoms_ok std_alnum E t = true ->
  parse_term F std_alnum E (new_state F (render E t)) =
    POk v (step F (length (render E t)) (new_state F (render E t))) /\
  lex_then_fold std_alnum L E (render E t) = FOk v.
Proof. exact agree_term_plain. Qed.
Print Assumptions C03_tree_ascii_latex.

(* C09 for both pipelines: two writings that differ only in the numbers of spaces at the token boundaries
   (same_shape: equal spacing-free skeletons; any numbers, independently at every boundary) *)
Theorem C09_both_pipelines_ascii_latex : forall (F : Type) (E : efmt) (L : lfmt) (t1 t2 : sterm) (v : term),
  (E = FORMAT_ASCII /\ L = LEX_ASCII) \/ (E = FORMAT_LATEX /\ L = LEX_LATEX) ->
  same_shape t1 t2 -> odesugar t1 = Some v -> satoms_ok std_alnum E t1 = true ->
  of_door F (parse_term F std_alnum E (new_state F (render E t1))) = FOk v /\
  of_door F (parse_term F std_alnum E (new_state F (render E t2))) = FOk v /\
  lex_then_fold std_alnum L E (render E t1) = FOk v /\
  lex_then_fold std_alnum L E (render E t2) = FOk v.
Proof. exact respacing_both_pipelines_plain. Qed.
Print Assumptions C09_both_pipelines_ascii_latex.

(* C09, lexical pipeline: any text with the same whitespace-free form (any Unicode White_Space anywhere) *)
Theorem C09_lex_any_text_ascii_latex : forall (E : efmt) (L : lfmt) (t : sterm) (v : term) (s : str),
  (E = FORMAT_ASCII /\ L = LEX_ASCII) \/ (E = FORMAT_LATEX /\ L = LEX_LATEX) ->
  odesugar t = Some v -> satoms_ok std_alnum E t = true ->
  idealize_env (compile L) s = render E (respace 0 t) ->
  lex_then_fold std_alnum L E s = FOk v.
Proof. exact lex_then_fold_plain. Qed.
Print Assumptions C09_lex_any_text_ascii_latex.

(* ---- the hypotheses are satisfiable ---- *)
Example ex_C03b_satoms_plain :
  forallb (fun E => satoms_ok std_alnum E (ex_tree 2) && satoms_ok std_alnum E (ex_tree2 1)) [FORMAT_ASCII; FORMAT_LATEX] = true.
Proof. exact ex_satoms_plain. Qed.

(* two nested trees (instance / property / instance-property / retrospective-equivalence copulas, both
   images, interval, sets, negation, product, every variable kind, an operator, a placeholder with
   trailing text) in the three formats, with 0, 1, 2, 3 spaces at every boundary: all hypotheses hold
   and, re-computed, both pipelines return the documented meaning *)
Example ex_C03b_agree_all_formats :
  forallb (fun p => ex_agree p (ex_tree 0) && ex_agree p (ex_tree 1) && ex_agree p (ex_tree 3) &&
                    ex_agree p (ex_tree2 0) && ex_agree p (ex_tree2 2)) shipped_pairs = true.
Proof. exact ex_agree_all_formats. Qed.

(* `<  rob  {--  (  /  ,  _  ,  +07  )  >` : the text, the lexical value, the common result *)
Example ex_C03b_ascii_text :
  let t := SStmt arm_instance 2 2 2 2 (SAtom arm_word [114; 111; 98]%N)
                 (SComp arm_image_ext 2 (fun _ => (2, 2)%nat) [SAtom arm_placeholder []; SAtom arm_interval [48; 55]%N] 2) in
  render FORMAT_ASCII t =
    [60; 32; 32; 114; 111; 98; 32; 32; 123; 45; 45; 32; 32; 40; 32; 32; 47; 32; 32; 44; 32; 32; 95; 32; 32; 44; 32; 32; 43; 48; 55;
     32; 32; 41; 32; 32; 62]%N /\
  lex_parse_term std_alnum LEX_ASCII (render FORMAT_ASCII t) =
    LOk (LStatement [123; 45; 45]%N (LAtom [] [114; 111; 98]%N)
                    (LCompound [47]%N [LAtom [95]%N []; LAtom [43]%N [48; 55]%N])) /\
  lex_then_fold std_alnum LEX_ASCII FORMAT_ASCII (render FORMAT_ASCII t) =
    FOk (TBox2 Inheritance (TSet SetExtension [TName Word [114; 111; 98]%N]) (TImg ImageExtension 0 [TNum Interval 7])) /\
  of_door unit (parse_term unit std_alnum FORMAT_ASCII (new_state unit (render FORMAT_ASCII t))) =
    FOk (TBox2 Inheritance (TSet SetExtension [TName Word [114; 111; 98]%N]) (TImg ImageExtension 0 [TNum Interval 7])).
Proof. exact ex_agree_ascii_text. Qed.

(* tab, no-break space, ideographic space, line separator inside the space-free Han text *)
Example ex_C03b_unicode_ws :
  let t := ex_tree 0 in
  let s := render FORMAT_HAN t in
  let s' := take 1 s ++ [9; 160]%N ++ take 3 (drop 1 s) ++ [12288]%N ++ drop 4 s ++ [8232]%N in
  match odesugar t with
  | Some v => fres_is v (lex_then_fold std_alnum LEX_HAN FORMAT_HAN s') && negb (str_eqb s s')
  | None => false
  end = true.
Proof. exact ex_agree_unicode_ws. Qed.

(* why both name conditions are needed: a Han text WITH a space on which the pipelines differ (the enum
   parser reads name `a具` + copula `有`, the lexical parser -- after filtering the space -- name `a` +
   copula `具有`); the condition on the space-free tree fails *)
Example ex_C03b_han_space_disagree :
  let t := SStmt arm_property 0 1 0 0 (SAtom arm_word [97; 20855]%N) (SAtom arm_word [20540]%N) in
  SstOk.unamb std_alnum FORMAT_HAN t [] = true /\ SstOk.unamb std_alnum FORMAT_HAN (respace 0 t) [] = false /\
  of_door unit (parse_term unit std_alnum FORMAT_HAN (new_state unit (render FORMAT_HAN t))) =
    FOk (TBox2 Inheritance (TName Word [97; 20855]%N) (TSet SetIntension [TName Word [20540]%N])) /\
  lex_then_fold std_alnum LEX_HAN FORMAT_HAN (render FORMAT_HAN t) =
    FOk (TBox2 Inheritance (TSet SetExtension [TName Word [97]%N]) (TSet SetIntension [TName Word [20540]%N])).
Proof. exact ex_han_space_disagree. Qed.
