(* Props/C09b.v -- C09 at sentence / task level for the enum parser model: the number of space
   keywords at ANY token boundary (inside number lists and stamps, between the items, at both ends;
   inside the term through the annotations of its surface tree) does not change what is parsed, and
   neither does removing every space.  "Differ only in spacing" = equal erasures ([erase] sets every
   spacing annotation to 0).  Statements only; proofs in Proofs/EnumSentP.v.  The term level is the
   hypothesis TermParses (see Props/C01b.v); the lexical pipeline is not covered here. *)
From Nv Require Import Model.SstSent Proofs.EnumTotalP Proofs.EnumParseP Proofs.EnumSentP.

(* the documented meaning ignores every spacing annotation *)
Theorem C09b_meaning_ignores_spacing :
  forall (F : Type) (fread : str -> option F) (in01 : F -> bool) (s : snarsese),
    odesugar_narsese F fread in01 (erase s) = odesugar_narsese F fread in01 s.
Proof. exact odesugar_narsese_erase. Qed.
Print Assumptions C09b_meaning_ignores_spacing.

Theorem C09b_spacing_irrelevant :
  forall (F : Type) (fread : str -> option F) (fzero : F) (in01 : F -> bool) (is_alnum : N -> bool) (E : efmt),
    sent_ok E = true -> fread [] = None -> in01 fzero = true ->
    forall unamb : sterm -> str -> bool, TermParses F is_alnum E unamb ->
    forall (s s' : snarsese) (v : narsese F),
      erase s = erase s' ->
      odesugar_narsese F fread in01 s = Some v ->
      sent_unamb F fread fzero in01 E unamb s = true ->
      sent_unamb F fread fzero in01 E unamb s' = true ->
      (exists st : pstate F, parse_narsese F fread fzero in01 is_alnum E (render_narsese E s) = POk v st) /\
      (exists st : pstate F, parse_narsese F fread fzero in01 is_alnum E (render_narsese E s') = POk v st).
Proof. exact spacing_irrelevant. Qed.
Print Assumptions C09b_spacing_irrelevant.

(* the input with all spaces removed (what the inline macros hand to the parser) *)
Theorem C09b_spaces_removed :
  forall (F : Type) (fread : str -> option F) (fzero : F) (in01 : F -> bool) (is_alnum : N -> bool) (E : efmt),
    sent_ok E = true -> fread [] = None -> in01 fzero = true ->
    forall unamb : sterm -> str -> bool, TermParses F is_alnum E unamb ->
    forall (s : snarsese) (v : narsese F),
      odesugar_narsese F fread in01 s = Some v ->
      sent_unamb F fread fzero in01 E unamb (erase s) = true ->
      exists st : pstate F, parse_narsese F fread fzero in01 is_alnum E (render_narsese E (erase s)) = POk v st.
Proof. exact spaces_removed. Qed.
Print Assumptions C09b_spaces_removed.
