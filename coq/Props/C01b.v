(* Props/C01b.v -- C01 at sentence / task level: the enum parser model returns the documented meaning
   of every written input (any spacing, any combination of items, any number texts), and
   format-then-parse is the identity on sentences and tasks.  Statements only; proofs in
   Proofs/EnumSentP.v.

   The term level is a HYPOTHESIS of every theorem here: [TermParses F is_alnum E unamb]
   (Model/SstSent.v: "p_term returns the meaning of a written term and stops at its end"), proved
   separately, together with the term-level facts about the canonical tree of a term
   (fmt_term E t = render E st, odesugar st = Some t).
   F, fread, fshow, fzero, in01, is_alnum: the float type, f64::from_str, f64::to_string, 0.0, the
   range test and char::is_alphanumeric -- the theorems hold for EVERY instance satisfying the
   stated hypotheses (fread [] = None; in01 0.0; Rust's shortest-round-trip Display/FromStr on [0,1]).
   sent_ok / fmt_tables_ok: boolean side conditions on the regenerated keyword tables, true of the
   three shipped formats by computation.  sent_unamb: what the back-off chain of consume_one needs on
   the concrete text (the term's text is not taken for a budget, ...); it FAILS for the Han word
   预算 (known class K2), see C01b_han_K2. *)
From Nv Require Import Model.SstSent Proofs.EnumTotalP Proofs.EnumParseP Proofs.EnumSentP.

Theorem C01b_shipped_side_conditions : forallb sent_ok shipped_formats = true.
Proof. exact shipped_sent_ok. Qed.
Print Assumptions C01b_shipped_side_conditions.

Theorem C01b_shipped_fmt_tables :
  fmt_tables_ok FORMAT_ASCII 1 1 = true /\ fmt_tables_ok FORMAT_LATEX 1 1 = true /\ fmt_tables_ok FORMAT_HAN 0 1 = true.
Proof. exact shipped_fmt_tables_ok. Qed.
Print Assumptions C01b_shipped_fmt_tables.

(* the sentence-level parser theorem *)
Theorem C01b_parse_narsese_render :
  forall (F : Type) (fread : str -> option F) (fzero : F) (in01 : F -> bool) (is_alnum : N -> bool) (E : efmt),
    sent_ok E = true -> fread [] = None -> in01 fzero = true ->
    forall unamb : sterm -> str -> bool, TermParses F is_alnum E unamb ->
    forall (s : snarsese) (v : narsese F),
      odesugar_narsese F fread in01 s = Some v ->
      sent_unamb F fread fzero in01 E unamb s = true ->
      exists st' : pstate F, parse_narsese F fread fzero in01 is_alnum E (render_narsese E s) = POk v st'.
Proof. exact parse_narsese_render. Qed.
Print Assumptions C01b_parse_narsese_render.

(* the formatter prints the canonical surface input of a value *)
Theorem C01b_fmt_narsese_canon :
  forall (F : Type) (fshow : F -> str) (E : efmt) (kt ki : nat),
    fmt_tables_ok E kt ki = true ->
    forall (st : sterm) (v : narsese F),
      fmt_term E (nv_term v) = render E st ->
      fmt_narsese F fshow E v = render_narsese E (canon_narsese F fshow kt ki st v).
Proof. exact fmt_narsese_canon. Qed.
Print Assumptions C01b_fmt_narsese_canon.

(* format-then-parse on terms, sentences and tasks, given the term-level facts *)
Theorem C01b_roundtrip_narsese :
  forall (F : Type) (fshow : F -> str) (fread : str -> option F) (fzero : F) (in01 : F -> bool)
         (is_alnum : N -> bool) (E : efmt) (kt ki : nat) (unamb : sterm -> str -> bool),
    sent_ok E = true -> fmt_tables_ok E kt ki = true ->
    fread [] = None -> in01 fzero = true ->
    (forall x : F, in01 x = true -> fread (fshow x) = Some x) ->
    (forall x : F, in01 x = true -> fshow x <> [] /\ Forall (fun c : N => is_float_char c = true) (fshow x)) ->
    TermParses F is_alnum E unamb ->
    forall (st : sterm) (v : narsese F),
      vals_ok F in01 v = true ->
      fmt_term E (nv_term v) = render E st -> odesugar st = Some (nv_term v) ->
      sent_unamb F fread fzero in01 E unamb (canon_narsese F fshow kt ki st v) = true ->
      exists st' : pstate F, parse_narsese F fread fzero in01 is_alnum E (fmt_narsese F fshow E v) = POk v st'.
Proof. exact roundtrip_narsese. Qed.
Print Assumptions C01b_roundtrip_narsese.

(* the budget clause of sent_unamb follows from a syntactic condition: no right budget bracket after the left one *)
Theorem C01b_budget_backoff_no_close :
  forall (F : Type) (fread : str -> option F) (fzero : F) (in01 : F -> bool) (E : efmt),
    total_ok E = true -> state_facts_ok = true -> budget_requires_close = true ->
    forall whole rest : list N,
      (length rest <= length whole)%nat -> task_budget_brackets_1 E <> [] ->
      no_occ (task_budget_brackets_1 E) (drop (length (task_budget_brackets_0 E)) rest) = true ->
      budget_attempt_fails F fread fzero in01 E whole rest = true.
Proof. exact budget_attempt_fails_no_close. Qed.
Print Assumptions C01b_budget_backoff_no_close.

(* sent_unamb from its parts, with that syntactic budget condition *)
Theorem C01b_sent_unamb_intro :
  forall (F : Type) (fread : str -> option F) (fzero : F) (in01 : F -> bool) (E : efmt)
         (unamb : sterm -> str -> bool) (s : snarsese),
    total_ok E = true -> state_facts_ok = true -> budget_requires_close = true -> task_budget_brackets_1 E <> [] ->
    unamb (sn_term s) (tail0 E s) = true ->
    starts (space_parse E) (from_term E s) = false ->
    (sn_budget s <> None \/ starts (task_budget_brackets_0 E) (from_term E s) = false \/
     no_occ (task_budget_brackets_1 E) (drop (length (task_budget_brackets_0 E)) (from_term E s)) = true) ->
    match sn_stamp s with
    | Some (_, x) => nonempty (sentence_stamp_brackets_0 E) || Nat.eqb (ss_sp0 x) 0 = true
    | None => True
    end ->
    sent_unamb F fread fzero in01 E unamb s = true.
Proof. exact sent_unamb_intro. Qed.
Print Assumptions C01b_sent_unamb_intro.

(* the term-level hypothesis, written with the cursor invariant wf of Proofs/EnumTotalP.v *)
Theorem C01b_TermParses_interface :
  forall (F : Type) (is_alnum : N -> bool) (E : efmt) (unamb : sterm -> str -> bool),
    TermParses F is_alnum E unamb <->
    (forall (t : sterm) (v : term) (k : str) (L : nat) (st : pstate F) (fuel : nat),
       odesugar t = Some v -> unamb t k = true ->
       wf F L st -> s_rest st = render E t ++ k -> (sdepth t < fuel)%nat ->
       p_term F is_alnum E fuel st = POk v (step F (length (render E t)) st)).
Proof. exact TermParses_wf. Qed.
Print Assumptions C01b_TermParses_interface.

(* known class K2: the Han word 预算 means a term, is rejected by sent_unamb, and does not parse *)
Theorem C01b_han_K2 :
  forall (F : Type) (fread : str -> option F) (fzero : F) (in01 : F -> bool) (is_alnum : N -> bool),
    fread [] = None -> in01 fzero = true ->
    forall unamb : sterm -> str -> bool,
      sent_unamb F fread fzero in01 FORMAT_HAN unamb k2_word = false /\
      (exists st : pstate F,
         parse_narsese F fread fzero in01 is_alnum FORMAT_HAN (render_narsese FORMAT_HAN k2_word) = PErr st).
Proof. exact sent_unamb_han_K2. Qed.
Print Assumptions C01b_han_K2.

Theorem C01b_han_K2_meaning :
  forall (F : Type) (fread : str -> option F) (in01 : F -> bool),
    odesugar_narsese F fread in01 k2_word = Some (NTerm (TName Word [39044; 31639]%N)).
Proof. exact k2_meaning. Qed.
Print Assumptions C01b_han_K2_meaning.

(* ---- non-vacuity: the oracle hypotheses are satisfiable; on concrete inputs of the three shipped formats
   all conditions hold and the parser model (run by vm_compute) returns exactly the documented meaning ---- *)
Example ex_toy_oracles :
  toy_read [] = None /\ toy_in01 toy_zero = true /\
  (forall x, toy_in01 x = true -> toy_read (toy_show x) = Some x) /\
  (forall x, toy_in01 x = true -> toy_show x <> [] /\ Forall (fun c => is_float_char c = true) (toy_show x)).
Proof. exact toy_oracles_ok. Qed.

Example ex_task_all_formats :
  forallb (fun E => ex_check E ex_task) shipped_formats = true /\
  map (fun E => ex_parsed E ex_task) shipped_formats = map (fun _ => odesugar_narsese str toy_read toy_in01 ex_task) shipped_formats /\
  map (fun E => nv_is_task (match ex_parsed E ex_task with Some v => v | None => NTerm placeholder end)) shipped_formats = [true; true; true].
Proof. exact ex_shipped_task. Qed.

Example ex_question_all_formats :
  forallb (fun E => ex_check E ex_question) shipped_formats = true /\
  map (fun E => ex_parsed E ex_question) shipped_formats = map (fun _ => odesugar_narsese str toy_read toy_in01 ex_question) shipped_formats.
Proof. exact ex_shipped_question. Qed.

Example ex_ascii_dollar_backoff :
  ex_check FORMAT_ASCII ex_dollar = true /\
  starts (task_budget_brackets_0 FORMAT_ASCII) (from_term FORMAT_ASCII ex_dollar) = true /\
  ex_parsed FORMAT_ASCII ex_dollar = Some (NSentence (SJudgement (TName VariableIndependent [120]%N) TruthEmpty Eternal)).
Proof. exact ex_ascii_dollar. Qed.

Example ex_canon_all_formats :
  map (fun Ek => fmt_narsese str toy_show (fst Ek) ex_value) [(FORMAT_ASCII, 1%nat); (FORMAT_LATEX, 1%nat); (FORMAT_HAN, 0%nat)] =
  map (fun Ek => render_narsese (fst Ek) (canon_narsese str toy_show (snd Ek) 1 (ex_value_tree (snd Ek)) ex_value))
      [(FORMAT_ASCII, 1%nat); (FORMAT_LATEX, 1%nat); (FORMAT_HAN, 0%nat)] /\
  map (fun Ek => ex_parsed (fst Ek) (canon_narsese str toy_show (snd Ek) 1 (ex_value_tree (snd Ek)) ex_value))
      [(FORMAT_ASCII, 1%nat); (FORMAT_LATEX, 1%nat); (FORMAT_HAN, 0%nat)] = [Some ex_value; Some ex_value; Some ex_value].
Proof. exact ex_shipped_canon. Qed.
