(* Props/C01a.v -- C01 (enum format-then-parse), FORMATTER half at the term level.  Statements only;
   proofs in Proofs/EnumFmtP.v, definitions in Model/SstOf.v (sst_of, arms_cover, fmt_space_ok, wf_term)
   and Model/Sst.v (sterm, render, odesugar).

   For every format record E (no bound on term size or nesting):
     * what the formatter model prints for a term is the rendering of its canonical surface tree;
     * for a well-formed term (the property's well-formedness + the clauses the proof forced, see
       wf_term) that tree exists and its documented meaning is the term itself: same constructors,
       same ordered components, same set payload (mk_set of a duplicate-free list is the list), same
       image index, same interval value;
     * K1: without the clause "an image's own components contain no placeholder" this is false;
     * the nesting depth of a surface tree is bounded by the length of its text (parse_term's fuel);
     * format-then-parse of a well-formed term returns the term and consumes the whole text, GIVEN the
       parser-side theorem TermParses (an explicit premise here; it is proved separately).
   Side conditions are booleans on the regenerated tables, discharged for the three shipped formats. *)
From Nv Require Import Model.SstOf Proofs.EnumTotalP Proofs.EnumFmtP.

(* table obligations: formatter arm <-> parser arm wiring (on each shipped record and, field by field,
   on the probe record whose 60 keyword fields are pairwise different), format space = k parse spaces
   (k = 1, 1, 0), non-empty brackets *)
Theorem C01a_tables :
  forallb (fun E => fmt_space_ok E && arms_cover E && total_ok E) shipped_formats = true /\
  map canon_k shipped_formats = [1; 1; 0]%nat /\
  probe_ok = true /\ arms_cover probe_fmt = true.
Proof. exact shipped_fmt_side. Qed.
Print Assumptions C01a_tables.

Theorem C01a_fmt_term_render : forall (E : efmt), fmt_space_ok E = true ->
  forall (t : term) (s : sterm), sst_of E t = Some s -> fmt_term E t = render E s.
Proof. exact fmt_term_render. Qed.
Print Assumptions C01a_fmt_term_render.

Theorem C01a_sst_of_desugar : forall (is_alnum : N -> bool) (E : efmt), arms_cover E = true ->
  forall t : term, wf_term is_alnum E t = true ->
  exists s : sterm, sst_of E t = Some s /\ odesugar s = Some t.
Proof. exact sst_of_desugar. Qed.
Print Assumptions C01a_sst_of_desugar.

(* what wf_term means, spelled out one level deep (so that the definition cannot be quietly changed) *)
Theorem C01a_wf_term_meaning : forall (is_alnum : N -> bool) (E : efmt) (t : term),
  wf_term is_alnum E t =
  match t with
  | TName _ n =>
      nonempty n && forallb (name_charb is_alnum E) n
      && negb (existsb (fun x => nonempty (fst x E) && starts (fst x E) n) parse_atom_arms)
      && negb (starts [45] n) && negb (ends [45] n)
      && negb (existsb (fun c => has_infix c n) (gen_copulas E))
  | TUnit _ => true
  | TNum _ i => i <=? usize_max
  | TSet _ l => nonnil l && forallb (wf_term is_alnum E) l && nodup_eqb l
  | TVec _ l => nonnil l && forallb (wf_term is_alnum E) l
  | TImg _ i l => (i <=? nlen l) && forallb (wf_term is_alnum E) l && negb (existsb (fun x => term_eqb x placeholder) (take (N.to_nat i) l))
  | TBox1 _ a => wf_term is_alnum E a
  | TBox2 _ a b => wf_term is_alnum E a && wf_term is_alnum E b
  end.
Proof. exact wf_term_meaning. Qed.
Print Assumptions C01a_wf_term_meaning.

Theorem C01a_K1_witness : forall (is_alnum : N -> bool) (E : efmt), In E shipped_formats ->
  wf_term_pre is_alnum E k1_term = true /\ wf_term is_alnum E k1_term = false /\
  exists s, sst_of E k1_term = Some s /\ fmt_term E k1_term = render E s /\
            odesugar s = Some (TImg ImageExtension 0 [placeholder; TNum Interval 1]) /\ odesugar s <> Some k1_term.
Proof. exact K1_witness. Qed.
Print Assumptions C01a_K1_witness.

(* the K1 exclusion is tight: the same text with index 0 (placeholder at/after the index) is well-formed *)
Example ex_C01a_k1_boundary : forall (is_alnum : N -> bool) (E : efmt), In E shipped_formats ->
  let t := TImg ImageExtension 0 [placeholder; TNum Interval 1] in
  wf_term is_alnum E t = true /\ fmt_term E t = fmt_term E k1_term.
Proof. exact ex_k1_boundary. Qed.

Theorem C01a_sdepth_le_render_S : forall (E : efmt), total_ok E = true ->
  forall s : sterm, (sdepth s <= S (length (render E s)))%nat.
Proof. exact sdepth_le_render_S. Qed.
Print Assumptions C01a_sdepth_le_render_S.

Theorem C01a_sdepth_le_render : forall (E : efmt), total_ok E = true ->
  forall s : sterm, snonempty E s = true -> (sdepth s <= length (render E s))%nat.
Proof. exact sdepth_le_render. Qed.
Print Assumptions C01a_sdepth_le_render.

Theorem C01a_canonical_tree_nonempty : forall (E : efmt), total_ok E = true ->
  forall (is_alnum : N -> bool) (k1 : bool) (t : term) (s : sterm),
  wf_term_gen is_alnum E k1 t = true -> sst_of E t = Some s -> snonempty E s = true.
Proof. exact sst_of_snonempty. Qed.
Print Assumptions C01a_canonical_tree_nonempty.

(* the term round trip, conditional on the parser-side theorem *)
Theorem C01a_term_roundtrip :
  forall (F : Type) (is_alnum : N -> bool) (E : efmt) (unamb : sterm -> str -> bool),
  TermParses F is_alnum E unamb ->
  total_ok E = true -> fmt_space_ok E = true -> arms_cover E = true ->
  forall t : term, wf_term is_alnum E t = true -> unamb (sst E t) [] = true ->
  parse_term F is_alnum E (new_state F (fmt_term E t)) =
  POk t (step F (length (fmt_term E t)) (new_state F (fmt_term E t))).
Proof. exact C01_term_roundtrip. Qed.
Print Assumptions C01a_term_roundtrip.

Theorem C01a_value_term_roundtrip :
  forall (F : Type) (is_alnum : N -> bool) (E : efmt) (unamb : sterm -> str -> bool),
  TermParses F is_alnum E unamb ->
  total_ok E = true -> fmt_space_ok E = true -> arms_cover E = true ->
  forall v : narsese F, wf_value is_alnum E v = true ->
  let t := match v with NTerm t => t | NSentence s => s_term s | NTask k => s_term (fst k) end in
  unamb (sst E t) [] = true ->
  parse_term F is_alnum E (new_state F (fmt_term E t)) =
  POk t (step F (length (fmt_term E t)) (new_state F (fmt_term E t))).
Proof. exact C01_value_term_roundtrip. Qed.
Print Assumptions C01a_value_term_roundtrip.

(* non-vacuity: a term using every constructor, nested, is well-formed in each shipped format, has a
   canonical tree, the formatter prints exactly its rendering and its meaning is the term *)
Example ex_C01a_ascii : ex_checks FORMAT_ASCII ex_term.
Proof. exact ex_fmt_ascii. Qed.
Example ex_C01a_latex : ex_checks FORMAT_LATEX ex_term.
Proof. exact ex_fmt_latex. Qed.
Example ex_C01a_han : ex_checks FORMAT_HAN ex_term.
Proof. exact ex_fmt_han. Qed.
Example ex_C01a_small :
  fmt_term FORMAT_ASCII ex_small =
  [60; 40; 42; 44; 32; 123; 65; 49; 44; 32; 98; 45; 95; 99; 125; 44; 32; 40; 47; 44; 32; 65; 49; 44; 32; 95; 44; 32; 36; 120; 49; 41; 41;
   32; 61; 61; 62; 32; 43; 52; 50; 62]
  /\ ex_checks FORMAT_ASCII ex_small /\ ex_checks FORMAT_LATEX ex_small /\ ex_checks FORMAT_HAN ex_small.
Proof. exact ex_small_ascii. Qed.
