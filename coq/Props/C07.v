(* Props/C07.v -- `impl Hash for Term` respects `impl PartialEq for Term`: equal terms perform the
   same sequence of hasher writes, hence hash alike under every hasher, hence set lookup works. *)
From Nv Require Import Proofs.EqHashP.

Theorem C07_tables : hash_respects_eq = true.
Proof. exact hash_respects_eq_true. Qed.
Print Assumptions C07_tables.

Theorem C07_eq_feed : forall fixed_hash a b,
  set_ok a = true -> set_ok b = true -> term_eqb a b = true ->
  term_feed fixed_hash a = term_feed fixed_hash b.
Proof. exact term_feed_eq. Qed.
Print Assumptions C07_eq_feed.

(* hence any hasher h, being a function of the feed: *)
Theorem C07_eq_hash : forall (H : Type) (h : list hitem -> H) fixed_hash a b,
  set_ok a = true -> set_ok b = true -> term_eqb a b = true ->
  h (term_feed fixed_hash a) = h (term_feed fixed_hash b).
Proof. exact term_hash_eq. Qed.
Print Assumptions C07_eq_hash.

Theorem C07_set_lookup : forall s a b,
  forallb set_ok s = true -> set_ok a = true -> set_ok b = true ->
  In a s -> term_eqb a b = true -> set_mem b s = true.
Proof. exact set_lookup. Qed.
Print Assumptions C07_set_lookup.
