(* Props/C13.v -- claim C13: truth / budget constructors and the EvidentNumber API on f64.
   Statements only; every proof is a lemma of Proofs/NumberP.v.  Numbers are raw IEEE-754
   binary64 bit patterns (Z); of_bits is Flocq's b64_of_bits. *)
From Coq Require Import ZArith List Bool Reals.
From Flocq Require Import Core IEEE754.Binary IEEE754.Bits.
Import ListNotations.
From Nv Require Import Model.Access Model.Number Proofs.NumberP.

Definition valid_bits (z : Z) : Prop := (0 <= z < 2 ^ 64)%Z.

(* sign bit clear and not NaN: the bit patterns of the floats in [+0, +inf] *)
Definition nonneg_or_inf (e : Z) : Prop := (0 <= e <= 0x7FF0000000000000)%Z.

(* ---- the range test ---- *)

(* the range test is exactly "finite and 0 <= x <= 1" on the reals: NaN, +-inf, negatives
   (except -0), 1+ulp are out; -0, +0, subnormals, 1 are in *)
Theorem C13_in01_spec : forall z, valid_bits z ->
  (in01 z = true <->
   is_finite 53 1024 (of_bits z) = true /\ (0 <= B2R 53 1024 (of_bits z) <= 1)%R).
Proof. exact in01_spec. Qed.
Print Assumptions C13_in01_spec.

(* the same without the (unneeded) hypothesis on the bit range *)
Theorem C13_in01_spec_any : forall z,
  (in01 z = true <->
   is_finite 53 1024 (of_bits z) = true /\ (0 <= B2R 53 1024 (of_bits z) <= 1)%R).
Proof. exact in01_spec_any. Qed.
Print Assumptions C13_in01_spec_any.

Example C13_in01_spec_nonvacuous :
  valid_bits 0x3FE0000000000000 /\ in01 0x3FE0000000000000 = true.   (* 0.5 *)
Proof. exact in01_spec_nonvacuous. Qed.
Print Assumptions C13_in01_spec_nonvacuous.

(* concrete boundary facts, by vm_compute *)
Theorem C13_boundaries :
  in01 0 = true /\ in01 0x8000000000000000 = true (* -0.0 *) /\
  in01 1 = true (* min subnormal *) /\
  in01 0x3FF0000000000000 = true (* 1.0 *) /\ in01 0x3FF0000000000001 = false (* 1+ulp *) /\
  in01 0x7FF0000000000000 = false (* +inf *) /\ in01 0xFFF0000000000000 = false (* -inf *) /\
  in01 0x7FF8000000000000 = false (* qNaN *) /\ in01 0x7FF0000000000001 = false (* sNaN *) /\
  in01 0x8000000000000001 = false (* -min subnormal *) /\
  in01 0xBFF0000000000000 = false (* -1 *).
Proof. exact in01_boundaries. Qed.
Print Assumptions C13_boundaries.

(* ---- Truth ---- *)

Theorem C13_truth_try_ok_iff : forall l,
  (exists t, truth_try_from_floats l = ROk t) <-> Forall (fun z => in01 z = true) (firstn 2 l).
Proof. exact truth_try_ok_iff. Qed.
Print Assumptions C13_truth_try_ok_iff.

(* as many components as supplied, surplus ignored, stored unchanged *)
Theorem C13_truth_try_value : forall l t,
  truth_try_from_floats l = ROk t -> truth_values t = firstn 2 l.
Proof. exact truth_try_value. Qed.
Print Assumptions C13_truth_try_value.

Theorem C13_truth_try_total : forall l,
  truth_try_from_floats l <> RPanic /\
  (truth_try_from_floats l = RErr <-> ~ Forall (fun z => in01 z = true) (firstn 2 l)).
Proof. exact truth_try_total. Qed.
Print Assumptions C13_truth_try_total.

Theorem C13_truth_new_vs_try :
  (forall f, truth_new_single f = RPanic <-> truth_try_from_floats [f] = RErr) /\
  (forall f, truth_new_single f <> RErr) /\
  (forall f t, truth_new_single f = ROk t <-> truth_try_from_floats [f] = ROk t) /\
  (forall f c, truth_new_double f c = RPanic <-> truth_try_from_floats [f; c] = RErr) /\
  (forall f c, truth_new_double f c <> RErr) /\
  (forall f c t, truth_new_double f c = ROk t <-> truth_try_from_floats [f; c] = ROk t).
Proof. exact truth_new_vs_try. Qed.
Print Assumptions C13_truth_new_vs_try.

Theorem C13_truth_accessors : forall t,
  (truth_f t = match nth_error (truth_values t) 0 with Some v => ROk v | None => RPanic end) /\
  (truth_c t = match nth_error (truth_values t) 1 with Some v => ROk v | None => RPanic end).
Proof. exact truth_accessors. Qed.
Print Assumptions C13_truth_accessors.

(* [1.0; 0.9; NaN] is accepted (surplus NaN ignored) as <1.0; 0.9>; [1.0; NaN] is rejected *)
Example C13_truth_try_nonvacuous :
  Forall (fun z => in01 z = true)
    (firstn 2 [0x3FF0000000000000; 0x3FECCCCCCCCCCCCD; 0x7FF8000000000000])%Z /\
  truth_try_from_floats [0x3FF0000000000000; 0x3FECCCCCCCCCCCCD; 0x7FF8000000000000]%Z
    = ROk (TrDouble 0x3FF0000000000000 0x3FECCCCCCCCCCCCD) /\
  ~ Forall (fun z => in01 z = true) (firstn 2 [0x3FF0000000000000; 0x7FF8000000000000])%Z /\
  truth_try_from_floats [0x3FF0000000000000; 0x7FF8000000000000]%Z = RErr.
Proof. exact truth_try_nonvacuous. Qed.
Print Assumptions C13_truth_try_nonvacuous.

(* ---- Budget ---- *)

Theorem C13_budget_try_ok_iff : forall l,
  (exists b, budget_try_from_floats l = ROk b) <-> Forall (fun z => in01 z = true) (firstn 3 l).
Proof. exact budget_try_ok_iff. Qed.
Print Assumptions C13_budget_try_ok_iff.

Theorem C13_budget_try_value : forall l b,
  budget_try_from_floats l = ROk b -> budget_values b = firstn 3 l.
Proof. exact budget_try_value. Qed.
Print Assumptions C13_budget_try_value.

Theorem C13_budget_try_total : forall l,
  budget_try_from_floats l <> RPanic /\
  (budget_try_from_floats l = RErr <-> ~ Forall (fun z => in01 z = true) (firstn 3 l)).
Proof. exact budget_try_total. Qed.
Print Assumptions C13_budget_try_total.

Theorem C13_budget_new_vs_try :
  (forall p, budget_new_single p = RPanic <-> budget_try_from_floats [p] = RErr) /\
  (forall p, budget_new_single p <> RErr) /\
  (forall p b, budget_new_single p = ROk b <-> budget_try_from_floats [p] = ROk b) /\
  (forall p d, budget_new_double p d = RPanic <-> budget_try_from_floats [p; d] = RErr) /\
  (forall p d, budget_new_double p d <> RErr) /\
  (forall p d b, budget_new_double p d = ROk b <-> budget_try_from_floats [p; d] = ROk b) /\
  (forall p d q, budget_new_triple p d q = RPanic <-> budget_try_from_floats [p; d; q] = RErr) /\
  (forall p d q, budget_new_triple p d q <> RErr) /\
  (forall p d q b, budget_new_triple p d q = ROk b <-> budget_try_from_floats [p; d; q] = ROk b).
Proof. exact budget_new_vs_try. Qed.
Print Assumptions C13_budget_new_vs_try.

Theorem C13_budget_accessors : forall b,
  (budget_p b = match nth_error (budget_values b) 0 with Some v => ROk v | None => RPanic end) /\
  (budget_d b = match nth_error (budget_values b) 1 with Some v => ROk v | None => RPanic end) /\
  (budget_q b = match nth_error (budget_values b) 2 with Some v => ROk v | None => RPanic end).
Proof. exact budget_accessors. Qed.
Print Assumptions C13_budget_accessors.

(* [0.5; 0.9; 0.0; NaN] is accepted as $0.5; 0.9; 0.0$; [0.5; 0.0; 1+ulp] is rejected *)
Example C13_budget_try_nonvacuous :
  Forall (fun z => in01 z = true)
    (firstn 3 [0x3FE0000000000000; 0x3FECCCCCCCCCCCCD; 0; 0x7FF8000000000000])%Z /\
  budget_try_from_floats [0x3FE0000000000000; 0x3FECCCCCCCCCCCCD; 0; 0x7FF8000000000000]%Z
    = ROk (BuTriple 0x3FE0000000000000 0x3FECCCCCCCCCCCCD 0) /\
  ~ Forall (fun z => in01 z = true) (firstn 3 [0x3FE0000000000000; 0; 0x3FF0000000000001])%Z /\
  budget_try_from_floats [0x3FE0000000000000; 0; 0x3FF0000000000001]%Z = RErr.
Proof. exact budget_try_nonvacuous. Qed.
Print Assumptions C13_budget_try_nonvacuous.

(* ---- EvidentNumber ---- *)

Theorem C13_evident_agree : forall z,
  (en_is_valid z = true <-> en_try_validate z = ROk z) /\
  (en_is_valid z = false <-> en_try_validate z = RErr) /\
  (en_try_validate z = RErr <-> en_validate z = RPanic) /\
  (en_is_valid z = true <-> en_validate z = ROk z) /\
  en_is_valid z = in01 z.
Proof. exact evident_agree. Qed.
Print Assumptions C13_evident_agree.

Theorem C13_zero_one_valid : en_is_valid en_zero = true /\ en_is_valid en_one = true.
Proof. exact zero_one_valid. Qed.
Print Assumptions C13_zero_one_valid.

(* root: proved FROM the assumed libm contract (a hypothesis visible in the statement, not
   an axiom) *)
Theorem C13_root_valid : forall (powf : Z -> Z -> Z) (recip : N -> Z),
  (forall x e, in01 x = true -> nonneg_or_inf e -> in01 (powf x e) = true) ->
      (* contract of powf on [0,1] x [0,+inf] *)
  (forall n, nonneg_or_inf (recip n)) ->
      (* 1.0/(n as f64) is in [0,+inf] *)
  forall x n, en_is_valid x = true -> en_is_valid (en_root powf recip x n) = true.
Proof. exact root_valid. Qed.
Print Assumptions C13_root_valid.

(* both contracts are satisfiable together, and valid inputs exist (0.5) *)
Example C13_root_valid_nonvacuous :
  exists (powf : Z -> Z -> Z) (recip : N -> Z),
    (forall x e, in01 x = true -> nonneg_or_inf e -> in01 (powf x e) = true) /\
    (forall n, nonneg_or_inf (recip n)) /\
    en_is_valid 0x3FE0000000000000 = true.
Proof. exact root_valid_nonvacuous. Qed.
Print Assumptions C13_root_valid_nonvacuous.
