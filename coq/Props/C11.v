(* Props/C11.v -- ASCII output conforms to the grammar published in the README.

   Objects:  readme_grammar   the PEG AST REGENERATED from the pest block of README.md (table T7)
             expected_grammar the reference grammar written out by hand (Model/Readme.v)
             readme_parse_with ucls G fuel s : rres   the PEG interpreter with pest semantics, whole-input
                              match of rule `narsese`; `RValue v` = accepted, v : lnarsese carries the kind
                              (NTerm / NSentence / NTask) and the tree as a lexical model value
             ucls_tab         Unicode classes: general categories L/N/P/S (range tables), White_Space
             opennars_lexicon the OpenNARS ASCII keyword table, written out independently
             lterm_wf / term_ok_readme   well-formedness (names satisfy name_ok_readme, which excludes K4)

   FULL STATEMENT (not proved in full; decided by the correspondence stream `C11`, where the interpreter
   is the oracle on real formatter output and the real lexical parser supplies kind and tree):
     forall v : narsese, wf ASCII v -> names_ok_readme v ->
       exists n, forall m >= n,
         readme_parse_with ucls_tab readme_grammar m (fmt_narsese FORMAT_ASCII v)
           = RValue (lex_of_narsese FORMAT_ASCII v)
     and the same for lfmt_narsese lex_ascii_layout x = RValue x for well-formed lexical values x.
   PROVED below: the statement for every value of kind TERM (C11_lex_terms, C11_enum_terms), by structural
   induction on terms: accepted by the entry rule `narsese`, classified as a term (the task and sentence
   alternatives fail), and the derived tree is the value itself.  Missing for the full statement: the
   sentence / task layer (punctuation, stamp, truth, budget), which is differential testing only. *)
From Coq Require Import String.
From Nv Require Import Model.Readme Gen.ReadmeGrammar Gen.EnumFormats Proofs.PegP Proofs.ReadmeP Proofs.ReadmeConfP Proofs.ReadmeEnumP.

(* (i) the grammar in README.md is the pinned reference grammar; README.en.md differs in the rule `atom` only *)
Theorem readme_pinned : readme_grammar = expected_grammar.
Proof. exact readme_pinned_proof. Qed.
Print Assumptions readme_pinned.

Theorem readme_en_diff_pinned : readme_en_diff = [(ss "atom", ss "unparsable")].
Proof. exact readme_en_diff_pinned_proof. Qed.
Print Assumptions readme_en_diff_pinned.

Theorem expected_grammar_closed : grammar_closed expected_grammar = true.
Proof. exact expected_grammar_closed_proof. Qed.
Print Assumptions expected_grammar_closed.

(* (ii) the ASCII keyword tables of the enum format and of the lexical format are the OpenNARS lexicon *)
Theorem lexicon_pinned :
  lexicon_eqb (lexicon_of_efmt FORMAT_ASCII) opennars_lexicon = true /\
  lexicon_eqb lex_ascii_lexicon opennars_lexicon = true /\
  layout_of_efmt FORMAT_ASCII = lex_ascii_layout.
Proof. exact (conj lexicon_enum_pinned_proof (conj lexicon_lex_pinned_proof layout_pinned_proof)). Qed.
Print Assumptions lexicon_pinned.

(* every keyword literal of the README grammar belongs to the lexicon, and every keyword of the lexicon is
   accepted (whole) by the rule of the grammar for its class *)
Theorem lexicon_vs_grammar :
  forallb (literal_in_lexicon opennars_lexicon) (grammar_literals readme_grammar) = true /\
  lexicon_in_grammar readme_grammar opennars_lexicon = true.
Proof. exact (conj grammar_literals_in_lexicon_proof lexicon_in_grammar_proof). Qed.
Print Assumptions lexicon_vs_grammar.

(* the Unicode tables satisfy what the conformance proofs use of them *)
Theorem unicode_tables_ok : ucls_ok ucls_tab.
Proof. exact ucls_tab_ok. Qed.
Print Assumptions unicode_tables_ok.

(* known class K4: its witness is not a sentence of the grammar *)
Theorem C11_K4_witness :
  name_ok_readme ucls_tab (ss "a---b") = false /\
  k4_free (ss "a---b") = false /\
  readme_parse (ss "a---b") = RReject /\
  lfmt_term lex_ascii_layout (LAtom [] (ss "a---b")) = ss "a---b".
Proof. exact C11_K4_witness_proof. Qed.
Print Assumptions C11_K4_witness.

(* (iii) conformance, kind TERM: lexical formatter *)
Theorem C11_lex_terms : forall x,
  lterm_wf ucls_tab opennars_lexicon x = true ->
  exists n, forall m, (n <= m)%nat ->
    readme_parse_with ucls_tab readme_grammar m (lfmt_term lex_ascii_layout x) = RValue (NTerm x).
Proof. exact C11_lex_terms_proof. Qed.
Print Assumptions C11_lex_terms.

(* (iii) conformance, kind TERM: enum formatter; the tree is lex_of_term (compared with the real lexical
   parser on every case of the correspondence stream) *)
Theorem C11_enum_terms : forall t,
  term_ok_readme ucls_tab t = true ->
  exists n, forall m, (n <= m)%nat ->
    readme_parse_with ucls_tab readme_grammar m (fmt_term FORMAT_ASCII t) = RValue (NTerm (lex_of_term FORMAT_ASCII t)).
Proof. exact C11_enum_terms_proof. Qed.
Print Assumptions C11_enum_terms.

(* the same for every instance of the Unicode classes with the three stated properties *)
Theorem C11_lex_terms_any_unicode : forall ucls x,
  ucls_ok ucls -> lterm_wf ucls opennars_lexicon x = true ->
  exists n, forall m, (n <= m)%nat ->
    readme_parse_with ucls expected_grammar m (lfmt_term SL x) = RValue (NTerm x).
Proof. exact lex_term_conforms. Qed.
Print Assumptions C11_lex_terms_any_unicode.

(* the enum formatter prints exactly what the lexical formatter prints for lex_of_term, for EVERY format *)
Theorem fmt_term_is_lfmt_of_lex : forall E t,
  fmt_term E t = lfmt_term (layout_of_efmt E) (lex_of_term E t).
Proof. exact fmt_lex_term. Qed.
Print Assumptions fmt_term_is_lfmt_of_lex.

(* the hypotheses are satisfiable *)
Example ex_C11_lex_terms :
  lterm_wf ucls_tab opennars_lexicon sample_lterm = true /\
  lfmt_term lex_ascii_layout sample_lterm =
    ss "<(&/, <ball {-] left>, <(*, {SELF}, $any, #some) --> ^go-to>) ==> <SELF {-] good>>" /\
  readme_parse_g readme_grammar (lfmt_term lex_ascii_layout sample_lterm) = RValue (NTerm sample_lterm).
Proof. exact (conj sample_lterm_wf sample_lterm_parse). Qed.

Example ex_C11_enum_terms : term_ok_readme ucls_tab sample_term = true.
Proof. exact sample_term_ok. Qed.
