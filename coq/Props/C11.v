(* Props/C11.v -- ASCII output conforms to the grammar published in the README.

   Objects:  readme_grammar   the PEG AST REGENERATED from the pest block of README.md (table T7)
             expected_grammar the reference grammar written out by hand (Model/Readme.v)
             readme_parse_with ucls G fuel s : rres   the PEG interpreter with pest semantics, whole-input
                              match of rule `narsese`; `RValue v` = s is a sentence of G; v : lnarsese carries
                              the kind (NTerm / NSentence / NTask) and the derived tree as a lexical model value
             readme_parse_g G s   the same with the fuel the correspondence runner uses (fuel_for s)
             ucls_tab         Unicode classes: general categories L/N/P/S (range tables), White_Space
             opennars_lexicon the OpenNARS ASCII keyword table, written out independently
             lnarsese_wf / narsese_ok_readme   well-formedness; names satisfy name_ok_readme (excludes K4)
             fmt_narsese      model of the enum formatter, lfmt_narsese model of the lexical formatter,
             lex_of_narsese   the lexical tree of an enum value

   FULL STATEMENT, PROVED (C11_lex, C11_enum): for every well-formed value, of every kind, the text the
   ASCII formatter prints is accepted by the entry rule `narsese` of the regenerated grammar, is classified
   with the kind of the value (the earlier alternatives task / sentence FAIL, the matching one succeeds) and
   derives the tree of the value itself: same atoms (prefix, name), connecters and component order, set
   brackets, copulas and operands, punctuation, stamp text, truth and budget entries.  "exists n, forall
   m >= n" is "with enough fuel"; C11_lex_exec / C11_enum_exec transfer this to the executable recogniser
   with ANY fuel: its answer is that value or `RNoFuel`, never a rejection, another kind or another tree.

   What is NOT a theorem (differential testing, stream `C11`): that the formatter models and lex_of_narsese
   describe the real formatters and the real ASCII lexical parser (compared on every case; the real parser
   supplies the expected kind and tree); that the interpreter is pest (hand-written from pest's generator and
   ParserState; pest is not available offline); the Display strings of f64 (hypothesis `num_ok (fshow f)`,
   checked on every float of every case).  Known class K4 (names with `-` between `-`/`_`) is excluded by
   name_ok_readme and witnessed below. *)
From Coq Require Import String.
From Nv Require Import Model.Readme Gen.ReadmeGrammar Gen.EnumFormats Proofs.PegP Proofs.ReadmeP Proofs.ReadmeConfP Proofs.ReadmeEnumP.

(* (i) the grammar in README.md is the pinned reference grammar; README.en.md differs in the rule `atom` only *)
Theorem readme_pinned : readme_grammar = expected_grammar.
Proof. exact readme_pinned_proof. Qed.
Print Assumptions readme_pinned.

Theorem readme_en_diff_pinned : readme_en_diff = [(ss "atom", ss "unparsable")].
Proof. exact readme_en_diff_pinned_proof. Qed.
Print Assumptions readme_en_diff_pinned.

Theorem expected_grammar_closed : grammar_closed expected_grammar = true.
Proof. exact expected_grammar_closed_proof. Qed.
Print Assumptions expected_grammar_closed.

(* (ii) the ASCII keyword tables of the enum format and of the lexical format are the OpenNARS lexicon *)
Theorem lexicon_pinned :
  lexicon_eqb (lexicon_of_efmt FORMAT_ASCII) opennars_lexicon = true /\
  lexicon_eqb lex_ascii_lexicon opennars_lexicon = true /\
  layout_of_efmt FORMAT_ASCII = lex_ascii_layout.
Proof. exact (conj lexicon_enum_pinned_proof (conj lexicon_lex_pinned_proof layout_pinned_proof)). Qed.
Print Assumptions lexicon_pinned.

(* every keyword literal of the README grammar belongs to the lexicon, and every keyword of the lexicon is
   accepted (whole) by the rule of the grammar for its class *)
Theorem lexicon_vs_grammar :
  forallb (literal_in_lexicon opennars_lexicon) (grammar_literals readme_grammar) = true /\
  lexicon_in_grammar readme_grammar opennars_lexicon = true.
Proof. exact (conj grammar_literals_in_lexicon_proof lexicon_in_grammar_proof). Qed.
Print Assumptions lexicon_vs_grammar.

(* the Unicode tables satisfy what the conformance proofs use of them: exact on ASCII (trivially, they are
   the reference there), L/N disjoint from P/S and from White_Space *)
Theorem unicode_tables_ok : ucls_ok ucls_tab.
Proof. exact ucls_tab_ok. Qed.
Print Assumptions unicode_tables_ok.

(* known class K4: its witness is not a sentence of the grammar *)
Theorem C11_K4_witness :
  name_ok_readme ucls_tab (ss "a---b") = false /\
  k4_free (ss "a---b") = false /\
  readme_parse (ss "a---b") = RReject /\
  lfmt_term lex_ascii_layout (LAtom [] (ss "a---b")) = ss "a---b".
Proof. exact C11_K4_witness_proof. Qed.
Print Assumptions C11_K4_witness.

(* (iii) conformance of the lexical ASCII formatter: every well-formed term, sentence, task *)
Theorem C11_lex : forall v,
  lnarsese_wf ucls_tab opennars_lexicon v = true ->
  exists n, forall m, (n <= m)%nat ->
    readme_parse_with ucls_tab readme_grammar m (lfmt_narsese lex_ascii_layout v) = RValue v.
Proof. exact C11_lex_proof. Qed.
Print Assumptions C11_lex.

(* (iii) conformance of the enum ASCII formatter: every well-formed term, sentence, task; the tree is
   lex_of_narsese (compared with the real lexical parser on every case of the correspondence stream);
   fshow stands for f64's Display *)
Theorem C11_enum : forall (F : Type) (fshow : F -> str) (v : narsese F),
  (forall f, In f (narsese_floats v) -> num_ok (fshow f) = true) ->
  narsese_ok_readme ucls_tab v = true ->
  exists n, forall m, (n <= m)%nat ->
    readme_parse_with ucls_tab readme_grammar m (fmt_narsese F fshow FORMAT_ASCII v)
      = RValue (lex_of_narsese F fshow FORMAT_ASCII v).
Proof. exact C11_enum_proof. Qed.
Print Assumptions C11_enum.

(* the executable recogniser, with the fuel the runner uses: the value or out-of-fuel, nothing else *)
Theorem C11_lex_exec : forall v,
  lnarsese_wf ucls_tab opennars_lexicon v = true ->
  readme_parse_g readme_grammar (lfmt_narsese lex_ascii_layout v) = RValue v \/
  readme_parse_g readme_grammar (lfmt_narsese lex_ascii_layout v) = RNoFuel.
Proof. exact C11_lex_exec_proof. Qed.
Print Assumptions C11_lex_exec.

Theorem C11_enum_exec : forall (F : Type) (fshow : F -> str) (v : narsese F),
  (forall f, In f (narsese_floats v) -> num_ok (fshow f) = true) ->
  narsese_ok_readme ucls_tab v = true ->
  readme_parse_g readme_grammar (fmt_narsese F fshow FORMAT_ASCII v) = RValue (lex_of_narsese F fshow FORMAT_ASCII v) \/
  readme_parse_g readme_grammar (fmt_narsese F fshow FORMAT_ASCII v) = RNoFuel.
Proof. exact C11_enum_exec_proof. Qed.
Print Assumptions C11_enum_exec.

(* the same for every instance of the Unicode classes with the three stated properties *)
Theorem C11_lex_any_unicode : forall ucls v,
  ucls_ok ucls -> lnarsese_wf ucls opennars_lexicon v = true ->
  exists n, forall m, (n <= m)%nat ->
    readme_parse_with ucls expected_grammar m (lfmt_narsese SL v) = RValue v.
Proof. exact lex_narsese_conforms. Qed.
Print Assumptions C11_lex_any_unicode.

(* the enum formatter prints exactly what the lexical formatter prints for lex_of_narsese, for EVERY format
   record whose two spaces coincide (all three shipped ones) *)
Theorem fmt_narsese_is_lfmt_of_lex : forall (F : Type) (fshow : F -> str) E,
  space_format_terms E = space_format_items E -> forall v,
  fmt_narsese F fshow E v = lfmt_narsese (layout_of_efmt E) (lex_of_narsese F fshow E v).
Proof. exact fmt_lex_narsese. Qed.
Print Assumptions fmt_narsese_is_lfmt_of_lex.

(* more fuel never changes an answer of the interpreter other than "out of fuel" *)
Theorem interpreter_fuel_monotone : forall ucls G n0 f f' e a s r,
  (f <= f')%nat -> run ucls G n0 f e a s = r -> r <> PFuel -> run ucls G n0 f' e a s = r.
Proof. exact run_mono. Qed.
Print Assumptions interpreter_fuel_monotone.

(* the hypotheses are satisfiable: the README's own example task *)
Example ex_C11_lex :
  lnarsese_wf ucls_tab opennars_lexicon (sample_ltask sample_lterm) = true /\
  lfmt_narsese lex_ascii_layout (sample_ltask sample_lterm) =
    ss "$0.5;0.75;0.4$ <(&/, <ball {-] left>, <(*, {SELF}, $any, #some) --> ^go-to>) ==> <SELF {-] good>>. :!-1: %1.0;0.9%" /\
  readme_parse_g readme_grammar (lfmt_narsese lex_ascii_layout (sample_ltask sample_lterm)) = RValue (sample_ltask sample_lterm).
Proof. exact sample_ltask_ok. Qed.

Example ex_C11_enum :
  narsese_ok_readme ucls_tab (sample_task sample_term) = true /\
  (forall f, In f (narsese_floats (sample_task sample_term)) -> num_ok ((fun s : str => s) f) = true) /\
  readme_parse_g readme_grammar (fmt_narsese str (fun s => s) FORMAT_ASCII (sample_task sample_term))
    = RValue (lex_of_narsese str (fun s => s) FORMAT_ASCII (sample_task sample_term)).
Proof. exact sample_task_ok. Qed.
