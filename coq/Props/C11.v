(* Props/C11.v -- ASCII output conforms to the grammar published in the README. *)
From Nv Require Import Model.Readme Gen.ReadmeGrammar Gen.EnumFormats Proofs.ReadmeP.

Theorem readme_pinned : readme_grammar = expected_grammar.
Proof. exact readme_pinned_proof. Qed.
Print Assumptions readme_pinned.
