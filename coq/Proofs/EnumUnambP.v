(* Proofs/EnumUnambP.v -- the NAME condition [unamb] of the term-level parser theorem follows from the
   property's well-formedness in the ASCII and LaTeX formats (and fails in Han: K3).

   Shape of the argument (generic in the format record; the two formats enter only through ONE finite
   boolean check [unamb_fmt_ok ia E], whose only non-computable ingredients are finitely many values of
   the Unicode oracle [ia] = char::is_alphanumeric, collected in [alnum_facts]):

     satoms_ok ia E s   every atom of the surface tree s is one the formatter can print for a well-formed
                        term: a named atom with [name_ok], the placeholder prefix alone, or an interval
                        whose name is a non-empty string of ASCII digits; statement arms exist.
                        It does not look at spacing annotations (satoms_ok_shape).
     unamb_fmt_ok ia E  - space, separator and the four right brackets start with a character that is
                          not a name character (so the name scan stops in front of them);
                        - no delimiter / left bracket can start the text of an atom: it is
                          prefix-incompatible with a non-empty atom prefix, and does not start with a
                          name character (the word prefix is empty, the text then starts with the name);
                        - atom prefixes in the order parse_atom tests them: an earlier one is
                          incompatible with a later non-empty one; before the empty word prefix it
                          either starts with a non-name character or is ONE character that is not a digit
                          (ASCII `_`: excluded as first character of a name by name_ok itself);
                        - no copula can start INSIDE a name and run over its end: every proper non-empty
                          prefix of a copula that consists of name characters ends with `-`
                          (ASCII `-->`, `--]`: prefixes `-`, `--`; names do not end with `-`;
                           LaTeX: every copula starts with `\`, `/` or `|`; Han: `将` of `将得` -- fails);
                        - every copula contains a non-digit; digits are name characters.
     unamb_of_satoms_ok : parse_ok E -> unamb_fmt_ok ia E -> satoms_ok ia E s -> forbid <= delimiters ->
                          stop_ok ia E k -> unamb_ctx ia E forbid s k = true       (ANY spacing, any k the
                          name scan stops at)
   The copula look-ahead is treated for BOTH values of the regenerated switch copula_lookahead_len_guard
   (without the guard the dependency's starts_with_str also answers true when the rest of the input is a
   proper prefix of a copula; names that do not end in `-` are immune). *)
From Nv Require Import Base.FloatDec Gen.Unicode Model.SstOf Model.SstOk Proofs.DecP Proofs.EnumTotalP
  Proofs.EnumFmtP Proofs.EnumTermP Proofs.EnumTermCor Proofs.EnumRoundP.

(* ================================================================================== *)
(* 0. strings                                                                          *)
Lemma ends_cons2 (a x y : N) l : ends [a] (x :: y :: l) = ends [a] (y :: l).
Proof.
  apply eq_true_iff_eq. rewrite !ends_spec. split; intros [r Hr].
  - destruct r as [|z r]; [discriminate|]. cbn [app] in Hr. injection Hr as _ Hr. now exists r.
  - exists (x :: r). cbn [app]. now rewrite Hr.
Qed.

Lemma ends_forallb (P : N -> bool) a n : ends [a] n = true -> forallb P n = true -> P a = true.
Proof.
  intros H Hn. apply ends_spec in H as [r ->]. rewrite forallb_app in Hn. apply andb_true_iff in Hn as [_ Hn].
  cbn [forallb] in Hn. now apply andb_true_iff in Hn as [Hn _].
Qed.

Lemma ends_single a x : ends [a] [x] = (a =? x).
Proof. unfold ends. cbn [rev app starts]. now rewrite andb_true_r. Qed.

Lemma starts_forallb (P : N -> bool) p : forall s, starts p s = true -> forallb P s = true -> forallb P p = true.
Proof.
  induction p as [|x p IH]; intros [|y s]; cbn [starts forallb]; try reflexivity; try discriminate.
  intros H Hs. apply andb_true_iff in H as [Hxy H]. apply N.eqb_eq in Hxy. subst y.
  apply andb_true_iff in Hs as [Hx Hs]. now rewrite Hx, (IH s).
Qed.

Lemma has_infix_forallb (P : N -> bool) c : forall n, has_infix c n = true -> forallb P n = true -> forallb P c = true.
Proof.
  induction n as [|x n IH]; cbn [has_infix]; intros H Hn.
  - rewrite orb_false_r in H. eapply starts_forallb; eassumption.
  - apply orb_true_iff in H as [H|H]; [eapply starts_forallb; eassumption|].
    cbn [forallb] in Hn. apply andb_true_iff in Hn as [_ Hn]. now apply IH.
Qed.

Lemma starts_take p : forall s, starts p s = true -> p = take (length p) s.
Proof.
  induction p as [|x p IH]; intros [|y s]; cbn [starts take length]; try reflexivity; try discriminate.
  intros H. apply andb_true_iff in H as [Hxy H]. apply N.eqb_eq in Hxy. subst y. f_equal. now apply IH.
Qed.

(* the dependency's StartsWithStr on slice = s ++ k: the needle lies inside s, or s is a proper prefix of it *)
Lemma sws_app s : forall c k, sws (s ++ k) c = true ->
  starts c s = true \/ (starts s c = true /\ (length s < length c)%nat).
Proof.
  induction s as [|x s IH]; intros c k H.
  - destruct c as [|y c]; [left; reflexivity | right; cbn [starts length]; split; [reflexivity | lia]].
  - destruct c as [|y c]; [left; reflexivity|]. cbn [app sws] in H.
    destruct (x =? y) eqn:Hxy; [|discriminate]. apply N.eqb_eq in Hxy. subst y.
    destruct (IH c k H) as [H1|[H1 H2]]; [left | right]; cbn [starts length]; rewrite N.eqb_refl; cbn [andb]; auto.
    split; [assumption | lia].
Qed.

Lemma forallb_In {A} (f : A -> bool) l x : forallb f l = true -> In x l -> f x = true.
Proof. intros H Hx. rewrite forallb_forall in H. now apply H. Qed.

Lemma existsb_false_In {A} (f : A -> bool) l x : existsb f l = false -> In x l -> f x = false.
Proof.
  intros H Hx. destruct (f x) eqn:Hf; [|reflexivity].
  assert (existsb f l = true) by (apply existsb_exists; eauto). congruence.
Qed.

Lemma nth_error_seq {A} (l : list A) i x : nth_error l i = Some x -> In i (seq 0 (length l)).
Proof. intros H. apply in_seq. assert (nth_error l i <> None) by congruence. apply nth_error_Some in H0. lia. Qed.

Lemma firstn_In {A} n (l : list A) x : In x (firstn n l) -> In x l.
Proof. intros H. rewrite <- (firstn_skipn n l). apply in_or_app. now left. Qed.

(* ================================================================================== *)
(* 1. the conditions                                                                   *)
Section Defs.
  Variable ia : N -> bool.
  Variable E : efmt.

  Definition NC : N -> bool := name_charb ia E.

  Definition head_not_name (kw : str) : bool := match kw with [] => false | d :: _ => negb (NC d) end.

  (* what the enclosing construct may test before a term (the entries of forbid lists) *)
  Definition delims : list str := space_parse E :: compound_separator E :: list_right_brackets E.
  (* what a continuation of a term starts with (besides a copula) *)
  Definition stops : list str := statement_brackets_1 E :: delims.

  Definition prefixes : list str := map (fun a => fst a E) parse_atom_arms.

  (* kw never starts the text p ++ name ++ k of an atom with prefix p
     (when p is empty the name is non-empty and starts with a name character) *)
  Definition kw_vs_prefix (kw p : str) : bool :=
    match p with [] => head_not_name kw | _ => incompat kw p end.

  (* q is tested before p by parse_atom *)
  Definition earlier_vs_prefix (q p : str) : bool :=
    match p with
    | [] => head_not_name q || match q with [d] => negb (is_ascii_digit d) | _ => false end
    | _ => incompat q p
    end.

  Definition prefix_order_ok : bool :=
    forallb (fun i => match nth_error prefixes i with
                      | Some p => forallb (fun q => earlier_vs_prefix q p) (firstn i prefixes)
                      | None => true
                      end) (seq 0 (length prefixes)).

  Definition copula_prefix_ok (c : str) : bool :=
    nonempty c
    && forallb (fun j => let pre := take j c in negb (forallb NC pre) || ends [45] pre) (seq 1 (length c - 1))
    && negb (forallb is_ascii_digit c).

  Definition digits : list N := [48; 49; 50; 51; 52; 53; 54; 55; 56; 57].

  Definition unamb_fmt_ok : bool :=
    forallb head_not_name stops
    && forallb (fun p => forallb (fun kw => kw_vs_prefix kw p) (delims ++ left_brackets E)) prefixes
    && prefix_order_ok
    && forallb copula_prefix_ok (gen_copulas E)
    && forallb NC digits.

  (* what the name scan needs of a non-empty name *)
  Definition scan_pre (n : str) : bool :=
    forallb NC n && negb (ends [45] n) && negb (existsb (fun c => has_infix c n) (gen_copulas E)).

  (* ---- atoms the formatter prints for well-formed terms (and a placeholder followed by a harmless name) ---- *)
  Definition satom_ok (arm : nat) (name : str) : bool :=
    match nth_error parse_atom_arms arm with
    | Some (_, AIUnit _) => match name with [] => true | _ => scan_pre name end
    | Some (_, AIName _) => name_ok ia E name
    | Some (_, AINum _) => nonempty name && forallb is_ascii_digit name
    | None => false
    end.

  Fixpoint satoms_ok (s : sterm) : bool :=
    match s with
    | SAtom arm name => satom_ok arm name
    | SSet _ _ _ items _ | SComp _ _ _ items _ => forallb satoms_ok items
    | SStmt arm _ _ _ _ x y => is_some (nth_error parse_statement_arms arm) && satoms_ok x && satoms_ok y
    end.

  Fixpoint katoms_ok (s : skel) : bool :=
    match s with
    | KAtom arm name => satom_ok arm name
    | KSet _ items | KComp _ items => forallb katoms_ok items
    | KStmt arm x y => is_some (nth_error parse_statement_arms arm) && katoms_ok x && katoms_ok y
    end.

End Defs.

(* ================================================================================== *)
(* 2. the name condition from the atoms' well-formedness                               *)
Section Proof.
  Variable ia : N -> bool.
  Variable E : efmt.
  Hypothesis Hpo : parse_ok E = true.
  Hypothesis Hfo : unamb_fmt_ok ia E = true.

  Notation NC := (NC ia E).
  Notation stop_ok := (stop_ok ia E).

  Lemma fo_unpack :
    forallb (head_not_name ia E) (stops E) = true /\
    forallb (fun p => forallb (fun kw => kw_vs_prefix ia E kw p) (delims E ++ left_brackets E)) (prefixes E) = true /\
    prefix_order_ok ia E = true /\
    forallb (copula_prefix_ok ia E) (gen_copulas E) = true /\
    forallb NC digits = true.
  Proof. unfold unamb_fmt_ok in Hfo. rewrite !andb_true_iff in Hfo. tauto. Qed.

  (* ---- the scan stops in front of every delimiter ---- *)
  Lemma head_not_name_stop kw r : head_not_name ia E kw = true -> stop_ok (kw ++ r) = true.
  Proof.
    destruct kw as [|d kw]; [discriminate|]. cbn [head_not_name app SstOk.stop_ok]. unfold EnumUnambP.NC.
    intros ->. apply orb_true_r.
  Qed.

  Lemma stop_kw kw r : In kw (stops E) -> stop_ok (kw ++ r) = true.
  Proof. intros H. apply head_not_name_stop. destruct fo_unpack as (H1 & _). exact (forallb_In _ _ _ H1 H). Qed.

  Lemma space_stops : In (space_parse E) (stops E).
  Proof. right. left. reflexivity. Qed.
  Lemma sep_stops : In (compound_separator E) (stops E).
  Proof. right. right. left. reflexivity. Qed.
  Lemma rb_stops rb : In rb (list_right_brackets E) -> In rb (stops E).
  Proof. intros H. right. right. right. exact H. Qed.

  Lemma stop_sp n r : stop_ok r = true -> stop_ok (sp E n ++ r) = true.
  Proof.
    destruct n as [|n]; [intros H; exact H | intros _].
    unfold sp. cbn [rep]. rewrite <- app_assoc. apply stop_kw, space_stops.
  Qed.

  Lemma stop_gap g r : stop_ok (gap E g ++ r) = true.
  Proof. unfold gap. rewrite <- !app_assoc. apply stop_sp, stop_kw, sep_stops. Qed.

  (* ---- no copula starts inside a name ---- *)
  Lemma copula_inside s k :
    s <> [] -> forallb NC s = true -> ends [45] s = false ->
    (forall c, In c (gen_copulas E) -> starts c s = false) ->
    copula_head_str E (s ++ k) = false.
  Proof.
    intros Hne Hnc Hend Hst. destruct (copula_head_str E (s ++ k)) eqn:Hc; [exfalso | reflexivity].
    unfold copula_head_str in Hc. apply existsb_exists in Hc as (c & Hin & Hc).
    apply andb_true_iff in Hc as [_ Hc].
    destruct fo_unpack as (_ & _ & _ & Hcop & _). pose proof (forallb_In _ _ _ Hcop Hin) as Hck.
    unfold copula_prefix_ok in Hck. rewrite !andb_true_iff in Hck. destruct Hck as [[Hcne Hpre] _].
    unfold starts_with_str in Hc. destruct c as [|y c]; [discriminate|].
    destruct s as [|x s]; [congruence|]. cbn [app] in Hc. change (x :: s ++ k) with ((x :: s) ++ k) in Hc.
    apply sws_app in Hc as [Hc|[Hc Hlen]].
    - rewrite (Hst _ Hin) in Hc. discriminate.
    - assert (Hj : In (length (x :: s)) (seq 1 (length (y :: c) - 1))).
      { apply in_seq. cbn [length] in *. lia. }
      pose proof (forallb_In _ _ _ Hpre Hj) as Hp. cbv beta zeta in Hp.
      rewrite <- (starts_take _ _ Hc) in Hp. rewrite Hnc, Hend in Hp. discriminate.
  Qed.

  Lemma name_scan_of_pre k : stop_ok k = true -> forall n,
    forallb NC n = true -> (n = [] \/ ends [45] n = false) ->
    (forall c, In c (gen_copulas E) -> has_infix c n = false) ->
    name_scan_ok ia E n k = true.
  Proof.
    intros Hk. induction n as [|x n IH]; intros Hnc Hend Hinf; cbn [name_scan_ok]; [exact Hk|].
    cbn [forallb] in Hnc. apply andb_true_iff in Hnc as [Hx Hnc].
    destruct Hend as [Hend|Hend]; [discriminate|].
    rewrite !andb_true_iff. repeat split.
    - apply negb_true_iff. change (x :: n ++ k) with ((x :: n) ++ k). apply copula_inside.
      + discriminate.
      + cbn [forallb]. now rewrite Hx, Hnc.
      + exact Hend.
      + intros c Hc. specialize (Hinf c Hc). cbn [has_infix] in Hinf. now apply orb_false_elim in Hinf as [Hinf _].
    - exact Hx.
    - apply IH; [exact Hnc | |].
      + destruct n as [|y n]; [left; reflexivity | right]. now rewrite <- (ends_cons2 45 x y n).
      + intros c Hc. specialize (Hinf c Hc). cbn [has_infix] in Hinf. now apply orb_false_elim in Hinf as [_ Hinf].
  Qed.

  Lemma is_digit_In c : is_ascii_digit c = true -> In c digits.
  Proof.
    unfold is_ascii_digit. intros H. apply andb_true_iff in H as [H1 H2]. apply N.leb_le in H1, H2.
    assert (c = 48 \/ c = 49 \/ c = 50 \/ c = 51 \/ c = 52 \/ c = 53 \/ c = 54 \/ c = 55 \/ c = 56 \/ c = 57) as Hc by lia.
    unfold digits. cbn [In]. intuition.
  Qed.

  Lemma scan_of_name n : name_ok ia E n = true ->
    forallb NC n = true /\ (n = [] \/ ends [45] n = false) /\ (forall c, In c (gen_copulas E) -> has_infix c n = false).
  Proof.
    unfold name_ok. rewrite !andb_true_iff, !negb_true_iff. intros [[[[[_ Hnc] _] _] Hend] Hinf].
    repeat split; [exact Hnc | right; exact Hend |]. intros c Hc. exact (existsb_false_In _ _ _ Hinf Hc).
  Qed.

  Lemma scan_of_digits n : forallb is_ascii_digit n = true ->
    forallb NC n = true /\ (n = [] \/ ends [45] n = false) /\ (forall c, In c (gen_copulas E) -> has_infix c n = false).
  Proof.
    intros Hd. destruct fo_unpack as (_ & _ & _ & Hcop & Hdig). repeat split.
    - apply forallb_forall. intros c Hc. apply (forallb_In _ _ _ Hdig). apply is_digit_In. exact (forallb_In _ _ _ Hd Hc).
    - right. destruct (ends [45] n) eqn:He; [|reflexivity]. pose proof (ends_forallb _ _ _ He Hd) as H. discriminate.
    - intros c Hc. destruct (has_infix c n) eqn:Hi; [|reflexivity].
      pose proof (has_infix_forallb _ _ _ Hi Hd) as Hcd.
      pose proof (forallb_In _ _ _ Hcop Hc) as Hck. unfold copula_prefix_ok in Hck. rewrite !andb_true_iff in Hck.
      destruct Hck as [_ Hck]. rewrite Hcd in Hck. discriminate.
  Qed.

  (* ---- an atom ---- *)
  Lemma prefix_In arm pf init : nth_error parse_atom_arms arm = Some (pf, init) -> nth_error (prefixes E) arm = Some (pf E).
  Proof. intros H. unfold prefixes. now rewrite (map_nth_error _ _ _ H). Qed.

  Lemma atom_unamb_ok forbid arm name k :
    (forall kw, In kw forbid -> In kw (delims E)) -> satom_ok ia E arm name = true -> stop_ok k = true ->
    atom_unamb ia E forbid arm name k = true.
  Proof.
    intros Hforbid Hatom Hk. unfold satom_ok in Hatom.
    destruct (nth_error parse_atom_arms arm) as [[pf init]|] eqn:Hn; [|discriminate].
    pose proof (prefix_In _ _ _ Hn) as Hp. pose proof (nth_error_In _ _ Hp) as Hpin.
    destruct fo_unpack as (_ & Hkws & Hord & _ & _).
    (* the shape of the text and the scan *)
    assert (Hfacts : name_scan_ok ia E name k = true /\
              (pf E = [] -> exists c n', name = c :: n' /\ NC c = true /\
                 forall d, In [d] (prefixes E) -> is_ascii_digit d = false -> (d =? c) = false)).
    { destruct init as [c|c|c].
      - (* named *)
        destruct (scan_of_name _ Hatom) as (H1 & H2 & H3). split; [now apply name_scan_of_pre|].
        intros _. unfold name_ok in Hatom. rewrite !andb_true_iff, !negb_true_iff in Hatom.
        destruct Hatom as [[[[[Hne _] Hpre] _] _] _]. destruct name as [|x n']; [discriminate|].
        exists x, n'. cbn [forallb] in H1. apply andb_true_iff in H1 as [H1 _]. repeat split; [exact H1|].
        intros d Hd _. unfold prefixes in Hd. apply in_map_iff in Hd as (a & Ha & Hin).
        pose proof (existsb_false_In _ _ _ Hpre Hin) as Hs. cbn beta in Hs. rewrite Ha in Hs.
        cbn [nonempty andb starts] in Hs. now rewrite andb_true_r in Hs.
      - (* placeholder: the prefix alone, or followed by a harmless name *)
        split.
        { destruct name as [|x n']; [exact Hk|]. unfold scan_pre in Hatom. rewrite !andb_true_iff, !negb_true_iff in Hatom.
          destruct Hatom as [[H1 H2] H3]. apply name_scan_of_pre; [exact Hk | exact H1 | right; exact H2 |].
          intros c0 Hc0. exact (existsb_false_In _ _ _ H3 Hc0). }
        intros Hnil.
        pose proof (pk_total E Hpo) as Htot. unfold total_ok in Htot. rewrite !andb_true_iff in Htot.
        destruct Htot as [_ Htot]. pose proof (forallb_In _ _ _ Htot (nth_error_In _ _ Hn)) as Hne.
        cbn [snd fst] in Hne. rewrite Hnil in Hne. discriminate.
      - (* interval: digits *)
        apply andb_true_iff in Hatom as [Hne Hd].
        destruct (scan_of_digits _ Hd) as (H1 & H2 & H3). split; [now apply name_scan_of_pre|].
        intros _. destruct name as [|x n']; [discriminate|]. exists x, n'.
        cbn [forallb] in H1, Hd. apply andb_true_iff in H1 as [H1 _]. apply andb_true_iff in Hd as [Hd _].
        repeat split; [exact H1|]. intros d _ Hnd. destruct (N.eqb_spec d x) as [->|]; [congruence | reflexivity]. }
    destruct Hfacts as (Hscan & Hfirst).
    assert (Hkw : forall kw, kw_vs_prefix ia E kw (pf E) = true -> starts kw (pf E ++ name ++ k) = false).
    { intros kw H. unfold kw_vs_prefix in H. destruct (pf E) as [|p0 pr] eqn:Hpf.
      - destruct (Hfirst eq_refl) as (c & n' & -> & Hc & _). destruct kw as [|d kw]; [discriminate|].
        cbn [head_not_name] in H. apply negb_true_iff in H. cbn [app starts].
        destruct (N.eqb_spec d c) as [->|]; [congruence | reflexivity].
      - now apply incompat_starts. }
    assert (Hall : forall kw, In kw (delims E ++ left_brackets E) -> starts kw (pf E ++ name ++ k) = false).
    { intros kw Hin. apply Hkw. exact (forallb_In _ _ _ (forallb_In _ _ _ Hkws Hpin) Hin). }
    unfold atom_unamb, atom_prefix. rewrite Hn. rewrite !andb_true_iff. repeat split.
    - apply forallb_forall. intros kw Hin. apply negb_true_iff, Hall, in_or_app. left. now apply Hforbid.
    - apply forallb_forall. intros kw Hin. apply negb_true_iff, Hall, in_or_app. now right.
    - apply forallb_forall. intros q Hq. apply negb_true_iff.
      unfold earlier_prefixes in Hq. rewrite <- firstn_map in Hq. fold (prefixes E) in Hq.
      unfold prefix_order_ok in Hord. pose proof (forallb_In _ _ _ Hord (nth_error_seq _ _ _ Hp)) as Ho.
      cbn beta in Ho. rewrite Hp in Ho. pose proof (forallb_In _ _ _ Ho Hq) as Hqp. cbn beta in Hqp.
      unfold earlier_vs_prefix in Hqp. destruct (pf E) as [|p0 pr] eqn:Hpf.
      + apply orb_true_iff in Hqp as [Hqp|Hqp].
        * apply Hkw. unfold kw_vs_prefix. exact Hqp.
        * destruct q as [|d [|? ?]]; try discriminate. apply negb_true_iff in Hqp.
          destruct (Hfirst eq_refl) as (c & n' & -> & _ & Hd). cbn [app starts]. rewrite andb_true_r.
          apply Hd; [|exact Hqp]. exact (firstn_In _ _ _ Hq).
      + now apply incompat_starts.
    - exact Hscan.
  Qed.

  (* ---- a tree ---- *)
  Definition tree_ok (s : sterm) : Prop :=
    forall forbid k, satoms_ok ia E s = true -> (forall kw, In kw forbid -> In kw (delims E)) -> stop_ok k = true ->
      unamb_ctx ia E forbid s k = true.

  Lemma item_forbid_delims rb : In rb (list_right_brackets E) -> forall kw, In kw (item_forbid E rb) -> In kw (delims E).
  Proof.
    intros Hrb kw [<-|[<-|[<-|[]]]]; [left; reflexivity | right; left; reflexivity | right; right; exact Hrb].
  Qed.

  Lemma items_ok forbid gaps : (forall kw, In kw forbid -> In kw (delims E)) ->
    forall items, Forall tree_ok items -> forallb (satoms_ok ia E) items = true ->
    forall i tail, stop_ok tail = true ->
      unamb_items E (unamb_ctx ia E forbid) (render E) gaps i items tail = true.
  Proof.
    intros Hf. induction 1 as [|x l Hx _ IH]; intros Hs i tail Ht; [reflexivity|].
    cbn [forallb] in Hs. apply andb_true_iff in Hs as [Hsx Hsl].
    rewrite unamb_items_cons. apply andb_true_iff. split; [|now apply IH].
    apply Hx; [exact Hsx | exact Hf |].
    destruct l as [|y l]; [exact Ht|]. rewrite render_items_cons, <- !app_assoc. apply stop_gap.
  Qed.

  Theorem unamb_ctx_ok : forall s, tree_ok s.
  Proof.
    induction s as [arm name|ext sp0 gaps items sp1 IH|arm sp0 gaps items sp1 IH|arm sp0 sp1 sp2 sp3 x y IHx IHy] using sterm_ind';
      intros forbid k Hs Hf Hk; cbn [unamb_ctx satoms_ok] in *.
    - now apply atom_unamb_ok.
    - assert (Hrb : In (set_rb E ext) (list_right_brackets E)) by (destruct ext; [left | right; left]; reflexivity).
      apply items_ok; [now apply item_forbid_delims | exact IH | exact Hs |].
      apply stop_sp, stop_kw, rb_stops, Hrb.
    - assert (Hrb : In (compound_brackets_1 E) (list_right_brackets E)) by (right; right; left; reflexivity).
      apply items_ok; [now apply item_forbid_delims | exact IH | exact Hs |].
      apply stop_sp, stop_kw, rb_stops, Hrb.
    - rewrite !andb_true_iff in Hs. destruct Hs as [[Harm Hsx] Hsy].
      assert (Hsp : forall kw, In kw [space_parse E] -> In kw (delims E)) by (intros kw [<-|[]]; left; reflexivity).
      apply andb_true_iff. split.
      + apply IHx; [exact Hsx | exact Hsp |]. apply stop_sp. apply stop_ok_copula; [exact Hpo|].
        destruct (nth_error parse_statement_arms arm); [congruence | discriminate].
      + apply IHy; [exact Hsy | exact Hsp |]. apply stop_sp, stop_kw. left. reflexivity.
  Qed.

  Corollary unamb_of_satoms_ok s k : satoms_ok ia E s = true -> stop_ok k = true -> unamb ia E s k = true.
  Proof. intros Hs Hk. apply unamb_ctx_ok; [exact Hs | intros kw [] | exact Hk]. Qed.
End Proof.

(* ================================================================================== *)
(* 3. the canonical tree of a well-formed term has well-formed atoms; so has every      *)
(*    re-spacing of it                                                                  *)
Section SstAtoms.
  Variable ia : N -> bool.
  Variable E : efmt.

  Lemma sst_atom_inv a init n s : sst_atom E a init n = Some s ->
    exists i p, s = SAtom i n /\ nth_error parse_atom_arms i = Some (p, init).
  Proof.
    destruct a; cbn [sst_atom]; try discriminate.
    destruct (atom_arm_ix E prefix init) as [i|] eqn:Hi; [|discriminate]. cbn [option_map]. intros H; injection H as <-.
    apply atom_arm_ix_spec in Hi as (p & Hn & _). eauto.
  Qed.

  Lemma sst_atom_satoms a init n s : sst_atom E a init n = Some s ->
    match init with
    | AIUnit _ => n = []
    | AIName _ => name_ok ia E n = true
    | AINum _ => nonempty n = true /\ forallb is_ascii_digit n = true
    end -> satoms_ok ia E s = true.
  Proof.
    intros H Hn. apply sst_atom_inv in H as (i & p & -> & Hi). cbn [satoms_ok]. unfold satom_ok. rewrite Hi.
    destruct init; [exact Hn | now subst n | destruct Hn as [-> ->]; reflexivity].
  Qed.

  Lemma sst_comp_satoms kw init items s :
    sst_comp E kw init items = Some s -> forallb (satoms_ok ia E) items = true -> satoms_ok ia E s = true.
  Proof.
    unfold sst_comp. destruct items as [|x items]; [discriminate|].
    destruct (comp_arm_ix E kw init); [|discriminate]. intros H; injection H as <-. trivial.
  Qed.

  Lemma img_iter_forallb {A} (f : A -> bool) ph idx l : f ph = true -> forallb f l = true ->
    forall now, forallb f (img_iter_gen ph now idx l) = true.
  Proof.
    intros Hph. induction l as [|x l IH]; intros Hl now; cbn [img_iter_gen].
    - destruct (now =? idx); cbn [forallb]; [now rewrite Hph | reflexivity].
    - cbn [forallb] in Hl. apply andb_true_iff in Hl as [Hx Hl].
      destruct (now =? idx); cbn [forallb]; rewrite ?Hph, Hx, IH; auto.
  Qed.

  Lemma show_N_digitsb n : nonempty (show_N n) = true /\ forallb is_ascii_digit (show_N n) = true.
  Proof.
    destruct (show_N_digits n) as [Hne Hd]. split.
    - destruct (show_N n); [congruence | reflexivity].
    - apply forallb_forall. rewrite Forall_forall in Hd. exact Hd.
  Qed.

  Lemma sst_of_satoms_ok k1 : forall t s,
    wf_term_gen ia E k1 t = true -> sst_of E t = Some s -> satoms_ok ia E s = true.
  Proof.
    assert (Hlist : forall l, Forall (fun t => forall s, wf_term_gen ia E k1 t = true -> sst_of E t = Some s -> satoms_ok ia E s = true) l ->
              forallb (wf_term_gen ia E k1) l = true -> forall items, omap (sst_of E) l = Some items ->
              forallb (satoms_ok ia E) items = true).
    { induction 1 as [|t l Ht _ IH]; intros Hw items Hi.
      - cbn [omap] in Hi. injection Hi as <-. reflexivity.
      - rewrite EnumFmtP.omap_cons in Hi. destruct (sst_of E t) as [s|] eqn:Hs; [|discriminate].
        destruct (omap (sst_of E) l) as [ss|]; [|discriminate]. injection Hi as <-.
        cbn [forallb] in *. apply andb_true_iff in Hw as [Hw1 Hw2]. rewrite (Ht s Hw1 eq_refl), (IH Hw2 ss eq_refl). reflexivity. }
    induction t as [c n|c|c i|c l IH|c l IH|c i l IH|c a IH|c a b IHa IHb] using term_ind';
      intros s Hw H; cbn [wf_term_gen sst_of] in *.
    - eapply sst_atom_satoms; [eassumption|]. exact Hw.
    - eapply sst_atom_satoms; [eassumption|]. reflexivity.
    - eapply sst_atom_satoms; [eassumption|]. apply show_N_digitsb.
    - apply andb_true_iff in Hw as [Hw _]. apply andb_true_iff in Hw as [_ Hw].
      destruct (omap (sst_of E) l) as [items|] eqn:Hi; [|discriminate]. specialize (Hlist l IH Hw items Hi).
      destruct (fmt_arm_set c); cbn [sst_set] in H; try discriminate.
      + destruct (_ && _ && _); [injection H as <-; exact Hlist|]. destruct (_ && _ && _); [injection H as <-; exact Hlist | discriminate].
      + eapply sst_comp_satoms; eassumption.
    - apply andb_true_iff in Hw as [_ Hw].
      destruct (omap (sst_of E) l) as [items|] eqn:Hi; [|discriminate]. specialize (Hlist l IH Hw items Hi).
      unfold sst_vec in H. destruct (fmt_arm_vec c); try discriminate. eapply sst_comp_satoms; eassumption.
    - apply andb_true_iff in Hw as [Hw _]. apply andb_true_iff in Hw as [_ Hw].
      destruct (omap (sst_of E) l) as [items|] eqn:Hi; [|discriminate]. specialize (Hlist l IH Hw items Hi).
      unfold sst_img in H. destruct (fmt_arm_img c); try discriminate.
      destruct (sst_placeholder E) as [ph|] eqn:Hph; [|discriminate].
      eapply sst_comp_satoms; [eassumption|]. apply img_iter_forallb; [|assumption].
      unfold sst_placeholder in Hph. eapply sst_atom_satoms; [eassumption|]. reflexivity.
    - destruct (sst_of E a) as [x|] eqn:Ha; [|discriminate]. unfold sst_box1 in H.
      destruct (fmt_arm_box1 c); try discriminate. eapply sst_comp_satoms; [eassumption|].
      cbn [forallb]. now rewrite (IH x Hw eq_refl).
    - apply andb_true_iff in Hw as [Hwa Hwb].
      destruct (sst_of E a) as [x|] eqn:Ha; [|discriminate]. destruct (sst_of E b) as [y|] eqn:Hb; [|discriminate].
      specialize (IHa x Hwa eq_refl). specialize (IHb y Hwb eq_refl). unfold sst_box2 in H.
      destruct (fmt_arm_box2 c); try discriminate.
      + eapply sst_comp_satoms; [eassumption|]. cbn [forallb]. now rewrite IHa, IHb.
      + destruct (stmt_arm_ix E kw c) as [j|] eqn:Hj; [|discriminate]. injection H as <-.
        apply stmt_arm_ix_spec in Hj as (p & Hn & _). cbn [satoms_ok]. now rewrite Hn, IHa, IHb.
  Qed.

  Lemma sst_satoms_ok t : arms_cover E = true -> wf_term ia E t = true -> satoms_ok ia E (sst E t) = true.
  Proof.
    intros Hc Hw. destruct (sst_of_desugar ia E Hc t Hw) as (s & Hs & _).
    unfold sst. rewrite Hs. exact (sst_of_satoms_ok true t s Hw Hs).
  Qed.

  (* satoms_ok does not look at the spacing annotations *)
  Lemma satoms_ok_erase : forall s, satoms_ok ia E s = katoms_ok ia E (erase s).
  Proof.
    assert (Hl : forall items, Forall (fun s => satoms_ok ia E s = katoms_ok ia E (erase s)) items ->
              forallb (satoms_ok ia E) items = forallb (katoms_ok ia E) (map erase items)).
    { induction 1 as [|x l Hx _ IH]; [reflexivity|]. cbn [forallb map]. now rewrite Hx, IH. }
    induction s as [arm name|ext sp0 gaps items sp1 IH|arm sp0 gaps items sp1 IH|arm sp0 sp1 sp2 sp3 x y IHx IHy] using sterm_ind';
      cbn [satoms_ok erase katoms_ok]; auto. now rewrite IHx, IHy.
  Qed.

  Lemma satoms_ok_shape s1 s2 : same_shape s1 s2 -> satoms_ok ia E s1 = satoms_ok ia E s2.
  Proof. unfold same_shape. intros H. now rewrite !satoms_ok_erase, H. Qed.

  Lemma satoms_ok_respace n s : satoms_ok ia E (respace n s) = satoms_ok ia E s.
  Proof. apply satoms_ok_shape, same_shape_respace. Qed.
End SstAtoms.

(* ================================================================================== *)
(* 4. the Unicode facts, and the two formats                                            *)
(* characters that must NOT be alphanumeric:  space ( ) , / < = > [ \ ] { | }
   (ASCII: space, separator, right brackets, left brackets, first characters of the copulas `<->` `==>` `{--`;
    LaTeX: space, backslash, and `/` `|` which begin the temporal copulas.  The atom prefixes # $ + ? ^ are
    NOT in the list: a name beginning with an atom prefix is excluded by name_ok itself, whatever the oracle
    says about these characters.) *)
Definition nonalnum_chars : list N := [32; 40; 41; 44; 47; 60; 61; 62; 91; 92; 93; 123; 124; 125].

(* ... and the ten ASCII digits must be *)
Definition alnum_facts (ia : N -> bool) : bool :=
  forallb (fun c => negb (ia c)) nonalnum_chars && forallb ia digits.

Definition is_alnum_std (c : N) : bool := in_ranges alnum_ranges c.

Lemma alnum_facts_std : alnum_facts is_alnum_std = true.
Proof. vm_compute. reflexivity. Qed.

Lemma alnum_facts_unpack ia : alnum_facts ia = true ->
  (forall c, memb c nonalnum_chars = true -> ia c = false) /\ (forall c, memb c digits = true -> ia c = true).
Proof.
  unfold alnum_facts. intros H. apply andb_true_iff in H as [H1 H2]. split; intros c Hc; apply memb_In in Hc.
  - apply negb_true_iff. exact (forallb_In _ _ _ H1 Hc).
  - exact (forallb_In _ _ _ H2 Hc).
Qed.

Ltac use_alnum_facts Hn Hd ia :=
  repeat match goal with
         | |- context [ia ?c] => first [rewrite (Hn c) by reflexivity | rewrite (Hd c) by reflexivity]
         end;
  cbv iota;
  repeat match goal with |- context [ia ?c] => destruct (ia c); cbv iota end.

Lemma unamb_fmt_ok_ascii ia : alnum_facts ia = true -> unamb_fmt_ok ia FORMAT_ASCII = true.
Proof. intros H. destruct (alnum_facts_unpack ia H) as [Hn Hd]. vm_compute. use_alnum_facts Hn Hd ia; reflexivity. Qed.

Lemma unamb_fmt_ok_latex ia : alnum_facts ia = true -> unamb_fmt_ok ia FORMAT_LATEX = true.
Proof. intros H. destruct (alnum_facts_unpack ia H) as [Hn Hd]. vm_compute. use_alnum_facts Hn Hd ia; reflexivity. Qed.

(* the check really separates the formats: Han fails it (its keywords are name characters) *)
Lemma unamb_fmt_ok_han_fails : unamb_fmt_ok is_alnum_std FORMAT_HAN = false.
Proof. vm_compute. reflexivity. Qed.

(* every listed fact is used: flipping the oracle on ONE listed character breaks the check of a format *)
Definition flip (ia : N -> bool) (c x : N) : bool := if x =? c then negb (ia x) else ia x.
Definition ascii_alnum (c : N) : bool := is_ascii_digit c || ((65 <=? c) && (c <=? 90)) || ((97 <=? c) && (c <=? 122)).
Lemma alnum_facts_all_needed :
  alnum_facts ascii_alnum = true /\
  forallb (fun c => negb (unamb_fmt_ok (flip ascii_alnum c) FORMAT_ASCII && unamb_fmt_ok (flip ascii_alnum c) FORMAT_LATEX))
          (nonalnum_chars ++ digits) = true.
Proof. split; vm_compute; reflexivity. Qed.

(* ================================================================================== *)
(* 5. the unconditional term-level theorems                                            *)
Section Final.
  Variable ia : N -> bool.
  Variable E : efmt.
  Hypothesis Hpo : parse_ok E = true.
  Hypothesis Hfo : unamb_fmt_ok ia E = true.

  (* C09 / C10 in one statement: ANY surface tree (any spacing, any arms, derived copulas, images,
     intervals ...) whose atoms are well-formed, written before any text the name scan stops at,
     parses to its documented meaning and the cursor stops at its end *)
  Theorem tree_parses : forall (F : Type) (s : sterm) (v : term) (k : str) (L : nat) (st : pstate F),
    odesugar s = Some v -> satoms_ok ia E s = true -> stop_ok ia E k = true ->
    wf F L st -> s_rest st = render E s ++ k ->
    parse_term F ia E st = POk v (step F (length (render E s)) st).
  Proof.
    intros F s v k L st Hv Hs Hk Hwf Hrest.
    apply (parse_term_render F ia E Hpo s v k L st Hv); [|exact Hwf|exact Hrest].
    now apply unamb_of_satoms_ok.
  Qed.

  (* the derived copulas, subject / predicate arbitrary trees with well-formed atoms *)
  Notation stmt_text cop sp0 sp1 sp2 sp3 s p :=
    (statement_brackets_0 E ++ sp E sp0 ++ render E s ++ sp E sp1 ++ cop ++ sp E sp2 ++ render E p ++ sp E sp3 ++ statement_brackets_1 E).

  Lemma stmt_unamb arm sp0 sp1 sp2 sp3 s p k :
    is_some (nth_error parse_statement_arms arm) = true ->
    satoms_ok ia E s = true -> satoms_ok ia E p = true -> stop_ok ia E k = true ->
    unamb ia E (SStmt arm sp0 sp1 sp2 sp3 s p) k = true.
  Proof. intros Ha Hs Hp Hk. apply unamb_of_satoms_ok; auto. cbn [satoms_ok]. now rewrite Ha, Hs, Hp. Qed.

  Theorem instance_parses_wf : forall F sp0 sp1 sp2 sp3 s p vs vp k L (st : pstate F),
    odesugar s = Some vs -> odesugar p = Some vp ->
    satoms_ok ia E s = true -> satoms_ok ia E p = true -> stop_ok ia E k = true ->
    wf F L st -> s_rest st = stmt_text (statement_copula_instance E) sp0 sp1 sp2 sp3 s p ++ k ->
    parse_term F ia E st =
      POk (TBox2 Inheritance (TSet SetExtension [vs]) vp)
          (step F (length (stmt_text (statement_copula_instance E) sp0 sp1 sp2 sp3 s p)) st).
  Proof.
    intros F sp0 sp1 sp2 sp3 s p vs vp k L st Hs Hp Has Hap Hk Hwf Hrest.
    apply (instance_parses F ia E Hpo sp0 sp1 sp2 sp3 s p vs vp k L st Hs Hp); auto. now apply stmt_unamb.
  Qed.

  Theorem property_parses_wf : forall F sp0 sp1 sp2 sp3 s p vs vp k L (st : pstate F),
    odesugar s = Some vs -> odesugar p = Some vp ->
    satoms_ok ia E s = true -> satoms_ok ia E p = true -> stop_ok ia E k = true ->
    wf F L st -> s_rest st = stmt_text (statement_copula_property E) sp0 sp1 sp2 sp3 s p ++ k ->
    parse_term F ia E st =
      POk (TBox2 Inheritance vs (TSet SetIntension [vp]))
          (step F (length (stmt_text (statement_copula_property E) sp0 sp1 sp2 sp3 s p)) st).
  Proof.
    intros F sp0 sp1 sp2 sp3 s p vs vp k L st Hs Hp Has Hap Hk Hwf Hrest.
    apply (property_parses F ia E Hpo sp0 sp1 sp2 sp3 s p vs vp k L st Hs Hp); auto. now apply stmt_unamb.
  Qed.

  Theorem instance_property_parses_wf : forall F sp0 sp1 sp2 sp3 s p vs vp k L (st : pstate F),
    odesugar s = Some vs -> odesugar p = Some vp ->
    satoms_ok ia E s = true -> satoms_ok ia E p = true -> stop_ok ia E k = true ->
    wf F L st -> s_rest st = stmt_text (statement_copula_instance_property E) sp0 sp1 sp2 sp3 s p ++ k ->
    parse_term F ia E st =
      POk (TBox2 Inheritance (TSet SetExtension [vs]) (TSet SetIntension [vp]))
          (step F (length (stmt_text (statement_copula_instance_property E) sp0 sp1 sp2 sp3 s p)) st).
  Proof.
    intros F sp0 sp1 sp2 sp3 s p vs vp k L st Hs Hp Has Hap Hk Hwf Hrest.
    apply (instance_property_parses F ia E Hpo sp0 sp1 sp2 sp3 s p vs vp k L st Hs Hp); auto. now apply stmt_unamb.
  Qed.

  Theorem equiv_retro_parses_wf : forall F sp0 sp1 sp2 sp3 s p vs vp k L (st : pstate F),
    odesugar s = Some vs -> odesugar p = Some vp ->
    satoms_ok ia E s = true -> satoms_ok ia E p = true -> stop_ok ia E k = true ->
    wf F L st -> s_rest st = stmt_text (statement_copula_equivalence_retrospective E) sp0 sp1 sp2 sp3 s p ++ k ->
    parse_term F ia E st =
      POk (TBox2 EquivalencePredictive vp vs)
          (step F (length (stmt_text (statement_copula_equivalence_retrospective E) sp0 sp1 sp2 sp3 s p)) st).
  Proof.
    intros F sp0 sp1 sp2 sp3 s p vs vp k L st Hs Hp Has Hap Hk Hwf Hrest.
    apply (equiv_retro_parses F ia E Hpo sp0 sp1 sp2 sp3 s p vs vp k L st Hs Hp); auto. now apply stmt_unamb.
  Qed.

  Notation image_text con sp0 gaps items sp1 :=
    (compound_brackets_0 E ++ sp E sp0 ++ con ++ render_items E (render E) gaps true 0 items ++ sp E sp1 ++ compound_brackets_1 E).

  Theorem image_parses_wf : forall F (ext : bool) sp0 gaps items sp1 pre post k L (st : pstate F),
    omap odesugar items = Some (pre ++ placeholder :: post) ->
    forallb (fun x => negb (term_eqb x placeholder)) pre = true ->
    forallb (satoms_ok ia E) items = true -> stop_ok ia E k = true ->
    wf F L st ->
    s_rest st = image_text (if ext then compound_connecter_image_extension E else compound_connecter_image_intension E)
                           sp0 gaps items sp1 ++ k ->
    parse_term F ia E st =
      POk (TImg (if ext then ImageExtension else ImageIntension) (N.of_nat (length pre)) (pre ++ post))
          (step F (length (image_text (if ext then compound_connecter_image_extension E else compound_connecter_image_intension E)
                                      sp0 gaps items sp1)) st).
  Proof.
    intros F ext sp0 gaps items sp1 pre post k L st Hitems Hpre Hs Hk Hwf Hrest.
    apply (image_parses F ia E Hpo ext sp0 gaps items sp1 pre post k L st Hitems Hpre); auto.
    apply unamb_of_satoms_ok; auto.
  Qed.

  (* ---- formatter output ---- *)
  Hypothesis Hsp : fmt_space_ok E = true.
  Hypothesis Hcov : arms_cover E = true.

  Theorem unamb_of_wf : forall t, wf_term ia E t = true -> unamb ia E (sst E t) [] = true.
  Proof. intros t Hw. apply unamb_of_satoms_ok; auto. now apply sst_satoms_ok. Qed.

  (* every re-spacing of the formatter's output, in front of any text the scan stops at *)
  Theorem unamb_of_wf_spaced : forall t s k,
    wf_term ia E t = true -> same_shape s (sst E t) -> stop_ok ia E k = true -> unamb ia E s k = true.
  Proof.
    intros t s k Hw Hsh Hk. apply unamb_of_satoms_ok; auto.
    rewrite (satoms_ok_shape ia E _ _ Hsh). now apply sst_satoms_ok.
  Qed.

  Theorem unamb_of_wf_respace : forall n t, wf_term ia E t = true -> unamb ia E (respace n (sst E t)) [] = true.
  Proof. intros n t Hw. apply (unamb_of_wf_spaced t); auto. apply same_shape_respace. Qed.

  (* C01, term level, unconditional *)
  Theorem roundtrip_wf : forall (F : Type) (t : term), wf_term ia E t = true ->
    parse_term F ia E (new_state F (fmt_term E t)) =
    POk t (step F (length (fmt_term E t)) (new_state F (fmt_term E t))).
  Proof.
    intros F t Hw. apply term_roundtrip; auto; [exact (pk_total E Hpo) | now apply unamb_of_wf].
  Qed.

  (* C09 on formatter output: the text of a well-formed term with ANY spacing at its token boundaries,
     followed by any k the scan stops at, parses to the term *)
  Theorem spaced_roundtrip_wf : forall (F : Type) (t : term) (s : sterm) (k : str) (L : nat) (st : pstate F),
    wf_term ia E t = true -> same_shape s (sst E t) -> stop_ok ia E k = true ->
    wf F L st -> s_rest st = render E s ++ k ->
    parse_term F ia E st = POk t (step F (length (render E s)) st).
  Proof.
    intros F t s k L st Hw Hsh Hk Hwf Hrest.
    destruct (sst_of_desugar ia E Hcov t Hw) as (s0 & Hs0 & Hd).
    assert (Hsst : sst E t = s0) by (unfold sst; now rewrite Hs0).
    apply (parse_term_render F ia E Hpo s t k L st); auto.
    - rewrite (same_shape_meaning _ _ Hsh), Hsst. exact Hd.
    - now apply (unamb_of_wf_spaced t).
  Qed.

  Corollary respaced_roundtrip_wf : forall (F : Type) (n : nat) (t : term), wf_term ia E t = true ->
    parse_term F ia E (new_state F (render E (respace n (sst E t)))) =
    POk t (step F (length (render E (respace n (sst E t)))) (new_state F (render E (respace n (sst E t))))).
  Proof.
    intros F n t Hw.
    apply (spaced_roundtrip_wf F t (respace n (sst E t)) [] _ _ Hw (same_shape_respace n _) eq_refl (wf_new_state F _)).
    cbn [new_state s_rest]. now rewrite app_nil_r.
  Qed.
End Final.

(* ---- the two formats ---- *)
Lemma ascii_side : parse_ok FORMAT_ASCII = true /\ fmt_space_ok FORMAT_ASCII = true /\ arms_cover FORMAT_ASCII = true.
Proof. vm_compute. repeat split; reflexivity. Qed.
Lemma latex_side : parse_ok FORMAT_LATEX = true /\ fmt_space_ok FORMAT_LATEX = true /\ arms_cover FORMAT_LATEX = true.
Proof. vm_compute. repeat split; reflexivity. Qed.

Theorem unamb_of_wf_ascii : forall ia, alnum_facts ia = true -> forall t,
  wf_term ia FORMAT_ASCII t = true -> unamb ia FORMAT_ASCII (sst FORMAT_ASCII t) [] = true.
Proof.
  intros ia H. destruct ascii_side as (H1 & H2 & H3). apply unamb_of_wf; auto. now apply unamb_fmt_ok_ascii.
Qed.

Theorem unamb_of_wf_latex : forall ia, alnum_facts ia = true -> forall t,
  wf_term ia FORMAT_LATEX t = true -> unamb ia FORMAT_LATEX (sst FORMAT_LATEX t) [] = true.
Proof.
  intros ia H. destruct latex_side as (H1 & H2 & H3). apply unamb_of_wf; auto. now apply unamb_fmt_ok_latex.
Qed.

Theorem C01_term_ascii : forall ia, alnum_facts ia = true -> forall (F : Type) (t : term),
  wf_term ia FORMAT_ASCII t = true ->
  parse_term F ia FORMAT_ASCII (new_state F (fmt_term FORMAT_ASCII t)) =
  POk t (step F (length (fmt_term FORMAT_ASCII t)) (new_state F (fmt_term FORMAT_ASCII t))).
Proof.
  intros ia H. destruct ascii_side as (H1 & H2 & H3). apply roundtrip_wf; auto. now apply unamb_fmt_ok_ascii.
Qed.

Theorem C01_term_latex : forall ia, alnum_facts ia = true -> forall (F : Type) (t : term),
  wf_term ia FORMAT_LATEX t = true ->
  parse_term F ia FORMAT_LATEX (new_state F (fmt_term FORMAT_LATEX t)) =
  POk t (step F (length (fmt_term FORMAT_LATEX t)) (new_state F (fmt_term FORMAT_LATEX t))).
Proof.
  intros ia H. destruct latex_side as (H1 & H2 & H3). apply roundtrip_wf; auto. now apply unamb_fmt_ok_latex.
Qed.

(* E is ASCII or LaTeX *)
Definition plain (E : efmt) : Prop := E = FORMAT_ASCII \/ E = FORMAT_LATEX.

Lemma plain_side ia E : alnum_facts ia = true -> plain E ->
  parse_ok E = true /\ fmt_space_ok E = true /\ arms_cover E = true /\ unamb_fmt_ok ia E = true.
Proof.
  intros H [HE|HE]; subst E.
  - destruct ascii_side as (H1 & H2 & H3). repeat split; auto. now apply unamb_fmt_ok_ascii.
  - destruct latex_side as (H1 & H2 & H3). repeat split; auto. now apply unamb_fmt_ok_latex.
Qed.

Theorem C01_term_plain : forall ia E, alnum_facts ia = true -> plain E -> forall (F : Type) (t : term),
  wf_term ia E t = true ->
  parse_term F ia E (new_state F (fmt_term E t)) = POk t (step F (length (fmt_term E t)) (new_state F (fmt_term E t))).
Proof. intros ia E H HE. destruct (plain_side ia E H HE) as (H1 & H2 & H3 & H4). now apply roundtrip_wf. Qed.

Theorem C09_term_plain : forall ia E, alnum_facts ia = true -> plain E ->
  forall (F : Type) (t : term) (s : sterm) (k : str) (L : nat) (st : pstate F),
    wf_term ia E t = true -> same_shape s (sst E t) -> stop_ok ia E k = true ->
    wf F L st -> s_rest st = render E s ++ k ->
    parse_term F ia E st = POk t (step F (length (render E s)) st).
Proof. intros ia E H HE. destruct (plain_side ia E H HE) as (H1 & H2 & H3 & H4). now apply spaced_roundtrip_wf. Qed.

Theorem C09_respaced_plain : forall ia E, alnum_facts ia = true -> plain E ->
  forall (F : Type) (n : nat) (t : term), wf_term ia E t = true ->
    parse_term F ia E (new_state F (render E (respace n (sst E t)))) =
    POk t (step F (length (render E (respace n (sst E t)))) (new_state F (render E (respace n (sst E t))))).
Proof. intros ia E H HE. destruct (plain_side ia E H HE) as (H1 & H2 & H3 & H4). now apply respaced_roundtrip_wf. Qed.

Theorem tree_parses_plain : forall ia E, alnum_facts ia = true -> plain E ->
  forall (F : Type) (s : sterm) (v : term) (k : str) (L : nat) (st : pstate F),
    odesugar s = Some v -> satoms_ok ia E s = true -> stop_ok ia E k = true ->
    wf F L st -> s_rest st = render E s ++ k ->
    parse_term F ia E st = POk v (step F (length (render E s)) st).
Proof. intros ia E H HE. destruct (plain_side ia E H HE) as (H1 & H2 & H3 & H4). now apply tree_parses. Qed.

(* ================================================================================== *)
(* 6. Han: the name condition does NOT follow from well-formedness (class K3)           *)
(* Implication(Word "x将", Word "y") prints as 「x将得y」, which reads  x 将得 y  *)
Definition k3_term : term := TBox2 Implication (TName Word [120; 23558]) (TName Word [121]).
Definition k3_reading : term := TBox2 ImplicationPredictive (TName Word [120]) (TName Word [121]).

Lemma K3_witness :
  wf_term is_alnum_std FORMAT_HAN k3_term = true /\
  unamb is_alnum_std FORMAT_HAN (sst FORMAT_HAN k3_term) [] = false /\
  fmt_term FORMAT_HAN k3_term = [12300; 120; 23558; 24471; 121; 12301] /\
  fmt_term FORMAT_HAN k3_reading = fmt_term FORMAT_HAN k3_term /\
  exists st', parse_term unit is_alnum_std FORMAT_HAN (new_state unit (fmt_term FORMAT_HAN k3_term)) = POk k3_reading st'.
Proof.
  repeat split; try (vm_compute; reflexivity). eexists. vm_compute. reflexivity.
Qed.

(* non-vacuity of the hypotheses of the unconditional theorems: a term with all 30 constructors *)
Example ex_plain_hypotheses :
  alnum_facts is_alnum_std = true /\
  wf_term is_alnum_std FORMAT_ASCII ex_term = true /\ wf_term is_alnum_std FORMAT_LATEX ex_term = true.
Proof. repeat split; vm_compute; reflexivity. Qed.

(* ================================================================================== *)
(* 7. statements for the Props files                                                   *)
Lemma alnum_facts_meaning : forall ia : N -> bool,
  alnum_facts ia =
  forallb (fun c => negb (ia c)) [32; 40; 41; 44; 47; 60; 61; 62; 91; 92; 93; 123; 124; 125]
  && forallb ia [48; 49; 50; 51; 52; 53; 54; 55; 56; 57].
Proof. reflexivity. Qed.

Lemma unamb_fmt_ok_meaning : forall (ia : N -> bool) (E : efmt),
  unamb_fmt_ok ia E =
  forallb (head_not_name ia E) (statement_brackets_1 E :: space_parse E :: compound_separator E :: list_right_brackets E)
  && forallb (fun p => forallb (fun kw => match p with [] => head_not_name ia E kw | _ => incompat kw p end)
                               ((space_parse E :: compound_separator E :: list_right_brackets E) ++ left_brackets E))
             (map (fun a => fst a E) parse_atom_arms)
  && prefix_order_ok ia E
  && forallb (fun c => nonempty c
                       && forallb (fun j => negb (forallb (name_charb ia E) (take j c)) || ends [45] (take j c))
                                  (seq 1 (length c - 1))
                       && negb (forallb is_ascii_digit c))
             (gen_copulas E)
  && forallb (name_charb ia E) [48; 49; 50; 51; 52; 53; 54; 55; 56; 57].
Proof. reflexivity. Qed.

Lemma satoms_ok_meaning : forall (ia : N -> bool) (E : efmt) (s : sterm),
  satoms_ok ia E s =
  match s with
  | SAtom arm name =>
      match nth_error parse_atom_arms arm with
      | Some (_, AIUnit _) =>
          match name with
          | [] => true
          | _ => forallb (name_charb ia E) name && negb (ends [45] name)
                 && negb (existsb (fun c => has_infix c name) (gen_copulas E))
          end
      | Some (_, AIName _) => name_ok ia E name
      | Some (_, AINum _) => nonempty name && forallb is_ascii_digit name
      | None => false
      end
  | SSet _ _ _ items _ | SComp _ _ _ items _ => forallb (satoms_ok ia E) items
  | SStmt arm _ _ _ _ x y => is_some (nth_error parse_statement_arms arm) && satoms_ok ia E x && satoms_ok ia E y
  end.
Proof. intros ia E s. destruct s; reflexivity. Qed.

Lemma unamb_fmt_ok_plain : forall ia : N -> bool, alnum_facts ia = true ->
  unamb_fmt_ok ia FORMAT_ASCII = true /\ unamb_fmt_ok ia FORMAT_LATEX = true.
Proof. intros ia H. split; [now apply unamb_fmt_ok_ascii | now apply unamb_fmt_ok_latex]. Qed.

Theorem C01_term_ascii_std : forall (F : Type) (t : term),
  wf_term is_alnum_std FORMAT_ASCII t = true ->
  parse_term F is_alnum_std FORMAT_ASCII (new_state F (fmt_term FORMAT_ASCII t)) =
  POk t (step F (length (fmt_term FORMAT_ASCII t)) (new_state F (fmt_term FORMAT_ASCII t))).
Proof. exact (C01_term_ascii is_alnum_std alnum_facts_std). Qed.

Theorem C01_term_latex_std : forall (F : Type) (t : term),
  wf_term is_alnum_std FORMAT_LATEX t = true ->
  parse_term F is_alnum_std FORMAT_LATEX (new_state F (fmt_term FORMAT_LATEX t)) =
  POk t (step F (length (fmt_term FORMAT_LATEX t)) (new_state F (fmt_term FORMAT_LATEX t))).
Proof. exact (C01_term_latex is_alnum_std alnum_facts_std). Qed.

Theorem C01_value_term_plain : forall (ia : N -> bool) (E : efmt), alnum_facts ia = true -> plain E ->
  forall (F : Type) (v : narsese F), wf_value ia E v = true ->
  let t := match v with NTerm t => t | NSentence s => s_term s | NTask k => s_term (fst k) end in
  parse_term F ia E (new_state F (fmt_term E t)) = POk t (step F (length (fmt_term E t)) (new_state F (fmt_term E t))).
Proof. intros ia E H HE F v Hw t. apply C01_term_plain; auto. destruct v; exact Hw. Qed.

Lemma sst_renders : forall (ia : N -> bool) (E : efmt), fmt_space_ok E = true -> arms_cover E = true ->
  forall t : term, wf_term ia E t = true -> fmt_term E t = render E (sst E t).
Proof.
  intros ia E Hsp Hcov t Hw. destruct (sst_of_desugar ia E Hcov t Hw) as (s & Hs & _).
  unfold sst. rewrite Hs. now apply fmt_term_render.
Qed.

Lemma plain_tables : forall ia : N -> bool, alnum_facts ia = true ->
  (parse_ok FORMAT_ASCII = true /\ unamb_fmt_ok ia FORMAT_ASCII = true) /\
  (parse_ok FORMAT_LATEX = true /\ unamb_fmt_ok ia FORMAT_LATEX = true).
Proof.
  intros ia H. destruct ascii_side as (H1 & _). destruct latex_side as (H2 & _).
  repeat split; auto; [now apply unamb_fmt_ok_ascii | now apply unamb_fmt_ok_latex].
Qed.

Example ex_nospace :
  let t := TBox2 Inheritance (TName Word [97; 45; 98]) (TName Word [99]) in
  wf_term is_alnum_std FORMAT_ASCII t = true /\
  render FORMAT_ASCII (respace 0 (sst FORMAT_ASCII t)) = [60; 97; 45; 98; 45; 45; 62; 99; 62] /\
  render FORMAT_ASCII (respace 2 (sst FORMAT_ASCII t)) =
    [60; 32; 32; 97; 45; 98; 32; 32; 45; 45; 62; 32; 32; 99; 32; 32; 62].
Proof. repeat split; vm_compute; reflexivity. Qed.

Example ex_trees_satoms :
  forallb (fun E => satoms_ok is_alnum_std E (ex_tree 0) && satoms_ok is_alnum_std E (ex_tree 3)
                    && satoms_ok is_alnum_std E (ex_tree2 0) && satoms_ok is_alnum_std E (ex_tree2 2))
          [FORMAT_ASCII; FORMAT_LATEX] = true.
Proof. vm_compute. reflexivity. Qed.
