(* Proofs/TypstMain.v -- C16: the theorems of Props/C16.v assembled for the executable Debug
   printer [debug_str esc] (Rust's `impl Debug for str` over a table [esc] of \u{..}-escaped
   characters), table obligations on the regenerated constants, and the K6 witness. *)
From Nv Require Export Proofs.TypstPerm Proofs.TypstInjP Proofs.TypstDebug.
From Coq Require Import Lia.

(* ---- table obligations on the regenerated constants (part C) ---- *)
Definition norm (c : str) : str := match post_process c with TOk r => r | TPanic => [] end.

Fixpoint distinct (l : list str) : bool :=
  match l with
  | [] => true
  | x :: r => negb (existsb (str_eqb x) r) && distinct r
  end.

Definition nonblank (c : str) : bool := match norm c with [] => false | _ :: _ => true end.

Fixpoint remove_first (p : str * str) (l : list (str * str)) : list (str * str) :=
  match l with
  | [] => []
  | q :: r => if str_eqb (fst p) (fst q) && str_eqb (snd p) (snd q) then r else q :: remove_first p r
  end.

(* 1. inside every class the constants are pairwise distinct after whitespace normalisation
      (the truth brackets are allowed to coincide with the statement brackets: they never compete);
   2. no constant is blank unless it is literally empty, and the constants of the classes that
      must print something (connecters, copulas, brackets, punctuations) are not empty;
   3. every constant is empty or delimited by spaces, and contains no whitespace but U+0020, except
      the two separators that glue numbers together. *)
Definition typst_constants_ok : bool :=
  distinct (map norm typst_class_TERM_PREFIX) &&
  distinct (map norm typst_class_CONNECTER) &&
  distinct (map norm typst_class_COPULA) &&
  distinct (map norm typst_class_STAMP) &&
  distinct (map norm typst_class_PUNCTUATION) &&
  distinct (map (fun p => norm (fst p)) (remove_first typst_truth_brackets typst_class_BRACKETS)) &&
  distinct (map (fun p => norm (snd p)) (remove_first typst_truth_brackets typst_class_BRACKETS)) &&
  forallb (fun c => match c with [] => true | _ :: _ => nonblank c end) typst_all_constants &&
  forallb nonblank (typst_class_CONNECTER ++ typst_class_COPULA ++ typst_class_PUNCTUATION ++
                    map fst typst_class_BRACKETS ++ map snd typst_class_BRACKETS) &&
  forallb (fun c => Kb c || str_eqb c typst_truth_sep || str_eqb c typst_budget_sep) typst_all_constants &&
  ws_free typst_truth_sep && ws_free typst_budget_sep.

Lemma typst_constants_ok_true : typst_constants_ok = true.
Proof. vm_compute. reflexivity. Qed.

(* ---- injectivity for Rust's Debug printer ---- *)
Section Main.
  Variable esc : N -> bool.
  Hypothesis Hesc_ws : forall c, is_ws c = true -> c = 32 \/ c = 9 \/ c = 10 \/ c = 13 \/ esc c = true.

  Lemma debug_q34 n : q34 (debug_str esc n) = true.
  Proof. reflexivity. Qed.

  Theorem typst_tokens_debug t : typst_term (debug_str esc) t = TOk (unwords (toks (debug_str esc) t)).
  Proof. apply typst_tokens_proof; [apply debug_str_only_sp; exact Hesc_ws | exact tok_tables_ok_true]. Qed.

  Theorem typst_injective_debug a b :
    wf_term a = true -> wf_term b = true ->
    typst_term (debug_str esc) a = typst_term (debug_str esc) b -> a = b.
  Proof.
    apply typst_injective_proof.
    - apply debug_str_only_sp. exact Hesc_ws.
    - apply debug_str_inj.
    - apply debug_q34.
    - apply debug_str_ws_free.
    - exact tok_tables_ok_true.
    - exact dec_tables_ok_true.
  Qed.
End Main.

(* the executable instance used in examples: no character is \u-escaped *)
Definition dbg0 : str -> str := debug_str (fun _ => false).

(* K6: the two images differ, their renderings do not *)
Lemma typst_K6_witness_proof :
  let a := TImg ImageExtension 0 [placeholder; TName Word [66]] in
  let b := TImg ImageExtension 1 [placeholder; TName Word [66]] in
  a <> b /\ typst_term dbg0 a = typst_term dbg0 b /\ wf_term a = false /\ wf_term b = false.
Proof. cbv zeta. split; [discriminate|]. split; [vm_compute; reflexivity | split; reflexivity]. Qed.

(* satisfiability of the hypotheses of the injectivity theorem, and an instance of it *)
Lemma typst_injective_example_proof :
  wf_term (TBox2 Inheritance (TSet SetExtension [TName Word [65]]) (TImg ImageExtension 1 [TName Word [66]; TName Word [67]])) = true /\
  typst_term dbg0 (TBox2 Inheritance (TName Word [65]) (TName Word [66])) =
  TOk [108;114;40;97;110;103;108;101;46;108;32;34;65;34;32;97;114;114;111;119;46;114;32;34;66;34;32;97;110;103;108;101;46;114;41].
Proof. split; vm_compute; reflexivity. Qed.

Lemma ex_post_ws_proof : post_process [32; 9; 97; 32; 12288; 98; 10] = TOk [97; 32; 98].
Proof. vm_compute. reflexivity. Qed.
