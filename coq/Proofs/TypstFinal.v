(* Proofs/TypstFinal.v -- C16: value-level theorems assembled for Rust's Debug printer. *)
From Nv Require Export Proofs.TypstValueInj.
From Coq Require Import Lia.

Section Final.
  Variable esc : N -> bool.
  Hypothesis Hesc_ws : forall c, is_ws c = true -> c = 32 \/ c = 9 \/ c = 10 \/ c = 13 \/ esc c = true.
  Variable F : Type.
  Variable fshow : F -> str.
  Variable okf : F -> Prop.
  Hypothesis Hf_tok : forall f, is_token (fshow f) = true.
  Hypothesis Hf_num : forall f, okf f -> forallb numch (fshow f) = true.
  Hypothesis Hf_inj : forall f g, okf f -> okf g -> fshow f = fshow g -> f = g.

  Theorem typst_value_tokens_debug v :
    typst_narsese F fshow (debug_str esc) v = TOk (unwords (value_toks (debug_str esc) F fshow v)).
  Proof.
    apply typst_value_tokens_proof; auto using tok_tables_ok_true, value_tables_ok_true.
    apply debug_str_only_sp. exact Hesc_ws.
  Qed.

  Theorem typst_value_injective_debug v v' :
    wf_value F okf v -> wf_value F okf v' ->
    typst_narsese F fshow (debug_str esc) v = typst_narsese F fshow (debug_str esc) v' -> v = v'.
  Proof.
    apply (typst_value_injective_proof (debug_str esc)); auto using tok_tables_ok_true, dec_tables_ok_true, value_tables_ok_true, value_dec_ok_true.
    - apply debug_str_only_sp. exact Hesc_ws.
    - apply debug_str_inj.
    - apply debug_str_ws_free.
  Qed.
End Final.

(* the boolean the runner evaluates on the escape table dumped from std gives the hypothesis above *)
Lemma is_ws_listed c : is_ws c = true -> In c ws_list.
Proof.
  unfold is_ws, ws_ranges. cbn [rng_mem]. intros H.
  repeat (apply orb_true_iff in H as [H|H]; [apply andb_true_iff in H as [H1 H2]; apply N.leb_le in H1, H2|]);
    try discriminate H; unfold ws_list; cbn [In].
  - assert (c = 9 \/ c = 10 \/ c = 11 \/ c = 12 \/ c = 13) by lia. intuition.
  - assert (c = 32) by lia. intuition.
  - assert (c = 133) by lia. intuition.
  - assert (c = 160) by lia. intuition.
  - assert (c = 5760) by lia. intuition.
  - assert (c = 8192 \/ c = 8193 \/ c = 8194 \/ c = 8195 \/ c = 8196 \/ c = 8197 \/ c = 8198 \/ c = 8199 \/ c = 8200 \/ c = 8201 \/ c = 8202) by lia.
    intuition.
  - assert (c = 8232 \/ c = 8233) by lia. intuition.
  - assert (c = 8239) by lia. intuition.
  - assert (c = 8287) by lia. intuition.
  - assert (c = 12288) by lia. intuition.
Qed.

Lemma esc_covers_ws_spec esc : esc_covers_ws esc = true ->
  forall c, is_ws c = true -> c = 32 \/ c = 9 \/ c = 10 \/ c = 13 \/ esc c = true.
Proof.
  unfold esc_covers_ws. rewrite forallb_forall. intros H c Hc. specialize (H c (is_ws_listed c Hc)).
  apply orb_true_iff in H as [H|H]; [|auto 6].
  apply memb_In in H. cbn [In] in H. intuition.
Qed.

(* every rendering of a whole value is whitespace-normal: it is the single-space join of tokens *)
Lemma unwords_normal ts : Forall (fun t => is_token t = true) ts ->
  lead_ok (unwords ts) = true /\ trail_ok (unwords ts) = true /\ nodouble (unwords ts) = true.
Proof.
  intros H.
  assert (Hs : only_sp (unwords ts) = true).
  { induction H as [|t ts Ht _ IH]; [reflexivity|]. cbn [unwords]. destruct ts as [|t' ts']; [|].
    - apply ws_free_only_sp. destruct t; [discriminate | exact Ht].
    - change (t ++ 32 :: unwords (t' :: ts')) with (t ++ [32] ++ unwords (t' :: ts')).
      rewrite !only_sp_app, IH. rewrite (ws_free_only_sp t); [reflexivity|]. destruct t; [discriminate | exact Ht]. }
  pose proof (pp_words (unwords ts) Hs) as P. rewrite (words_unwords ts H) in P.
  destruct (post_ws_normal_proof (unwords ts)) as (r & Hr & A & B & C & _).
  rewrite P in Hr. injection Hr as <-. auto.
Qed.

(* an executable float printer for the examples: bit pattern 0 is "0", everything else "1" *)
Definition fshow01 (z : Z) : str := if (z =? 0)%Z then [48] else [49].

Lemma typst_value_example_proof :
  typst_narsese Z fshow01 dbg0 (NTask (SJudgement (TName Word [65]) (TruthDouble 1%Z 0%Z) (Fixed (-5)), BudgetSingle 0%Z)) =
  TOk (unwords [[108;114;40;92;36]; [48]; [92;36;41]; [115;112;97;99;101]; [34;65;34]; [46]; [115;112;97;99;101];
                [116;61]; [45;53]; [115;112;97;99;101]; [108;114;40;97;110;103;108;101;46;108]; [49;44;48]; [97;110;103;108;101;46;114;41]]).
Proof. vm_compute. reflexivity. Qed.
