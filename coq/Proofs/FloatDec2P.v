(* Proofs/FloatDec2P.v -- the full float reader (Base/FloatDec2.v, what the FOLD hands truth / budget
   strings to) agrees with the digits-and-dots reader of the enum parser (Base/FloatDec.v) on every buffer
   the enum parser can pass: the two pipelines of C03 read the same number from the same digits. *)
From Coq Require Import ZArith List Bool Lia.
From Nv Require Import Base.Str Base.FloatDec Base.FloatDec2.
Import ListNotations.
Open Scope N_scope.

Definition digit_or_dot (c : N) : bool := is_ascii_digit c || (c =? 46).

Lemma digit_not_dot c : is_ascii_digit c = true -> (c =? 46) = false.
Proof. unfold is_ascii_digit. rewrite andb_true_iff, !N.leb_le. intros [H1 H2]. apply N.eqb_neq. lia. Qed.

Lemma digit_not_e c : is_ascii_digit c = true -> (c =? 101) = false /\ (c =? 69) = false.
Proof. unfold is_ascii_digit. rewrite andb_true_iff, !N.leb_le. intros [H1 H2]. split; apply N.eqb_neq; lia. Qed.

(* scanning digits after the dot has been seen: dec_scan counts them in k and nd *)
Lemma dec_scan_digits_after s : forall m k nd,
  Forall (fun c => digit_or_dot c = true) s ->
  dec_scan s true m k nd =
  let '(m', n, rest) := scan_digits s m O in
  match rest with
  | [] => Some (m', (k + n)%nat, (nd + n)%nat)
  | _ => None   (* a second dot *)
  end.
Proof.
  induction s as [|c s IH]; intros m k nd Hs; cbn [dec_scan scan_digits].
  - now rewrite !Nat.add_0_r.
  - inversion Hs as [|? ? Hc Hs']; subst. unfold digit_or_dot in Hc.
    destruct (is_ascii_digit c) eqn:Hd.
    + rewrite (digit_not_dot c Hd). rewrite IH by exact Hs'.
      assert (Hshift : forall s0 m0 n0, scan_digits s0 m0 (S n0) =
                 let '(a, b, r) := scan_digits s0 m0 n0 in (a, S b, r)).
      { induction s0 as [|d s0 IH0]; intros m0 n0; cbn [scan_digits]; [reflexivity|].
        destruct (is_ascii_digit d); [apply IH0 | reflexivity]. }
      rewrite (Hshift s (10 * m + digit_val c) O).
      destruct (scan_digits s (10 * m + digit_val c) O) as [[m' n] rest]. destruct rest; [|reflexivity].
      f_equal. f_equal; [f_equal|]; lia.
    + cbn [orb] in Hc. rewrite Hc. reflexivity.
Qed.

Lemma scan_digits_shift s : forall m n,
  scan_digits s m (S n) = let '(a, b, r) := scan_digits s m n in (a, S b, r).
Proof.
  induction s as [|d s IH]; intros m n; cbn [scan_digits]; [reflexivity|].
  destruct (is_ascii_digit d); [apply IH | reflexivity].
Qed.

(* before the dot *)
Lemma dec_scan_digits_before s : forall m nd,
  Forall (fun c => digit_or_dot c = true) s ->
  dec_scan s false m O nd =
  let '(m1, n1, s1) := scan_digits s m O in
  match s1 with
  | [] => Some (m1, O, (nd + n1)%nat)
  | c :: r => if c =? 46 then dec_scan r true m1 O (nd + n1)%nat else None
  end.
Proof.
  induction s as [|c s IH]; intros m nd Hs; cbn [dec_scan scan_digits].
  - now rewrite Nat.add_0_r.
  - inversion Hs as [|? ? Hc Hs']; subst. unfold digit_or_dot in Hc.
    destruct (is_ascii_digit c) eqn:Hd.
    + rewrite (digit_not_dot c Hd). rewrite IH by exact Hs'. rewrite (scan_digits_shift s _ O).
      destruct (scan_digits s (10 * m + digit_val c) O) as [[m1 n1] s1].
      replace (S nd + n1)%nat with (nd + S n1)%nat by lia. reflexivity.
    + cbn [orb] in Hc. rewrite Hc. now rewrite Nat.add_0_r.
Qed.

Lemma scan_digits_rest_suffix s : forall m n m' n' rest,
  scan_digits s m n = (m', n', rest) -> exists p, s = p ++ rest.
Proof.
  induction s as [|c s IH]; intros m n m' n' rest; cbn [scan_digits].
  - intros H; injection H as <- <- <-. now exists [].
  - destruct (is_ascii_digit c).
    + intros H. destruct (IH _ _ _ _ _ H) as [p ->]. now exists (c :: p).
    + intros H; injection H as <- <- <-. now exists [].
Qed.

Lemma scan_digits_rest_head s : forall m n m' n' c rest,
  scan_digits s m n = (m', n', c :: rest) -> is_ascii_digit c = false.
Proof.
  induction s as [|d s IH]; intros m n m' n' c rest; cbn [scan_digits]; [discriminate|].
  destruct (is_ascii_digit d) eqn:Hd.
  - apply IH.
  - intros H; injection H as <- <- <- <-. exact Hd.
Qed.

Lemma Forall_suffix {A} (P : A -> Prop) p r : Forall P (p ++ r) -> Forall P r.
Proof. intros H. apply Forall_app in H. tauto. Qed.

Lemma mag_bits_dec m nd k : (k <= nd)%nat -> mag_bits m nd (- Z.of_nat k) = dec_to_bits m k.
Proof.
  intros Hk. unfold mag_bits. destruct (N.eqb_spec m 0) as [->|Hm].
  - unfold dec_to_bits. now rewrite N.eqb_refl.
  - destruct (Z.ltb_spec 400 (- Z.of_nat k)); [lia|].
    destruct (Z.ltb_spec (- Z.of_nat k + Z.of_nat nd) (-400)); [lia|].
    destruct (Z.leb_spec 0 (- Z.of_nat k)) as [Hz|Hz].
    + assert (k = O) as -> by lia. cbn [Z.of_nat Z.opp Z.to_N]. now rewrite N.pow_0_r, N.mul_1_r.
    + rewrite Z.opp_involutive, Nat2Z.id. reflexivity.
Qed.

Lemma fread_full_nosign c0 s0 :
  (c0 =? 45) = false -> (c0 =? 43) = false ->
  fread_full (c0 :: s0) =
  match parse_number (c0 :: s0) with
  | Some (m, nd, e) => Some (mag_bits m nd e)
  | None => parse_inf_nan (c0 :: s0)
  end.
Proof.
  intros H45 H43. unfold fread_full. rewrite H45, H43. cbn [orb].
  destruct (parse_number (c0 :: s0)) as [[[m nd] e]|]; [reflexivity|].
  destruct (parse_inf_nan (c0 :: s0)); reflexivity.
Qed.

(* parse_inf_nan fails on a text that starts with a digit or a dot *)
Lemma parse_inf_nan_digit_or_dot c0 s0 : digit_or_dot c0 = true -> parse_inf_nan (c0 :: s0) = None.
Proof.
  intros Hc. unfold parse_inf_nan. cbn [map].
  assert (Hl : ascii_lower c0 <> 105 /\ ascii_lower c0 <> 110).
  { assert (Hr : c0 <= 57).
    { unfold digit_or_dot, is_ascii_digit in Hc. apply orb_true_iff in Hc as [Hc|Hc].
      - apply andb_true_iff in Hc as [_ Hb]. now apply N.leb_le in Hb.
      - apply N.eqb_eq in Hc. lia. }
    unfold ascii_lower. destruct (N.leb_spec 65 c0); [lia|]. cbn [andb]. lia. }
  destruct Hl as [Hl1 Hl2]. cbn [str_eqb]. apply N.eqb_neq in Hl1, Hl2. rewrite Hl1, Hl2. reflexivity.
Qed.

(* the two readers take a buffer of ASCII digits and dots apart in the same way: same mantissa digits,
   same number of digits, same decimal exponent; both fail without a digit or with a second dot.
   (No float is involved: this statement is closed under the global context.) *)
Theorem same_decimal s :
  Forall (fun c => digit_or_dot c = true) s ->
  parse_number s =
  match dec_scan s false 0 O O with
  | Some (m, k, S nd) => Some (m, S nd, (- Z.of_nat k)%Z)
  | _ => None
  end.
Proof.
  intros Hs. rewrite (dec_scan_digits_before s 0 O Hs). unfold parse_number.
  destruct (scan_digits s 0 O) as [[m1 n1] s1] eqn:H1.
  destruct (scan_digits_rest_suffix _ _ _ _ _ _ H1) as [p Hp].
  assert (Hs1 : Forall (fun c => digit_or_dot c = true) s1) by (rewrite Hp in Hs; exact (Forall_suffix _ _ _ Hs)).
  destruct s1 as [|c r].
  - cbn [Nat.add]. rewrite Nat.add_0_r. destruct n1; reflexivity.
  - pose proof (scan_digits_rest_head _ _ _ _ _ _ _ H1) as Hnd.
    inversion Hs1 as [|? ? Hc Hr]; subst. unfold digit_or_dot in Hc. rewrite Hnd in Hc. cbn [orb] in Hc.
    rewrite Hc. apply N.eqb_eq in Hc. subst c.
    rewrite (dec_scan_digits_after r m1 O (0 + n1)%nat Hr).
    destruct (scan_digits r m1 O) as [[m2 n2] s2] eqn:H2. cbn [Nat.add].
    destruct s2 as [|c2 r2].
    + destruct (n1 + n2)%nat; reflexivity.
    + pose proof (scan_digits_rest_head _ _ _ _ _ _ _ H2) as Hnd2.
      destruct (scan_digits_rest_suffix _ _ _ _ _ _ H2) as [p2 Hp2].
      assert (Hc2 : digit_or_dot c2 = true).
      { rewrite Hp2 in Hr. apply Forall_suffix in Hr. now inversion Hr. }
      unfold digit_or_dot in Hc2. rewrite Hnd2 in Hc2. cbn [orb] in Hc2. apply N.eqb_eq in Hc2. subst c2.
      destruct (n1 + n2)%nat; reflexivity.
Qed.

(* on buffers of ASCII digits and dots the two readers agree *)
Theorem fread_full_extends_fread_dec s :
  Forall (fun c => digit_or_dot c = true) s -> fread_full s = fread_dec s.
Proof.
  intros Hs. unfold fread_dec. destruct s as [|c0 s0]; [reflexivity|].
  assert (Hc0 : (c0 =? 45) = false /\ (c0 =? 43) = false).
  { inversion Hs as [|? ? Hc _]; subst. unfold digit_or_dot, is_ascii_digit in Hc.
    split; apply N.eqb_neq; intros ->; cbn in Hc; discriminate. }
  destruct Hc0 as [H45 H43]. rewrite (fread_full_nosign c0 s0 H45 H43).
  assert (Hinf : parse_inf_nan (c0 :: s0) = None).
  { apply parse_inf_nan_digit_or_dot. now inversion Hs. }
  remember (c0 :: s0) as s eqn:Es.
  rewrite (dec_scan_digits_before s 0 O Hs). unfold parse_number.
  destruct (scan_digits s 0 O) as [[m1 n1] s1] eqn:H1.
  destruct (scan_digits_rest_suffix _ _ _ _ _ _ H1) as [p Hp].
  assert (Hs1 : Forall (fun c => digit_or_dot c = true) s1) by (rewrite Hp in Hs; exact (Forall_suffix _ _ _ Hs)).
  destruct s1 as [|c r].
  - (* digits only *)
    cbn [Nat.add]. rewrite Nat.add_0_r. destruct n1 as [|n1].
    + (* no digit at all: impossible for a non-empty digit/dot string without dot... it is then empty *)
      rewrite Hinf. reflexivity.
    + cbn [Nat.add]. f_equal. exact (mag_bits_dec m1 (S n1) O ltac:(lia)).
  - pose proof (scan_digits_rest_head _ _ _ _ _ _ _ H1) as Hnd.
    inversion Hs1 as [|? ? Hc Hr]; subst. unfold digit_or_dot in Hc. rewrite Hnd in Hc. cbn [orb] in Hc.
    rewrite Hc. apply N.eqb_eq in Hc. subst c.
    rewrite (dec_scan_digits_after r m1 O (0 + n1)%nat Hr).
    destruct (scan_digits r m1 O) as [[m2 n2] s2] eqn:H2. cbn [Nat.add].
    destruct s2 as [|c2 r2].
    + destruct (n1 + n2)%nat as [|t] eqn:Ht.
      * rewrite Hinf. reflexivity.
      * rewrite <- Ht. f_equal. apply mag_bits_dec. lia.
    + (* a second dot (or anything else): both fail *)
      pose proof (scan_digits_rest_head _ _ _ _ _ _ _ H2) as Hnd2.
      destruct (scan_digits_rest_suffix _ _ _ _ _ _ H2) as [p2 Hp2].
      assert (Hc2 : digit_or_dot c2 = true).
      { rewrite Hp2 in Hr. apply Forall_suffix in Hr. now inversion Hr. }
      unfold digit_or_dot in Hc2. rewrite Hnd2 in Hc2. cbn [orb] in Hc2. apply N.eqb_eq in Hc2. subst c2.
      destruct (n1 + n2)%nat; [now rewrite Hinf|]. cbn. now rewrite Hinf.
Qed.

Example fread_full_agrees_example : fread_full [48; 46; 53] = fread_dec [48; 46; 53] /\ fread_dec [48; 46; 53] <> None.
Proof. split; [reflexivity | vm_compute; discriminate]. Qed.
