(* Proofs/TypstPerm.v -- C16 part D: equal values render identically up to the order of their
   unordered components.
   [reorder a b]: b is a with the elements of every set payload permuted and the operands of
   symmetric statements possibly swapped, at every level.  Terms equal by the modelled
   `PartialEq` (term_eqb, on duplicate-free set payloads) are reorderings of one another
   ([eqb_reorder]).  [sort_term] puts the unordered components of a term into a canonical order
   (ascending rendering); it is itself a reordering ([reorder_sort]), and reorderings have the same
   canonical-order rendering ([typst_perm_proof]): the renderer's own output on the canonically
   ordered values is identical. *)
From Nv Require Export Proofs.TypstP.
From Nv Require Import Proofs.EqHashP.
From Coq Require Import Permutation Lia.

Inductive reorder : term -> term -> Prop :=
| RO_name c n : reorder (TName c n) (TName c n)
| RO_unit c : reorder (TUnit c) (TUnit c)
| RO_num c i : reorder (TNum c i) (TNum c i)
| RO_set c l l1 l' : Forall2 reorder l l1 -> Permutation l1 l' -> reorder (TSet c l) (TSet c l')
| RO_vec c l l' : Forall2 reorder l l' -> reorder (TVec c l) (TVec c l')
| RO_img c i l l' : Forall2 reorder l l' -> reorder (TImg c i l) (TImg c i l')
| RO_box1 c a a' : reorder a a' -> reorder (TBox1 c a) (TBox1 c a')
| RO_box2 c a b a' b' : reorder a a' -> reorder b b' -> reorder (TBox2 c a b) (TBox2 c a' b')
| RO_box2_sym c a b a' b' :
    symmetric_box2 c = true -> reorder a b' -> reorder b a' -> reorder (TBox2 c a b) (TBox2 c a' b').

Lemma reorder_refl t : reorder t t.
Proof.
  induction t as [c n|c|c i|c l IH|c l IH|c i l IH|c a IHa|c a b IHa IHb] using term_ind';
    try (constructor; auto; fail).
  - apply RO_set with (l1 := l); [|apply Permutation_refl].
    induction IH; constructor; auto.
  - constructor. induction IH; constructor; auto.
  - constructor. induction IH; constructor; auto.
Qed.

(* the modelled PartialEq relates reorderings only *)
Lemma eqb_reorder a : forall b, set_ok a = true -> set_ok b = true -> term_eqb a b = true -> reorder a b.
Proof.
  induction a as [c n|c|c i|c l IH|c l IH|c i l IH|c x IH|c x y IHx IHy] using term_ind';
    intros b Ha Hb H; destruct b as [c' n'|c'|c' i'|c' l'|c' l'|c' i' l'|c' x'|c' x' y']; try discriminate H.
  - rewrite eqb_name in H. apply andb_true_iff in H as [H1 H2].
    apply name_ctor_eqb_eq in H1 as <-. apply str_eqb_eq in H2 as <-. constructor.
  - rewrite eqb_unit in H. apply unit_ctor_eqb_eq in H as <-. constructor.
  - rewrite eqb_num in H. apply andb_true_iff in H as [H1 H2].
    apply num_ctor_eqb_eq in H1 as <-. apply N.eqb_eq in H2 as <-. constructor.
  - rewrite eqb_set' in H. apply andb_true_iff in H as [H1 H2].
    apply set_ctor_eqb_eq in H1 as <-. apply set_payload_eqb_spec in H2 as [Hlen Hin].
    apply ok_set in Ha as [Dl Hnd]. apply ok_set in Hb as [Dl' Hnd'].
    destruct (matching_perm okT okT_sym okT_trans l l' Dl Dl' Hnd Hin) as (l2 & HP & HF); [lia|].
    assert (Dl2 : Forall okT l2) by (eapply Forall_perm; eassumption).
    apply RO_set with (l1 := l2); [|now apply Permutation_sym].
    clear HP Hin Hlen Hnd Hnd' Dl'. revert l2 HF Dl2.
    induction IH as [|x l IHx _ IHl]; intros l2 HF Dl2; inversion HF; subst; constructor.
    + inversion Dl; subst. inversion Dl2; subst. apply IHx; auto.
    + inversion Dl; subst. inversion Dl2; subst. apply IHl; auto.
  - rewrite eqb_vec in H. apply andb_true_iff in H as [H1 H2].
    apply vec_ctor_eqb_eq in H1 as <-. apply list_eqb_Forall2 in H2.
    apply ok_vec in Ha. apply ok_vec in Hb. constructor.
    revert l' H2 Hb. induction IH as [|x l IHx _ IHl]; intros l' HF Dl'; inversion HF; subst; constructor.
    + inversion Ha; subst. inversion Dl'; subst. apply IHx; auto.
    + inversion Ha; subst. inversion Dl'; subst. apply IHl; auto.
  - rewrite eqb_img in H. apply andb_true_iff in H as [H1 H2]. apply andb_true_iff in H2 as [H2 H3].
    apply img_ctor_eqb_eq in H1 as <-. apply N.eqb_eq in H2 as <-. apply list_eqb_Forall2 in H3.
    apply ok_img in Ha. apply ok_img in Hb. constructor.
    revert l' H3 Hb. induction IH as [|x l IHx _ IHl]; intros l' HF Dl'; inversion HF; subst; constructor.
    + inversion Ha; subst. inversion Dl'; subst. apply IHx; auto.
    + inversion Ha; subst. inversion Dl'; subst. apply IHl; auto.
  - rewrite eqb_box1 in H. apply andb_true_iff in H as [H1 H2].
    apply box1_ctor_eqb_eq in H1 as <-. cbn [set_ok] in Ha, Hb. constructor. apply IH; auto.
  - rewrite eqb_box2 in H. apply andb_true_iff in H as [H1 H2].
    apply box2_ctor_eqb_eq in H1 as <-. apply ok_box2 in Ha as [Hx Hy]. apply ok_box2 in Hb as [Hx' Hy'].
    apply orb_true_iff in H2 as [H2|H2].
    + apply andb_true_iff in H2 as [E1 E2]. apply RO_box2; [apply IHx | apply IHy]; auto.
    + apply andb_true_iff in H2 as [Hs H2]. apply andb_true_iff in H2 as [E1 E2].
      apply RO_box2_sym; [exact Hs | apply IHx | apply IHy]; auto.
Qed.

(* ------------------------------------------------------------------------------------------ *)
(* a total order on renderings                                                                 *)
(* ------------------------------------------------------------------------------------------ *)
Definition str_leb (a b : str) : bool := match str_cmp a b with Gt => false | _ => true end.

Lemma str_cmp_opp a : forall b, str_cmp b a = CompOpp (str_cmp a b).
Proof.
  induction a as [|x a IH]; intros [|y b]; cbn [str_cmp CompOpp]; try reflexivity.
  rewrite (N.compare_antisym x y). destruct (N.compare x y); cbn [CompOpp]; auto.
Qed.

Lemma str_cmp_eq a : forall b, str_cmp a b = Eq -> a = b.
Proof.
  induction a as [|x a IH]; intros [|y b]; cbn [str_cmp]; try discriminate; [reflexivity|].
  destruct (N.compare_spec x y); try discriminate. subst. intros H. f_equal. now apply IH.
Qed.

Lemma str_cmp_refl a : str_cmp a a = Eq.
Proof. induction a as [|x a IH]; cbn [str_cmp]; [reflexivity|]. now rewrite N.compare_refl. Qed.

Lemma str_leb_total a b : str_leb a b = true \/ str_leb b a = true.
Proof. unfold str_leb. rewrite (str_cmp_opp a b). destruct (str_cmp a b); cbn [CompOpp]; auto. Qed.

Lemma str_leb_antisym a b : str_leb a b = true -> str_leb b a = true -> a = b.
Proof.
  unfold str_leb. rewrite (str_cmp_opp a b). destruct (str_cmp a b) eqn:E; cbn [CompOpp]; try discriminate.
  intros _ _. now apply str_cmp_eq.
Qed.

Lemma str_leb_trans a : forall b c, str_leb a b = true -> str_leb b c = true -> str_leb a c = true.
Proof.
  unfold str_leb. induction a as [|x a IH]; intros [|y b] [|z c]; cbn [str_cmp]; try discriminate; auto.
  destruct (N.compare_spec x y) as [->|Hxy|Hxy]; try discriminate.
  - destruct (N.compare_spec y z) as [->|Hyz|Hyz]; try discriminate; auto. apply IH.
  - destruct (N.compare_spec y z) as [->|Hyz|Hyz]; try discriminate; intros _ _.
    + destruct (N.compare_spec x z); auto; lia.
    + destruct (N.compare_spec x z); auto; lia.
Qed.

Definition tres_leb (a b : tres) : bool :=
  match a, b with
  | TPanic, _ => true
  | TOk _, TPanic => false
  | TOk x, TOk y => str_leb x y
  end.

Lemma tres_leb_total a b : tres_leb a b = true \/ tres_leb b a = true.
Proof. destruct a, b; cbn; auto. apply str_leb_total. Qed.
Lemma tres_leb_antisym a b : tres_leb a b = true -> tres_leb b a = true -> a = b.
Proof. destruct a, b; cbn; try discriminate; auto. intros H1 H2. f_equal. now apply str_leb_antisym. Qed.
Lemma tres_leb_trans a b c : tres_leb a b = true -> tres_leb b c = true -> tres_leb a c = true.
Proof. destruct a, b, c; cbn; try discriminate; auto. apply str_leb_trans. Qed.

(* insertion sort of keys; insertion commutes, hence sorting is invariant under permutation *)
Fixpoint kinsert (x : tres) (l : list tres) : list tres :=
  match l with
  | [] => [x]
  | y :: r => if tres_leb x y then x :: l else y :: kinsert x r
  end.
Definition ksort (l : list tres) : list tres := fold_right kinsert [] l.

Lemma kinsert_comm x y l : kinsert x (kinsert y l) = kinsert y (kinsert x l).
Proof.
  induction l as [|z l IH]; cbn [kinsert].
  - destruct (tres_leb x y) eqn:Exy, (tres_leb y x) eqn:Eyx; cbn [kinsert]; try rewrite Exy; try rewrite Eyx; try reflexivity.
    + now rewrite (tres_leb_antisym x y Exy Eyx).
    + destruct (tres_leb_total x y); congruence.
  - destruct (tres_leb x z) eqn:Exz, (tres_leb y z) eqn:Eyz; cbn [kinsert].
    + destruct (tres_leb x y) eqn:Exy, (tres_leb y x) eqn:Eyx; cbn [kinsert];
        rewrite ?Exz, ?Eyz, ?Exy, ?Eyx; try reflexivity.
      * now rewrite (tres_leb_antisym x y Exy Eyx).
      * destruct (tres_leb_total x y); congruence.
    + rewrite Exz.
      destruct (tres_leb y x) eqn:Eyx.
      * rewrite (tres_leb_trans y x z Eyx Exz) in Eyz. discriminate.
      * cbn [kinsert]. now rewrite Eyz.
    + rewrite Eyz.
      destruct (tres_leb x y) eqn:Exy.
      * rewrite (tres_leb_trans x y z Exy Eyz) in Exz. discriminate.
      * cbn [kinsert]. now rewrite Exz.
    + rewrite Exz, Eyz. f_equal. exact IH.
Qed.

Lemma ksort_perm l l' : Permutation l l' -> ksort l = ksort l'.
Proof.
  induction 1; cbn [ksort fold_right]; auto.
  - f_equal. exact IHPermutation.
  - apply kinsert_comm.
  - etransitivity; eassumption.
Qed.

(* ------------------------------------------------------------------------------------------ *)
(* canonical order                                                                             *)
(* ------------------------------------------------------------------------------------------ *)
Section Perm.
  Variable to_debug : str -> str.

  Definition key (t : term) : tres := typst_term to_debug t.

  Fixpoint tinsert (x : term) (l : list term) : list term :=
    match l with
    | [] => [x]
    | y :: r => if tres_leb (key x) (key y) then x :: l else y :: tinsert x r
    end.
  Definition tsort (l : list term) : list term := fold_right tinsert [] l.

  Fixpoint sort_term (t : term) : term :=
    match t with
    | TName _ _ | TUnit _ | TNum _ _ => t
    | TSet c l => TSet c (tsort (map sort_term l))
    | TVec c l => TVec c (map sort_term l)
    | TImg c i l => TImg c i (map sort_term l)
    | TBox1 c a => TBox1 c (sort_term a)
    | TBox2 c a b =>
        let a' := sort_term a in
        let b' := sort_term b in
        if symmetric_box2 c && negb (tres_leb (key a') (key b')) then TBox2 c b' a' else TBox2 c a' b'
    end.

  Lemma tinsert_perm x l : Permutation (x :: l) (tinsert x l).
  Proof.
    induction l as [|y l IH]; cbn [tinsert]; [apply Permutation_refl|].
    destruct (tres_leb (key x) (key y)); [apply Permutation_refl|].
    eapply Permutation_trans; [apply perm_swap|]. now apply perm_skip.
  Qed.

  Lemma tsort_perm l : Permutation l (tsort l).
  Proof.
    induction l as [|x l IH]; cbn [tsort fold_right]; [constructor|].
    eapply Permutation_trans; [apply perm_skip; exact IH | apply tinsert_perm].
  Qed.

  Lemma map_key_tinsert x l : map key (tinsert x l) = kinsert (key x) (map key l).
  Proof.
    induction l as [|y l IH]; cbn [tinsert map kinsert]; [reflexivity|].
    destruct (tres_leb (key x) (key y)); cbn [map]; [reflexivity|]. now rewrite IH.
  Qed.

  Lemma map_key_tsort l : map key (tsort l) = ksort (map key l).
  Proof.
    induction l as [|x l IH]; cbn [tsort ksort fold_right map]; [reflexivity|].
    rewrite map_key_tinsert. f_equal. exact IH.
  Qed.

  (* the canonical order is a reordering *)
  Lemma reorder_sort_proof t : reorder t (sort_term t).
  Proof.
    induction t as [c n|c|c i|c l IH|c l IH|c i l IH|c a IHa|c a b IHa IHb] using term_ind';
      cbn [sort_term]; try (constructor; fail).
    - apply RO_set with (l1 := map sort_term l); [|apply tsort_perm].
      induction IH; cbn [map]; constructor; auto.
    - constructor. induction IH; cbn [map]; constructor; auto.
    - constructor. induction IH; cbn [map]; constructor; auto.
    - constructor. exact IHa.
    - destruct (symmetric_box2 c) eqn:Hs; cbn [andb].
      + destruct (negb (tres_leb (key (sort_term a)) (key (sort_term b)))).
        * apply RO_box2_sym; assumption.
        * apply RO_box2; assumption.
      + apply RO_box2; assumption.
  Qed.

  (* a node is rendered from its constructor and the renderings of its payload *)
  Lemma raw_set c l : raw_term to_debug (TSet c l) = node to_debug (TSet c []) (map key l).
  Proof.
    cbn [raw_term]. unfold node, node_gen, key, typst_term, get_atom_name_unchecked.
    cbn. destruct (getnamek_set c); reflexivity.
  Qed.
  Lemma raw_vec c l : raw_term to_debug (TVec c l) = node to_debug (TVec c []) (map key l).
  Proof.
    cbn [raw_term]. unfold node, node_gen, key, typst_term, get_atom_name_unchecked.
    cbn. destruct (getnamek_vec c); reflexivity.
  Qed.
  Lemma raw_img c i l : raw_term to_debug (TImg c i l) = node to_debug (TImg c i []) (map key l).
  Proof.
    cbn [raw_term]. unfold node, node_gen, key, typst_term, get_atom_name_unchecked.
    cbn. destruct (getnamek_img c); reflexivity.
  Qed.
  Lemma raw_box1 c a : raw_term to_debug (TBox1 c a) = node to_debug (TBox1 c placeholder) [key a].
  Proof.
    cbn [raw_term]. unfold node, node_gen, key, typst_term, get_atom_name_unchecked.
    cbn. destruct (getnamek_box1 c); reflexivity.
  Qed.
  Lemma raw_box2 c a b :
    raw_term to_debug (TBox2 c a b) = node to_debug (TBox2 c placeholder placeholder) [key a; key b].
  Proof.
    cbn [raw_term]. unfold node, node_gen, key, typst_term, get_atom_name_unchecked.
    cbn. destruct (getnamek_box2 c); reflexivity.
  Qed.

  Lemma key_raw a b : raw_term to_debug a = raw_term to_debug b -> key a = key b.
  Proof. unfold key, typst_term. now intros ->. Qed.

  (* symmetric statements: the two operand renderings in ascending order *)
  Lemma sorted_pair_keys c a b a' b' :
    symmetric_box2 c = true -> key a = key b' -> key b = key a' ->
    raw_term to_debug (if symmetric_box2 c && negb (tres_leb (key a) (key b)) then TBox2 c b a else TBox2 c a b) =
    raw_term to_debug (if symmetric_box2 c && negb (tres_leb (key a') (key b')) then TBox2 c b' a' else TBox2 c a' b').
  Proof.
    intros Hs E1 E2. rewrite Hs. cbn [andb]. rewrite <- E1, <- E2.
    destruct (tres_leb (key a) (key b)) eqn:Eab, (tres_leb (key b) (key a)) eqn:Eba; cbn [negb];
      rewrite !raw_box2, <- ?E1, <- ?E2; try reflexivity.
    - now rewrite (tres_leb_antisym _ _ Eab Eba).
    - destruct (tres_leb_total (key a) (key b)); congruence.
  Qed.

  Lemma map_key_children l : forall l1,
    Forall (fun x => forall b, reorder x b -> raw_term to_debug (sort_term x) = raw_term to_debug (sort_term b)) l ->
    Forall2 reorder l l1 -> map key (map sort_term l) = map key (map sort_term l1).
  Proof.
    intros l1 IH HF. revert IH. induction HF as [|x y l l1 Hxy HF IHF]; intros IH; cbn [map]; [reflexivity|].
    inversion IH; subst. f_equal; [apply key_raw; auto | apply IHF; assumption].
  Qed.

  Theorem typst_perm_raw a : forall b, reorder a b ->
    raw_term to_debug (sort_term a) = raw_term to_debug (sort_term b).
  Proof.
    induction a as [c n|c|c i|c l IH|c l IH|c i l IH|c x IH|c x y IHx IHy] using term_ind';
      intros b H; inversion H; subst; try reflexivity.
    - (* sets *)
      cbn [sort_term]. rewrite !raw_set. f_equal. rewrite !map_key_tsort.
      rewrite (map_key_children l l1 IH) by assumption.
      apply ksort_perm. now do 2 apply Permutation_map.
    - cbn [sort_term]. rewrite !raw_vec. f_equal. apply map_key_children; assumption.
    - cbn [sort_term]. rewrite !raw_img. f_equal. apply map_key_children; assumption.
    - cbn [sort_term]. rewrite !raw_box1. do 2 f_equal. apply key_raw, IH. assumption.
    - (* same order *)
      cbn [sort_term]. cbv zeta.
      match goal with Hx : reorder x _, Hy : reorder y _ |- _ =>
        pose proof (key_raw _ _ (IHx _ Hx)) as E1; pose proof (key_raw _ _ (IHy _ Hy)) as E2 end.
      destruct (symmetric_box2 c && negb (tres_leb (key (sort_term x)) (key (sort_term y)))) eqn:E;
        rewrite E1, E2 in E; rewrite E; rewrite !raw_box2, E1, E2; reflexivity.
    - (* swapped operands of a symmetric statement *)
      cbn [sort_term]. cbv zeta. apply sorted_pair_keys; [assumption | apply key_raw, IHx | apply key_raw, IHy]; assumption.
  Qed.

  Theorem typst_perm_proof a b : reorder a b ->
    typst_term to_debug (sort_term a) = typst_term to_debug (sort_term b).
  Proof. intros H. unfold typst_term. now rewrite (typst_perm_raw a b H). Qed.

  (* one level, as multisets: the canonical component renderings of two equal sets are permutations *)
  Theorem typst_perm_components_proof c l l' : reorder (TSet c l) (TSet c l') ->
    Permutation (map key (map sort_term l)) (map key (map sort_term l')).
  Proof.
    intros H. inversion H; subst.
    assert (E : map key (map sort_term l) = map key (map sort_term l1)).
    { apply map_key_children; [|assumption]. apply Forall_forall. intros x _ b0 Hb. now apply typst_perm_raw. }
    rewrite E. now do 2 apply Permutation_map.
  Qed.

  (* whole values: same punctuation, stamp, truth, budget; terms reorderings of one another *)
  Variable F : Type.
  Variable fshow : F -> str.

  Definition sentence_with (s : sentence F) (t : term) : sentence F :=
    match s with
    | SJudgement _ tr st => SJudgement t tr st
    | SGoal _ tr st => SGoal t tr st
    | SQuestion _ st => SQuestion t st
    | SQuest _ st => SQuest t st
    end.
  Definition narsese_with (v : narsese F) (t : term) : narsese F :=
    match v with
    | NTerm _ => NTerm t
    | NSentence s => NSentence (sentence_with s t)
    | NTask k => NTask (sentence_with (fst k) t, snd k)
    end.
  Definition narsese_term (v : narsese F) : term :=
    match v with NTerm t => t | NSentence s => s_term s | NTask k => s_term (fst k) end.

  Lemma segs_raw_term s b gs t t' :
    raw_term to_debug t = raw_term to_debug t' ->
    segs_raw F fshow to_debug (sentence_with s t) b gs = segs_raw F fshow to_debug (sentence_with s t') b gs.
  Proof.
    intros E. induction gs as [|g gs IH]; cbn [segs_raw]; [reflexivity|]. rewrite IH.
    f_equal. destruct g, s; cbn [seg_raw sentence_with s_term s_punct s_stamp s_truth]; auto.
  Qed.

  Theorem typst_perm_value_proof (v : narsese F) t t' : reorder t t' ->
    typst_narsese F fshow to_debug (narsese_with v (sort_term t)) =
    typst_narsese F fshow to_debug (narsese_with v (sort_term t')).
  Proof.
    intros H. pose proof (typst_perm_raw t t' H) as E.
    destruct v as [x|s|k]; cbn [narsese_with typst_narsese].
    - unfold typst_term. now rewrite E.
    - unfold typst_sentence. now rewrite (segs_raw_term s BudgetEmpty typst_sentence_segs _ _ E).
    - unfold typst_task. cbn [fst snd]. now rewrite (segs_raw_term (fst k) (snd k) typst_task_segs _ _ E).
  Qed.
End Perm.

Example ex_reorder_proof :
  reorder (TSet SetExtension [TName Word [65]; TName Word [66]]) (TSet SetExtension [TName Word [66]; TName Word [65]]) /\
  reorder (TBox2 Similarity (TName Word [65]) (TName Word [66])) (TBox2 Similarity (TName Word [66]) (TName Word [65])).
Proof.
  split.
  - apply RO_set with (l1 := [TName Word [65]; TName Word [66]]).
    + repeat constructor.
    + apply perm_swap.
  - apply RO_box2_sym; [reflexivity | constructor | constructor].
Qed.
