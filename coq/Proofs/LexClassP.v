(* Proofs/LexClassP.v -- the lexical parser's classification (MidParseResult::fold, Model/LexParser.v
   mid_fold) has the same table as the enum parser's transform_mid_result (C15). *)
From Nv Require Import Model.LexParser Proofs.EnumParseP.

Definition lhas {A} (o : option A) : bool := match o with Some _ => true | None => false end.

Lemma lex_classify_kind (m : mid_result) (v : lnarsese) :
  mid_fold m = Some v ->
  lhas (m_term m) = true /\
  nv_is_task v = lhas (m_budget m) && lhas (m_punct m) /\
  nv_is_sentence v = negb (lhas (m_budget m)) && lhas (m_punct m) /\
  nv_is_term v = negb (lhas (m_punct m)).
Proof.
  unfold mid_fold. destruct (m_term m) as [t|]; [|discriminate].
  destruct (m_punct m) as [p|]; [destruct (m_budget m) as [b|]|];
    intros H; injection H as <-; cbn; rewrite ?andb_false_r; repeat split; reflexivity.
Qed.

Lemma lex_classify_none (m : mid_result) : mid_fold m = None <-> m_term m = None.
Proof.
  unfold mid_fold. destruct (m_term m) as [t|]; [|split; reflexivity].
  destruct (m_punct m); [destruct (m_budget m)|]; split; discriminate.
Qed.

(* the value is assembled from exactly the filled slots; an absent stamp / truth is the empty one *)
Lemma lex_classify_spec (m : mid_result) :
  match mid_fold m with
  | Some (NTask k) => m_budget m = Some (lt_budget k) /\ m_term m = Some (ls_term (lt_sentence k)) /\ m_punct m = Some (ls_punct (lt_sentence k))
  | Some (NSentence s) => m_budget m = None /\ m_term m = Some (ls_term s) /\ m_punct m = Some (ls_punct s)
  | Some (NTerm t) => m_term m = Some t /\ m_punct m = None
  | None => m_term m = None
  end.
Proof.
  unfold mid_fold. destruct (m_term m) as [t|]; [|reflexivity].
  destruct (m_punct m) as [p|]; [destruct (m_budget m) as [b|]|]; cbn; repeat split; reflexivity.
Qed.
