(* Proofs/TieDocP.v -- proof of the obligation stated in Props/TieDoc.v *)
From Coq Require Import List NArith Bool.
Import ListNotations.
From Nv Require Import Base.Str Model.EnumFormat Gen.EnumFormats Gen.LexDoc.
Open Scope N_scope.

(* ============================== the vocabulary as documented ============================== *)
(* Gen/LexDoc.v: for every entry of a lexical dictionary that carries a same-line comment naming its constructor
   (`"{--" // 实例`), the pair (that keyword, the enum table's keyword of that constructor in the same-named format). *)
Lemma documented_vocabulary_agrees_holds : forall p, In p lexdoc_pairs -> fst p = snd p.
Proof.
  assert (H : forallb (fun p => str_eqb (fst p) (snd p)) lexdoc_pairs = true) by (vm_compute; reflexivity).
  rewrite forallb_forall in H. intros p Hin. apply str_eqb_eq, H, Hin.
Qed.
