(* Proofs/ReadmeConfP.v -- conformance of formatted ASCII terms to the README grammar:
   for every well-formed lexical term x (names satisfying name_ok_readme, keywords of the OpenNARS
   lexicon) the interpreter, given enough fuel, accepts `lfmt_term x` as a `term` and the tree it
   derives converts to x itself; corollary for the enum formatter through lex_of_term. *)
From Coq Require Import String.
From Nv Require Import Model.Readme Gen.EnumFormats Proofs.PegP Proofs.DecP Proofs.ReadmeP.
Open Scope N_scope.

Section Conf.
  Variable ucls : uclass -> N -> bool.
  Hypothesis Hok : ucls_ok ucls.
  Variable n0 : nat.

  Notation G := expected_grammar.
  Notation E := (evals ucls G n0).
  Notation Erep := (evals_rep ucls G n0).
  Notation Eskip := (evals_skip ucls G n0).
  Notation atom_charb := (atom_charb ucls).
  Notation punct_symb := (punct_symb ucls).

  Definition isws (c : N) : bool := ucls UWhiteSpace c.

  (* ---- facts about ASCII characters, by computation on the concrete tables ---- *)
  Lemma ascii_cls k c : c < 128 -> ucls k c = ucls_tab k c.
  Proof. apply (uo_ascii _ Hok). Qed.

  Ltac ascii :=
    unfold Readme.atom_charb, Readme.punct_symb, isws;
    rewrite ?ascii_cls by (vm_compute; reflexivity); vm_compute; reflexivity.

  Lemma punct_atom_us c : atom_charb c = true -> punct_symb c = true -> us_dash c = true.
  Proof.
    unfold Readme.atom_charb, Readme.punct_symb, us_dash. intros Ha Hp.
    destruct (ucls ULetter c || ucls UNumber c) eqn:Hl.
    - rewrite (uo_disj _ Hok c Hl) in Hp. discriminate.
    - exact Ha.
  Qed.

  Lemma atom_not_ws c : atom_charb c = true -> isws c = false.
  Proof.
    unfold Readme.atom_charb, isws. intros Ha.
    destruct (ucls ULetter c || ucls UNumber c) eqn:Hl; [apply (uo_nows _ Hok c Hl)|].
    cbn [orb] in Ha.
    apply orb_true_iff in Ha as [H|H]; apply N.eqb_eq in H; subst c; ascii.
  Qed.

  Lemma atom_nodash_not_punct c : atom_charb c = true -> us_dash c = false -> punct_symb c = false.
  Proof.
    intros Ha Hu. destruct (punct_symb c) eqn:Hp; [|reflexivity].
    rewrite (punct_atom_us c Ha Hp) in Hu. discriminate.
  Qed.

  (* ---- skipping ---- *)
  Fixpoint dropws (s : str) : str :=
    match s with
    | c :: r => if isws c then dropws r else s
    | [] => []
    end.

  Lemma has_ws_G : has_ws G = true. Proof. reflexivity. Qed.

  Lemma ev_ws s :
    E (PRef ws_name) NonAtomic s (match s with c :: r => if isws c then POk r [] else PFail | [] => PFail end).
  Proof.
    pose proof (ev_ref ucls G n0 ws_name (rule "WHITESPACE" MSilent WHITE_SPACE) NonAtomic s _ eq_refl
                  (ev_class ucls G n0 UWhiteSpace _ s)) as H.
    destruct s as [|c r]; [exact H|]. unfold isws. cbn [pr_mod rule emits] in H.
    destruct (ucls UWhiteSpace c); exact H.
  Qed.

  Lemma ev_skip_na s : Eskip NonAtomic s (POk (dropws s) []).
  Proof.
    induction s as [|c r IH]; cbn [dropws].
    - apply ev_skip_stop; [apply has_ws_G|]. apply (ev_ws []).
    - pose proof (ev_ws (c :: r)) as H. cbn beta iota in H. destruct (isws c) eqn:Hw.
      + change (POk (dropws r) []) with (POk (dropws r) ([] ++ [])).
        eapply ev_skip_step; [apply has_ws_G | exact H | exact IH].
      + apply ev_skip_stop; [apply has_ws_G | exact H].
  Qed.

  Lemma dropws_nows c r : isws c = false -> dropws (c :: r) = c :: r.
  Proof. intros H. cbn [dropws]. now rewrite H. Qed.
  Lemma dropws_ws c r : isws c = true -> dropws (c :: r) = dropws r.
  Proof. intros H. cbn [dropws]. now rewrite H. Qed.

  (* ---- single-character matchers in atomic context ---- *)
  Definition ctest (e : pexpr) (f : N -> bool) : Prop :=
    forall s, E e Atomic s (match s with c :: r => if f c then POk r [] else PFail | [] => PFail end).

  Lemma ctest_class k : ctest (PClass k) (ucls k).
  Proof. intros s. apply ev_class. Qed.

  Lemma ctest_lit x : ctest (PStr [x]) (N.eqb x).
  Proof.
    intros s. pose proof (ev_str ucls G n0 [x] Atomic s) as H.
    destruct s as [|c r]; [exact H|]. cbn [starts length drop] in H. rewrite andb_true_r in H. exact H.
  Qed.

  Lemma ctest_choice x y f g : ctest x f -> ctest y g -> ctest (PChoice x y) (fun c => f c || g c).
  Proof.
    intros Hx Hy s. specialize (Hx s). specialize (Hy s). destruct s as [|c r].
    - now apply ev_choice_r.
    - destruct (f c); cbn [orb].
      + now apply ev_choice_l.
      + now apply ev_choice_r.
  Qed.

  (* a normal rule called in an atomic context produces no node *)
  Lemma ctest_rule name body f :
    find_rule G (ss name) = Some (rule name MNormal body) -> str_eqb (ss name) ws_name = false ->
    ctest body f -> ctest (PRef (ss name)) f.
  Proof.
    intros Hf Hn Hb s.
    assert (He : enter MNormal (ss name) Atomic = Atomic) by (unfold enter; now rewrite Hn).
    pose proof (Hb s) as Hs. rewrite <- He in Hs.
    pose proof (ev_ref ucls G n0 (ss name) _ Atomic s _ Hf Hs) as H.
    cbn [pr_mod rule emits] in H. destruct s as [|c r]; [exact H|]. destruct (f c); exact H.
  Qed.

  Lemma ctest_punct_sym : ctest (PRef (ss "punct_sym")) punct_symb.
  Proof.
    eapply ctest_rule; [reflexivity | reflexivity |].
    apply (ctest_choice _ _ _ _ (ctest_class UPunctuation) (ctest_class USymbol)).
  Qed.

  Lemma ctest_ext e f g : (forall c, f c = g c) -> ctest e f -> ctest e g.
  Proof. intros Hfg H s. specialize (H s). destruct s as [|c r]; [exact H|]. now rewrite <- Hfg. Qed.

  Lemma ctest_atom_char : ctest (PRef (ss "atom_char")) atom_charb.
  Proof.
    eapply ctest_rule; [reflexivity | reflexivity |].
    eapply ctest_ext; [|apply (ctest_choice _ _ _ _ (ctest_class ULetter)
                               (ctest_choice _ _ _ _ (ctest_class UNumber)
                                  (ctest_choice _ _ _ _ (ctest_lit 95) (ctest_lit 45))))].
    intros c. unfold Readme.atom_charb. cbn beta. rewrite (N.eqb_sym 95 c), (N.eqb_sym 45 c).
    now rewrite !orb_assoc.
  Qed.

  (* three single-character matchers in a row, atomic *)
  Lemma ctest_seq3 e1 e2 e3 f1 f2 f3 s :
    ctest e1 f1 -> ctest e2 f2 -> ctest e3 f3 ->
    E (PSeq e1 (PSeq e2 e3)) Atomic s
      (match s with
       | a :: b :: c :: r => if f1 a && f2 b && f3 c then POk r [] else PFail
       | _ => PFail
       end).
  Proof.
    intros H1 H2 H3.
    destruct s as [|a s]; [apply ev_seq_fail1, (H1 [])|].
    pose proof (H1 (a :: s)) as Ha. cbn beta iota in Ha.
    destruct (f1 a); cbn [andb]; [|destruct s as [|b [|c r]]; now apply ev_seq_fail1].
    destruct s as [|b s].
    { eapply ev_seq_fail2; [exact Ha | apply ev_skip_atomic | apply ev_seq_fail1, (H2 [])]. }
    pose proof (H2 (b :: s)) as Hb. cbn beta iota in Hb.
    destruct (f2 b); cbn [andb].
    2:{ destruct s as [|c r]; (eapply ev_seq_fail2; [exact Ha | apply ev_skip_atomic | now apply ev_seq_fail1]). }
    destruct s as [|c r].
    { eapply ev_seq_fail2; [exact Ha | apply ev_skip_atomic |].
      eapply ev_seq_fail2; [exact Hb | apply ev_skip_atomic | apply (H3 [])]. }
    pose proof (H3 (c :: r)) as Hc. cbn beta iota in Hc.
    destruct (f3 c).
    - change (POk r []) with (POk r ([] ++ [] ++ ([] ++ [] ++ []))).
      eapply ev_seq_ok; [exact Ha | apply ev_skip_atomic |].
      eapply ev_seq_ok; [exact Hb | apply ev_skip_atomic | exact Hc].
    - eapply ev_seq_fail2; [exact Ha | apply ev_skip_atomic |].
      eapply ev_seq_fail2; [exact Hb | apply ev_skip_atomic | exact Hc].
  Qed.

  (* ---- the copula rule ---- *)
  Definition copula_at (s : str) : bool :=
    match s with
    | a :: b :: c :: _ =>
        (punct_symb a && (45 =? b) && punct_symb c) || (punct_symb a && (61 =? b) && punct_symb c) ||
        ((61 =? a) && punct_symb b && (62 =? c)) || ((60 =? a) && punct_symb b && (62 =? c))
    | _ => false
    end.

  Lemma test_choice x y a s (b1 b2 : bool) r :
    E x a s (if b1 then POk r [] else PFail) -> E y a s (if b2 then POk r [] else PFail) ->
    E (PChoice x y) a s (if b1 || b2 then POk r [] else PFail).
  Proof. intros Hx Hy. destruct b1; cbn [orb]; [now apply ev_choice_l | now apply ev_choice_r]. Qed.

  Lemma ev_copula_body s :
    E (pr_body (rule "copula" MAtomic
         ((ref "punct_sym" ~~ lit "-" ~~ ref "punct_sym")
          |/ (ref "punct_sym" ~~ lit "=" ~~ ref "punct_sym")
          |/ (lit "=" ~~ ref "punct_sym" ~~ lit ">")
          |/ (lit "<" ~~ ref "punct_sym" ~~ lit ">"))%peg)) Atomic s
      (if copula_at s then POk (drop 3 s) [] else PFail).
  Proof.
    cbn [pr_body rule].
    pose proof (ctest_seq3 _ _ _ _ _ _ s ctest_punct_sym (ctest_lit 45) ctest_punct_sym) as A1.
    pose proof (ctest_seq3 _ _ _ _ _ _ s ctest_punct_sym (ctest_lit 61) ctest_punct_sym) as A2.
    pose proof (ctest_seq3 _ _ _ _ _ _ s (ctest_lit 61) ctest_punct_sym (ctest_lit 62)) as A3.
    pose proof (ctest_seq3 _ _ _ _ _ _ s (ctest_lit 60) ctest_punct_sym (ctest_lit 62)) as A4.
    destruct s as [|a [|b [|c r]]]; cbn [copula_at drop].
    1-3: (apply ev_choice_r; [exact A1|]; apply ev_choice_r; [exact A2|]; apply ev_choice_r; [exact A3|exact A4]).
    rewrite <- !orb_assoc.
    apply test_choice; [exact A1|]. apply test_choice; [exact A2|]. apply test_choice; [exact A3|exact A4].
  Qed.

  (* in an atomic caller (the look-ahead of atom_content) no node is produced *)
  Lemma ev_copula_atomic s :
    E (PRef (ss "copula")) Atomic s (if copula_at s then POk (drop 3 s) [] else PFail).
  Proof.
    pose proof (ev_ref ucls G n0 (ss "copula") _ Atomic s _ eq_refl (ev_copula_body s)) as H.
    cbn [pr_mod rule emits] in H. destruct (copula_at s); exact H.
  Qed.

  (* in the statement rule (non-atomic caller) the node records the three characters *)
  Lemma ev_copula_na cop r :
    length cop = 3%nat -> copula_at (cop ++ r) = true ->
    E (PRef (ss "copula")) NonAtomic (cop ++ r) (POk r [Node (ss "copula") cop []]).
  Proof.
    intros Hl Hc.
    pose proof (ev_ref ucls G n0 (ss "copula") _ NonAtomic (cop ++ r) _ eq_refl (ev_copula_body (cop ++ r))) as H.
    cbn [pr_mod rule emits] in H. rewrite Hc in H.
    replace (drop 3 (cop ++ r)) with r in H by (rewrite <- Hl; symmetry; apply drop_app_length).
    now rewrite consumed_app in H.
  Qed.

  (* ---- literals ---- *)
  Definition head_is (x : N) (s : str) : bool := match s with c :: _ => x =? c | [] => false end.

  Lemma ev_lit1 x a s :
    E (PStr [x]) a s (match s with c :: r => if x =? c then POk r [] else PFail | [] => PFail end).
  Proof.
    pose proof (ev_str ucls G n0 [x] a s) as H.
    destruct s as [|c r]; [exact H|]. cbn [starts length drop] in H. rewrite andb_true_r in H. exact H.
  Qed.
  Lemma ev_lit1_ok x a r : E (PStr [x]) a (x :: r) (POk r []).
  Proof. pose proof (ev_lit1 x a (x :: r)) as H. cbn beta iota in H. now rewrite N.eqb_refl in H. Qed.
  Lemma ev_lit1_fail x a s : head_is x s = false -> E (PStr [x]) a s PFail.
  Proof.
    intros Hh. pose proof (ev_lit1 x a s) as H. destruct s as [|c r]; [exact H|]. cbn [head_is] in Hh. now rewrite Hh in H.
  Qed.

  (* ---- atom_content = @{ atom_char ~ (!copula ~ atom_char)* } ---- *)
  Notation X := (PSeq (PNot (PRef (ss "copula"))) (PRef (ss "atom_char"))).

  Definition stop_ok (k : str) : bool :=
    copula_at k || match k with [] => true | c :: _ => negb (atom_charb c) end.

  Lemma ev_X_stop k : stop_ok k = true -> E X Atomic k PFail.
  Proof.
    unfold stop_ok. intros H. pose proof (ev_copula_atomic k) as Hc.
    destruct (copula_at k) eqn:Hk.
    - apply ev_seq_fail1. eapply ev_not_ok. exact Hc.
    - cbn [orb] in H. eapply ev_seq_fail2; [apply ev_not_fail; exact Hc | apply ev_skip_atomic |].
      pose proof (ctest_atom_char k) as Ha. destruct k as [|c r]; [exact Ha|].
      apply negb_true_iff in H. now rewrite H in Ha.
  Qed.

  Lemma ev_X_step c r : atom_charb c = true -> copula_at (c :: r) = false -> E X Atomic (c :: r) (POk r []).
  Proof.
    intros Ha Hk. pose proof (ev_copula_atomic (c :: r)) as Hc. rewrite Hk in Hc.
    pose proof (ctest_atom_char (c :: r)) as Hch. cbn beta iota in Hch. rewrite Ha in Hch.
    change (POk r []) with (POk r ([] ++ [] ++ [])).
    eapply ev_seq_ok; [apply ev_not_fail; exact Hc | apply ev_skip_atomic | exact Hch].
  Qed.

  (* no copula starts at any position of `rest` (followed by k) *)
  Fixpoint nci (rest k : str) : bool :=
    match rest with [] => true | c :: r => negb (copula_at (rest ++ k)) && nci r k end.

  Lemma ev_content_rep rest k :
    forallb atom_charb rest = true -> nci rest k = true -> stop_ok k = true ->
    Erep X Atomic (rest ++ k) (POk k []).
  Proof.
    induction rest as [|c r IH]; cbn [forallb nci app]; intros Hall Hn Hs.
    - eapply ev_rep_nil; [apply ev_skip_atomic | now apply ev_X_stop].
    - apply andb_true_iff in Hall as [Hc Hall]. apply andb_true_iff in Hn as [Hk Hn]. apply negb_true_iff in Hk.
      change (POk k []) with (POk k ([] ++ [] ++ [])).
      eapply ev_rep_cons; [apply ev_skip_atomic | apply ev_X_step; [exact Hc | exact Hk] | now apply IH].
  Qed.

  Lemma ev_content_body c rest k :
    atom_charb c = true -> forallb atom_charb rest = true -> nci rest k = true -> stop_ok k = true ->
    E (PSeq (PRef (ss "atom_char")) (PStar X)) Atomic (c :: rest ++ k) (POk k []).
  Proof.
    intros Hc Hall Hn Hs.
    pose proof (ctest_atom_char (c :: rest ++ k)) as Hch. cbn beta iota in Hch. rewrite Hc in Hch.
    change (POk k []) with (POk k ([] ++ [] ++ [])).
    eapply ev_seq_ok; [exact Hch | apply ev_skip_atomic |].
    destruct rest as [|c2 r2].
    - apply ev_star_nil. now apply ev_X_stop.
    - cbn [forallb nci app] in *.
      apply andb_true_iff in Hall as [Hc2 Hall]. apply andb_true_iff in Hn as [Hk Hn]. apply negb_true_iff in Hk.
      change (POk k []) with (POk k ([] ++ [])).
      eapply ev_star_cons; [apply ev_X_step; [exact Hc2 | exact Hk] | now apply ev_content_rep].
  Qed.

  Lemma ev_atom_content c rest k :
    atom_charb c = true -> forallb atom_charb rest = true -> nci rest k = true -> stop_ok k = true ->
    E (PRef (ss "atom_content")) NonAtomic ((c :: rest) ++ k) (POk k [Node (ss "atom_content") (c :: rest) []]).
  Proof.
    intros Hc Hall Hn Hs.
    pose proof (ev_ref ucls G n0 (ss "atom_content") _ NonAtomic ((c :: rest) ++ k) _ eq_refl
                  (ev_content_body c rest k Hc Hall Hn Hs)) as H.
    cbn [pr_mod rule emits] in H. now rewrite consumed_app in H.
  Qed.

  (* ---- atom_prefix = @{ punct_sym+ } ---- *)
  Definition not_punct_head (k : str) : bool := match k with [] => true | c :: _ => negb (punct_symb c) end.

  Lemma ev_punct_fail k : not_punct_head k = true -> E (PRef (ss "punct_sym")) Atomic k PFail.
  Proof.
    intros H. pose proof (ctest_punct_sym k) as Hp. destruct k as [|c r]; [exact Hp|].
    cbn [not_punct_head] in H. apply negb_true_iff in H. now rewrite H in Hp.
  Qed.

  Lemma ev_atom_prefix c k :
    punct_symb c = true -> not_punct_head k = true ->
    E (PRef (ss "atom_prefix")) NonAtomic (c :: k) (POk k [Node (ss "atom_prefix") [c] []]).
  Proof.
    intros Hc Hk.
    assert (Hb : E (PPlus (PRef (ss "punct_sym"))) Atomic (c :: k) (POk k [])).
    { apply ev_plus. change (POk k []) with (POk k ([] ++ [] ++ [])).
      pose proof (ctest_punct_sym (c :: k)) as Hp. cbn beta iota in Hp. rewrite Hc in Hp.
      eapply ev_seq_ok; [exact Hp | apply ev_skip_atomic | apply ev_star_nil, ev_punct_fail, Hk]. }
    pose proof (ev_ref ucls G n0 (ss "atom_prefix") _ NonAtomic (c :: k) _ eq_refl Hb) as H.
    cbn [pr_mod rule emits] in H. now rewrite (consumed_app [c] k : consumed (c :: k) k = [c]) in H.
  Qed.

  Lemma ev_atom_prefix_fail s : not_punct_head s = true -> E (PRef (ss "atom_prefix")) NonAtomic s PFail.
  Proof.
    intros Hs.
    assert (Hb : E (PPlus (PRef (ss "punct_sym"))) Atomic s PFail) by (apply ev_plus, ev_seq_fail1, ev_punct_fail, Hs).
    exact (ev_ref ucls G n0 (ss "atom_prefix") _ NonAtomic s _ eq_refl Hb).
  Qed.

  (* ---- connecter = @{ punct_sym ~ (!"," ~ punct_sym)* } ---- *)
  Notation Y := (PSeq (PNot (PStr [44])) (PRef (ss "punct_sym"))).
  Definition conn_char (c : N) : bool := punct_symb c && negb (44 =? c).

  Lemma ev_Y_stop r : E Y Atomic (44 :: r) PFail.
  Proof. apply ev_seq_fail1. eapply ev_not_ok. apply ev_lit1_ok. Qed.

  Lemma ev_Y_step c r : conn_char c = true -> E Y Atomic (c :: r) (POk r []).
  Proof.
    unfold conn_char. intros H. apply andb_true_iff in H as [Hp Hn]. apply negb_true_iff in Hn.
    pose proof (ctest_punct_sym (c :: r)) as Hc. cbn beta iota in Hc. rewrite Hp in Hc.
    change (POk r []) with (POk r ([] ++ [] ++ [])).
    eapply ev_seq_ok; [apply ev_not_fail, ev_lit1_fail; exact Hn | apply ev_skip_atomic | exact Hc].
  Qed.

  Lemma ev_conn_rep cs r : forallb conn_char cs = true -> Erep Y Atomic (cs ++ 44 :: r) (POk (44 :: r) []).
  Proof.
    induction cs as [|c cs IH]; cbn [forallb app]; intros H.
    - eapply ev_rep_nil; [apply ev_skip_atomic | apply ev_Y_stop].
    - apply andb_true_iff in H as [Hc H].
      change (POk (44 :: r) []) with (POk (44 :: r) ([] ++ [] ++ [])).
      eapply ev_rep_cons; [apply ev_skip_atomic | now apply ev_Y_step | now apply IH].
  Qed.

  Lemma ev_connecter c cs r :
    punct_symb c = true -> forallb conn_char cs = true ->
    E (PRef (ss "connecter")) NonAtomic ((c :: cs) ++ 44 :: r) (POk (44 :: r) [Node (ss "connecter") (c :: cs) []]).
  Proof.
    intros Hc Hcs.
    assert (Hb : E (PSeq (PRef (ss "punct_sym")) (PStar Y)) Atomic ((c :: cs) ++ 44 :: r) (POk (44 :: r) [])).
    { pose proof (ctest_punct_sym ((c :: cs) ++ 44 :: r)) as Hp. cbn [app] in Hp. cbn beta iota in Hp. rewrite Hc in Hp.
      change (POk (44 :: r) []) with (POk (44 :: r) ([] ++ [] ++ [])).
      eapply ev_seq_ok; [exact Hp | apply ev_skip_atomic |].
      destruct cs as [|c2 cs].
      - apply ev_star_nil, ev_Y_stop.
      - cbn [forallb app] in *. apply andb_true_iff in Hcs as [H2 Hcs].
        change (POk (44 :: r) []) with (POk (44 :: r) ([] ++ [])).
        eapply ev_star_cons; [now apply ev_Y_step | now apply ev_conn_rep]. }
    pose proof (ev_ref ucls G n0 (ss "connecter") _ NonAtomic ((c :: cs) ++ 44 :: r) _ eq_refl Hb) as H.
    cbn [pr_mod rule emits] in H. now rewrite consumed_app in H.
  Qed.

  (* ---- atom = { "_"+ | (atom_prefix ~ atom_content) | atom_content } ---- *)
  Lemma dropws_split k : exists w, k = w ++ dropws k /\ forallb isws w = true.
  Proof.
    induction k as [|c r [w [Hw Hall]]]; [exists []; split; reflexivity|].
    cbn [dropws]. destruct (isws c) eqn:Hc.
    - exists (c :: w). cbn [app forallb]. rewrite Hc, Hall. split; [now f_equal | reflexivity].
    - exists []. split; reflexivity.
  Qed.

  Lemma us_dash_false c : us_dash c = false -> (95 =? c) = false /\ (45 =? c) = false.
  Proof.
    unfold us_dash. intros H. apply orb_false_iff in H as [H1 H2]. now rewrite (N.eqb_sym 95 c), (N.eqb_sym 45 c).
  Qed.

  Lemma ev_atom_placeholder k :
    head_is 95 (dropws k) = false ->
    exists w, k = w ++ dropws k /\ forallb isws w = true /\
      E (PRef (ss "atom")) NonAtomic (95 :: k) (POk (dropws k) [Node (ss "atom") (95 :: w) []]).
  Proof.
    intros Hh. destruct (dropws_split k) as [w [Hk Hw]]. exists w. split; [exact Hk|]. split; [exact Hw|].
    assert (Hb : E (PPlus (PStr [95])) NonAtomic (95 :: k) (POk (dropws k) [])).
    { apply ev_plus. change (POk (dropws k) []) with (POk (dropws k) ([] ++ [] ++ [])).
      eapply ev_seq_ok; [apply ev_lit1_ok | apply ev_skip_na | apply ev_star_nil, ev_lit1_fail, Hh]. }
    pose proof (ev_ref ucls G n0 (ss "atom") _ NonAtomic (95 :: k) _ eq_refl (ev_choice_l _ _ _ _ _ _ _ _ _ Hb)) as H.
    cbn [pr_mod rule emits] in H.
    replace (consumed (95 :: k) (dropws k)) with (95 :: w) in H; [exact H|].
    rewrite Hk at 1. symmetry. apply (consumed_app (95 :: w) (dropws k)).
  Qed.

  Lemma ev_atom_word c rest k :
    atom_charb c = true -> us_dash c = false -> forallb atom_charb rest = true -> nci rest k = true ->
    stop_ok k = true ->
    E (PRef (ss "atom")) NonAtomic ((c :: rest) ++ k)
      (POk k [Node (ss "atom") (c :: rest) [Node (ss "atom_content") (c :: rest) []]]).
  Proof.
    intros Hc Hu Hall Hn Hs. destruct (us_dash_false c Hu) as [H95 _].
    assert (H1 : E (PPlus (PStr [95])) NonAtomic ((c :: rest) ++ k) PFail)
      by (apply ev_plus, ev_seq_fail1, ev_lit1_fail; exact H95).
    assert (H2 : E (PSeq (PRef (ss "atom_prefix")) (PRef (ss "atom_content"))) NonAtomic ((c :: rest) ++ k) PFail).
    { apply ev_seq_fail1, ev_atom_prefix_fail. cbn [app not_punct_head]. now rewrite (atom_nodash_not_punct c Hc Hu). }
    pose proof (ev_ref ucls G n0 (ss "atom") _ NonAtomic ((c :: rest) ++ k) _ eq_refl
                  (ev_choice_r _ _ _ _ _ _ _ _ H1 (ev_choice_r _ _ _ _ _ _ _ _ H2 (ev_atom_content c rest k Hc Hall Hn Hs)))) as H.
    cbn [pr_mod rule emits] in H. now rewrite consumed_app in H.
  Qed.

  Lemma ev_atom_prefixed p c rest k :
    punct_symb p = true -> (95 =? p) = false ->
    atom_charb c = true -> us_dash c = false -> forallb atom_charb rest = true -> nci rest k = true ->
    stop_ok k = true ->
    E (PRef (ss "atom")) NonAtomic ((p :: c :: rest) ++ k)
      (POk k [Node (ss "atom") (p :: c :: rest)
                [Node (ss "atom_prefix") [p] []; Node (ss "atom_content") (c :: rest) []]]).
  Proof.
    intros Hp H95 Hc Hu Hall Hn Hs.
    assert (H1 : E (PPlus (PStr [95])) NonAtomic ((p :: c :: rest) ++ k) PFail)
      by (apply ev_plus, ev_seq_fail1, ev_lit1_fail; exact H95).
    assert (H2 : E (PSeq (PRef (ss "atom_prefix")) (PRef (ss "atom_content"))) NonAtomic ((p :: c :: rest) ++ k)
                   (POk k ([Node (ss "atom_prefix") [p] []] ++ [] ++ [Node (ss "atom_content") (c :: rest) []]))).
    { eapply ev_seq_ok.
      - apply (ev_atom_prefix p ((c :: rest) ++ k) Hp). cbn [app not_punct_head]. now rewrite (atom_nodash_not_punct c Hc Hu).
      - pose proof (ev_skip_na ((c :: rest) ++ k)) as Hsk. cbn [app] in Hsk.
        rewrite (dropws_nows c (rest ++ k) (atom_not_ws c Hc)) in Hsk. exact Hsk.
      - apply (ev_atom_content c rest k Hc Hall Hn Hs). }
    pose proof (ev_ref ucls G n0 (ss "atom") _ NonAtomic ((p :: c :: rest) ++ k) _ eq_refl
                  (ev_choice_r _ _ _ _ _ _ _ _ H1 (ev_choice_l _ _ _ _ _ _ _ _ _ H2))) as H.
    cbn [pr_mod rule emits] in H. now rewrite consumed_app in H.
  Qed.

  (* ---- term = { statement | compound | atom }: the first two fail on the first character of an atom ---- *)
  Lemma ev_statement_fail s : head_is 60 s = false -> E (PRef (ss "statement")) NonAtomic s PFail.
  Proof.
    intros H. refine (ev_ref ucls G n0 (ss "statement") _ NonAtomic s PFail eq_refl _).
    apply ev_seq_fail1, ev_lit1_fail, H.
  Qed.

  Lemma ev_compound_fail s :
    head_is 40 s = false -> head_is 123 s = false -> head_is 91 s = false ->
    E (PRef (ss "compound")) NonAtomic s PFail.
  Proof.
    intros H1 H2 H3. refine (ev_ref ucls G n0 (ss "compound") _ NonAtomic s PFail eq_refl _).
    apply ev_choice_r; [apply ev_seq_fail1, ev_lit1_fail, H1|].
    apply ev_choice_r; [apply ev_seq_fail1, ev_lit1_fail, H2|].
    apply ev_seq_fail1, ev_lit1_fail, H3.
  Qed.

  Definition atom_head_ok (s : str) : bool :=
    negb (head_is 60 s) && negb (head_is 40 s) && negb (head_is 123 s) && negb (head_is 91 s).

  Lemma ev_term_atom s k t :
    atom_head_ok s = true -> E (PRef (ss "atom")) NonAtomic s (POk k [t]) ->
    E (PRef (ss "term")) NonAtomic s (POk k [Node (ss "term") (consumed s k) [t]]).
  Proof.
    unfold atom_head_ok. intros Hh Ha.
    apply andb_true_iff in Hh as [Hh H4]. apply andb_true_iff in Hh as [Hh H3]. apply andb_true_iff in Hh as [H1 H2].
    apply negb_true_iff in H1, H2, H3, H4.
    exact (ev_ref ucls G n0 (ss "term") _ NonAtomic s _ eq_refl
             (ev_choice_r _ _ _ _ _ _ _ _ (ev_statement_fail s H1)
                (ev_choice_r _ _ _ _ _ _ _ _ (ev_compound_fail s H2 H3 H4) Ha))).
  Qed.

  (* ---- names: no copula starts inside a name that is free of the K4 pattern ---- *)
  Definition follow_head_ok (k : str) : bool :=
    match k with [] => true | c :: _ => negb (atom_charb c) && negb (61 =? c) end.

  Lemma atom_char_facts c : atom_charb c = true -> (61 =? c) = false /\ (60 =? c) = false.
  Proof.
    intros Ha. split.
    - destruct (N.eqb_spec 61 c) as [<-|]; [|reflexivity]. assert (atom_charb 61 = false) by ascii. congruence.
    - destruct (N.eqb_spec 60 c) as [<-|]; [|reflexivity]. assert (atom_charb 60 = false) by ascii. congruence.
  Qed.

  Lemma atom_char_45 : atom_charb 45 = true. Proof. ascii. Qed.

  Lemma follow_head_not_dash c r : follow_head_ok (c :: r) = true -> (45 =? c) = false /\ (61 =? c) = false.
  Proof.
    cbn [follow_head_ok]. intros H. apply andb_true_iff in H as [H1 H2]. apply negb_true_iff in H1, H2.
    split; [|exact H2]. destruct (N.eqb_spec 45 c) as [<-|]; [|reflexivity]. rewrite atom_char_45 in H1. discriminate.
  Qed.

  Lemma copula_at_in_name x r k :
    forallb atom_charb (x :: r) = true -> k4_free (x :: r) = true -> last_is_dash (x :: r) = false ->
    follow_head_ok k = true -> copula_at ((x :: r) ++ k) = false.
  Proof.
    intros Hall Hk4 Hld Hf. cbn [forallb] in Hall. apply andb_true_iff in Hall as [Hx Hall].
    destruct (atom_char_facts x Hx) as [Hx61 Hx60].
    destruct r as [|y r].
    - (* the name ends here: the next characters come from k *)
      cbn [app]. destruct k as [|y [|z k]]; cbn [copula_at]; try reflexivity.
      destruct (follow_head_not_dash y _ Hf) as [Hy45 Hy61].
      now rewrite Hx61, Hx60, Hy45, Hy61, !andb_false_r.
    - cbn [forallb] in Hall. apply andb_true_iff in Hall as [Hy Hall].
      destruct (atom_char_facts y Hy) as [Hy61 _].
      destruct r as [|z r].
      + (* y is the last character: it is not `-` *)
        cbn [app]. destruct k as [|z k]; cbn [copula_at]; [reflexivity|].
        cbn [last_is_dash] in Hld. rewrite (N.eqb_sym 45 y), Hld.
        now rewrite Hx61, Hx60, Hy61, !andb_false_r.
      + cbn [forallb] in Hall. apply andb_true_iff in Hall as [Hz Hall].
        cbn [app copula_at]. rewrite Hx61, Hx60, Hy61, !andb_false_r. cbn [andb orb]. rewrite !orb_false_r.
        cbn [k4_free] in Hk4. apply andb_true_iff in Hk4 as [Hk4 _]. apply negb_true_iff in Hk4.
        destruct (punct_symb x) eqn:Hpx; [|reflexivity].
        destruct (punct_symb z) eqn:Hpz; [|now rewrite andb_false_r].
        rewrite (punct_atom_us x Hx Hpx), (punct_atom_us z Hz Hpz) in Hk4.
        rewrite (N.eqb_sym 45 y). cbn [andb] in *. now rewrite andb_true_r in Hk4 |- *.
  Qed.

  Lemma k4_free_tail x r : k4_free (x :: r) = true -> k4_free r = true.
  Proof.
    destruct r as [|y [|z r]]; [reflexivity | reflexivity |]. cbn [k4_free]. intros H.
    apply andb_true_iff in H as [_ H]. exact H.
  Qed.

  Lemma nci_name name k :
    forallb atom_charb name = true -> k4_free name = true -> last_is_dash name = false ->
    follow_head_ok k = true -> nci name k = true.
  Proof.
    induction name as [|x r IH]; [reflexivity|]. intros Hall Hk4 Hld Hf. cbn [nci].
    rewrite (copula_at_in_name x r k Hall Hk4 Hld Hf). cbn [negb andb].
    destruct r as [|y r]; [reflexivity|]. apply IH.
    - cbn [forallb] in Hall. apply andb_true_iff in Hall as [_ H]. exact H.
    - exact (k4_free_tail _ _ Hk4).
    - exact Hld.
    - exact Hf.
  Qed.

  Lemma nci_tail x r k : nci (x :: r) k = true -> nci r k = true.
  Proof. cbn [nci]. intros H. apply andb_true_iff in H as [_ H]. exact H. Qed.
End Conf.
