(* Proofs/ReadmeConfP.v -- conformance of formatted ASCII terms to the README grammar:
   for every well-formed lexical term x (names satisfying name_ok_readme, keywords of the OpenNARS
   lexicon) the interpreter, given enough fuel, accepts `lfmt_term x` as a `term` and the tree it
   derives converts to x itself; corollary for the enum formatter through lex_of_term. *)
From Coq Require Import String.
From Nv Require Import Model.Readme Gen.EnumFormats Proofs.PegP Proofs.DecP Proofs.ReadmeP.
Open Scope N_scope.

Section Conf.
  Variable ucls : uclass -> N -> bool.
  Hypothesis Hok : ucls_ok ucls.
  Variable n0 : nat.

  Notation G := expected_grammar.
  Notation E := (evals ucls G n0).
  Notation Erep := (evals_rep ucls G n0).
  Notation Eskip := (evals_skip ucls G n0).
  Notation atom_charb := (atom_charb ucls).
  Notation punct_symb := (punct_symb ucls).

  Definition isws (c : N) : bool := ucls UWhiteSpace c.

  (* ---- facts about ASCII characters, by computation on the concrete tables ---- *)
  Lemma ascii_cls k c : c < 128 -> ucls k c = ucls_tab k c.
  Proof. apply (uo_ascii _ Hok). Qed.

  Ltac ascii :=
    unfold Readme.atom_charb, Readme.punct_symb, isws;
    rewrite ?ascii_cls by (vm_compute; reflexivity); vm_compute; reflexivity.

  Lemma punct_atom_us c : atom_charb c = true -> punct_symb c = true -> us_dash c = true.
  Proof.
    unfold Readme.atom_charb, Readme.punct_symb, us_dash. intros Ha Hp.
    destruct (ucls ULetter c || ucls UNumber c) eqn:Hl.
    - rewrite (uo_disj _ Hok c Hl) in Hp. discriminate.
    - exact Ha.
  Qed.

  Lemma atom_not_ws c : atom_charb c = true -> isws c = false.
  Proof.
    unfold Readme.atom_charb, isws. intros Ha.
    destruct (ucls ULetter c || ucls UNumber c) eqn:Hl; [apply (uo_nows _ Hok c Hl)|].
    cbn [orb] in Ha.
    apply orb_true_iff in Ha as [H|H]; apply N.eqb_eq in H; subst c; ascii.
  Qed.

  Lemma atom_nodash_not_punct c : atom_charb c = true -> us_dash c = false -> punct_symb c = false.
  Proof.
    intros Ha Hu. destruct (punct_symb c) eqn:Hp; [|reflexivity].
    rewrite (punct_atom_us c Ha Hp) in Hu. discriminate.
  Qed.

  (* ---- skipping ---- *)
  Fixpoint dropws (s : str) : str :=
    match s with
    | c :: r => if isws c then dropws r else s
    | [] => []
    end.

  Lemma has_ws_G : has_ws G = true. Proof. reflexivity. Qed.

  Lemma ev_ws s :
    E (PRef ws_name) NonAtomic s (match s with c :: r => if isws c then POk r [] else PFail | [] => PFail end).
  Proof.
    pose proof (ev_ref ucls G n0 ws_name (rule "WHITESPACE" MSilent WHITE_SPACE) NonAtomic s _ eq_refl
                  (ev_class ucls G n0 UWhiteSpace _ s)) as H.
    destruct s as [|c r]; [exact H|]. unfold isws. cbn [pr_mod rule emits] in H.
    destruct (ucls UWhiteSpace c); exact H.
  Qed.

  Lemma ev_skip_na s : Eskip NonAtomic s (POk (dropws s) []).
  Proof.
    induction s as [|c r IH]; cbn [dropws].
    - apply ev_skip_stop; [apply has_ws_G|]. apply (ev_ws []).
    - pose proof (ev_ws (c :: r)) as H. cbn beta iota in H. destruct (isws c) eqn:Hw.
      + change (POk (dropws r) []) with (POk (dropws r) ([] ++ [])).
        eapply ev_skip_step; [apply has_ws_G | exact H | exact IH].
      + apply ev_skip_stop; [apply has_ws_G | exact H].
  Qed.

  Lemma dropws_nows c r : isws c = false -> dropws (c :: r) = c :: r.
  Proof. intros H. cbn [dropws]. now rewrite H. Qed.
  Lemma dropws_ws c r : isws c = true -> dropws (c :: r) = dropws r.
  Proof. intros H. cbn [dropws]. now rewrite H. Qed.

  (* ---- single-character matchers in atomic context ---- *)
  Definition ctest (e : pexpr) (f : N -> bool) : Prop :=
    forall s, E e Atomic s (match s with c :: r => if f c then POk r [] else PFail | [] => PFail end).

  Lemma ctest_class k : ctest (PClass k) (ucls k).
  Proof. intros s. apply ev_class. Qed.

  Lemma ctest_lit x : ctest (PStr [x]) (N.eqb x).
  Proof.
    intros s. pose proof (ev_str ucls G n0 [x] Atomic s) as H.
    destruct s as [|c r]; [exact H|]. cbn [starts length drop] in H. rewrite andb_true_r in H. exact H.
  Qed.

  Lemma ctest_choice x y f g : ctest x f -> ctest y g -> ctest (PChoice x y) (fun c => f c || g c).
  Proof.
    intros Hx Hy s. specialize (Hx s). specialize (Hy s). destruct s as [|c r].
    - now apply ev_choice_r.
    - destruct (f c); cbn [orb].
      + now apply ev_choice_l.
      + now apply ev_choice_r.
  Qed.

  (* a normal rule called in an atomic context produces no node *)
  Lemma ctest_rule name body f :
    find_rule G (ss name) = Some (rule name MNormal body) -> str_eqb (ss name) ws_name = false ->
    ctest body f -> ctest (PRef (ss name)) f.
  Proof.
    intros Hf Hn Hb s.
    assert (He : enter MNormal (ss name) Atomic = Atomic) by (unfold enter; now rewrite Hn).
    pose proof (Hb s) as Hs. rewrite <- He in Hs.
    pose proof (ev_ref ucls G n0 (ss name) _ Atomic s _ Hf Hs) as H.
    cbn [pr_mod rule emits] in H. destruct s as [|c r]; [exact H|]. destruct (f c); exact H.
  Qed.

  Lemma ctest_punct_sym : ctest (PRef (ss "punct_sym")) punct_symb.
  Proof.
    eapply ctest_rule; [reflexivity | reflexivity |].
    apply (ctest_choice _ _ _ _ (ctest_class UPunctuation) (ctest_class USymbol)).
  Qed.

  Lemma ctest_ext e f g : (forall c, f c = g c) -> ctest e f -> ctest e g.
  Proof. intros Hfg H s. specialize (H s). destruct s as [|c r]; [exact H|]. now rewrite <- Hfg. Qed.

  Lemma ctest_atom_char : ctest (PRef (ss "atom_char")) atom_charb.
  Proof.
    eapply ctest_rule; [reflexivity | reflexivity |].
    eapply ctest_ext; [|apply (ctest_choice _ _ _ _ (ctest_class ULetter)
                               (ctest_choice _ _ _ _ (ctest_class UNumber)
                                  (ctest_choice _ _ _ _ (ctest_lit 95) (ctest_lit 45))))].
    intros c. unfold Readme.atom_charb. cbn beta. rewrite (N.eqb_sym 95 c), (N.eqb_sym 45 c).
    now rewrite !orb_assoc.
  Qed.

  (* three single-character matchers in a row, atomic *)
  Lemma ctest_seq3 e1 e2 e3 f1 f2 f3 s :
    ctest e1 f1 -> ctest e2 f2 -> ctest e3 f3 ->
    E (PSeq e1 (PSeq e2 e3)) Atomic s
      (match s with
       | a :: b :: c :: r => if f1 a && f2 b && f3 c then POk r [] else PFail
       | _ => PFail
       end).
  Proof.
    intros H1 H2 H3.
    destruct s as [|a s]; [apply ev_seq_fail1, (H1 [])|].
    pose proof (H1 (a :: s)) as Ha. cbn beta iota in Ha.
    destruct (f1 a); cbn [andb]; [|destruct s as [|b [|c r]]; now apply ev_seq_fail1].
    destruct s as [|b s].
    { eapply ev_seq_fail2; [exact Ha | apply ev_skip_atomic | apply ev_seq_fail1, (H2 [])]. }
    pose proof (H2 (b :: s)) as Hb. cbn beta iota in Hb.
    destruct (f2 b); cbn [andb].
    2:{ destruct s as [|c r]; (eapply ev_seq_fail2; [exact Ha | apply ev_skip_atomic | now apply ev_seq_fail1]). }
    destruct s as [|c r].
    { eapply ev_seq_fail2; [exact Ha | apply ev_skip_atomic |].
      eapply ev_seq_fail2; [exact Hb | apply ev_skip_atomic | apply (H3 [])]. }
    pose proof (H3 (c :: r)) as Hc. cbn beta iota in Hc.
    destruct (f3 c).
    - change (POk r []) with (POk r ([] ++ [] ++ ([] ++ [] ++ []))).
      eapply ev_seq_ok; [exact Ha | apply ev_skip_atomic |].
      eapply ev_seq_ok; [exact Hb | apply ev_skip_atomic | exact Hc].
    - eapply ev_seq_fail2; [exact Ha | apply ev_skip_atomic |].
      eapply ev_seq_fail2; [exact Hb | apply ev_skip_atomic | exact Hc].
  Qed.

  (* ---- the copula rule ---- *)
  Definition copula_at (s : str) : bool :=
    match s with
    | a :: b :: c :: _ =>
        (punct_symb a && (45 =? b) && punct_symb c) || (punct_symb a && (61 =? b) && punct_symb c) ||
        ((61 =? a) && punct_symb b && (62 =? c)) || ((60 =? a) && punct_symb b && (62 =? c))
    | _ => false
    end.

  Lemma test_choice x y a s (b1 b2 : bool) r :
    E x a s (if b1 then POk r [] else PFail) -> E y a s (if b2 then POk r [] else PFail) ->
    E (PChoice x y) a s (if b1 || b2 then POk r [] else PFail).
  Proof. intros Hx Hy. destruct b1; cbn [orb]; [now apply ev_choice_l | now apply ev_choice_r]. Qed.

  Lemma ev_copula_body s :
    E (pr_body (rule "copula" MAtomic
         ((ref "punct_sym" ~~ lit "-" ~~ ref "punct_sym")
          |/ (ref "punct_sym" ~~ lit "=" ~~ ref "punct_sym")
          |/ (lit "=" ~~ ref "punct_sym" ~~ lit ">")
          |/ (lit "<" ~~ ref "punct_sym" ~~ lit ">"))%peg)) Atomic s
      (if copula_at s then POk (drop 3 s) [] else PFail).
  Proof.
    cbn [pr_body rule].
    pose proof (ctest_seq3 _ _ _ _ _ _ s ctest_punct_sym (ctest_lit 45) ctest_punct_sym) as A1.
    pose proof (ctest_seq3 _ _ _ _ _ _ s ctest_punct_sym (ctest_lit 61) ctest_punct_sym) as A2.
    pose proof (ctest_seq3 _ _ _ _ _ _ s (ctest_lit 61) ctest_punct_sym (ctest_lit 62)) as A3.
    pose proof (ctest_seq3 _ _ _ _ _ _ s (ctest_lit 60) ctest_punct_sym (ctest_lit 62)) as A4.
    destruct s as [|a [|b [|c r]]]; cbn [copula_at drop].
    1-3: (apply ev_choice_r; [exact A1|]; apply ev_choice_r; [exact A2|]; apply ev_choice_r; [exact A3|exact A4]).
    rewrite <- !orb_assoc.
    apply test_choice; [exact A1|]. apply test_choice; [exact A2|]. apply test_choice; [exact A3|exact A4].
  Qed.

  (* in an atomic caller (the look-ahead of atom_content) no node is produced *)
  Lemma ev_copula_atomic s :
    E (PRef (ss "copula")) Atomic s (if copula_at s then POk (drop 3 s) [] else PFail).
  Proof.
    pose proof (ev_ref ucls G n0 (ss "copula") _ Atomic s _ eq_refl (ev_copula_body s)) as H.
    cbn [pr_mod rule emits] in H. destruct (copula_at s); exact H.
  Qed.

  (* in the statement rule (non-atomic caller) the node records the three characters *)
  Lemma ev_copula_na cop r :
    length cop = 3%nat -> copula_at (cop ++ r) = true ->
    E (PRef (ss "copula")) NonAtomic (cop ++ r) (POk r [Node (ss "copula") cop []]).
  Proof.
    intros Hl Hc.
    pose proof (ev_ref ucls G n0 (ss "copula") _ NonAtomic (cop ++ r) _ eq_refl (ev_copula_body (cop ++ r))) as H.
    cbn [pr_mod rule emits] in H. rewrite Hc in H.
    replace (drop 3 (cop ++ r)) with r in H by (rewrite <- Hl; symmetry; apply drop_app_length).
    now rewrite consumed_app in H.
  Qed.

  (* ---- literals ---- *)
  Definition head_is (x : N) (s : str) : bool := match s with c :: _ => x =? c | [] => false end.

  Lemma ev_lit1 x a s :
    E (PStr [x]) a s (match s with c :: r => if x =? c then POk r [] else PFail | [] => PFail end).
  Proof.
    pose proof (ev_str ucls G n0 [x] a s) as H.
    destruct s as [|c r]; [exact H|]. cbn [starts length drop] in H. rewrite andb_true_r in H. exact H.
  Qed.
  Lemma ev_lit1_ok x a r : E (PStr [x]) a (x :: r) (POk r []).
  Proof. pose proof (ev_lit1 x a (x :: r)) as H. cbn beta iota in H. now rewrite N.eqb_refl in H. Qed.
  Lemma ev_lit1_fail x a s : head_is x s = false -> E (PStr [x]) a s PFail.
  Proof.
    intros Hh. pose proof (ev_lit1 x a s) as H. destruct s as [|c r]; [exact H|]. cbn [head_is] in Hh. now rewrite Hh in H.
  Qed.

  (* ---- atom_content = @{ atom_char ~ (!copula ~ atom_char)* } ---- *)
  Notation X := (PSeq (PNot (PRef (ss "copula"))) (PRef (ss "atom_char"))).

  Definition stop_ok (k : str) : bool :=
    copula_at k || match k with [] => true | c :: _ => negb (atom_charb c) end.

  Lemma ev_X_stop k : stop_ok k = true -> E X Atomic k PFail.
  Proof.
    unfold stop_ok. intros H. pose proof (ev_copula_atomic k) as Hc.
    destruct (copula_at k) eqn:Hk.
    - apply ev_seq_fail1. eapply ev_not_ok. exact Hc.
    - cbn [orb] in H. eapply ev_seq_fail2; [apply ev_not_fail; exact Hc | apply ev_skip_atomic |].
      pose proof (ctest_atom_char k) as Ha. destruct k as [|c r]; [exact Ha|].
      apply negb_true_iff in H. now rewrite H in Ha.
  Qed.

  Lemma ev_X_step c r : atom_charb c = true -> copula_at (c :: r) = false -> E X Atomic (c :: r) (POk r []).
  Proof.
    intros Ha Hk. pose proof (ev_copula_atomic (c :: r)) as Hc. rewrite Hk in Hc.
    pose proof (ctest_atom_char (c :: r)) as Hch. cbn beta iota in Hch. rewrite Ha in Hch.
    change (POk r []) with (POk r ([] ++ [] ++ [])).
    eapply ev_seq_ok; [apply ev_not_fail; exact Hc | apply ev_skip_atomic | exact Hch].
  Qed.

  (* no copula starts at any position of `rest` (followed by k) *)
  Fixpoint nci (rest k : str) : bool :=
    match rest with [] => true | c :: r => negb (copula_at (rest ++ k)) && nci r k end.

  Lemma ev_content_rep rest k :
    forallb atom_charb rest = true -> nci rest k = true -> stop_ok k = true ->
    Erep X Atomic (rest ++ k) (POk k []).
  Proof.
    induction rest as [|c r IH]; cbn [forallb nci app]; intros Hall Hn Hs.
    - eapply ev_rep_nil; [apply ev_skip_atomic | now apply ev_X_stop].
    - apply andb_true_iff in Hall as [Hc Hall]. apply andb_true_iff in Hn as [Hk Hn]. apply negb_true_iff in Hk.
      change (POk k []) with (POk k ([] ++ [] ++ [])).
      eapply ev_rep_cons; [apply ev_skip_atomic | apply ev_X_step; [exact Hc | exact Hk] | now apply IH].
  Qed.

  Lemma ev_content_body c rest k :
    atom_charb c = true -> forallb atom_charb rest = true -> nci rest k = true -> stop_ok k = true ->
    E (PSeq (PRef (ss "atom_char")) (PStar X)) Atomic (c :: rest ++ k) (POk k []).
  Proof.
    intros Hc Hall Hn Hs.
    pose proof (ctest_atom_char (c :: rest ++ k)) as Hch. cbn beta iota in Hch. rewrite Hc in Hch.
    change (POk k []) with (POk k ([] ++ [] ++ [])).
    eapply ev_seq_ok; [exact Hch | apply ev_skip_atomic |].
    destruct rest as [|c2 r2].
    - apply ev_star_nil. now apply ev_X_stop.
    - cbn [forallb nci app] in *.
      apply andb_true_iff in Hall as [Hc2 Hall]. apply andb_true_iff in Hn as [Hk Hn]. apply negb_true_iff in Hk.
      change (POk k []) with (POk k ([] ++ [])).
      eapply ev_star_cons; [apply ev_X_step; [exact Hc2 | exact Hk] | now apply ev_content_rep].
  Qed.

  Lemma ev_atom_content c rest k :
    atom_charb c = true -> forallb atom_charb rest = true -> nci rest k = true -> stop_ok k = true ->
    E (PRef (ss "atom_content")) NonAtomic ((c :: rest) ++ k) (POk k [Node (ss "atom_content") (c :: rest) []]).
  Proof.
    intros Hc Hall Hn Hs.
    pose proof (ev_ref ucls G n0 (ss "atom_content") _ NonAtomic ((c :: rest) ++ k) _ eq_refl
                  (ev_content_body c rest k Hc Hall Hn Hs)) as H.
    cbn [pr_mod rule emits] in H. now rewrite consumed_app in H.
  Qed.

  (* ---- atom_prefix = @{ punct_sym+ } ---- *)
  Definition not_punct_head (k : str) : bool := match k with [] => true | c :: _ => negb (punct_symb c) end.

  Lemma ev_punct_fail k : not_punct_head k = true -> E (PRef (ss "punct_sym")) Atomic k PFail.
  Proof.
    intros H. pose proof (ctest_punct_sym k) as Hp. destruct k as [|c r]; [exact Hp|].
    cbn [not_punct_head] in H. apply negb_true_iff in H. now rewrite H in Hp.
  Qed.

  Lemma ev_atom_prefix c k :
    punct_symb c = true -> not_punct_head k = true ->
    E (PRef (ss "atom_prefix")) NonAtomic (c :: k) (POk k [Node (ss "atom_prefix") [c] []]).
  Proof.
    intros Hc Hk.
    assert (Hb : E (PPlus (PRef (ss "punct_sym"))) Atomic (c :: k) (POk k [])).
    { apply ev_plus. change (POk k []) with (POk k ([] ++ [] ++ [])).
      pose proof (ctest_punct_sym (c :: k)) as Hp. cbn beta iota in Hp. rewrite Hc in Hp.
      eapply ev_seq_ok; [exact Hp | apply ev_skip_atomic | apply ev_star_nil, ev_punct_fail, Hk]. }
    pose proof (ev_ref ucls G n0 (ss "atom_prefix") _ NonAtomic (c :: k) _ eq_refl Hb) as H.
    cbn [pr_mod rule emits] in H. now rewrite (consumed_app [c] k : consumed (c :: k) k = [c]) in H.
  Qed.

  Lemma ev_atom_prefix_fail s : not_punct_head s = true -> E (PRef (ss "atom_prefix")) NonAtomic s PFail.
  Proof.
    intros Hs.
    assert (Hb : E (PPlus (PRef (ss "punct_sym"))) Atomic s PFail) by (apply ev_plus, ev_seq_fail1, ev_punct_fail, Hs).
    exact (ev_ref ucls G n0 (ss "atom_prefix") _ NonAtomic s _ eq_refl Hb).
  Qed.

  (* ---- connecter = @{ punct_sym ~ (!"," ~ punct_sym)* } ---- *)
  Notation Y := (PSeq (PNot (PStr [44])) (PRef (ss "punct_sym"))).
  Definition conn_char (c : N) : bool := punct_symb c && negb (44 =? c).

  Lemma ev_Y_stop r : E Y Atomic (44 :: r) PFail.
  Proof. apply ev_seq_fail1. eapply ev_not_ok. apply ev_lit1_ok. Qed.

  Lemma ev_Y_step c r : conn_char c = true -> E Y Atomic (c :: r) (POk r []).
  Proof.
    unfold conn_char. intros H. apply andb_true_iff in H as [Hp Hn]. apply negb_true_iff in Hn.
    pose proof (ctest_punct_sym (c :: r)) as Hc. cbn beta iota in Hc. rewrite Hp in Hc.
    change (POk r []) with (POk r ([] ++ [] ++ [])).
    eapply ev_seq_ok; [apply ev_not_fail, ev_lit1_fail; exact Hn | apply ev_skip_atomic | exact Hc].
  Qed.

  Lemma ev_conn_rep cs r : forallb conn_char cs = true -> Erep Y Atomic (cs ++ 44 :: r) (POk (44 :: r) []).
  Proof.
    induction cs as [|c cs IH]; cbn [forallb app]; intros H.
    - eapply ev_rep_nil; [apply ev_skip_atomic | apply ev_Y_stop].
    - apply andb_true_iff in H as [Hc H].
      change (POk (44 :: r) []) with (POk (44 :: r) ([] ++ [] ++ [])).
      eapply ev_rep_cons; [apply ev_skip_atomic | now apply ev_Y_step | now apply IH].
  Qed.

  Lemma ev_connecter c cs r :
    punct_symb c = true -> forallb conn_char cs = true ->
    E (PRef (ss "connecter")) NonAtomic ((c :: cs) ++ 44 :: r) (POk (44 :: r) [Node (ss "connecter") (c :: cs) []]).
  Proof.
    intros Hc Hcs.
    assert (Hb : E (PSeq (PRef (ss "punct_sym")) (PStar Y)) Atomic ((c :: cs) ++ 44 :: r) (POk (44 :: r) [])).
    { pose proof (ctest_punct_sym ((c :: cs) ++ 44 :: r)) as Hp. cbn [app] in Hp. cbn beta iota in Hp. rewrite Hc in Hp.
      change (POk (44 :: r) []) with (POk (44 :: r) ([] ++ [] ++ [])).
      eapply ev_seq_ok; [exact Hp | apply ev_skip_atomic |].
      destruct cs as [|c2 cs].
      - apply ev_star_nil, ev_Y_stop.
      - cbn [forallb app] in *. apply andb_true_iff in Hcs as [H2 Hcs].
        change (POk (44 :: r) []) with (POk (44 :: r) ([] ++ [])).
        eapply ev_star_cons; [now apply ev_Y_step | now apply ev_conn_rep]. }
    pose proof (ev_ref ucls G n0 (ss "connecter") _ NonAtomic ((c :: cs) ++ 44 :: r) _ eq_refl Hb) as H.
    cbn [pr_mod rule emits] in H. now rewrite consumed_app in H.
  Qed.

  (* ---- atom = { "_"+ | (atom_prefix ~ atom_content) | atom_content } ---- *)
  Lemma dropws_split k : exists w, k = w ++ dropws k /\ forallb isws w = true.
  Proof.
    induction k as [|c r [w [Hw Hall]]]; [exists []; split; reflexivity|].
    cbn [dropws]. destruct (isws c) eqn:Hc.
    - exists (c :: w). cbn [app forallb]. rewrite Hc, Hall. split; [now f_equal | reflexivity].
    - exists []. split; reflexivity.
  Qed.

  Lemma us_dash_false c : us_dash c = false -> (95 =? c) = false /\ (45 =? c) = false.
  Proof.
    unfold us_dash. intros H. apply orb_false_iff in H as [H1 H2]. now rewrite (N.eqb_sym 95 c), (N.eqb_sym 45 c).
  Qed.

  Lemma ev_atom_placeholder k :
    head_is 95 (dropws k) = false ->
    exists w, k = w ++ dropws k /\ forallb isws w = true /\
      E (PRef (ss "atom")) NonAtomic (95 :: k) (POk (dropws k) [Node (ss "atom") (95 :: w) []]).
  Proof.
    intros Hh. destruct (dropws_split k) as [w [Hk Hw]]. exists w. split; [exact Hk|]. split; [exact Hw|].
    assert (Hb : E (PPlus (PStr [95])) NonAtomic (95 :: k) (POk (dropws k) [])).
    { apply ev_plus. change (POk (dropws k) []) with (POk (dropws k) ([] ++ [] ++ [])).
      eapply ev_seq_ok; [apply ev_lit1_ok | apply ev_skip_na | apply ev_star_nil, ev_lit1_fail, Hh]. }
    pose proof (ev_ref ucls G n0 (ss "atom") _ NonAtomic (95 :: k) _ eq_refl (ev_choice_l _ _ _ _ _ _ _ _ _ Hb)) as H.
    cbn [pr_mod rule emits] in H.
    replace (consumed (95 :: k) (dropws k)) with (95 :: w) in H; [exact H|].
    rewrite Hk at 1. symmetry. apply (consumed_app (95 :: w) (dropws k)).
  Qed.

  Lemma ev_atom_word c rest k :
    atom_charb c = true -> us_dash c = false -> forallb atom_charb rest = true -> nci rest k = true ->
    stop_ok k = true ->
    E (PRef (ss "atom")) NonAtomic ((c :: rest) ++ k)
      (POk k [Node (ss "atom") (c :: rest) [Node (ss "atom_content") (c :: rest) []]]).
  Proof.
    intros Hc Hu Hall Hn Hs. destruct (us_dash_false c Hu) as [H95 _].
    assert (H1 : E (PPlus (PStr [95])) NonAtomic ((c :: rest) ++ k) PFail)
      by (apply ev_plus, ev_seq_fail1, ev_lit1_fail; exact H95).
    assert (H2 : E (PSeq (PRef (ss "atom_prefix")) (PRef (ss "atom_content"))) NonAtomic ((c :: rest) ++ k) PFail).
    { apply ev_seq_fail1, ev_atom_prefix_fail. cbn [app not_punct_head]. now rewrite (atom_nodash_not_punct c Hc Hu). }
    pose proof (ev_ref ucls G n0 (ss "atom") _ NonAtomic ((c :: rest) ++ k) _ eq_refl
                  (ev_choice_r _ _ _ _ _ _ _ _ H1 (ev_choice_r _ _ _ _ _ _ _ _ H2 (ev_atom_content c rest k Hc Hall Hn Hs)))) as H.
    cbn [pr_mod rule emits] in H. now rewrite consumed_app in H.
  Qed.

  Lemma ev_atom_prefixed p c rest k :
    punct_symb p = true -> (95 =? p) = false ->
    atom_charb c = true -> us_dash c = false -> forallb atom_charb rest = true -> nci rest k = true ->
    stop_ok k = true ->
    E (PRef (ss "atom")) NonAtomic ((p :: c :: rest) ++ k)
      (POk k [Node (ss "atom") (p :: c :: rest)
                [Node (ss "atom_prefix") [p] []; Node (ss "atom_content") (c :: rest) []]]).
  Proof.
    intros Hp H95 Hc Hu Hall Hn Hs.
    assert (H1 : E (PPlus (PStr [95])) NonAtomic ((p :: c :: rest) ++ k) PFail)
      by (apply ev_plus, ev_seq_fail1, ev_lit1_fail; exact H95).
    assert (H2 : E (PSeq (PRef (ss "atom_prefix")) (PRef (ss "atom_content"))) NonAtomic ((p :: c :: rest) ++ k)
                   (POk k ([Node (ss "atom_prefix") [p] []] ++ [] ++ [Node (ss "atom_content") (c :: rest) []]))).
    { eapply ev_seq_ok.
      - apply (ev_atom_prefix p ((c :: rest) ++ k) Hp). cbn [app not_punct_head]. now rewrite (atom_nodash_not_punct c Hc Hu).
      - pose proof (ev_skip_na ((c :: rest) ++ k)) as Hsk. cbn [app] in Hsk.
        rewrite (dropws_nows c (rest ++ k) (atom_not_ws c Hc)) in Hsk. exact Hsk.
      - apply (ev_atom_content c rest k Hc Hall Hn Hs). }
    pose proof (ev_ref ucls G n0 (ss "atom") _ NonAtomic ((p :: c :: rest) ++ k) _ eq_refl
                  (ev_choice_r _ _ _ _ _ _ _ _ H1 (ev_choice_l _ _ _ _ _ _ _ _ _ H2))) as H.
    cbn [pr_mod rule emits] in H. now rewrite consumed_app in H.
  Qed.

  (* ---- term = { statement | compound | atom }: the first two fail on the first character of an atom ---- *)
  Lemma ev_statement_fail s : head_is 60 s = false -> E (PRef (ss "statement")) NonAtomic s PFail.
  Proof.
    intros H. refine (ev_ref ucls G n0 (ss "statement") _ NonAtomic s PFail eq_refl _).
    apply ev_seq_fail1, ev_lit1_fail, H.
  Qed.

  Lemma ev_compound_fail s :
    head_is 40 s = false -> head_is 123 s = false -> head_is 91 s = false ->
    E (PRef (ss "compound")) NonAtomic s PFail.
  Proof.
    intros H1 H2 H3. refine (ev_ref ucls G n0 (ss "compound") _ NonAtomic s PFail eq_refl _).
    apply ev_choice_r; [apply ev_seq_fail1, ev_lit1_fail, H1|].
    apply ev_choice_r; [apply ev_seq_fail1, ev_lit1_fail, H2|].
    apply ev_seq_fail1, ev_lit1_fail, H3.
  Qed.

  Definition atom_head_ok (s : str) : bool :=
    negb (head_is 60 s) && negb (head_is 40 s) && negb (head_is 123 s) && negb (head_is 91 s).

  Lemma ev_term_atom s k t :
    atom_head_ok s = true -> E (PRef (ss "atom")) NonAtomic s (POk k [t]) ->
    E (PRef (ss "term")) NonAtomic s (POk k [Node (ss "term") (consumed s k) [t]]).
  Proof.
    unfold atom_head_ok. intros Hh Ha.
    apply andb_true_iff in Hh as [Hh H4]. apply andb_true_iff in Hh as [Hh H3]. apply andb_true_iff in Hh as [H1 H2].
    apply negb_true_iff in H1, H2, H3, H4.
    exact (ev_ref ucls G n0 (ss "term") _ NonAtomic s _ eq_refl
             (ev_choice_r _ _ _ _ _ _ _ _ (ev_statement_fail s H1)
                (ev_choice_r _ _ _ _ _ _ _ _ (ev_compound_fail s H2 H3 H4) Ha))).
  Qed.

  (* ---- names: no copula starts inside a name that is free of the K4 pattern ---- *)
  Definition follow_head_ok (k : str) : bool :=
    match k with [] => true | c :: _ => negb (atom_charb c) && negb (61 =? c) end.

  Lemma atom_char_facts c : atom_charb c = true -> (61 =? c) = false /\ (60 =? c) = false.
  Proof.
    intros Ha. split.
    - destruct (N.eqb_spec 61 c) as [<-|]; [|reflexivity]. assert (atom_charb 61 = false) by ascii. congruence.
    - destruct (N.eqb_spec 60 c) as [<-|]; [|reflexivity]. assert (atom_charb 60 = false) by ascii. congruence.
  Qed.

  Lemma atom_char_45 : atom_charb 45 = true. Proof. ascii. Qed.

  Lemma follow_head_not_dash c r : follow_head_ok (c :: r) = true -> (45 =? c) = false /\ (61 =? c) = false.
  Proof.
    cbn [follow_head_ok]. intros H. apply andb_true_iff in H as [H1 H2]. apply negb_true_iff in H1, H2.
    split; [|exact H2]. destruct (N.eqb_spec 45 c) as [<-|]; [|reflexivity]. rewrite atom_char_45 in H1. discriminate.
  Qed.

  Lemma copula_at_in_name x r k :
    forallb atom_charb (x :: r) = true -> k4_free (x :: r) = true -> last_is_dash (x :: r) = false ->
    follow_head_ok k = true -> copula_at ((x :: r) ++ k) = false.
  Proof.
    intros Hall Hk4 Hld Hf. cbn [forallb] in Hall. apply andb_true_iff in Hall as [Hx Hall].
    destruct (atom_char_facts x Hx) as [Hx61 Hx60].
    destruct r as [|y r].
    - (* the name ends here: the next characters come from k *)
      cbn [app]. destruct k as [|y [|z k]]; cbn [copula_at]; try reflexivity.
      destruct (follow_head_not_dash y _ Hf) as [Hy45 Hy61].
      now rewrite Hx61, Hx60, Hy45, Hy61, !andb_false_r.
    - cbn [forallb] in Hall. apply andb_true_iff in Hall as [Hy Hall].
      destruct (atom_char_facts y Hy) as [Hy61 _].
      destruct r as [|z r].
      + (* y is the last character: it is not `-` *)
        cbn [app]. destruct k as [|z k]; cbn [copula_at]; [reflexivity|].
        cbn [last_is_dash] in Hld. rewrite (N.eqb_sym 45 y), Hld.
        now rewrite Hx61, Hx60, Hy61, !andb_false_r.
      + cbn [forallb] in Hall. apply andb_true_iff in Hall as [Hz Hall].
        cbn [app copula_at]. rewrite Hx61, Hx60, Hy61, !andb_false_r. cbn [andb orb]. rewrite !orb_false_r.
        cbn [k4_free] in Hk4. apply andb_true_iff in Hk4 as [Hk4 _]. apply negb_true_iff in Hk4.
        destruct (punct_symb x) eqn:Hpx; [|reflexivity].
        destruct (punct_symb z) eqn:Hpz; [|now rewrite andb_false_r].
        rewrite (punct_atom_us x Hx Hpx), (punct_atom_us z Hz Hpz) in Hk4.
        rewrite (N.eqb_sym 45 y). cbn [andb] in *. now rewrite andb_true_r in Hk4 |- *.
  Qed.

  Lemma k4_free_tail x r : k4_free (x :: r) = true -> k4_free r = true.
  Proof.
    destruct r as [|y [|z r]]; [reflexivity | reflexivity |]. cbn [k4_free]. intros H.
    apply andb_true_iff in H as [_ H]. exact H.
  Qed.

  Lemma nci_name name k :
    forallb atom_charb name = true -> k4_free name = true -> last_is_dash name = false ->
    follow_head_ok k = true -> nci name k = true.
  Proof.
    induction name as [|x r IH]; [reflexivity|]. intros Hall Hk4 Hld Hf. cbn [nci].
    rewrite (copula_at_in_name x r k Hall Hk4 Hld Hf). cbn [negb andb].
    destruct r as [|y r]; [reflexivity|]. apply IH.
    - cbn [forallb] in Hall. apply andb_true_iff in Hall as [_ H]. exact H.
    - exact (k4_free_tail _ _ Hk4).
    - exact Hld.
    - exact Hf.
  Qed.

  Lemma nci_tail x r k : nci (x :: r) k = true -> nci r k = true.
  Proof. cbn [nci]. intros H. apply andb_true_iff in H as [_ H]. exact H. Qed.

  (* ---------------------------------------------------------------------------------------- *)
  (* what follows a term in formatter output                                                    *)
  (* ---------------------------------------------------------------------------------------- *)
  (* `,` `)` `}` `]` `>` and the four punctuation marks *)
  Definition closer (c : N) : bool := memb c [44; 41; 125; 93; 62; 46; 33; 63; 64].
  (* first characters of the 13 copulas *)
  Definition cop_first (c : N) : bool := memb c [45; 60; 61; 123].
  Definition follow_ok (k : str) : bool :=
    match k with
    | [] => true
    | c :: r => closer c || ((c =? 32) && match r with d :: _ => cop_first d | [] => false end)
    end.

  Lemma memb_cases c l : memb c l = true -> In c l.
  Proof. apply memb_In. Qed.

  (* facts about one follow character, by cases *)
  Lemma closer_facts c :
    closer c = true ->
    atom_charb c = false /\ isws c = false /\ (61 =? c) = false /\ (95 =? c) = false.
  Proof.
    intros H. apply memb_cases in H. cbn [In] in H.
    repeat (destruct H as [<-|H]; [repeat split; ascii|]). destruct H.
  Qed.
  Lemma cop_first_facts c : cop_first c = true -> isws c = false /\ (95 =? c) = false.
  Proof.
    intros H. apply memb_cases in H. cbn [In] in H.
    repeat (destruct H as [<-|H]; [repeat split; ascii|]). destruct H.
  Qed.
  Lemma space_facts : atom_charb 32 = false /\ isws 32 = true /\ (61 =? 32) = false.
  Proof. repeat split; ascii. Qed.

  Lemma follow_stop k : follow_ok k = true -> stop_ok k = true.
  Proof.
    unfold stop_ok. destruct k as [|c r]; [now rewrite orb_true_r|]. cbn [follow_ok]. intros H.
    apply orb_true_iff in H as [H|H].
    - destruct (closer_facts c H) as [Ha _]. now rewrite Ha, orb_true_r.
    - apply andb_true_iff in H as [H _]. apply N.eqb_eq in H. subst c.
      destruct space_facts as [Ha _]. now rewrite Ha, orb_true_r.
  Qed.
  Lemma follow_head k : follow_ok k = true -> follow_head_ok k = true.
  Proof.
    destruct k as [|c r]; [reflexivity|]. cbn [follow_ok follow_head_ok]. intros H.
    apply orb_true_iff in H as [H|H].
    - destruct (closer_facts c H) as [Ha [_ [He _]]]. now rewrite Ha, He.
    - apply andb_true_iff in H as [H _]. apply N.eqb_eq in H. subst c.
      destruct space_facts as [Ha [_ He]]. now rewrite Ha, He.
  Qed.
  Lemma follow_placeholder k : follow_ok k = true -> head_is 95 (dropws k) = false.
  Proof.
    destruct k as [|c r]; [reflexivity|]. cbn [follow_ok]. intros H.
    apply orb_true_iff in H as [H|H].
    - destruct (closer_facts c H) as [_ [Hw [_ H95]]]. rewrite (dropws_nows c r Hw). exact H95.
    - apply andb_true_iff in H as [H Hd]. apply N.eqb_eq in H. subst c.
      destruct space_facts as [_ [Hw _]]. rewrite (dropws_ws 32 r Hw).
      destruct r as [|d r]; [discriminate|]. destruct (cop_first_facts d Hd) as [Hdw H95].
      rewrite (dropws_nows d r Hdw). exact H95.
  Qed.
  Lemma follow_closer c r : closer c = true -> follow_ok (c :: r) = true.
  Proof. intros H. cbn [follow_ok]. now rewrite H. Qed.
  Lemma dropws_closer c r : closer c = true -> dropws (c :: r) = c :: r.
  Proof. intros H. apply dropws_nows. now destruct (closer_facts c H) as [_ [Hw _]]. Qed.

  Lemma dropws_idem s : dropws (dropws s) = dropws s.
  Proof.
    induction s as [|c r IH]; [reflexivity|]. cbn [dropws]. destruct (isws c) eqn:Hc; [exact IH|].
    cbn [dropws]. now rewrite Hc.
  Qed.

  (* ---------------------------------------------------------------------------------------- *)
  (* the formatted text                                                                         *)
  (* ---------------------------------------------------------------------------------------- *)
  (* the layout of the ASCII formats, written out (pinned to the generated ones in layout_std) *)
  Definition SL : llayout :=
    {| ll_cb0 := [40]; ll_cb1 := [41]; ll_sep := [44]; ll_sp_terms := [32]; ll_sp_items := [32];
       ll_sb0 := [60]; ll_sb1 := [62]; ll_tb0 := [37]; ll_tb1 := [37]; ll_tsep := [59];
       ll_bb0 := [36]; ll_bb1 := [36]; ll_bsep := [59] |}.
  Notation F := (lfmt_term SL).
  Definition more (ys : list lterm) : str := concat (map (fun y => 44 :: 32 :: F y) ys).

  Lemma F_components t ts :
    template_components [44] [32] (map F (t :: ts)) = F t ++ more ts.
  Proof. cbn [map template_components]. unfold more. now rewrite map_map. Qed.
  Lemma F_compound c t ts : F (LCompound c (t :: ts)) = 40 :: c ++ 44 :: 32 :: (F t ++ more ts) ++ [41].
  Proof.
    cbn [lfmt_term]. unfold template_compound. cbn [ll_cb0 ll_cb1 ll_sep ll_sp_terms SL].
    rewrite F_components. cbn [app]. reflexivity.
  Qed.
  Lemma F_set l r t ts : F (LSet l (t :: ts) r) = l ++ (F t ++ more ts) ++ r.
  Proof.
    cbn [lfmt_term]. unfold template_compound_set. cbn [ll_sep ll_sp_terms SL]. now rewrite F_components.
  Qed.
  Lemma F_statement c s p : F (LStatement c s p) = 60 :: F s ++ 32 :: c ++ 32 :: F p ++ [62].
  Proof. reflexivity. Qed.
  Lemma more_cons y ys : more (y :: ys) = 44 :: 32 :: F y ++ more ys.
  Proof. reflexivity. Qed.

  (* ---------------------------------------------------------------------------------------- *)
  (* keywords of the lexicon, by cases                                                          *)
  (* ---------------------------------------------------------------------------------------- *)
  Notation X0 := opennars_lexicon.
  Notation wf := (lterm_wf ucls X0).

  Lemma str_mem_In x l : str_mem x l = true -> In x l.
  Proof.
    unfold str_mem. intros H. apply existsb_exists in H as [y [Hy He]]. apply str_eqb_eq in He. now subst.
  Qed.

  Definition copula_ok (c : str) : bool :=
    match c with
    | [a; b; d] => cop_first a && negb (isws a) && copula_at [a; b; d]
    | _ => false
    end.
  Lemma copulas_ok c : str_mem c (lx_copulas X0) = true -> copula_ok c = true.
  Proof.
    intros H. apply str_mem_In in H. cbn in H.
    repeat (destruct H as [<-|H]; [unfold copula_ok, copula_at, cop_first; ascii|]). destruct H.
  Qed.

  Definition conn_ok (c : str) : bool :=
    match c with
    | a :: cs => punct_symb a && negb (isws a) && forallb conn_char cs
    | [] => false
    end.
  Lemma connecters_ok c : str_mem c (lx_connecters X0) = true -> conn_ok c = true.
  Proof.
    intros H. apply str_mem_In in H. cbn in H.
    repeat (destruct H as [<-|H]; [unfold conn_ok, conn_char; cbn [forallb]; ascii|]). destruct H.
  Qed.

  Definition prefix_ok (p : str) : bool :=
    match p with
    | [q] => punct_symb q && negb (95 =? q) && negb (isws q) && atom_head_ok [q]
    | _ => false
    end.
  Lemma prefixes_ok p : str_mem p (lx_prefixes X0) = true -> prefix_ok p = true.
  Proof.
    intros H. apply str_mem_In in H. cbn in H.
    repeat (destruct H as [<-|H]; [unfold prefix_ok, atom_head_ok, head_is; ascii|]). destruct H.
  Qed.

  (* the first character of an atom character is none of `<` `(` `{` `[` *)
  Lemma atom_char_head c r : atom_charb c = true -> atom_head_ok (c :: r) = true.
  Proof.
    intros Ha. unfold atom_head_ok, head_is.
    assert (Hn : forall x, atom_charb x = false -> (x =? c) = false).
    { intros x Hx. destruct (N.eqb_spec x c) as [->|]; [congruence | reflexivity]. }
    rewrite (Hn 60), (Hn 40), (Hn 123), (Hn 91) by ascii. reflexivity.
  Qed.

  (* ---------------------------------------------------------------------------------------- *)
  (* the conformance statement for one term                                                     *)
  (* ---------------------------------------------------------------------------------------- *)
  Notation conv := (lterm_of_tree ucls).

  Definition conf (x : lterm) : Prop :=
    forall k, follow_ok k = true ->
    exists k' t, E (PRef (ss "term")) NonAtomic (F x ++ k) (POk k' [t]) /\
                 dropws k' = dropws k /\ conv t = Some x.

  (* the text of a well-formed term begins with a character that is no whitespace *)
  Lemma name_shape n :
    name_ok_readme ucls n = true ->
    exists c rest, n = c :: rest /\ atom_charb c = true /\ us_dash c = false /\
                   forallb atom_charb rest = true /\ last_is_dash n = false /\ k4_free n = true /\
                   forallb atom_charb n = true.
  Proof.
    unfold name_ok_readme. intros H.
    apply andb_true_iff in H as [H Hk]. apply andb_true_iff in H as [H Hl]. apply andb_true_iff in H as [Hh Hall].
    destruct n as [|c rest]; [discriminate|]. exists c, rest.
    apply negb_true_iff in Hh, Hl. pose proof Hall as Hall'. cbn [forallb] in Hall.
    apply andb_true_iff in Hall as [Hc Hr]. repeat split; assumption.
  Qed.

  Lemma wf_head_nows x k : wf x = true -> dropws (F x ++ k) = F x ++ k.
  Proof.
    destruct x as [p n|c ts|l ts r|c s p]; cbn [lterm_wf]; intros H.
    - apply orb_true_iff in H as [H|H].
      + apply andb_true_iff in H as [Hp Hn]. apply str_eqb_eq in Hp, Hn. subst p n.
        cbn [lfmt_term app]. apply dropws_nows. ascii.
      + apply andb_true_iff in H as [Hp Hn]. destruct (name_shape n Hn) as [c [rest [-> [Hc _]]]].
        apply orb_true_iff in Hp as [Hp|Hp].
        * apply str_eqb_eq in Hp. subst p. cbn [lfmt_term app]. apply dropws_nows, atom_not_ws, Hc.
        * apply prefixes_ok in Hp. destruct p as [|q [|? ?]]; try discriminate. cbn [prefix_ok] in Hp.
          apply andb_true_iff in Hp as [Hp _]. apply andb_true_iff in Hp as [_ Hw]. apply negb_true_iff in Hw.
          cbn [lfmt_term app]. apply dropws_nows, Hw.
    - destruct ts as [|t ts]; [rewrite andb_false_r in H; discriminate|]. rewrite F_compound. cbn [app].
      apply dropws_nows. ascii.
    - apply andb_true_iff in H as [H _]. apply andb_true_iff in H as [H Hts].
      destruct ts as [|t ts]; [discriminate|]. rewrite F_set.
      apply existsb_exists in H as [[l' r'] [Hin He]]. unfold pair_eqb in He. cbn [fst snd] in He.
      apply andb_true_iff in He as [Hl Hr]. apply str_eqb_eq in Hl, Hr. subst l' r'.
      cbn in Hin. destruct Hin as [Hin|[Hin|[]]]; injection Hin as <- <-; cbn [app]; apply dropws_nows; ascii.
    - rewrite F_statement. cbn [app]. apply dropws_nows. ascii.
  Qed.

  Lemma wf_head_nows0 x : wf x = true -> dropws (F x) = F x.
  Proof. intros H. pose proof (wf_head_nows x [] H) as E0. now rewrite app_nil_r in E0. Qed.

  (* ---- atoms ---- *)
  Lemma strip_ws_all w : forallb isws w = true -> strip_ws ucls w = [].
  Proof.
    induction w as [|c w IH]; [reflexivity|]. cbn [forallb strip_ws filter]. intros H.
    apply andb_true_iff in H as [Hc H]. unfold isws in Hc. rewrite Hc. cbn [negb]. now apply IH.
  Qed.

  Lemma strip_ws_nows c w : isws c = false -> strip_ws ucls (c :: w) = c :: strip_ws ucls w.
  Proof. unfold isws, strip_ws. intros H. cbn [filter]. now rewrite H. Qed.

  Lemma conv_placeholder txt w :
    forallb isws w = true -> conv (Node (ss "term") txt [Node (ss "atom") (95 :: w) []]) = Some (LAtom [95] []).
  Proof.
    intros H.
    transitivity (match strip_ws ucls (95 :: w) with
                  | c :: rest => if (c =? 95) && forallb (N.eqb 95) rest then Some (LAtom [95] rest) else None
                  | [] => None
                  end); [reflexivity|].
    rewrite (strip_ws_nows 95 w) by ascii. rewrite (strip_ws_all w H). reflexivity.
  Qed.

  Lemma conf_atom p n : wf (LAtom p n) = true -> conf (LAtom p n).
  Proof.
    cbn [lterm_wf]. intros H k Hk. apply orb_true_iff in H as [H|H].
    - (* the placeholder *)
      apply andb_true_iff in H as [Hp Hn]. apply str_eqb_eq in Hp, Hn. subst p n.
      change (lx_placeholder X0) with [95]. cbn [lfmt_term app].
      destruct (ev_atom_placeholder k (follow_placeholder k Hk)) as [w [Hw [Hall He]]].
      eexists; eexists. split; [|split].
      + apply ev_term_atom; [reflexivity | exact He].
      + apply dropws_idem.
      + apply conv_placeholder, Hall.
    - apply andb_true_iff in H as [Hp Hn].
      destruct (name_shape n Hn) as [c [rest [-> [Hc [Hu [Hr [Hl [Hk4 Hall]]]]]]]].
      pose proof (nci_tail _ _ _ (nci_name (c :: rest) k Hall Hk4 Hl (follow_head k Hk))) as Hnci.
      pose proof (follow_stop k Hk) as Hs.
      apply orb_true_iff in Hp as [Hp|Hp].
      + apply str_eqb_eq in Hp. subst p. cbn [lfmt_term app].
        eexists; eexists. split; [|split].
        * apply ev_term_atom; [apply (atom_char_head c (rest ++ k) Hc)|].
          exact (ev_atom_word c rest k Hc Hu Hr Hnci Hs).
        * reflexivity.
        * reflexivity.
      + apply prefixes_ok in Hp. destruct p as [|q [|? ?]]; try discriminate. cbn [prefix_ok] in Hp.
        apply andb_true_iff in Hp as [Hp Hh]. apply andb_true_iff in Hp as [Hp _].
        apply andb_true_iff in Hp as [Hq H95]. apply negb_true_iff in H95.
        cbn [lfmt_term app].
        eexists; eexists. split; [|split].
        * apply ev_term_atom.
          -- unfold atom_head_ok, head_is in *. exact Hh.
          -- exact (ev_atom_prefixed q c rest k Hq H95 Hc Hu Hr Hnci Hs).
        * reflexivity.
        * reflexivity.
  Qed.

  (* ---- component lists: term ~ ("," ~ term)* ~ closing bracket ---- *)
  Notation XT := (PSeq (PStr [44]) (PRef (ss "term"))).
  Notation MT := (PStar XT).

  Lemma ev_XT_step y rest :
    conf y -> wf y = true -> follow_ok rest = true ->
    exists k' t, E XT NonAtomic (44 :: 32 :: F y ++ rest) (POk k' [t]) /\ dropws k' = dropws rest /\ conv t = Some y.
  Proof.
    intros Hc Hw Hf. destruct (Hc rest Hf) as [k' [t [He [Hd Hv]]]]. exists k', t. split; [|split; assumption].
    change [t] with ([] ++ [] ++ [t]).
    eapply ev_seq_ok; [apply ev_lit1_ok | | exact He].
    pose proof (ev_skip_na (32 :: F y ++ rest)) as Hs. rewrite (dropws_ws 32) in Hs by ascii.
    rewrite (wf_head_nows y rest Hw) in Hs. exact Hs.
  Qed.

  Lemma closer_44 : closer 44 = true. Proof. reflexivity. Qed.

  Lemma follow_more ys cl k : closer cl = true -> follow_ok (more ys ++ cl :: k) = true.
  Proof.
    intros H. destruct ys as [|y ys]; [exact (follow_closer cl k H)|].
    rewrite more_cons. cbn [app]. apply follow_closer, closer_44.
  Qed.
  Lemma dropws_more ys cl k : closer cl = true -> dropws (more ys ++ cl :: k) = more ys ++ cl :: k.
  Proof.
    intros H. destruct ys as [|y ys]; [exact (dropws_closer cl k H)|].
    rewrite more_cons. cbn [app]. apply dropws_closer, closer_44.
  Qed.

  Lemma ev_more_rep ys cl k :
    Forall conf ys -> forallb wf ys = true -> closer cl = true -> (44 =? cl) = false ->
    forall s, dropws s = more ys ++ cl :: k ->
    exists s' ts, Erep XT NonAtomic s (POk s' ts) /\ dropws s' = cl :: k /\ map_opt conv ts = Some ys.
  Proof.
    intros Hc. induction Hc as [|y ys Hy Hys IH]; intros Hw Hcl H44 s Hs.
    - exists s, []. split; [|split; [exact Hs | reflexivity]].
      eapply ev_rep_nil; [apply ev_skip_na|]. rewrite Hs. apply ev_seq_fail1, ev_lit1_fail. exact H44.
    - cbn [forallb] in Hw. apply andb_true_iff in Hw as [Hwy Hw].
      rewrite more_cons in Hs. cbn [app] in Hs. rewrite <- app_assoc in Hs.
      destruct (ev_XT_step y (more ys ++ cl :: k) Hy Hwy (follow_more ys cl k Hcl)) as [k' [t [He [Hd Hv]]]].
      rewrite (dropws_more ys cl k Hcl) in Hd.
      destruct (IH Hw Hcl H44 k' Hd) as [s' [ts [Hr [Hd' Hm]]]].
      exists s', (t :: ts). split; [|split; [exact Hd'|]].
      + change (t :: ts) with ([] ++ [t] ++ ts).
        eapply ev_rep_cons; [apply ev_skip_na | rewrite Hs; exact He | exact Hr].
      + cbn [map_opt]. now rewrite Hv, Hm.
  Qed.

  Lemma ev_more_star ys cl k :
    Forall conf ys -> forallb wf ys = true -> closer cl = true -> (44 =? cl) = false ->
    exists s' ts, E MT NonAtomic (more ys ++ cl :: k) (POk s' ts) /\ dropws s' = cl :: k /\ map_opt conv ts = Some ys.
  Proof.
    intros Hc Hw Hcl H44. destruct Hc as [|y ys Hy Hys].
    - exists (cl :: k), []. split; [|split; [exact (dropws_closer cl k Hcl) | reflexivity]].
      apply ev_star_nil, ev_seq_fail1, ev_lit1_fail. exact H44.
    - cbn [forallb] in Hw. apply andb_true_iff in Hw as [Hwy Hw].
      rewrite more_cons. cbn [app]. rewrite <- app_assoc.
      destruct (ev_XT_step y (more ys ++ cl :: k) Hy Hwy (follow_more ys cl k Hcl)) as [k' [t [He [Hd Hv]]]].
      rewrite (dropws_more ys cl k Hcl) in Hd.
      destruct (ev_more_rep ys cl k Hys Hw Hcl H44 k' Hd) as [s' [ts [Hr [Hd' Hm]]]].
      exists s', (t :: ts). split; [|split; [exact Hd'|]].
      + change (t :: ts) with ([t] ++ ts). eapply ev_star_cons; [exact He | exact Hr].
      + cbn [map_opt]. now rewrite Hv, Hm.
  Qed.

  Lemma ev_components t ts cl k :
    conf t -> Forall conf ts -> wf t = true -> forallb wf ts = true -> closer cl = true -> (44 =? cl) = false ->
    exists trees,
      E (PSeq (PRef (ss "term")) (PSeq MT (PStr [cl]))) NonAtomic ((F t ++ more ts) ++ cl :: k) (POk k trees) /\
      map_opt conv trees = Some (t :: ts).
  Proof.
    intros Ht Hts Hwt Hwts Hcl H44. rewrite <- app_assoc.
    destruct (Ht (more ts ++ cl :: k) (follow_more ts cl k Hcl)) as [k1 [tr [He [Hd Hv]]]].
    rewrite (dropws_more ts cl k Hcl) in Hd.
    destruct (ev_more_star ts cl k Hts Hwts Hcl H44) as [s' [trs [Hs [Hd' Hm]]]].
    exists (tr :: trs). split.
    - replace (tr :: trs) with ([tr] ++ [] ++ (trs ++ [] ++ [])) by (cbn [app]; now rewrite app_nil_r).
      eapply ev_seq_ok; [exact He | |].
      + pose proof (ev_skip_na k1) as Hk. rewrite Hd in Hk. exact Hk.
      + eapply ev_seq_ok; [exact Hs | | apply ev_lit1_ok].
        pose proof (ev_skip_na s') as Hk. rewrite Hd' in Hk. exact Hk.
    - cbn [map_opt]. now rewrite Hv, Hm.
  Qed.

  (* conversion of the nodes *)
  Lemma conv_compound txt0 txt c trees :
    conv (Node (ss "term") txt0 [Node (ss "compound") (40 :: txt) (Node (ss "connecter") c [] :: trees)]) =
    match map_opt conv trees with Some xs => Some (LCompound c xs) | None => None end.
  Proof. reflexivity. Qed.
  Lemma conv_set_ext txt0 txt trees :
    conv (Node (ss "term") txt0 [Node (ss "compound") (123 :: txt) trees]) =
    match map_opt conv trees with Some xs => Some (LSet [123] xs [125]) | None => None end.
  Proof. reflexivity. Qed.
  Lemma conv_set_int txt0 txt trees :
    conv (Node (ss "term") txt0 [Node (ss "compound") (91 :: txt) trees]) =
    match map_opt conv trees with Some xs => Some (LSet [91] xs [93]) | None => None end.
  Proof. reflexivity. Qed.
  Lemma conv_statement txt0 txt a c b :
    conv (Node (ss "term") txt0 [Node (ss "statement") txt [a; Node (ss "copula") c []; b]]) =
    match conv a, conv b with Some x, Some y => Some (LStatement c x y) | _, _ => None end.
  Proof. reflexivity. Qed.

  (* a compound or statement node under `term`: the statement alternative fails unless the text starts with `<` *)
  Lemma ev_term_compound s k t :
    head_is 60 s = false -> E (PRef (ss "compound")) NonAtomic s (POk k [t]) ->
    E (PRef (ss "term")) NonAtomic s (POk k [Node (ss "term") (consumed s k) [t]]).
  Proof.
    intros Hh Hc.
    exact (ev_ref ucls G n0 (ss "term") _ NonAtomic s _ eq_refl
             (ev_choice_r _ _ _ _ _ _ _ _ (ev_statement_fail s Hh) (ev_choice_l _ _ _ _ _ _ _ _ _ Hc))).
  Qed.
  Lemma ev_term_statement s k t :
    E (PRef (ss "statement")) NonAtomic s (POk k [t]) ->
    E (PRef (ss "term")) NonAtomic s (POk k [Node (ss "term") (consumed s k) [t]]).
  Proof.
    intros Hc. exact (ev_ref ucls G n0 (ss "term") _ NonAtomic s _ eq_refl (ev_choice_l _ _ _ _ _ _ _ _ _ Hc)).
  Qed.

  Lemma conf_compound c ts : wf (LCompound c ts) = true -> Forall conf ts -> conf (LCompound c ts).
  Proof.
    cbn [lterm_wf]. intros H Hts k Hk.
    apply andb_true_iff in H as [H Hw]. apply andb_true_iff in H as [Hc Hne].
    destruct ts as [|t ts]; [discriminate|]. cbn [forallb] in Hw. apply andb_true_iff in Hw as [Hwt Hwts].
    inversion Hts as [|? ? Ht Hts']; subst.
    apply connecters_ok in Hc. destruct c as [|a cs]; [discriminate|]. cbn [conn_ok] in Hc.
    apply andb_true_iff in Hc as [Hc Hcs]. apply andb_true_iff in Hc as [Ha Haw]. apply negb_true_iff in Haw.
    destruct (ev_components t ts 41 k Ht Hts' Hwt Hwts eq_refl eq_refl) as [trees [He Hm]].
    rewrite F_compound.
    set (inner := (F t ++ more ts) ++ 41 :: k) in *.
    assert (Htxt : (40 :: (a :: cs) ++ 44 :: 32 :: (F t ++ more ts) ++ [41]) ++ k = 40 :: (a :: cs) ++ 44 :: 32 :: inner).
    { unfold inner. repeat (progress (cbn [app]; rewrite <- ?app_assoc)). reflexivity. }
    assert (Hbody : E (PSeq (PStr [40]) (PSeq (PRef (ss "connecter")) (PSeq (PStr [44])
                        (PSeq (PRef (ss "term")) (PSeq MT (PStr [41])))))) NonAtomic
                      (40 :: (a :: cs) ++ 44 :: 32 :: inner)
                      (POk k (Node (ss "connecter") (a :: cs) [] :: trees))).
    { change (Node (ss "connecter") (a :: cs) [] :: trees)
        with ([] ++ [] ++ ([Node (ss "connecter") (a :: cs) []] ++ [] ++ ([] ++ [] ++ trees))).
      eapply ev_seq_ok; [apply ev_lit1_ok | |].
      { pose proof (ev_skip_na ((a :: cs) ++ 44 :: 32 :: inner)) as Hs. cbn [app] in Hs.
        rewrite (dropws_nows a _ Haw) in Hs. exact Hs. }
      eapply ev_seq_ok; [exact (ev_connecter a cs (32 :: inner) Ha Hcs) | |].
      { pose proof (ev_skip_na (44 :: 32 :: inner)) as Hs. rewrite (dropws_closer 44 _ closer_44) in Hs. exact Hs. }
      eapply ev_seq_ok; [apply ev_lit1_ok | | exact He].
      pose proof (ev_skip_na (32 :: inner)) as Hs. rewrite (dropws_ws 32) in Hs by ascii.
      unfold inner in Hs at 2. rewrite <- app_assoc in Hs. rewrite (wf_head_nows t _ Hwt) in Hs.
      rewrite app_assoc in Hs. exact Hs. }
    rewrite Htxt.
    pose proof (ev_ref ucls G n0 (ss "compound") _ NonAtomic _ _ eq_refl (ev_choice_l _ _ _ _ _ _ _ _ _ Hbody)) as Hc'.
    cbn [pr_mod rule emits] in Hc'.
    eexists; eexists. split; [|split].
    - apply ev_term_compound; [reflexivity | exact Hc'].
    - reflexivity.
    - rewrite <- Htxt. rewrite !consumed_app. cbn [app]. rewrite conv_compound, Hm. reflexivity.
  Qed.

  (* the two sets: the alternatives before the matching one fail on the opening bracket *)
  Lemma conf_set l ts r : wf (LSet l ts r) = true -> Forall conf ts -> conf (LSet l ts r).
  Proof.
    cbn [lterm_wf]. intros H Hts k Hk.
    apply andb_true_iff in H as [H Hw]. apply andb_true_iff in H as [Hb Hne].
    destruct ts as [|t ts]; [discriminate|]. cbn [forallb] in Hw. apply andb_true_iff in Hw as [Hwt Hwts].
    inversion Hts as [|? ? Ht Hts']; subst.
    apply existsb_exists in Hb as [[l' r'] [Hin He]]. unfold pair_eqb in He. cbn [fst snd] in He.
    apply andb_true_iff in He as [Hl Hr]. apply str_eqb_eq in Hl, Hr. subst l' r'.
    rewrite F_set.
    vm_compute in Hin. destruct Hin as [Hin|[Hin|[]]]; injection Hin as <- <-.
    - (* { ... } *)
      destruct (ev_components t ts 125 k Ht Hts' Hwt Hwts eq_refl eq_refl) as [trees [He Hm]].
      set (inner := (F t ++ more ts) ++ 125 :: k) in *.
      assert (Htxt : ([123] ++ (F t ++ more ts) ++ [125]) ++ k = 123 :: inner).
      { unfold inner. repeat (progress (cbn [app ss]; rewrite <- ?app_assoc)). reflexivity. }
      assert (Hbody : E (PSeq (PStr [123]) (PSeq (PRef (ss "term")) (PSeq MT (PStr [125])))) NonAtomic
                        (123 :: inner) (POk k trees)).
      { change trees with ([] ++ [] ++ trees).
        eapply ev_seq_ok; [apply ev_lit1_ok | | exact He].
        pose proof (ev_skip_na inner) as Hs. unfold inner in Hs at 2. rewrite <- app_assoc in Hs.
        rewrite (wf_head_nows t _ Hwt) in Hs. rewrite app_assoc in Hs. exact Hs. }
      rewrite Htxt.
      assert (H1 : E (PSeq (PStr [40]) (PSeq (PRef (ss "connecter")) (PSeq (PStr [44])
                        (PSeq (PRef (ss "term")) (PSeq MT (PStr [41])))))) NonAtomic (123 :: inner) PFail)
        by (apply ev_seq_fail1, ev_lit1_fail; reflexivity).
      pose proof (ev_ref ucls G n0 (ss "compound") _ NonAtomic _ _ eq_refl
                    (ev_choice_r _ _ _ _ _ _ _ _ H1 (ev_choice_l _ _ _ _ _ _ _ _ _ Hbody))) as Hc'.
      cbn [pr_mod rule emits] in Hc'.
      eexists; eexists. split; [|split].
      + apply ev_term_compound; [reflexivity | exact Hc'].
      + reflexivity.
      + rewrite <- Htxt. rewrite !consumed_app. cbn [app ss]. rewrite conv_set_ext, Hm. reflexivity.
    - (* [ ... ] *)
      destruct (ev_components t ts 93 k Ht Hts' Hwt Hwts eq_refl eq_refl) as [trees [He Hm]].
      set (inner := (F t ++ more ts) ++ 93 :: k) in *.
      assert (Htxt : ([91] ++ (F t ++ more ts) ++ [93]) ++ k = 91 :: inner).
      { unfold inner. repeat (progress (cbn [app ss]; rewrite <- ?app_assoc)). reflexivity. }
      assert (Hbody : E (PSeq (PStr [91]) (PSeq (PRef (ss "term")) (PSeq MT (PStr [93])))) NonAtomic
                        (91 :: inner) (POk k trees)).
      { change trees with ([] ++ [] ++ trees).
        eapply ev_seq_ok; [apply ev_lit1_ok | | exact He].
        pose proof (ev_skip_na inner) as Hs. unfold inner in Hs at 2. rewrite <- app_assoc in Hs.
        rewrite (wf_head_nows t _ Hwt) in Hs. rewrite app_assoc in Hs. exact Hs. }
      rewrite Htxt.
      assert (H1 : E (PSeq (PStr [40]) (PSeq (PRef (ss "connecter")) (PSeq (PStr [44])
                        (PSeq (PRef (ss "term")) (PSeq MT (PStr [41])))))) NonAtomic (91 :: inner) PFail)
        by (apply ev_seq_fail1, ev_lit1_fail; reflexivity).
      assert (H2 : E (PSeq (PStr [123]) (PSeq (PRef (ss "term")) (PSeq MT (PStr [125])))) NonAtomic (91 :: inner) PFail)
        by (apply ev_seq_fail1, ev_lit1_fail; reflexivity).
      pose proof (ev_ref ucls G n0 (ss "compound") _ NonAtomic _ _ eq_refl
                    (ev_choice_r _ _ _ _ _ _ _ _ H1 (ev_choice_r _ _ _ _ _ _ _ _ H2 Hbody))) as Hc'.
      cbn [pr_mod rule emits] in Hc'.
      eexists; eexists. split; [|split].
      + apply ev_term_compound; [reflexivity | exact Hc'].
      + reflexivity.
      + rewrite <- Htxt. rewrite !consumed_app. cbn [app ss]. rewrite conv_set_int, Hm. reflexivity.
  Qed.

  (* statements *)
  Lemma conf_statement c s p : wf (LStatement c s p) = true -> conf s -> conf p -> conf (LStatement c s p).
  Proof.
    cbn [lterm_wf]. intros H Hs Hp k Hk.
    apply andb_true_iff in H as [H Hwp]. apply andb_true_iff in H as [Hc Hws].
    apply copulas_ok in Hc. destruct c as [|a [|b [|d [|? ?]]]]; try discriminate. cbn [copula_ok] in Hc.
    apply andb_true_iff in Hc as [Hc Hcop]. apply andb_true_iff in Hc as [Hfirst Haw]. apply negb_true_iff in Haw.
    rewrite F_statement.
    set (k2 := 62 :: k).
    set (k1 := 32 :: [a; b; d] ++ 32 :: F p ++ k2).
    assert (Htxt : (60 :: F s ++ 32 :: [a; b; d] ++ 32 :: F p ++ [62]) ++ k = 60 :: F s ++ k1).
    { unfold k1, k2. repeat (progress (cbn [app]; rewrite <- ?app_assoc)). reflexivity. }
    (* subject *)
    assert (Hf1 : follow_ok k1 = true).
    { unfold k1. cbn [follow_ok app]. rewrite N.eqb_refl, Hfirst. now rewrite orb_true_r. }
    destruct (Hs k1 Hf1) as [k1' [ts [He1 [Hd1 Hv1]]]].
    assert (Hdk1 : dropws k1 = [a; b; d] ++ 32 :: F p ++ k2).
    { unfold k1. rewrite (dropws_ws 32) by ascii. cbn [app]. apply dropws_nows, Haw. }
    rewrite Hdk1 in Hd1.
    (* predicate *)
    assert (Hf2 : follow_ok k2 = true) by reflexivity.
    destruct (Hp k2 Hf2) as [k2' [tp [He2 [Hd2 Hv2]]]].
    assert (Hdk2 : dropws k2 = k2) by (apply dropws_closer; reflexivity).
    rewrite Hdk2 in Hd2.
    assert (Hbody : E (PSeq (PStr [60]) (PSeq (PRef (ss "term")) (PSeq (PRef (ss "copula"))
                         (PSeq (PRef (ss "term")) (PStr [62]))))) NonAtomic (60 :: F s ++ k1)
                      (POk k [ts; Node (ss "copula") [a; b; d] []; tp])).
    { change [ts; Node (ss "copula") [a; b; d] []; tp]
        with ([] ++ [] ++ ([ts] ++ [] ++ ([Node (ss "copula") [a; b; d] []] ++ [] ++ ([tp] ++ [] ++ [])))).
      eapply ev_seq_ok; [apply ev_lit1_ok | |].
      { pose proof (ev_skip_na (F s ++ k1)) as Hsk. rewrite (wf_head_nows s k1 Hws) in Hsk. exact Hsk. }
      eapply ev_seq_ok; [exact He1 | |].
      { pose proof (ev_skip_na k1') as Hsk. rewrite Hd1 in Hsk. exact Hsk. }
      eapply ev_seq_ok; [apply (ev_copula_na [a; b; d] (32 :: F p ++ k2) eq_refl Hcop) | |].
      { pose proof (ev_skip_na (32 :: F p ++ k2)) as Hsk. rewrite (dropws_ws 32) in Hsk by ascii.
        rewrite (wf_head_nows p k2 Hwp) in Hsk. exact Hsk. }
      eapply ev_seq_ok; [exact He2 | | apply ev_lit1_ok].
      pose proof (ev_skip_na k2') as Hsk. rewrite Hd2 in Hsk. exact Hsk. }
    rewrite Htxt.
    pose proof (ev_ref ucls G n0 (ss "statement") _ NonAtomic _ _ eq_refl Hbody) as Hc'.
    cbn [pr_mod rule emits] in Hc'.
    eexists; eexists. split; [|split].
    - apply ev_term_statement. exact Hc'.
    - reflexivity.
    - rewrite conv_statement, Hv1, Hv2. reflexivity.
  Qed.

  (* ---------------------------------------------------------------------------------------- *)
  (* all well-formed lexical terms                                                              *)
  (* ---------------------------------------------------------------------------------------- *)
  Lemma forall_conf (ts : list lterm) :
    Forall (fun y => wf y = true -> conf y) ts -> forallb wf ts = true -> Forall conf ts.
  Proof.
    induction 1 as [|y ys Hy Hys IH]; [constructor|]. cbn [forallb]. intros H.
    apply andb_true_iff in H as [H1 H2]. constructor; auto.
  Qed.

  Fixpoint lterm_ind' (P : lterm -> Prop)
      (HA : forall p n, P (LAtom p n))
      (HC : forall c ts, Forall P ts -> P (LCompound c ts))
      (HS : forall l ts r, Forall P ts -> P (LSet l ts r))
      (HT : forall c s p, P s -> P p -> P (LStatement c s p)) (x : lterm) : P x :=
    let fix go (l : list lterm) : Forall P l :=
      match l with
      | [] => Forall_nil P
      | y :: l' => Forall_cons y (lterm_ind' P HA HC HS HT y) (go l')
      end in
    match x with
    | LAtom p n => HA p n
    | LCompound c ts => HC c ts (go ts)
    | LSet l ts r => HS l ts r (go ts)
    | LStatement c s p => HT c s p (lterm_ind' P HA HC HS HT s) (lterm_ind' P HA HC HS HT p)
    end.

  Theorem conf_all x : wf x = true -> conf x.
  Proof.
    induction x as [p n|c ts IH|l ts r IH|c s p IHs IHp] using lterm_ind'; intros Hw.
    - now apply conf_atom.
    - apply conf_compound; [exact Hw|]. apply forall_conf; [exact IH|].
      cbn [lterm_wf] in Hw. apply andb_true_iff in Hw as [_ Hw]. exact Hw.
    - apply conf_set; [exact Hw|]. apply forall_conf; [exact IH|].
      cbn [lterm_wf] in Hw. apply andb_true_iff in Hw as [_ Hw]. exact Hw.
    - pose proof Hw as Hw'. cbn [lterm_wf] in Hw'. apply andb_true_iff in Hw' as [Hw' Hwp].
      apply andb_true_iff in Hw' as [_ Hws]. apply conf_statement; auto.
  Qed.

  (* ---------------------------------------------------------------------------------------- *)
  (* the entry rule: a formatted term is classified as a term                                   *)
  (* ---------------------------------------------------------------------------------------- *)
  (* e+ in atomic context for a single-character matcher: the maximal run of matching characters *)
  Lemma ev_rep_ctest e f ds r :
    ctest e f -> forallb f ds = true -> match r with [] => true | c :: _ => negb (f c) end = true ->
    Erep e Atomic (ds ++ r) (POk r []).
  Proof.
    intros He. induction ds as [|d ds IH]; cbn [forallb app]; intros Hd Hr.
    - eapply ev_rep_nil; [apply ev_skip_atomic|]. pose proof (He r) as H. destruct r as [|c r']; [exact H|].
      apply negb_true_iff in Hr. now rewrite Hr in H.
    - apply andb_true_iff in Hd as [Hd Hds]. pose proof (He (d :: ds ++ r)) as H. cbn beta iota in H. rewrite Hd in H.
      change (POk r []) with (POk r ([] ++ [] ++ [])).
      eapply ev_rep_cons; [apply ev_skip_atomic | exact H | now apply IH].
  Qed.
  Lemma ev_plus_ctest e f d ds r :
    ctest e f -> f d = true -> forallb f ds = true -> match r with [] => true | c :: _ => negb (f c) end = true ->
    E (PPlus e) Atomic ((d :: ds) ++ r) (POk r []).
  Proof.
    intros He Hd Hds Hr. apply ev_plus. pose proof (He ((d :: ds) ++ r)) as H. cbn [app] in H. cbn beta iota in H.
    rewrite Hd in H. change (POk r []) with (POk r ([] ++ [] ++ [])).
    eapply ev_seq_ok; [exact H | apply ev_skip_atomic |].
    destruct ds as [|d2 ds].
    - cbn [app]. apply ev_star_nil. pose proof (He r) as H2. destruct r as [|c r']; [exact H2|].
      apply negb_true_iff in Hr. now rewrite Hr in H2.
    - cbn [forallb app] in *. apply andb_true_iff in Hds as [Hd2 Hds].
      pose proof (He (d2 :: ds ++ r)) as H2. cbn beta iota in H2. rewrite Hd2 in H2.
      change (POk r []) with (POk r ([] ++ [])). eapply ev_star_cons; [exact H2 | exact (ev_rep_ctest e f ds r He Hds Hr)].
  Qed.
  Lemma ev_plus_ctest_fail e f r :
    ctest e f -> match r with [] => true | c :: _ => negb (f c) end = true -> E (PPlus e) Atomic r PFail.
  Proof.
    intros He Hr. apply ev_plus, ev_seq_fail1. pose proof (He r) as H. destruct r as [|c r']; [exact H|].
    apply negb_true_iff in Hr. now rewrite Hr in H.
  Qed.

  (* truth_budget_term = @{ (ASCII_DIGIT | ".")+ } *)
  Definition numc (c : N) : bool := ucls UAsciiDigit c || (46 =? c).
  Lemma ctest_numc : ctest (PChoice (PClass UAsciiDigit) (PStr [46])) numc.
  Proof. apply (ctest_choice _ _ _ _ (ctest_class UAsciiDigit) (ctest_lit 46)). Qed.
  Definition not_numc_head (r : str) : bool := match r with [] => true | c :: _ => negb (numc c) end.

  Lemma ev_tbt d ds r :
    numc d = true -> forallb numc ds = true -> not_numc_head r = true ->
    E (PRef (ss "truth_budget_term")) NonAtomic ((d :: ds) ++ r) (POk r [Node (ss "truth_budget_term") (d :: ds) []]).
  Proof.
    intros Hd Hds Hr.
    pose proof (ev_ref ucls G n0 (ss "truth_budget_term") _ NonAtomic ((d :: ds) ++ r) _ eq_refl
                  (ev_plus_ctest _ _ d ds r ctest_numc Hd Hds Hr)) as H.
    cbn [pr_mod rule emits] in H. now rewrite consumed_app in H.
  Qed.
  Lemma ev_tbt_fail r : not_numc_head r = true -> E (PRef (ss "truth_budget_term")) NonAtomic r PFail.
  Proof.
    intros Hr. exact (ev_ref ucls G n0 (ss "truth_budget_term") _ NonAtomic r _ eq_refl
                        (ev_plus_ctest_fail _ _ r ctest_numc Hr)).
  Qed.

  (* the longest prefix of characters satisfying f *)
  Fixpoint span (f : N -> bool) (s : str) : str * str :=
    match s with
    | c :: r => if f c then let (a, b) := span f r in (c :: a, b) else ([], s)
    | [] => ([], [])
    end.
  Lemma span_spec f s :
    s = fst (span f s) ++ snd (span f s) /\ forallb f (fst (span f s)) = true /\
    match snd (span f s) with [] => true | c :: _ => negb (f c) end = true /\
    (exists p, s = p ++ snd (span f s)).
  Proof.
    induction s as [|c r [H1 [H2 [H3 [p H4]]]]]; cbn [span]; [repeat split; exists []; reflexivity|].
    destruct (f c) eqn:Hc.
    - destruct (span f r) as [a b]. cbn [fst snd] in *. repeat split.
      + now rewrite H1 at 1.
      + cbn [forallb]. now rewrite Hc, H2.
      + exact H3.
      + exists (c :: p). cbn [app]. now rewrite H4 at 1.
    - cbn [fst snd app forallb]. rewrite Hc. repeat split. exists []. reflexivity.
  Qed.

  (* a suffix of a list of atom characters *)
  Lemma forallb_suffix (f : N -> bool) p s : forallb f (p ++ s) = true -> forallb f s = true.
  Proof. rewrite forallb_app. intros H. apply andb_true_iff in H as [_ H]. exact H. Qed.

  Lemma atom_head_facts r :
    forallb atom_charb r = true ->
    head_is 59 r = false /\ head_is 36 r = false /\ dropws r = r.
  Proof.
    destruct r as [|c r]; [repeat split|]. cbn [forallb]. intros H. apply andb_true_iff in H as [Hc _].
    assert (Hn : forall x, atom_charb x = false -> (x =? c) = false).
    { intros x Hx. destruct (N.eqb_spec x c) as [->|]; [congruence | reflexivity]. }
    cbn [head_is]. rewrite (Hn 59), (Hn 36) by ascii. repeat split. apply dropws_nows, atom_not_ws, Hc.
  Qed.

  (* budget = { "$" ~ budget_content ~ "$" } fails on `$name` *)
  Lemma ev_budget_fail_var c rest :
    atom_charb c = true -> forallb atom_charb rest = true ->
    E (PRef (ss "budget")) NonAtomic (36 :: c :: rest) PFail.
  Proof.
    intros Hc Hrest. set (name := c :: rest).
    assert (Hall : forallb atom_charb name = true) by (unfold name; cbn [forallb]; now rewrite Hc, Hrest).
    destruct (span_spec numc name) as [Hsp [Hds [Hr [p Hp]]]].
    set (ds := fst (span numc name)) in *. set (r := snd (span numc name)) in *.
    assert (Hrall : forallb atom_charb r = true) by (rewrite Hp in Hall; exact (forallb_suffix _ _ _ Hall)).
    destruct (atom_head_facts r Hrall) as [H59 [H36 Hdw]].
    destruct (atom_head_facts name Hall) as [_ [H36n Hdwn]].
    (* budget_content leaves r (some digits consumed) or the whole name (none) *)
    assert (Hcontent : exists rest' kids, (rest' = r \/ rest' = name) /\
              E (PRef (ss "budget_content")) NonAtomic name (POk rest' kids)).
    { destruct ds as [|d ds'] eqn:Hdse.
      - (* no number: the "" alternative *)
        exists name. eexists. split; [now right|].
        assert (Hnl : E number_list NonAtomic name PFail).
        { apply ev_seq_fail1, ev_tbt_fail. cbn [app] in Hsp. rewrite Hsp. exact Hr. }
        pose proof (ev_ref ucls G n0 (ss "budget_content") _ NonAtomic name _ eq_refl
                      (ev_choice_r _ _ _ _ _ _ _ _ Hnl (ev_str ucls G n0 [] NonAtomic name))) as H.
        cbn [pr_mod rule emits starts length drop] in H. exact H.
      - exists r. eexists. split; [now left|].
        cbn [forallb] in Hds. apply andb_true_iff in Hds as [Hd Hds].
        assert (Hnl : E number_list NonAtomic name
                        (POk r ([Node (ss "truth_budget_term") (d :: ds') []] ++ [] ++ ([] ++ [] ++ [])))).
        { rewrite Hsp. eapply ev_seq_ok; [exact (ev_tbt d ds' r Hd Hds Hr) | |].
          { pose proof (ev_skip_na r) as Hs. rewrite Hdw in Hs. exact Hs. }
          eapply ev_seq_ok; [apply ev_star_nil, ev_seq_fail1, ev_lit1_fail, H59 | |
                             apply ev_star_nil, ev_lit1_fail, H59].
          pose proof (ev_skip_na r) as Hs. rewrite Hdw in Hs. exact Hs. }
        pose proof (ev_ref ucls G n0 (ss "budget_content") _ NonAtomic name _ eq_refl
                      (ev_choice_l _ _ _ _ _ _ _ _ _ Hnl)) as H.
        cbn [pr_mod rule emits] in H. exact H. }
    destruct Hcontent as [rest' [kids [Hrest' Hbc]]].
    refine (ev_ref ucls G n0 (ss "budget") _ NonAtomic (36 :: name) PFail eq_refl _).
    eapply ev_seq_fail2; [apply ev_lit1_ok | |].
    { pose proof (ev_skip_na name) as Hs. rewrite Hdwn in Hs. exact Hs. }
    eapply ev_seq_fail2; [exact Hbc | |].
    - destruct Hrest' as [->| ->]; [pose proof (ev_skip_na r) as Hs; rewrite Hdw in Hs | pose proof (ev_skip_na name) as Hs; rewrite Hdwn in Hs]; exact Hs.
    - destruct Hrest' as [->| ->]; apply ev_lit1_fail; assumption.
  Qed.

  (* task = { budget ~ sentence } fails on every formatted term *)
  Lemma ev_task_fail_term x : wf x = true -> E (PRef (ss "task")) NonAtomic (F x) PFail.
  Proof.
    intros Hw. refine (ev_ref ucls G n0 (ss "task") _ NonAtomic (F x) PFail eq_refl _). apply ev_seq_fail1.
    assert (Hlit : forall s, head_is 36 s = false -> E (PRef (ss "budget")) NonAtomic s PFail).
    { intros s Hs. refine (ev_ref ucls G n0 (ss "budget") _ NonAtomic s PFail eq_refl _).
      apply ev_seq_fail1, ev_lit1_fail, Hs. }
    destruct x as [p n|c ts|l ts r|c s p]; cbn [lterm_wf] in Hw.
    - apply orb_true_iff in Hw as [H|H].
      + apply andb_true_iff in H as [Hp Hn]. apply str_eqb_eq in Hp, Hn. subst p n. apply Hlit. reflexivity.
      + apply andb_true_iff in H as [Hp Hn]. destruct (name_shape n Hn) as [c [rest [-> [Hc [_ [Hr _]]]]]].
        apply orb_true_iff in Hp as [Hp|Hp].
        * apply str_eqb_eq in Hp. subst p. cbn [lfmt_term app]. apply Hlit. cbn [head_is].
          destruct (N.eqb_spec 36 c) as [<-|]; [|reflexivity]. assert (atom_charb 36 = false) by ascii. congruence.
        * apply str_mem_In in Hp. vm_compute in Hp.
          destruct Hp as [<-|[<-|[<-|[<-|[<-|[]]]]]]; cbn [lfmt_term app];
            try (apply Hlit; reflexivity).
          exact (ev_budget_fail_var c rest Hc Hr).
    - apply andb_true_iff in Hw as [Hw _]. apply andb_true_iff in Hw as [_ Hne].
      destruct ts as [|t ts]; [discriminate|]. rewrite F_compound. apply Hlit. reflexivity.
    - apply andb_true_iff in Hw as [Hw _]. apply andb_true_iff in Hw as [Hb Hne].
      destruct ts as [|t ts]; [discriminate|]. rewrite F_set.
      apply existsb_exists in Hb as [[l' r'] [Hin He]]. unfold pair_eqb in He. cbn [fst snd] in He.
      apply andb_true_iff in He as [Hl Hr]. apply str_eqb_eq in Hl, Hr. subst l' r'.
      vm_compute in Hin. destruct Hin as [Hin|[Hin|[]]]; injection Hin as <- <-; apply Hlit; reflexivity.
    - rewrite F_statement. apply Hlit. reflexivity.
  Qed.

  (* punctuation = { PUNCTUATION | SYMBOL } fails at the end of the input *)
  Lemma ev_punctuation_eoi : E (PRef (ss "punctuation")) NonAtomic [] PFail.
  Proof.
    refine (ev_ref ucls G n0 (ss "punctuation") _ NonAtomic [] PFail eq_refl _).
    apply ev_choice_r; apply (ev_class ucls G n0 _ NonAtomic []).
  Qed.

  (* the node of a `term` call *)
  Lemma term_node s k' t : E (PRef (ss "term")) NonAtomic s (POk k' [t]) -> tree_rule t = ss "term".
  Proof.
    intros [n H]. specialize (H (S n) (Nat.le_succ_diag_r n)). rewrite run_ref in H.
    change (find_rule G (ss "term")) with (Some (rule "term" MNormal (ref "statement" |/ ref "compound" |/ ref "atom")%peg)) in H.
    cbn [pr_mod pr_body rule emits] in H.
    destruct (run ucls G n0 n _ _ s); try discriminate. injection H as _ <-. reflexivity.
  Qed.

  Theorem narsese_term x :
    wf x = true ->
    exists k' txt t, E (PRef (ss "narsese")) NonAtomic (F x) (POk k' [Node (ss "narsese") txt [t]]) /\
                     dropws k' = [] /\ tree_rule t = ss "term" /\ conv t = Some x.
  Proof.
    intros Hw. destruct (conf_all x Hw [] eq_refl) as [k' [t [He [Hd Hv]]]]. rewrite app_nil_r in He.
    exists k'. eexists. exists t. split; [|split; [exact Hd | split; [exact (term_node _ _ _ He) | exact Hv]]].
    assert (Hsent : E (PRef (ss "sentence")) NonAtomic (F x) PFail).
    { refine (ev_ref ucls G n0 (ss "sentence") _ NonAtomic (F x) PFail eq_refl _).
      eapply ev_seq_fail2; [exact He | | apply ev_seq_fail1, ev_punctuation_eoi].
      pose proof (ev_skip_na k') as Hs. rewrite Hd in Hs. exact Hs. }
    pose proof (ev_ref ucls G n0 (ss "narsese") _ NonAtomic (F x) _ eq_refl
                  (ev_choice_r _ _ _ _ _ _ _ _ (ev_task_fail_term x Hw)
                     (ev_choice_r _ _ _ _ _ _ _ _ Hsent He))) as H.
    cbn [pr_mod rule emits] in H. exact H.
  Qed.

  (* ======================================================================================== *)
  (* sentences and tasks                                                                        *)
  (* ======================================================================================== *)
  Definition suffix_of (r s : str) : Prop := exists p, s = p ++ r.
  Lemma suffix_refl s : suffix_of s s. Proof. now exists []. Qed.
  Lemma suffix_trans a b c : suffix_of a b -> suffix_of b c -> suffix_of a c.
  Proof. intros [p ->] [q ->]. exists (q ++ p). now rewrite app_assoc. Qed.
  Lemma suffix_cons c s : suffix_of s (c :: s). Proof. now exists [c]. Qed.
  Lemma suffix_dropws s : suffix_of (dropws s) s.
  Proof. destruct (dropws_split s) as [w [H _]]. now exists w. Qed.
  Lemma suffix_len r s : suffix_of r s -> (length r <= length s)%nat.
  Proof. intros [p ->]. rewrite app_length. lia. Qed.
  Lemma memb_app c a b : memb c (a ++ b) = memb c a || memb c b.
  Proof. induction a as [|x a IH]; cbn [memb app]; [reflexivity|]. now rewrite IH, orb_assoc. Qed.
  Lemma suffix_memb c r s : suffix_of r s -> memb c s = false -> memb c r = false.
  Proof. intros [p ->]. rewrite memb_app. intros H. now apply orb_false_iff in H as [_ H]. Qed.
  Lemma memb_head c s : memb c s = false -> head_is c s = false.
  Proof. destruct s as [|x s]; [reflexivity|]. cbn [memb head_is]. intros H. now apply orb_false_iff in H as [H _]. Qed.

  Notation XN := (PSeq (PStr [59]) (PRef (ss "truth_budget_term"))).     (* ";" ~ truth_budget_term *)
  Notation tbt := (PRef (ss "truth_budget_term")).

  (* ---- totality on arbitrary input (needed to show that `task` FAILS on sentences and terms) ---- *)
  Lemma tbt_total s :
    E tbt NonAtomic s PFail \/
    exists r t, E tbt NonAtomic s (POk r [t]) /\ suffix_of r s /\ (length r < length s)%nat.
  Proof.
    destruct (span_spec numc s) as [Hsp [Hds [Hr _]]].
    set (r := snd (span numc s)) in *. clearbody r.
    destruct (fst (span numc s)) as [|d ds].
    - left. cbn [app] in Hsp. subst s. apply ev_tbt_fail. exact Hr.
    - right. cbn [forallb] in Hds. apply andb_true_iff in Hds as [Hd Hds]. subst s.
      exists r. eexists. split; [exact (ev_tbt d ds r Hd Hds Hr)|]. split; [now exists (d :: ds)|].
      cbn [app length]. rewrite app_length. lia.
  Qed.

  Lemma rep_semis_total : forall n s, (length s <= n)%nat ->
    exists r, Erep (PStr [59]) NonAtomic s (POk r []) /\ suffix_of r s.
  Proof.
    induction n as [|n IH]; intros s Hl.
    - destruct s; [|cbn [length] in Hl; lia]. exists []. split; [|apply suffix_refl].
      eapply ev_rep_nil; [apply ev_skip_na | apply ev_lit1_fail; reflexivity].
    - pose proof (suffix_len _ _ (suffix_dropws s)) as Hdl.
      destruct (dropws s) as [|c s2] eqn:Hd.
      + exists s. split; [|apply suffix_refl]. eapply ev_rep_nil; [apply ev_skip_na|]. rewrite Hd. apply ev_lit1_fail. reflexivity.
      + destruct (N.eqb_spec 59 c) as [<-|Hne].
        * cbn [length] in Hdl. destruct (IH s2 ltac:(lia)) as [r [Hr Hs]]. exists r. split.
          -- change (@nil tree) with (@nil tree ++ [] ++ []).
             eapply ev_rep_cons; [apply ev_skip_na | rewrite Hd; apply ev_lit1_ok | exact Hr].
          -- eapply suffix_trans; [exact Hs|]. eapply suffix_trans; [apply (suffix_cons 59 s2)|]. rewrite <- Hd. apply suffix_dropws.
        * exists s. split; [|apply suffix_refl]. eapply ev_rep_nil; [apply ev_skip_na|]. rewrite Hd.
          apply ev_lit1_fail. cbn [head_is]. now apply N.eqb_neq.
  Qed.

  Lemma star_semis_total s : exists r, E (PStar (PStr [59])) NonAtomic s (POk r []) /\ suffix_of r s.
  Proof.
    destruct s as [|c s2].
    - exists []. split; [|apply suffix_refl]. apply ev_star_nil, ev_lit1_fail. reflexivity.
    - destruct (N.eqb_spec 59 c) as [<-|Hne].
      + destruct (rep_semis_total (length s2) s2 (Nat.le_refl _)) as [r [Hr Hs]]. exists r. split.
        * change (@nil tree) with (@nil tree ++ []). eapply ev_star_cons; [apply ev_lit1_ok | exact Hr].
        * eapply suffix_trans; [exact Hs | apply suffix_cons].
      + exists (c :: s2). split; [|apply suffix_refl]. apply ev_star_nil, ev_lit1_fail. cbn [head_is]. now apply N.eqb_neq.
  Qed.

  (* one attempt at `";" ~ truth_budget_term`: fails, or succeeds leaving a strictly shorter input *)
  Lemma XN_total s :
    E XN NonAtomic s PFail \/
    exists r t, E XN NonAtomic s (POk r [t]) /\ suffix_of r s /\ (length r < length s)%nat.
  Proof.
    destruct s as [|c s2]; [left; apply ev_seq_fail1, ev_lit1_fail; reflexivity|].
    destruct (N.eqb_spec 59 c) as [<-|Hne].
    2:{ left. apply ev_seq_fail1, ev_lit1_fail. cbn [head_is]. now apply N.eqb_neq. }
    pose proof (suffix_len _ _ (suffix_dropws s2)) as Hdl.
    destruct (tbt_total (dropws s2)) as [Hf|[r [t [Ht [Hs Hlen]]]]].
    - left. eapply ev_seq_fail2; [apply ev_lit1_ok | apply ev_skip_na | exact Hf].
    - right. exists r, t. split; [|split].
      + change [t] with ([] ++ [] ++ [t]). eapply ev_seq_ok; [apply ev_lit1_ok | apply ev_skip_na | exact Ht].
      + eapply suffix_trans; [exact Hs|]. eapply suffix_trans; [apply suffix_dropws | apply suffix_cons].
      + cbn [length]. lia.
  Qed.

  Lemma rep_XN_total : forall n s, (length s <= n)%nat ->
    exists r kids, Erep XN NonAtomic s (POk r kids) /\ suffix_of r s.
  Proof.
    induction n as [|n IH]; intros s Hl.
    - destruct s; [|cbn [length] in Hl; lia]. exists [], []. split; [|apply suffix_refl].
      eapply ev_rep_nil; [apply ev_skip_na | apply ev_seq_fail1, ev_lit1_fail; reflexivity].
    - pose proof (suffix_len _ _ (suffix_dropws s)) as Hdl.
      destruct (XN_total (dropws s)) as [Hf|[r [t [Ht [Hs Hlen]]]]].
      + exists s, []. split; [|apply suffix_refl]. eapply ev_rep_nil; [apply ev_skip_na | exact Hf].
      + destruct (IH r ltac:(lia)) as [r2 [kids [Hr Hs2]]]. exists r2. eexists. split.
        * eapply ev_rep_cons; [apply ev_skip_na | exact Ht | exact Hr].
        * eapply suffix_trans; [exact Hs2|]. eapply suffix_trans; [exact Hs | apply suffix_dropws].
  Qed.

  Lemma star_XN_total s : exists r kids, E (PStar XN) NonAtomic s (POk r kids) /\ suffix_of r s.
  Proof.
    destruct (XN_total s) as [Hf|[r [t [Ht [Hs Hlen]]]]].
    - exists s, []. split; [|apply suffix_refl]. now apply ev_star_nil.
    - destruct (rep_XN_total (length r) r (Nat.le_refl _)) as [r2 [kids [Hr Hs2]]]. exists r2. eexists. split.
      + eapply ev_star_cons; [exact Ht | exact Hr].
      + eapply suffix_trans; [exact Hs2 | exact Hs].
  Qed.

  Lemma number_list_total s :
    E number_list NonAtomic s PFail \/ exists r kids, E number_list NonAtomic s (POk r kids) /\ suffix_of r s.
  Proof.
    destruct (tbt_total s) as [Hf|[r [t [Ht [Hs _]]]]]; [left; now apply ev_seq_fail1|]. right.
    destruct (star_XN_total (dropws r)) as [r2 [k2 [H2 Hs2]]].
    destruct (star_semis_total (dropws r2)) as [r3 [H3 Hs3]].
    exists r3. eexists. split.
    - eapply ev_seq_ok; [exact Ht | apply ev_skip_na |].
      eapply ev_seq_ok; [exact H2 | apply ev_skip_na | exact H3].
    - eapply suffix_trans; [exact Hs3|]. eapply suffix_trans; [apply suffix_dropws|].
      eapply suffix_trans; [exact Hs2|]. eapply suffix_trans; [apply suffix_dropws | exact Hs].
  Qed.

  Lemma budget_content_total s :
    exists r t, E (PRef (ss "budget_content")) NonAtomic s (POk r [t]) /\ suffix_of r s.
  Proof.
    destruct (number_list_total s) as [Hf|[r [kids [Hn Hs]]]].
    - exists s. eexists. split; [|apply suffix_refl].
      pose proof (ev_ref ucls G n0 (ss "budget_content") _ NonAtomic s _ eq_refl
                    (ev_choice_r _ _ _ _ _ _ _ _ Hf (ev_str ucls G n0 [] NonAtomic s))) as H.
      cbn [pr_mod rule emits starts length drop] in H. exact H.
    - exists r. eexists. split; [|exact Hs].
      pose proof (ev_ref ucls G n0 (ss "budget_content") _ NonAtomic s _ eq_refl (ev_choice_l _ _ _ _ _ _ _ _ _ Hn)) as H.
      cbn [pr_mod rule emits] in H. exact H.
  Qed.

  (* budget = { "$" ~ budget_content ~ "$" } cannot close when no further `$` follows *)
  Lemma ev_budget_fail_nodollar s : memb 36 s = false -> E (PRef (ss "budget")) NonAtomic (36 :: s) PFail.
  Proof.
    intros Hm. destruct (budget_content_total (dropws s)) as [r [t [Hb Hs]]].
    refine (ev_ref ucls G n0 (ss "budget") _ NonAtomic (36 :: s) PFail eq_refl _).
    eapply ev_seq_fail2; [apply ev_lit1_ok | apply ev_skip_na |].
    eapply ev_seq_fail2; [exact Hb | apply ev_skip_na |].
    apply ev_lit1_fail, memb_head.
    eapply suffix_memb; [|exact Hm].
    eapply suffix_trans; [apply suffix_dropws|]. eapply suffix_trans; [exact Hs | apply suffix_dropws].
  Qed.

  Definition one_dollar (s : str) : bool := match s with 36 :: s' => negb (memb 36 s') | _ => true end.

  Lemma ev_task_fail s : one_dollar s = true -> E (PRef (ss "task")) NonAtomic s PFail.
  Proof.
    intros H. refine (ev_ref ucls G n0 (ss "task") _ NonAtomic s PFail eq_refl _). apply ev_seq_fail1.
    destruct s as [|c s'].
    { refine (ev_ref ucls G n0 (ss "budget") _ NonAtomic [] PFail eq_refl _). apply ev_seq_fail1, ev_lit1_fail. reflexivity. }
    destruct (N.eqb_spec 36 c) as [<-|Hne].
    - cbn [one_dollar] in H. apply negb_true_iff in H. now apply ev_budget_fail_nodollar.
    - refine (ev_ref ucls G n0 (ss "budget") _ NonAtomic (c :: s') PFail eq_refl _).
      apply ev_seq_fail1, ev_lit1_fail. cbn [head_is]. now apply N.eqb_neq.
  Qed.

  Lemma one_dollar_neq c s : 36 <> c -> one_dollar (c :: s) = true.
  Proof.
    intros H. unfold one_dollar. destruct c as [|p]; [reflexivity|].
    repeat (destruct p as [p|p|]; try reflexivity). exfalso. apply H. reflexivity.
  Qed.

  (* the text of a well-formed term followed by text without `$` contains at most the leading `$` *)
  Lemma forallb_atom_no36 n : forallb atom_charb n = true -> memb 36 n = false.
  Proof.
    induction n as [|c n IH]; [reflexivity|]. cbn [forallb memb]. intros H. apply andb_true_iff in H as [Hc H].
    rewrite (IH H), orb_false_r. destruct (N.eqb_spec 36 c) as [<-|]; [|reflexivity].
    assert (atom_charb 36 = false) by ascii. congruence.
  Qed.

  Lemma term_text_one_dollar x k : wf x = true -> memb 36 k = false -> one_dollar (F x ++ k) = true.
  Proof.
    intros Hw Hk. destruct x as [p n|c ts|l ts r|c s p]; cbn [lterm_wf] in Hw.
    - apply orb_true_iff in Hw as [H|H].
      + apply andb_true_iff in H as [Hp Hn]. apply str_eqb_eq in Hp, Hn. subst p n. reflexivity.
      + apply andb_true_iff in H as [Hp Hn]. destruct (name_shape n Hn) as [c [rest [-> [Hc [_ [_ [_ [_ Hall]]]]]]]].
        apply orb_true_iff in Hp as [Hp|Hp].
        * apply str_eqb_eq in Hp. subst p. cbn [lfmt_term app one_dollar].
          destruct (N.eqb_spec 36 c) as [<-|Hne].
          -- assert (atom_charb 36 = false) by ascii. congruence.
          -- now apply one_dollar_neq.
        * apply str_mem_In in Hp. vm_compute in Hp.
          destruct Hp as [<-|[<-|[<-|[<-|[<-|[]]]]]]; cbn [lfmt_term app one_dollar]; try reflexivity.
          apply negb_true_iff. change (c :: rest ++ k) with ((c :: rest) ++ k). rewrite (memb_app 36 (c :: rest) k), Hk, orb_false_r. exact (forallb_atom_no36 _ Hall).
    - apply andb_true_iff in Hw as [Hw _]. apply andb_true_iff in Hw as [_ Hne].
      destruct ts as [|t ts]; [discriminate|]. rewrite F_compound. reflexivity.
    - apply andb_true_iff in Hw as [Hw _]. apply andb_true_iff in Hw as [Hb Hne].
      destruct ts as [|t ts]; [discriminate|]. rewrite F_set.
      apply existsb_exists in Hb as [[l' r'] [Hin He]]. unfold pair_eqb in He. cbn [fst snd] in He.
      apply andb_true_iff in He as [Hl Hr]. apply str_eqb_eq in Hl, Hr. subst l' r'.
      vm_compute in Hin. destruct Hin as [Hin|[Hin|[]]]; injection Hin as <- <-; reflexivity.
    - rewrite F_statement. reflexivity.
  Qed.

  Lemma ev_kids e a s r k1 k2 : E e a s (POk r k1) -> k1 = k2 -> E e a s (POk r k2).
  Proof. now intros H <-. Qed.

  (* ---- numbers: truth_budget_term ~ (";" ~ truth_budget_term)* ~ ";"* on a printed list ---- *)
  Definition tbt_node (m : str) : tree := Node (ss "truth_budget_term") m [].
  Definition nums_text (n : str) (ns : list str) : str := n ++ concat (map (fun m => 59 :: m) ns).

  Lemma digit_cases c : is_ascii_digit c = true -> In c [48; 49; 50; 51; 52; 53; 54; 55; 56; 57].
  Proof.
    unfold is_ascii_digit. intros H. apply andb_true_iff in H as [H1 H2]. apply N.leb_le in H1, H2.
    cbn [In]. lia.
  Qed.

  Lemma num_char_facts c : num_char c = true -> numc c = true /\ isws c = false /\ (36 =? c) = false.
  Proof.
    unfold num_char. intros H. apply orb_true_iff in H as [H|H].
    - apply digit_cases in H. cbn [In] in H.
      repeat (destruct H as [<-|H]; [unfold numc; repeat split; ascii|]). destruct H.
    - apply N.eqb_eq in H. subst c. unfold numc. repeat split; ascii.
  Qed.

  Lemma num_ok_shape m :
    num_ok m = true ->
    exists d ds, m = d :: ds /\ numc d = true /\ forallb numc ds = true /\ isws d = false /\ memb 36 m = false.
  Proof.
    unfold num_ok. destruct m as [|d ds]; [discriminate|]. intros H. exists d, ds.
    assert (Hall : forall l, forallb num_char l = true -> forallb numc l = true /\ memb 36 l = false).
    { induction l as [|c l IH]; [split; reflexivity|]. cbn [forallb memb]. intros Hl.
      apply andb_true_iff in Hl as [Hc Hl]. destruct (num_char_facts c Hc) as [H1 [_ H3]]. destruct (IH Hl) as [H4 H5].
      now rewrite H1, H3, H4, H5. }
    pose proof H as H'. cbn [forallb] in H. apply andb_true_iff in H as [Hd Hds].
    destruct (num_char_facts d Hd) as [H1 [H2 _]]. destruct (Hall ds Hds) as [H4 _]. destruct (Hall (d :: ds) H') as [_ H5].
    repeat split; assumption.
  Qed.

  (* the character after a printed number list: `%` or `$` *)
  Definition num_close (cl : N) : bool := negb (numc cl) && negb (59 =? cl) && negb (isws cl).
  Lemma num_close_37 : num_close 37 = true. Proof. unfold num_close, numc. ascii. Qed.
  Lemma num_close_36 : num_close 36 = true. Proof. unfold num_close, numc. ascii. Qed.

  Lemma nums_tail_facts ns cl k :
    num_close cl = true ->
    let R := concat (map (fun m => 59 :: m) ns) ++ cl :: k in
    not_numc_head R = true /\ dropws R = R.
  Proof.
    unfold num_close. intros H. apply andb_true_iff in H as [H Hw]. apply andb_true_iff in H as [Hn _].
    apply negb_true_iff in Hw. destruct ns as [|m ns]; cbn [map concat app not_numc_head].
    - split; [exact Hn | now apply dropws_nows].
    - split; [unfold numc; ascii | apply dropws_nows; ascii].
  Qed.

  Lemma ev_XN_step d ds R :
    numc d = true -> forallb numc ds = true -> isws d = false -> not_numc_head R = true ->
    E XN NonAtomic (59 :: (d :: ds) ++ R) (POk R [tbt_node (d :: ds)]).
  Proof.
    intros Hd Hds Hw HR. change [tbt_node (d :: ds)] with ([] ++ [] ++ [tbt_node (d :: ds)]).
    eapply ev_seq_ok; [apply ev_lit1_ok | | exact (ev_tbt d ds R Hd Hds HR)].
    pose proof (ev_skip_na ((d :: ds) ++ R)) as Hs. cbn [app] in Hs. rewrite (dropws_nows d _ Hw) in Hs. exact Hs.
  Qed.

  Lemma ev_XN_rep ns cl k :
    forallb num_ok ns = true -> num_close cl = true ->
    Erep XN NonAtomic (concat (map (fun m => 59 :: m) ns) ++ cl :: k) (POk (cl :: k) (map tbt_node ns)).
  Proof.
    intros Hns Hcl. induction ns as [|m ns IH]; cbn [map concat app].
    - pose proof Hcl as Hcl'. unfold num_close in Hcl'. apply andb_true_iff in Hcl' as [H Hw].
      apply andb_true_iff in H as [_ H59]. apply negb_true_iff in Hw, H59.
      eapply ev_rep_nil.
      + pose proof (ev_skip_na (cl :: k)) as Hs. rewrite (dropws_nows cl k Hw) in Hs. exact Hs.
      + apply ev_seq_fail1, ev_lit1_fail. exact H59.
    - cbn [forallb] in Hns. apply andb_true_iff in Hns as [Hm Hns].
      destruct (num_ok_shape m Hm) as [d [ds [-> [Hd [Hds [Hw _]]]]]].
      destruct (nums_tail_facts ns cl k Hcl) as [HR _].
      rewrite <- app_assoc.
      change (tbt_node (d :: ds) :: map tbt_node ns) with ([] ++ [tbt_node (d :: ds)] ++ map tbt_node ns).
      eapply ev_rep_cons; [| exact (ev_XN_step d ds _ Hd Hds Hw HR) | exact (IH Hns)].
      pose proof (ev_skip_na (59 :: (d :: ds) ++ concat (map (fun m => 59 :: m) ns) ++ cl :: k)) as Hs.
      rewrite dropws_nows in Hs by ascii. exact Hs.
  Qed.

  Lemma ev_number_list n ns cl k :
    num_ok n = true -> forallb num_ok ns = true -> num_close cl = true ->
    E number_list NonAtomic (nums_text n ns ++ cl :: k) (POk (cl :: k) (map tbt_node (n :: ns))).
  Proof.
    intros Hn Hns Hcl. unfold nums_text. rewrite <- app_assoc.
    destruct (num_ok_shape n Hn) as [d [ds [-> [Hd [Hds [Hw _]]]]]].
    destruct (nums_tail_facts ns cl k Hcl) as [HR HdR].
    set (R := concat (map (fun m => 59 :: m) ns) ++ cl :: k) in *.
    pose proof Hcl as Hcl'. unfold num_close in Hcl'. apply andb_true_iff in Hcl' as [H Hwc].
    apply andb_true_iff in H as [_ H59]. apply negb_true_iff in Hwc, H59.
    eapply (ev_kids _ _ _ _ ([tbt_node (d :: ds)] ++ [] ++ (map tbt_node ns ++ [] ++ [])));
      [|cbn [app map]; now rewrite app_nil_r].
    unfold number_list.
    eapply ev_seq_ok; [exact (ev_tbt d ds R Hd Hds HR) | |].
    { pose proof (ev_skip_na R) as Hs. rewrite HdR in Hs. exact Hs. }
    eapply ev_seq_ok; [| | apply ev_star_nil, ev_lit1_fail; exact H59].
    - (* ( ";" ~ truth_budget_term )* *)
      unfold R. destruct ns as [|m ns]; cbn [map concat app].
      + apply ev_star_nil, ev_seq_fail1, ev_lit1_fail. exact H59.
      + cbn [forallb] in Hns. apply andb_true_iff in Hns as [Hm Hns].
        destruct (num_ok_shape m Hm) as [d2 [ds2 [-> [Hd2 [Hds2 [Hw2 _]]]]]].
        destruct (nums_tail_facts ns cl k Hcl) as [HR2 _].
        rewrite <- app_assoc.
        change (tbt_node (d2 :: ds2) :: map tbt_node ns) with ([tbt_node (d2 :: ds2)] ++ map tbt_node ns).
        eapply ev_star_cons; [exact (ev_XN_step d2 ds2 _ Hd2 Hds2 Hw2 HR2) | exact (ev_XN_rep ns cl k Hns Hcl)].
    - pose proof (ev_skip_na (cl :: k)) as Hs. rewrite (dropws_nows cl k Hwc) in Hs. exact Hs.
  Qed.

  Lemma nums_text_nows n ns R : num_ok n = true -> dropws (nums_text n ns ++ R) = nums_text n ns ++ R.
  Proof.
    intros Hn. destruct (num_ok_shape n Hn) as [d [ds [-> [_ [_ [Hw _]]]]]]. unfold nums_text.
    rewrite <- app_assoc. cbn [app]. now apply dropws_nows.
  Qed.

  (* ---- truth = { "%" ~ (...) ~ "%" } ---- *)
  Definition truth_text (n : str) (ns : list str) : str := 37 :: nums_text n ns ++ [37].

  Lemma ev_truth n ns k :
    num_ok n = true -> forallb num_ok ns = true ->
    E (PRef (ss "truth")) NonAtomic (truth_text n ns ++ k)
      (POk k [Node (ss "truth") (truth_text n ns) (map tbt_node (n :: ns))]).
  Proof.
    intros Hn Hns. unfold truth_text.
    assert (Htxt : (37 :: nums_text n ns ++ [37]) ++ k = 37 :: nums_text n ns ++ 37 :: k)
      by (cbn [app]; now rewrite <- app_assoc).
    assert (Hb : E (PSeq (PStr [37]) (PSeq number_list (PStr [37]))) NonAtomic (37 :: nums_text n ns ++ 37 :: k)
                   (POk k ([] ++ [] ++ (map tbt_node (n :: ns) ++ [] ++ [])))).
    { eapply ev_seq_ok; [apply ev_lit1_ok | |].
      { pose proof (ev_skip_na (nums_text n ns ++ 37 :: k)) as Hs. rewrite (nums_text_nows n ns _ Hn) in Hs. exact Hs. }
      eapply ev_seq_ok; [exact (ev_number_list n ns 37 k Hn Hns num_close_37) | | apply ev_lit1_ok].
      pose proof (ev_skip_na (37 :: k)) as Hs. rewrite dropws_nows in Hs by ascii. exact Hs. }
    pose proof (ev_ref ucls G n0 (ss "truth") _ NonAtomic _ _ eq_refl Hb) as H.
    cbn [pr_mod rule emits app] in H. rewrite app_nil_r in H.
    rewrite <- Htxt in H. now rewrite consumed_app in H.
  Qed.

  Lemma ev_truth_fail s : head_is 37 s = false -> E (PRef (ss "truth")) NonAtomic s PFail.
  Proof.
    intros H. refine (ev_ref ucls G n0 (ss "truth") _ NonAtomic s PFail eq_refl _).
    apply ev_seq_fail1, ev_lit1_fail, H.
  Qed.

  (* ---- budget = { "$" ~ budget_content ~ "$" } ---- *)
  Definition budget_inner (b : list str) : str := match b with [] => [] | n :: ns => nums_text n ns end.
  Definition budget_text (b : list str) : str := 36 :: budget_inner b ++ [36].

  Lemma budget_inner_nows b k :
    forallb num_ok b = true -> dropws (budget_inner b ++ 36 :: k) = budget_inner b ++ 36 :: k.
  Proof.
    destruct b as [|n ns]; cbn [budget_inner app forallb]; intros H.
    - apply dropws_nows. ascii.
    - apply andb_true_iff in H as [Hn _]. exact (nums_text_nows n ns _ Hn).
  Qed.

  Lemma ev_budget b k :
    forallb num_ok b = true ->
    E (PRef (ss "budget")) NonAtomic (budget_text b ++ k)
      (POk k [Node (ss "budget") (budget_text b) [Node (ss "budget_content") (budget_inner b) (map tbt_node b)]]).
  Proof.
    intros Hb. unfold budget_text.
    assert (Htxt : (36 :: budget_inner b ++ [36]) ++ k = 36 :: budget_inner b ++ 36 :: k)
      by (cbn [app]; now rewrite <- app_assoc).
    assert (Hc : E (PRef (ss "budget_content")) NonAtomic (budget_inner b ++ 36 :: k)
                   (POk (36 :: k) [Node (ss "budget_content") (budget_inner b) (map tbt_node b)])).
    { destruct b as [|n ns]; cbn [budget_inner map app].
      - assert (Hnl : E number_list NonAtomic (36 :: k) PFail).
        { apply ev_seq_fail1, ev_tbt_fail. cbn [not_numc_head]. unfold numc. ascii. }
        pose proof (ev_ref ucls G n0 (ss "budget_content") _ NonAtomic (36 :: k) _ eq_refl
                      (ev_choice_r _ _ _ _ _ _ _ _ Hnl (ev_str ucls G n0 [] NonAtomic (36 :: k)))) as H.
        cbn [pr_mod rule emits starts length drop] in H.
        now rewrite (consumed_app [] (36 :: k) : consumed (36 :: k) (36 :: k) = []) in H.
      - cbn [forallb] in Hb. apply andb_true_iff in Hb as [Hn Hns].
        pose proof (ev_ref ucls G n0 (ss "budget_content") _ NonAtomic (nums_text n ns ++ 36 :: k) _ eq_refl
                      (ev_choice_l _ _ _ _ _ _ _ _ _ (ev_number_list n ns 36 k Hn Hns num_close_36))) as H.
        cbn [pr_mod rule emits] in H. now rewrite consumed_app in H. }
    assert (Hbody : E (PSeq (PStr [36]) (PSeq (PRef (ss "budget_content")) (PStr [36]))) NonAtomic
                      (36 :: budget_inner b ++ 36 :: k)
                      (POk k ([] ++ [] ++ ([Node (ss "budget_content") (budget_inner b) (map tbt_node b)] ++ [] ++ [])))).
    { eapply ev_seq_ok; [apply ev_lit1_ok | |].
      { pose proof (ev_skip_na (budget_inner b ++ 36 :: k)) as Hs. rewrite (budget_inner_nows b k Hb) in Hs. exact Hs. }
      eapply ev_seq_ok; [exact Hc | | apply ev_lit1_ok].
      pose proof (ev_skip_na (36 :: k)) as Hs. rewrite dropws_nows in Hs by ascii. exact Hs. }
    pose proof (ev_ref ucls G n0 (ss "budget") _ NonAtomic _ _ eq_refl Hbody) as H.
    cbn [pr_mod rule emits app] in H. rewrite <- Htxt in H. now rewrite consumed_app in H.
  Qed.

  (* ---- stamp = { ":" ~ (!":" ~ ANY)+ ~ ":" } ---- *)
  Definition stamp_inner (c : N) : bool := negb (58 =? c) && negb (isws c) && negb (36 =? c).
  Notation ZS := (PSeq (PNot (PStr [58])) PAny).

  Lemma ev_ZS_step c r : stamp_inner c = true -> E ZS NonAtomic (c :: r) (POk r []).
  Proof.
    unfold stamp_inner. intros H. apply andb_true_iff in H as [H _]. apply andb_true_iff in H as [H58 Hw].
    apply negb_true_iff in H58, Hw.
    change (POk r []) with (POk r ([] ++ [] ++ [])).
    eapply ev_seq_ok; [apply ev_not_fail, ev_lit1_fail; exact H58 | | apply (ev_any ucls G n0 NonAtomic (c :: r))].
    pose proof (ev_skip_na (c :: r)) as Hs. rewrite (dropws_nows c r Hw) in Hs. exact Hs.
  Qed.
  Lemma ev_ZS_stop r : E ZS NonAtomic (58 :: r) PFail.
  Proof. apply ev_seq_fail1. eapply ev_not_ok. apply ev_lit1_ok. Qed.

  Lemma stamp_tail_nows bs k : forallb stamp_inner bs = true -> dropws (bs ++ 58 :: k) = bs ++ 58 :: k.
  Proof.
    destruct bs as [|c bs]; cbn [app forallb]; intros H; [apply dropws_nows; ascii|].
    apply andb_true_iff in H as [H _]. unfold stamp_inner in H. apply andb_true_iff in H as [H _].
    apply andb_true_iff in H as [_ Hw]. apply negb_true_iff in Hw. now apply dropws_nows.
  Qed.

  Lemma ev_ZS_rep bs k : forallb stamp_inner bs = true -> Erep ZS NonAtomic (bs ++ 58 :: k) (POk (58 :: k) []).
  Proof.
    induction bs as [|c bs IH]; intros H.
    - eapply ev_rep_nil; [|apply ev_ZS_stop]. pose proof (ev_skip_na ([] ++ 58 :: k)) as Hs.
      rewrite (stamp_tail_nows [] k eq_refl) in Hs. exact Hs.
    - pose proof (stamp_tail_nows (c :: bs) k H) as Hd. cbn [forallb] in H. apply andb_true_iff in H as [Hc H].
      change (POk (58 :: k) []) with (POk (58 :: k) ([] ++ [] ++ [])).
      eapply ev_rep_cons; [| exact (ev_ZS_step c (bs ++ 58 :: k) Hc) | exact (IH H)].
      pose proof (ev_skip_na ((c :: bs) ++ 58 :: k)) as Hs. rewrite Hd in Hs. exact Hs.
  Qed.

  Lemma ev_stamp b bs k :
    stamp_inner b = true -> forallb stamp_inner bs = true ->
    E (PRef (ss "stamp")) NonAtomic ((58 :: (b :: bs) ++ [58]) ++ k) (POk k [Node (ss "stamp") (58 :: (b :: bs) ++ [58]) []]).
  Proof.
    intros Hb Hbs.
    assert (Htxt : (58 :: (b :: bs) ++ [58]) ++ k = 58 :: (b :: bs) ++ 58 :: k)
      by (cbn [app]; now rewrite <- app_assoc).
    assert (Hall : forallb stamp_inner (b :: bs) = true) by (cbn [forallb]; now rewrite Hb, Hbs).
    assert (Hplus : E (PPlus ZS) NonAtomic ((b :: bs) ++ 58 :: k) (POk (58 :: k) ([] ++ [] ++ []))).
    { apply ev_plus. eapply ev_seq_ok; [exact (ev_ZS_step b (bs ++ 58 :: k) Hb) | |].
      { pose proof (ev_skip_na (bs ++ 58 :: k)) as Hs. rewrite (stamp_tail_nows bs k Hbs) in Hs. exact Hs. }
      destruct bs as [|c bs].
      - apply ev_star_nil, ev_ZS_stop.
      - cbn [forallb] in Hbs. apply andb_true_iff in Hbs as [Hc Hbs].
        change (@nil tree) with (@nil tree ++ []).
        eapply ev_star_cons; [exact (ev_ZS_step c (bs ++ 58 :: k) Hc) | exact (ev_ZS_rep bs k Hbs)]. }
    assert (Hbody : E (PSeq (PStr [58]) (PSeq (PPlus ZS) (PStr [58]))) NonAtomic (58 :: (b :: bs) ++ 58 :: k)
                      (POk k [])).
    { eapply ev_kids.
      - eapply ev_seq_ok; [apply ev_lit1_ok | |].
        { pose proof (ev_skip_na ((b :: bs) ++ 58 :: k)) as Hs. rewrite (stamp_tail_nows (b :: bs) k Hall) in Hs. exact Hs. }
        eapply ev_seq_ok; [exact Hplus | | apply ev_lit1_ok].
        pose proof (ev_skip_na (58 :: k)) as Hs. rewrite dropws_nows in Hs by ascii. exact Hs.
      - reflexivity. }
    pose proof (ev_ref ucls G n0 (ss "stamp") _ NonAtomic _ _ eq_refl Hbody) as H.
    cbn [pr_mod rule emits] in H. rewrite <- Htxt in H. now rewrite consumed_app in H.
  Qed.

  Lemma ev_stamp_fail s : head_is 58 s = false -> E (PRef (ss "stamp")) NonAtomic s PFail.
  Proof.
    intros H. refine (ev_ref ucls G n0 (ss "stamp") _ NonAtomic s PFail eq_refl _).
    apply ev_seq_fail1, ev_lit1_fail, H.
  Qed.

  (* ---- what a well-formed stamp looks like ---- *)
  Lemma take_app_exact {A} (a b : list A) : take (length (a ++ b) - length b) (a ++ b) = a.
  Proof.
    rewrite app_length. replace (length a + length b - length b)%nat with (length a) by lia.
    induction a as [|x a IH]; cbn [length take app]; [destruct b; reflexivity | now rewrite IH].
  Qed.

  Lemma body_char_inner c : stamp_body_char c = true -> stamp_inner c = true.
  Proof.
    unfold stamp_body_char. intros H. apply orb_true_iff in H as [H|H]; [apply orb_true_iff in H as [H|H]|].
    - apply digit_cases in H. cbn [In] in H.
      repeat (destruct H as [<-|H]; [unfold stamp_inner; ascii|]). destruct H.
    - apply N.eqb_eq in H. subst c. unfold stamp_inner. ascii.
    - apply N.eqb_eq in H. subst c. unfold stamp_inner. ascii.
  Qed.

  Lemma stamp_shape st :
    stamp_ok X0 st = true ->
    st = [] \/ exists b bs, st = 58 :: (b :: bs) ++ [58] /\ stamp_inner b = true /\ forallb stamp_inner bs = true.
  Proof.
    unfold stamp_ok. intros H. apply orb_true_iff in H as [H|H]; [apply orb_true_iff in H as [H|H]|].
    - left. now apply str_eqb_eq.
    - right. apply str_mem_In in H. vm_compute in H. destruct H as [<-|[<-|[<-|[]]]].
      + exists 47, []. split; [reflexivity|]. split; [unfold stamp_inner; ascii | reflexivity].
      + exists 124, []. split; [reflexivity|]. split; [unfold stamp_inner; ascii | reflexivity].
      + exists 92, []. split; [reflexivity|]. split; [unfold stamp_inner; ascii | reflexivity].
    - right. unfold stamp_fixed_ok in H.
      change (fst (lx_fixed X0)) with [58; 33] in H. change (snd (lx_fixed X0)) with [58] in H.
      apply andb_true_iff in H as [H1 H]. apply andb_true_iff in H as [H2 H3].
      apply starts_spec in H1 as [r ->]. cbn [length drop app] in H2, H3.
      apply ends_spec in H2 as [body ->]. rewrite take_app_exact in H3.
      exists 33, body. split; [reflexivity|]. split; [unfold stamp_inner; ascii|].
      apply forallb_forall. intros c Hc. rewrite forallb_forall in H3. apply body_char_inner, H3, Hc.
  Qed.

  Lemma stamp_inner_facts c : stamp_inner c = true -> isws c = false /\ (36 =? c) = false.
  Proof.
    unfold stamp_inner. intros H. apply andb_true_iff in H as [H H36]. apply andb_true_iff in H as [_ Hw].
    now apply negb_true_iff in Hw, H36.
  Qed.

  Lemma stamp_chars b bs :
    stamp_inner b = true -> forallb stamp_inner bs = true ->
    strip_ws ucls (58 :: (b :: bs) ++ [58]) = 58 :: (b :: bs) ++ [58] /\
    memb 36 (58 :: (b :: bs) ++ [58]) = false.
  Proof.
    intros Hb Hbs.
    assert (Hall : forallb stamp_inner (b :: bs) = true) by (cbn [forallb]; now rewrite Hb, Hbs).
    assert (H : forall l, forallb stamp_inner l = true ->
                          strip_ws ucls (l ++ [58]) = l ++ [58] /\ memb 36 (l ++ [58]) = false).
    { induction l as [|c l IH]; cbn [app forallb].
      - intros _. split; [apply strip_ws_nows; ascii | reflexivity].
      - intros Hl. apply andb_true_iff in Hl as [Hc Hl]. destruct (stamp_inner_facts c Hc) as [Hw H36].
        destruct (IH Hl) as [H1 H2]. rewrite (strip_ws_nows c _ Hw), H1. cbn [memb]. now rewrite H36, H2. }
    destruct (H _ Hall) as [H1 H2]. split.
    - rewrite (strip_ws_nows 58) by ascii. now rewrite H1.
    - cbn [memb]. now rewrite H2.
  Qed.

  (* ---- punctuation = { PUNCTUATION | SYMBOL } ---- *)
  Definition punct_okb (p : str) : bool :=
    match p with [pc] => closer pc && punct_symb pc && negb (36 =? pc) | _ => false end.
  Lemma puncts_ok p : str_mem p (lx_punctuations X0) = true -> punct_okb p = true.
  Proof.
    intros H. apply str_mem_In in H. vm_compute in H.
    repeat (destruct H as [<-|H]; [unfold punct_okb, closer; ascii|]). destruct H.
  Qed.

  Lemma ev_punctuation pc R :
    punct_symb pc = true ->
    E (PRef (ss "punctuation")) NonAtomic (pc :: R) (POk R [Node (ss "punctuation") [pc] []]).
  Proof.
    intros Hp.
    assert (Hb : E (PChoice (PClass UPunctuation) (PClass USymbol)) NonAtomic (pc :: R) (POk R [])).
    { pose proof (ev_class ucls G n0 UPunctuation NonAtomic (pc :: R)) as H1.
      pose proof (ev_class ucls G n0 USymbol NonAtomic (pc :: R)) as H2. cbn beta iota in H1, H2.
      unfold Readme.punct_symb in Hp. destruct (ucls UPunctuation pc); [now apply ev_choice_l|].
      cbn [orb] in Hp. rewrite Hp in H2. now apply ev_choice_r. }
    pose proof (ev_ref ucls G n0 (ss "punctuation") _ NonAtomic (pc :: R) _ eq_refl Hb) as H.
    cbn [pr_mod rule emits] in H. now rewrite (consumed_app [pc] R : consumed (pc :: R) R = [pc]) in H.
  Qed.

  (* ---- stamp? ~ truth? at the end of the input ---- *)
  Definition stamp_part (st : str) : str := match st with [] => [] | _ => 32 :: st end.
  Definition truth_part (tr : list str) : str := match tr with [] => [] | n :: ns => 32 :: truth_text n ns end.
  Definition tail_kids (st : str) (tr : list str) : list tree :=
    match st with [] => [] | _ => [Node (ss "stamp") st []] end ++
    match tr with [] => [] | n :: ns => [Node (ss "truth") (truth_text n ns) (map tbt_node tr)] end.

  Lemma ev_opt_truth tr :
    forallb num_ok tr = true ->
    E (POpt (PRef (ss "truth"))) NonAtomic (dropws (truth_part tr))
      (POk [] (match tr with [] => [] | n :: ns => [Node (ss "truth") (truth_text n ns) (map tbt_node tr)] end)).
  Proof.
    intros Htr. destruct tr as [|n ns]; cbn [truth_part].
    - apply ev_opt_none, ev_truth_fail. reflexivity.
    - cbn [forallb] in Htr. apply andb_true_iff in Htr as [Hn Hns].
      rewrite (dropws_ws 32) by ascii. unfold truth_text at 1. rewrite dropws_nows by ascii.
      pose proof (ev_truth n ns [] Hn Hns) as Ht. rewrite app_nil_r in Ht. apply ev_opt_some. exact Ht.
  Qed.

  Lemma ev_sentence_tail st tr :
    stamp_ok X0 st = true -> forallb num_ok tr = true ->
    E (PSeq (POpt (PRef (ss "stamp"))) (POpt (PRef (ss "truth")))) NonAtomic
      (dropws (stamp_part st ++ truth_part tr)) (POk [] (tail_kids st tr)).
  Proof.
    intros Hst Htr. pose proof (ev_opt_truth tr Htr) as Ht.
    destruct (stamp_shape st Hst) as [->|[b [bs [-> [Hb Hbs]]]]].
    - (* no stamp: the stamp rule fails on `%` or at the end of the input *)
      cbn [stamp_part app tail_kids].
      assert (Hs : E (POpt (PRef (ss "stamp"))) NonAtomic (dropws (truth_part tr)) (POk (dropws (truth_part tr)) [])).
      { apply ev_opt_none, ev_stamp_fail. destruct tr as [|n ns]; [reflexivity|]. cbn [truth_part].
        rewrite (dropws_ws 32) by ascii. unfold truth_text. rewrite dropws_nows by ascii. reflexivity. }
      eapply ev_kids.
      + eapply ev_seq_ok; [exact Hs | | exact Ht].
        pose proof (ev_skip_na (dropws (truth_part tr))) as Hk. rewrite dropws_idem in Hk. exact Hk.
      + reflexivity.
    - set (st := 58 :: (b :: bs) ++ [58]) in *.
      change (stamp_part st) with (32 :: st). cbn [app]. rewrite (dropws_ws 32) by ascii.
      assert (Hd : dropws (st ++ truth_part tr) = st ++ truth_part tr) by (unfold st; cbn [app]; apply dropws_nows; ascii).
      rewrite Hd.
      eapply ev_kids.
      + eapply ev_seq_ok; [apply ev_opt_some; exact (ev_stamp b bs (truth_part tr) Hb Hbs) | apply ev_skip_na | exact Ht].
      + reflexivity.
  Qed.

  (* ---- the printed sentence ---- *)
  Lemma join_with_nums n ns : join_with [59] (n :: ns) = nums_text n ns.
  Proof.
    revert n. induction ns as [|m ns IH]; intros n; unfold nums_text.
    - cbn [join_with map concat]. now rewrite app_nil_r.
    - change (join_with [59] (n :: m :: ns)) with (n ++ [59] ++ join_with [59] (m :: ns)).
      rewrite IH. unfold nums_text. cbn [map concat app]. reflexivity.
  Qed.

  Definition sent_tail (s : lsentence) : str :=
    ls_punct s ++ stamp_part (ls_stamp s) ++ truth_part (ls_truth s).

  Lemma lfmt_sentence_eq s : lfmt_sentence SL s = F (ls_term s) ++ sent_tail s.
  Proof.
    unfold lfmt_sentence, sent_tail, join_lest. cbn [map concat ll_sp_items SL]. f_equal. f_equal.
    destruct (ls_stamp s) as [|c st]; destruct (ls_truth s) as [|n ns];
      cbn [stamp_part truth_part lfmt_truth app ll_tb0 ll_tb1 ll_tsep SL]; rewrite ?join_with_nums, ?app_nil_r;
      reflexivity.
  Qed.

  Lemma sent_tail_no36 s :
    str_mem (ls_punct s) (lx_punctuations X0) = true -> stamp_ok X0 (ls_stamp s) = true ->
    forallb num_ok (ls_truth s) = true -> memb 36 (sent_tail s) = false.
  Proof.
    intros Hp Hst Htr. unfold sent_tail. rewrite !memb_app.
    assert (H1 : memb 36 (ls_punct s) = false).
    { apply puncts_ok in Hp. destruct (ls_punct s) as [|pc [|? ?]]; try discriminate. cbn [punct_okb] in Hp.
      apply andb_true_iff in Hp as [_ Hp]. apply negb_true_iff in Hp. cbn [memb]. now rewrite Hp. }
    assert (H2 : memb 36 (stamp_part (ls_stamp s)) = false).
    { destruct (stamp_shape _ Hst) as [->|[b [bs [-> [Hb Hbs]]]]]; [reflexivity|].
      destruct (stamp_chars b bs Hb Hbs) as [_ Hm]. cbn [stamp_part app]. cbn [memb]. cbn [app] in Hm. exact Hm. }
    assert (H3 : memb 36 (truth_part (ls_truth s)) = false).
    { destruct (ls_truth s) as [|n ns]; [reflexivity|]. cbn [truth_part]. unfold truth_text, nums_text.
      cbn [forallb] in Htr. apply andb_true_iff in Htr as [Hn Hns].
      destruct (num_ok_shape n Hn) as [_ [_ [_ [_ [_ [_ Hm]]]]]].
      cbn [memb]. rewrite !memb_app, Hm. cbn [memb orb].
      assert (Hc : memb 36 (concat (map (fun m => 59 :: m) ns)) = false).
      { clear -Hns Hok. induction ns as [|m ns IH]; [reflexivity|]. cbn [forallb] in Hns. apply andb_true_iff in Hns as [Hm Hns].
        destruct (num_ok_shape m Hm) as [_ [_ [_ [_ [_ [_ Hm36]]]]]].
        cbn [map concat]. rewrite memb_app. cbn [memb]. now rewrite Hm36, (IH Hns). }
      now rewrite Hc. }
    now rewrite H1, H2, H3.
  Qed.

  Lemma ev_sentence s :
    lsentence_wf ucls X0 s = true ->
    exists t, E (PRef (ss "sentence")) NonAtomic (lfmt_sentence SL s)
                (POk [] [Node (ss "sentence") (lfmt_sentence SL s)
                           (t :: Node (ss "punctuation") (ls_punct s) [] :: tail_kids (ls_stamp s) (ls_truth s))]) /\
              conv t = Some (ls_term s).
  Proof.
    unfold lsentence_wf. intros H.
    apply andb_true_iff in H as [H Htr]. apply andb_true_iff in H as [H Hst]. apply andb_true_iff in H as [Hw Hp].
    pose proof (puncts_ok _ Hp) as Hpo.
    destruct (ls_punct s) as [|pc [|? ?]] eqn:Hpe; try discriminate. cbn [punct_okb] in Hpo.
    apply andb_true_iff in Hpo as [Hpo _]. apply andb_true_iff in Hpo as [Hcl Hps].
    set (R := stamp_part (ls_stamp s) ++ truth_part (ls_truth s)).
    assert (Htxt : lfmt_sentence SL s = F (ls_term s) ++ pc :: R).
    { rewrite lfmt_sentence_eq. unfold sent_tail. now rewrite Hpe. }
    destruct (conf_all _ Hw (pc :: R) (follow_closer pc R Hcl)) as [k' [t [He [Hd Hv]]]].
    rewrite (dropws_closer pc R Hcl) in Hd.
    exists t. split; [|exact Hv].
    assert (Hb : E (PSeq (PRef (ss "term")) (PSeq (PRef (ss "punctuation"))
                     (PSeq (POpt (PRef (ss "stamp"))) (POpt (PRef (ss "truth")))))) NonAtomic (F (ls_term s) ++ pc :: R)
                   (POk [] (t :: Node (ss "punctuation") [pc] [] :: tail_kids (ls_stamp s) (ls_truth s)))).
    { eapply ev_kids.
      - eapply ev_seq_ok; [exact He | |].
        { pose proof (ev_skip_na k') as Hs. rewrite Hd in Hs. exact Hs. }
        eapply ev_seq_ok; [exact (ev_punctuation pc R Hps) | apply ev_skip_na |].
        exact (ev_sentence_tail _ _ Hst Htr).
      - reflexivity. }
    rewrite Htxt.
    pose proof (ev_ref ucls G n0 (ss "sentence") _ NonAtomic _ _ eq_refl Hb) as H.
    cbn [pr_mod rule emits] in H.
    rewrite <- (app_nil_r (F (ls_term s) ++ pc :: R)) in H at 2. rewrite consumed_app in H. exact H.
  Qed.

  (* conversion of a sentence node *)
  Lemma numbers_of_nodes l : numbers_of (map tbt_node l) = Some l.
  Proof.
    unfold numbers_of.
    assert (H : forallb (fun k => is_rule k "truth_budget_term") (map tbt_node l) = true).
    { induction l as [|m l IH]; [reflexivity|]. cbn [map forallb]. rewrite IH. reflexivity. }
    rewrite H. f_equal. rewrite map_map. cbn [tbt_node tree_text]. apply map_id.
  Qed.

  Lemma conv_sentence txt t x pc st tr :
    conv t = Some x -> strip_ws ucls st = st ->
    lsentence_of_tree ucls (Node (ss "sentence") txt (t :: Node (ss "punctuation") pc [] :: tail_kids st tr)) =
    Some {| ls_term := x; ls_punct := pc; ls_stamp := st; ls_truth := tr |}.
  Proof.
    intros Hv Hs. unfold lsentence_of_tree. rewrite !str_eqb_refl. cbn [andb]. rewrite Hv.
    destruct st as [|c st]; destruct tr as [|n ns]; cbn [tail_kids app].
    - reflexivity.
    - change (str_eqb (ss "truth") (ss "stamp")) with false. cbn iota. rewrite str_eqb_refl.
      rewrite (numbers_of_nodes (n :: ns)). reflexivity.
    - rewrite str_eqb_refl, Hs. reflexivity.
    - rewrite !str_eqb_refl. cbn [andb]. rewrite (numbers_of_nodes (n :: ns)), Hs. reflexivity.
  Qed.

  Lemma stamp_strip_ok st : stamp_ok X0 st = true -> strip_ws ucls st = st.
  Proof.
    intros H. destruct (stamp_shape st H) as [->|[b [bs [-> [Hb Hbs]]]]]; [reflexivity|].
    now destruct (stamp_chars b bs Hb Hbs).
  Qed.

  (* ---- the printed task ---- *)
  Lemma lfmt_task_eq k :
    lsentence_wf ucls X0 (lt_sentence k) = true ->
    lfmt_task SL k = budget_text (lt_budget k) ++ 32 :: lfmt_sentence SL (lt_sentence k).
  Proof.
    intros Hw. unfold lfmt_task.
    assert (Hb : lfmt_budget SL (lt_budget k) = budget_text (lt_budget k)).
    { unfold lfmt_budget, budget_text. cbn [ll_bb0 ll_bb1 ll_bsep SL]. destruct (lt_budget k) as [|n ns].
      - reflexivity.
      - rewrite join_with_nums. reflexivity. }
    rewrite Hb. cbn [ll_sp_items SL].
    destruct (lfmt_sentence SL (lt_sentence k)) as [|c r] eqn:Hs; [|reflexivity].
    exfalso. rewrite lfmt_sentence_eq in Hs. unfold sent_tail in Hs.
    unfold lsentence_wf in Hw. apply andb_true_iff in Hw as [Hw _]. apply andb_true_iff in Hw as [Hw _].
    apply andb_true_iff in Hw as [_ Hp]. apply puncts_ok in Hp.
    destruct (ls_punct (lt_sentence k)) as [|pc ?]; [discriminate|].
    apply app_eq_nil in Hs as [_ Hs]. discriminate.
  Qed.

  Lemma ev_task k :
    ltask_wf ucls X0 k = true ->
    exists sn, E (PRef (ss "task")) NonAtomic (lfmt_task SL k)
                 (POk [] [Node (ss "task") (lfmt_task SL k)
                            [Node (ss "budget") (budget_text (lt_budget k))
                               [Node (ss "budget_content") (budget_inner (lt_budget k)) (map tbt_node (lt_budget k))];
                             sn]]) /\
               lsentence_of_tree ucls sn = Some (lt_sentence k).
  Proof.
    unfold ltask_wf. intros H. apply andb_true_iff in H as [Hb Hw].
    destruct (ev_sentence _ Hw) as [t [Hs Hv]].
    pose proof Hw as Hw'. unfold lsentence_wf in Hw'.
    apply andb_true_iff in Hw' as [Hw' Htr]. apply andb_true_iff in Hw' as [Hw' Hst]. apply andb_true_iff in Hw' as [Hwt Hp].
    set (sn := Node (ss "sentence") (lfmt_sentence SL (lt_sentence k))
                 (t :: Node (ss "punctuation") (ls_punct (lt_sentence k)) []
                    :: tail_kids (ls_stamp (lt_sentence k)) (ls_truth (lt_sentence k)))) in *.
    exists sn. split.
    - rewrite (lfmt_task_eq k Hw).
      assert (Hbody : E (PSeq (PRef (ss "budget")) (PRef (ss "sentence"))) NonAtomic
                        (budget_text (lt_budget k) ++ 32 :: lfmt_sentence SL (lt_sentence k))
                        (POk [] ([Node (ss "budget") (budget_text (lt_budget k))
                                    [Node (ss "budget_content") (budget_inner (lt_budget k)) (map tbt_node (lt_budget k))]]
                                 ++ [] ++ [sn]))).
      { eapply ev_seq_ok; [exact (ev_budget _ _ Hb) | | exact Hs].
        pose proof (ev_skip_na (32 :: lfmt_sentence SL (lt_sentence k))) as Hk. rewrite (dropws_ws 32) in Hk by ascii.
        rewrite lfmt_sentence_eq in Hk at 2. rewrite (wf_head_nows _ _ Hwt) in Hk. rewrite <- lfmt_sentence_eq in Hk. exact Hk. }
      pose proof (ev_ref ucls G n0 (ss "task") _ NonAtomic _ _ eq_refl Hbody) as H.
      cbn [pr_mod rule emits app] in H.
      rewrite <- (app_nil_r (budget_text (lt_budget k) ++ 32 :: lfmt_sentence SL (lt_sentence k))) in H at 2.
      rewrite consumed_app in H. exact H.
    - unfold sn. destruct (lt_sentence k) as [x pc st tr]. cbn [ls_term ls_punct ls_stamp ls_truth] in *.
      exact (conv_sentence _ t x pc st tr Hv (stamp_strip_ok st Hst)).
  Qed.

  Lemma conv_task txt bt ct b sn s :
    lsentence_of_tree ucls sn = Some s ->
    ltask_of_tree ucls (Node (ss "task") txt [Node (ss "budget") bt [Node (ss "budget_content") ct (map tbt_node b)]; sn]) =
    Some {| lt_budget := b; lt_sentence := s |}.
  Proof.
    intros Hs. unfold ltask_of_tree. rewrite !str_eqb_refl. cbn [andb]. now rewrite numbers_of_nodes, Hs.
  Qed.

  (* ---- the entry rule for the three kinds, and the whole-input wrapper ---- *)
  Lemma narsese_sentence s :
    lsentence_wf ucls X0 s = true ->
    exists sn, E (PRef (ss "narsese")) NonAtomic (lfmt_sentence SL s)
                 (POk [] [Node (ss "narsese") (lfmt_sentence SL s) [sn]]) /\
               tree_rule sn = ss "sentence" /\ lsentence_of_tree ucls sn = Some s.
  Proof.
    intros Hw. destruct (ev_sentence s Hw) as [t [He Hv]].
    pose proof Hw as Hw'. unfold lsentence_wf in Hw'.
    apply andb_true_iff in Hw' as [Hw' Htr]. apply andb_true_iff in Hw' as [Hw' Hst]. apply andb_true_iff in Hw' as [Hwt Hp].
    eexists. split; [|split].
    - assert (Ht : E (PRef (ss "task")) NonAtomic (lfmt_sentence SL s) PFail).
      { apply ev_task_fail. rewrite lfmt_sentence_eq.
        exact (term_text_one_dollar _ _ Hwt (sent_tail_no36 s Hp Hst Htr)). }
      pose proof (ev_ref ucls G n0 (ss "narsese") _ NonAtomic _ _ eq_refl
                    (ev_choice_r _ _ _ _ _ _ _ _ Ht (ev_choice_l _ _ _ _ _ _ _ _ _ He))) as H.
      cbn [pr_mod rule emits] in H.
      rewrite <- (app_nil_r (lfmt_sentence SL s)) in H at 2. rewrite consumed_app in H. exact H.
    - reflexivity.
    - destruct s as [x pc st tr]. cbn [ls_term ls_punct ls_stamp ls_truth] in *.
      exact (conv_sentence _ t x pc st tr Hv (stamp_strip_ok st Hst)).
  Qed.

  Lemma narsese_task k :
    ltask_wf ucls X0 k = true ->
    exists tn, E (PRef (ss "narsese")) NonAtomic (lfmt_task SL k) (POk [] [Node (ss "narsese") (lfmt_task SL k) [tn]]) /\
               tree_rule tn = ss "task" /\ ltask_of_tree ucls tn = Some k.
  Proof.
    intros Hw. destruct (ev_task k Hw) as [sn [He Hv]].
    eexists. split; [|split].
    - pose proof (ev_ref ucls G n0 (ss "narsese") _ NonAtomic _ _ eq_refl (ev_choice_l _ _ _ _ _ _ _ _ _ He)) as H.
      cbn [pr_mod rule emits] in H.
      rewrite <- (app_nil_r (lfmt_task SL k)) in H at 2. rewrite consumed_app in H. exact H.
    - reflexivity.
    - destruct k as [b s]. cbn [lt_budget lt_sentence] in *. exact (conv_task _ _ _ b sn s Hv).
  Qed.

  Lemma top_wrap s k' node :
    n0 = length s -> dropws s = s -> E (PRef (ss "narsese")) NonAtomic s (POk k' [node]) -> dropws k' = [] ->
    E (PSeq PSoi (PSeq (PRef (ss "narsese")) PEoi)) NonAtomic s (POk [] [node]).
  Proof.
    intros Hn Hd He Hk. eapply ev_kids.
    - eapply ev_seq_ok.
      + pose proof (ev_soi ucls G n0 NonAtomic s) as H. rewrite Hn, Nat.eqb_refl in H. rewrite Hn. exact H.
      + pose proof (ev_skip_na s) as H. rewrite Hd in H. exact H.
      + eapply ev_seq_ok; [exact He | | apply (ev_eoi ucls G n0 NonAtomic [])].
        pose proof (ev_skip_na k') as H. rewrite Hk in H. exact H.
    - reflexivity.
  Qed.

  Lemma sentence_head_nows s : lsentence_wf ucls X0 s = true -> dropws (lfmt_sentence SL s) = lfmt_sentence SL s.
  Proof.
    intros Hw. unfold lsentence_wf in Hw. apply andb_true_iff in Hw as [Hw _]. apply andb_true_iff in Hw as [Hw _].
    apply andb_true_iff in Hw as [Hwt _]. rewrite lfmt_sentence_eq. now apply wf_head_nows.
  Qed.
End Conf.

(* ------------------------------------------------------------------------------------------ *)
(* whole-input parse of a formatted term: accepted, kind `term`, the tree is the term itself    *)
(* ------------------------------------------------------------------------------------------ *)
Theorem lex_term_conforms ucls x :
  ucls_ok ucls -> lterm_wf ucls opennars_lexicon x = true ->
  exists n, forall m, (n <= m)%nat ->
    readme_parse_with ucls expected_grammar m (lfmt_term SL x) = RValue (NTerm x).
Proof.
  intros Hok Hw. set (s := lfmt_term SL x).
  destruct (narsese_term ucls Hok (length s) x Hw) as [k' [txt [t [He [Hd [Hr Hv]]]]]]. fold s in He.
  assert (Htop : evals ucls expected_grammar (length s) (PSeq PSoi (PSeq (PRef (ss "narsese")) PEoi)) NonAtomic s
                   (POk [] ([] ++ [] ++ ([Node (ss "narsese") txt [t]] ++ [] ++ [])))).
  { eapply ev_seq_ok.
    - pose proof (ev_soi ucls expected_grammar (length s) NonAtomic s) as H. rewrite Nat.eqb_refl in H. exact H.
    - pose proof (ev_skip_na ucls (length s) s) as H. unfold s in H.
      rewrite (wf_head_nows0 ucls Hok x Hw) in H. exact H.
    - eapply ev_seq_ok; [exact He | | apply (ev_eoi ucls expected_grammar (length s) NonAtomic [])].
      pose proof (ev_skip_na ucls (length s) k') as H. rewrite Hd in H. exact H. }
  destruct Htop as [n Hn]. exists n. intros m Hm.
  unfold readme_parse_with, parse_with. fold s. rewrite (Hn m Hm). cbn [app].
  change (str_eqb (ss "narsese") (ss "narsese")) with true. cbn iota.
  unfold lnarsese_of_tree, is_rule. rewrite Hr.
  change (str_eqb (ss "term") (ss "task")) with false. change (str_eqb (ss "term") (ss "sentence")) with false.
  change (str_eqb (ss "term") (ss "term")) with true. cbn iota. rewrite Hv. reflexivity.
Qed.

(* the same for sentences and tasks *)
Theorem lex_sentence_conforms ucls s :
  ucls_ok ucls -> lsentence_wf ucls opennars_lexicon s = true ->
  exists n, forall m, (n <= m)%nat ->
    readme_parse_with ucls expected_grammar m (lfmt_sentence SL s) = RValue (NSentence s).
Proof.
  intros Hok Hw. set (txt := lfmt_sentence SL s).
  destruct (narsese_sentence ucls Hok (length txt) s Hw) as [sn [He [Hr Hv]]]. fold txt in He.
  destruct (top_wrap ucls (length txt) txt [] _ eq_refl (sentence_head_nows ucls Hok s Hw) He eq_refl) as [n Hn].
  exists n. intros m Hm. unfold readme_parse_with, parse_with. fold txt. rewrite (Hn m Hm).
  change (str_eqb (ss "narsese") (ss "narsese")) with true. cbn iota.
  unfold lnarsese_of_tree, is_rule. rewrite Hr.
  change (str_eqb (ss "sentence") (ss "task")) with false. change (str_eqb (ss "sentence") (ss "sentence")) with true.
  cbn iota. rewrite Hv. reflexivity.
Qed.

Theorem lex_task_conforms ucls k :
  ucls_ok ucls -> ltask_wf ucls opennars_lexicon k = true ->
  exists n, forall m, (n <= m)%nat ->
    readme_parse_with ucls expected_grammar m (lfmt_task SL k) = RValue (NTask k).
Proof.
  intros Hok Hw. set (txt := lfmt_task SL k).
  destruct (narsese_task ucls Hok (length txt) k Hw) as [tn [He [Hr Hv]]]. fold txt in He.
  assert (Hd : dropws ucls txt = txt).
  { unfold txt. pose proof Hw as Hw'. unfold ltask_wf in Hw'. apply andb_true_iff in Hw' as [_ Hs].
    rewrite (lfmt_task_eq ucls Hok k Hs). unfold budget_text. cbn [app]. apply dropws_nows.
    unfold isws. rewrite (uo_ascii _ Hok) by (vm_compute; reflexivity). vm_compute. reflexivity. }
  destruct (top_wrap ucls (length txt) txt [] _ eq_refl Hd He eq_refl) as [n Hn].
  exists n. intros m Hm. unfold readme_parse_with, parse_with. fold txt. rewrite (Hn m Hm).
  change (str_eqb (ss "narsese") (ss "narsese")) with true. cbn iota.
  unfold lnarsese_of_tree, is_rule. rewrite Hr.
  change (str_eqb (ss "task") (ss "task")) with true. cbn iota. rewrite Hv. reflexivity.
Qed.

(* every well-formed lexical value: the text the lexical ASCII formatter prints is a sentence of the
   grammar, of the same kind, deriving the value itself *)
Theorem lex_narsese_conforms ucls v :
  ucls_ok ucls -> lnarsese_wf ucls opennars_lexicon v = true ->
  exists n, forall m, (n <= m)%nat ->
    readme_parse_with ucls expected_grammar m (lfmt_narsese SL v) = RValue v.
Proof.
  intros Hok Hw. destruct v as [t|s|k]; cbn [lnarsese_wf lfmt_narsese] in *.
  - now apply lex_term_conforms.
  - now apply lex_sentence_conforms.
  - now apply lex_task_conforms.
Qed.

(* ------------------------------------------------------------------------------------------ *)
(* from "enough fuel" to the executable recogniser: with ANY amount of fuel the answer is the    *)
(* value or "out of fuel", never a rejection and never a different tree                          *)
(* ------------------------------------------------------------------------------------------ *)
Lemma readme_parse_fuel ucls G m M input :
  (m <= M)%nat -> readme_parse_with ucls G m input <> RNoFuel ->
  readme_parse_with ucls G M input = readme_parse_with ucls G m input.
Proof.
  unfold readme_parse_with, parse_with. intros Hle Hn.
  destruct (run ucls G (length input) m (PSeq PSoi (PSeq (PRef (ss "narsese")) PEoi)) NonAtomic input) eqn:E1;
    try (rewrite (run_mono ucls G (length input) m M _ _ _ _ Hle E1) by congruence; reflexivity).
Qed.

Lemma enough_fuel_any_fuel ucls G input v :
  (exists n, forall m, (n <= m)%nat -> readme_parse_with ucls G m input = RValue v) ->
  forall m, readme_parse_with ucls G m input = RValue v \/ readme_parse_with ucls G m input = RNoFuel.
Proof.
  intros [n H] m. destruct (readme_parse_with ucls G m input) eqn:E1; try (now right); left;
    rewrite <- (H (Nat.max n m) (Nat.le_max_l _ _));
    rewrite (readme_parse_fuel ucls G m (Nat.max n m) input (Nat.le_max_r _ _)) by (rewrite E1; discriminate);
    now rewrite E1.
Qed.
