(* Proofs/EnumTermP.v -- term-level correctness of the enum parser model (core of C01, C09, C10):

     p_term_render : parse_ok E = true -> TermParses F is_alnum E (unamb is_alnum E)

   "a surface tree t written with ANY number of space keywords at every token boundary, followed by ANY
   continuation k that does not extend its last atom, is parsed to exactly its documented meaning
   (odesugar t) and the cursor stops exactly at the end of the text of t".
   For every format record satisfying the finite check parse_ok (true of the three shipped tables by
   computation, shipped_parse_ok), every float type and every instance of the Unicode oracle. *)
From Nv Require Import Model.SstOk Proofs.EnumTotalP.

(* ---- strings ---- *)
Lemma drop_drop {A} a : forall b (l : list A), drop b (drop a l) = drop (a + b) l.
Proof.
  induction a as [|a IH]; intros b l; [reflexivity|].
  destruct l as [|x l]; cbn [drop Nat.add]; [now rewrite drop_nil | apply IH].
Qed.

Lemma starts_app_compat a : forall b r, starts a (b ++ r) = true -> compat a b = true.
Proof.
  induction a as [|x a IH]; intros b r H; unfold compat; [reflexivity|].
  destruct b as [|y b]; [cbn [starts]; apply orb_true_r|].
  cbn [app starts] in H |- *. apply andb_true_iff in H as [Hxy H]. apply N.eqb_eq in Hxy. subst y.
  rewrite N.eqb_refl. cbn [andb]. exact (IH _ _ H).
Qed.

Lemma incompat_starts a b r : incompat a b = true -> starts a (b ++ r) = false.
Proof.
  unfold incompat. intros H. destruct (starts a (b ++ r)) eqn:Hs; [|reflexivity].
  apply starts_app_compat in Hs. rewrite Hs in H. discriminate.
Qed.

Lemma incompat_starts0 a b : incompat a b = true -> starts a b = false.
Proof. intros H. rewrite <- (app_nil_r b). now apply incompat_starts. Qed.

Lemma app_nonempty_l {A} (a b : list A) : a <> [] -> a ++ b <> [].
Proof. destruct a; [congruence | discriminate]. Qed.

Lemma nonempty_ne s : nonempty s = true -> s <> [].
Proof. destruct s; [discriminate | discriminate]. Qed.

Lemma len_pos_ne {A} (s : list A) : (0 < length s)%nat -> s <> [].
Proof. destruct s; cbn; [lia | discriminate]. Qed.

Lemma ne_len_pos {A} (s : list A) : s <> [] -> (0 < length s)%nat.
Proof. destruct s; cbn; [congruence | lia]. Qed.

Lemma render_items_cons E {A} (r : A -> str) gaps lead i x l :
  render_items E r gaps lead i (x :: l) = (if lead then gap E (gaps i) else []) ++ r x ++ render_items E r gaps true (S i) l.
Proof. reflexivity. Qed.

Lemma unamb_items_cons E {A} (u : A -> str -> bool) (r : A -> str) gaps i x l tail :
  unamb_items E u r gaps i (x :: l) tail = u x (render_items E r gaps true (S i) l ++ tail) && unamb_items E u r gaps (S i) l tail.
Proof. reflexivity. Qed.

Lemma omap_cons {A B} (f : A -> option B) x l :
  omap f (x :: l) = match f x, omap f l with Some y, Some ys => Some (y :: ys) | _, _ => None end.
Proof. reflexivity. Qed.

(* ---- the central statement ---- *)
Definition TermParses (F : Type) (is_alnum : N -> bool) (E : efmt) (unamb : sterm -> str -> bool) : Prop :=
  forall (t : sterm) (v : term) (k : str) (L : nat) (st : pstate F) (fuel : nat),
    odesugar t = Some v -> unamb t k = true ->
    wf F L st -> s_rest st = render E t ++ k -> (sdepth t < fuel)%nat ->
    p_term F is_alnum E fuel st = POk v (step F (length (render E t)) st).

Section TermP.
  Variable F : Type.
  Variable is_alnum : N -> bool.
  Variable E : efmt.
  Hypothesis Hok : parse_ok E = true.

  Notation pstate := (pstate F).
  Notation pres := (pres F).
  Notation space := (space_parse E).
  Notation sep := (compound_separator E).
  Notation xlb := (compound_brackets_set_extension_0 E).
  Notation xrb := (compound_brackets_set_extension_1 E).
  Notation ilb := (compound_brackets_set_intension_0 E).
  Notation irb := (compound_brackets_set_intension_1 E).
  Notation clb := (compound_brackets_0 E).
  Notation crb := (compound_brackets_1 E).
  Notation slb := (statement_brackets_0 E).
  Notation srb := (statement_brackets_1 E).

  (* ---- parse_ok unpacked ---- *)
  Ltac oks := unfold parse_ok in Hok; rewrite !andb_true_iff in Hok.

  Lemma pk_total : total_ok E = true. Proof. oks. tauto. Qed.
  Lemma pk_rbs : forallb nonempty (list_right_brackets E) = true. Proof. oks. tauto. Qed.
  Lemma pk_srb : nonempty srb = true. Proof. oks. tauto. Qed.
  Lemma pk_lbs : pairwise_later incompat (left_brackets E) = true. Proof. oks. tauto. Qed.
  Lemma pk_delim_lb : forallb (fun d => forallb (incompat d) (left_brackets E)) (item_delims E) = true. Proof. oks. tauto. Qed.
  Lemma pk_sp_sep : incompat space sep = true. Proof. oks. tauto. Qed.
  Lemma pk_loop_rb : forallb (fun rb => incompat space rb && incompat sep rb) (list_right_brackets E) = true. Proof. oks. tauto. Qed.
  Lemma pk_sp_srb : incompat space srb = true. Proof. oks. tauto. Qed.
  Lemma pk_sp_comp : forallb (fun a => incompat space (fst a E)) parse_compound_arms = true. Proof. oks. tauto. Qed.
  Lemma pk_sp_stmt : forallb (fun a => incompat space (fst a E)) parse_statement_arms = true. Proof. oks. tauto. Qed.
  Lemma pk_reject : forallb (fun g => forallb (fun a => incompat (g E) (fst a E)) parse_compound_arms) parse_compound_reject = true. Proof. oks. tauto. Qed.
  Lemma pk_comp_order : arms_order_ok E parse_compound_arms [space; sep] = true. Proof. oks. tauto. Qed.
  Lemma pk_stmt_order : arms_order_ok E parse_statement_arms [[]] = true. Proof. oks. tauto. Qed.
  Lemma pk_copulas : forallb (fun a => existsb (str_eqb (fst a E)) (gen_copulas E) && nonempty (fst a E)) parse_statement_arms = true. Proof. oks. tauto. Qed.

  Ltac tks := pose proof pk_total as Ht; unfold total_ok in Ht; rewrite !andb_true_iff in Ht.
  Lemma space_ne : space <> []. Proof. tks. apply nonempty_ne; tauto. Qed.
  Lemma sep_ne : sep <> []. Proof. tks. apply nonempty_ne; tauto. Qed.
  Lemma xlb_ne : xlb <> []. Proof. tks. apply nonempty_ne; tauto. Qed.
  Lemma ilb_ne : ilb <> []. Proof. tks. apply nonempty_ne; tauto. Qed.
  Lemma clb_ne : clb <> []. Proof. tks. apply nonempty_ne; tauto. Qed.
  Lemma slb_ne : slb <> []. Proof. tks. apply nonempty_ne; tauto. Qed.
  Lemma tk_atoms : forallb (fun x => match snd x with AIUnit _ => nonempty (fst x E) | _ => true end) parse_atom_arms = true.
  Proof. tks. tauto. Qed.
  Lemma space_len : (0 < length space)%nat. Proof. apply ne_len_pos, space_ne. Qed.
  Lemma sep_len : (0 < length sep)%nat. Proof. apply ne_len_pos, sep_ne. Qed.

  Lemma rb_facts rb : In rb (list_right_brackets E) ->
    rb <> [] /\ incompat space rb = true /\ incompat sep rb = true.
  Proof.
    intros Hin. pose proof pk_rbs as H1. pose proof pk_loop_rb as H2.
    rewrite forallb_forall in H1, H2. specialize (H1 _ Hin). specialize (H2 _ Hin).
    apply andb_true_iff in H2 as [H2 H3]. split; [now apply nonempty_ne | now split].
  Qed.

  Lemma delim_lb d lb r : In d (item_delims E) -> In lb (left_brackets E) -> starts d (lb ++ r) = false.
  Proof.
    intros Hd Hlb. pose proof pk_delim_lb as H. rewrite forallb_forall in H. specialize (H _ Hd).
    rewrite forallb_forall in H. apply incompat_starts, H, Hlb.
  Qed.

  Lemma lb_order :
    incompat xlb ilb = true /\ incompat xlb clb = true /\ incompat xlb slb = true /\
    incompat ilb clb = true /\ incompat ilb slb = true /\ incompat clb slb = true.
  Proof.
    pose proof pk_lbs as H. unfold left_brackets in H. cbn [pairwise_later forallb] in H.
    rewrite !andb_true_iff in H. tauto.
  Qed.

  (* ---- cursor ---- *)
  Lemma step_step a b (st : pstate) : step F b (step F a st) = step F (a + b) st.
  Proof. unfold step; cbn [s_len s_head s_rest s_mid]. f_equal; [lia | apply drop_drop]. Qed.

  Lemma step_0 (st : pstate) : step F 0 st = st.
  Proof. destruct st as [l0 h0 r0 m0]. unfold step; cbn [s_len s_head s_rest s_mid drop]. f_equal. lia. Qed.

  Lemma step_eq a b (st : pstate) : a = b -> step F a st = step F b st.
  Proof. now intros ->. Qed.

  Lemma rest_step a r (st : pstate) : s_rest st = a ++ r -> s_rest (step F (length a) st) = r.
  Proof. intros H. cbn [step s_rest]. rewrite H. apply drop_app_length. Qed.

  Lemma can_consume_true L (st : pstate) : wf F L st -> s_rest st <> [] -> can_consume F st = true.
  Proof.
    intros [Hl Hr] Hne. unfold can_consume. apply Nat.ltb_lt.
    destruct (s_rest st); [congruence|]. cbn [length] in Hr. lia.
  Qed.

  Lemma st_starts_true L kw r (st : pstate) :
    wf F L st -> s_rest st = kw ++ r -> kw ++ r <> [] -> st_starts F kw st = true.
  Proof.
    intros [Hl Hr] Hrest Hne. unfold st_starts. apply ne_len_pos in Hne.
    rewrite Hrest in Hr |- *. rewrite app_length in Hr, Hne.
    destruct (Nat.ltb_spec (s_len st) (s_head st + length kw)); [lia | apply starts_app].
  Qed.

  Lemma st_starts_false kw (st : pstate) : starts kw (s_rest st) = false -> st_starts F kw st = false.
  Proof. intros H. unfold st_starts. rewrite H. now destruct (Nat.ltb _ _). Qed.

  Lemma sp_S n : sp E (S n) = space ++ sp E n.
  Proof. reflexivity. Qed.
  Lemma sp_0 : sp E 0 = [].
  Proof. reflexivity. Qed.

  Lemma sp_length_ge n : (n <= length (sp E n))%nat.
  Proof. induction n as [|n IH]; [cbn; lia|]. rewrite sp_S, app_length. pose proof space_len. lia. Qed.

  Lemma skip_spaces_fuel_sp L : forall n fuel (st : pstate) r,
    wf F L st -> s_rest st = sp E n ++ r -> starts space r = false -> (n <= fuel)%nat ->
    skip_spaces_fuel F E fuel st = step F (length (sp E n)) st.
  Proof.
    induction n as [|n IH]; intros fuel st r Hwf Hrest Hr Hf.
    - rewrite sp_0. cbn [length]. rewrite step_0. destruct fuel; cbn [skip_spaces_fuel]; [reflexivity|].
      rewrite st_starts_false; [reflexivity | now rewrite Hrest].
    - destruct fuel as [|fuel]; [lia|]. cbn [skip_spaces_fuel].
      rewrite sp_S, <- app_assoc in Hrest.
      rewrite (st_starts_true L _ _ _ Hwf Hrest) by (apply app_nonempty_l, space_ne).
      unfold skip. rewrite (IH fuel (step F (length space) st) r);
        [ | apply wf_step, Hwf | apply rest_step, Hrest | exact Hr | lia].
      rewrite step_step. apply step_eq. rewrite sp_S, app_length. reflexivity.
  Qed.

  Lemma skip_spaces_sp L n (st : pstate) r :
    wf F L st -> s_rest st = sp E n ++ r -> starts space r = false ->
    skip_spaces F E st = step F (length (sp E n)) st.
  Proof.
    intros Hwf Hrest Hr. unfold skip_spaces. apply (skip_spaces_fuel_sp L n _ st r Hwf Hrest Hr).
    rewrite Hrest, app_length. pose proof (sp_length_ge n). lia.
  Qed.

  Lemma skip_and_spaces_eq L kw n r (st : pstate) :
    wf F L st -> s_rest st = kw ++ sp E n ++ r -> starts space r = false ->
    skip_and_spaces F E kw st = step F (length (kw ++ sp E n)) st.
  Proof.
    intros Hwf Hrest Hr. unfold skip_and_spaces, skip.
    rewrite (skip_spaces_sp L n _ r); [ | apply wf_step, Hwf | apply rest_step, Hrest | exact Hr].
    rewrite step_step. apply step_eq. now rewrite app_length.
  Qed.

  Lemma skip_after_spaces_eq L kw n r (st : pstate) :
    wf F L st -> s_rest st = sp E n ++ kw ++ r -> starts space (kw ++ r) = false ->
    skip_after_spaces F E kw st = step F (length (sp E n ++ kw)) st.
  Proof.
    intros Hwf Hrest Hr. unfold skip_after_spaces, skip.
    rewrite (skip_spaces_sp L n _ (kw ++ r) Hwf Hrest Hr).
    rewrite step_step. apply step_eq. now rewrite app_length.
  Qed.

  (* ---- arm lists ---- *)
  Lemma find_arm_firstn {A} (arms : list ((efmt -> str) * A)) (st : pstate) : forall i g a,
    nth_error arms i = Some (g, a) ->
    forallb (fun x => negb (st_starts F (fst x E) st)) (firstn i arms) = true ->
    st_starts F (g E) st = true ->
    find_arm F E arms st = Some (g, a).
  Proof.
    induction arms as [|[g' a'] arms IH]; intros i g a Hn Hall Hst; [destruct i; discriminate|].
    destruct i as [|i]; cbn [nth_error firstn forallb find_arm fst] in *.
    - injection Hn as -> ->. now rewrite Hst.
    - apply andb_true_iff in Hall as [H1 H2]. apply negb_true_iff in H1. rewrite H1. now apply (IH i).
  Qed.

  Lemma find_arm_none {A} (arms : list ((efmt -> str) * A)) (st : pstate) :
    forallb (fun x => negb (st_starts F (fst x E) st)) arms = true -> find_arm F E arms st = None.
  Proof.
    induction arms as [|[g' a'] arms IH]; cbn [forallb find_arm fst]; [reflexivity|].
    intros H. apply andb_true_iff in H as [H1 H2]. apply negb_true_iff in H1. rewrite H1. now apply IH.
  Qed.

  Lemma arms_order_spec {A} (arms : list ((efmt -> str) * A)) follows i g a f x :
    arms_order_ok E arms follows = true -> nth_error arms i = Some (g, a) -> In f follows -> In x (firstn i arms) ->
    incompat (fst x E) (g E ++ f) = true.
  Proof.
    intros Hall Hn Hf Hx. unfold arms_order_ok in Hall. rewrite forallb_forall in Hall.
    assert (Hi : In i (seq 0 (length arms))).
    { apply in_seq. split; [lia|]. cbn. apply nth_error_Some. congruence. }
    specialize (Hall _ Hi). rewrite Hn in Hall. rewrite forallb_forall in Hall. specialize (Hall _ Hx).
    rewrite forallb_forall in Hall. now apply Hall.
  Qed.

  Lemma find_arm_order {A} (arms : list ((efmt -> str) * A)) follows L (st : pstate) i g a f r :
    arms_order_ok E arms follows = true -> nth_error arms i = Some (g, a) -> In f follows ->
    wf F L st -> s_rest st = g E ++ f ++ r -> g E ++ f ++ r <> [] ->
    find_arm F E arms st = Some (g, a).
  Proof.
    intros Hall Hn Hf Hwf Hrest Hne. apply (find_arm_firstn arms st i g a Hn).
    - apply forallb_forall. intros x Hx. apply negb_true_iff, st_starts_false.
      rewrite Hrest, app_assoc. apply incompat_starts. exact (arms_order_spec arms follows i g a f x Hall Hn Hf Hx).
    - exact (st_starts_true L _ _ st Hwf Hrest Hne).
  Qed.

  (* ---- atoms ---- *)
  Lemma copula_at_head_str (st : pstate) : copula_at_head F E st = copula_head_str E (s_rest st).
  Proof. reflexivity. Qed.

  Lemma name_loop_scan L : forall name fuel acc (st : pstate) k,
    wf F L st -> s_rest st = name ++ k -> name_scan_ok is_alnum E name k = true -> (length name <= fuel)%nat ->
    name_loop F is_alnum E fuel acc st = (acc ++ name, step F (length name) st).
  Proof.
    induction name as [|c name IH]; intros fuel acc st k Hwf Hrest Hscan Hf.
    - cbn [length]. rewrite step_0, app_nil_r. cbn [app] in Hrest. cbn [name_scan_ok] in Hscan.
      destruct fuel as [|fuel]; cbn [name_loop]; [reflexivity|].
      destruct (can_consume F st); [|reflexivity].
      rewrite copula_at_head_str, Hrest. destruct k as [|c k]; [reflexivity|].
      cbn [stop_ok] in Hscan. destruct (copula_head_str E (c :: k)); [reflexivity|].
      cbn [orb] in Hscan. apply negb_true_iff in Hscan. now rewrite Hscan.
    - destruct fuel as [|fuel]; [cbn in Hf; lia|]. cbn [name_loop].
      rewrite (can_consume_true L st Hwf) by (rewrite Hrest; discriminate).
      rewrite copula_at_head_str, Hrest. cbn [app].
      cbn [name_scan_ok] in Hscan. apply andb_true_iff in Hscan as [Hscan H3]. apply andb_true_iff in Hscan as [H1 H2].
      apply negb_true_iff in H1. rewrite H1, H2.
      rewrite (IH fuel (acc ++ [c]) (step F 1 st) k); [ | apply wf_step, Hwf | | exact H3 | cbn in Hf; lia].
      + rewrite <- app_assoc. cbn [app]. rewrite step_step. reflexivity.
      + apply (rest_step [c] (name ++ k) st). exact Hrest.
  Qed.

  Lemma atom_value_parse init name v (st : pstate) :
    atom_value init name = Some v ->
    match init with
    | AIUnit c => POk (TUnit c) st
    | _ => match name with
           | [] => perr F st
           | _ => match set_atom_name (atom_of_init init) name with (true, t) => POk t st | (false, _) => perr F st end
           end
    end = POk v st.
  Proof.
    unfold atom_value. destruct init as [c|c|c].
    - destruct name as [|x name]; [discriminate|]. destruct (set_atom_name _ _) as [[|] t]; [|discriminate]. now intros [= ->].
    - now intros [= ->].
    - destruct name as [|x name]; [discriminate|]. destruct (set_atom_name _ _) as [[|] t]; [|discriminate]. now intros [= ->].
  Qed.

  Lemma atom_render_ne arm name v : odesugar (SAtom arm name) = Some v -> atom_prefix E arm ++ name <> [].
  Proof.
    cbn [odesugar]. unfold atom_prefix. destruct (nth_error parse_atom_arms arm) as [[p init]|] eqn:Hn; [|discriminate].
    intros Hv. destruct init as [c|c|c]; cbn [atom_value] in Hv.
    - destruct name; [discriminate|]. intros H. apply app_eq_nil in H as [_ H]. discriminate.
    - pose proof tk_atoms as Ha. rewrite forallb_forall in Ha. specialize (Ha _ (nth_error_In _ _ Hn)). cbn [snd fst] in Ha.
      apply app_nonempty_l, nonempty_ne, Ha.
    - destruct name; [discriminate|]. intros H. apply app_eq_nil in H as [_ H]. discriminate.
  Qed.

  Lemma no_start_In kws text kw : no_start kws text = true -> In kw kws -> starts kw text = false.
  Proof. unfold no_start. rewrite forallb_forall. intros H Hin. apply negb_true_iff, H, Hin. Qed.

  Lemma p_atom_render L forbid arm name v k (st : pstate) :
    odesugar (SAtom arm name) = Some v -> atom_unamb is_alnum E forbid arm name k = true ->
    wf F L st -> s_rest st = (atom_prefix E arm ++ name) ++ k ->
    p_atom F is_alnum E st = POk v (step F (length (atom_prefix E arm ++ name)) st).
  Proof.
    intros Hv Hu Hwf Hrest. pose proof (atom_render_ne arm name v Hv) as Hne.
    unfold atom_unamb in Hu. rewrite !andb_true_iff in Hu. destruct Hu as (((_ & _) & Hearlier) & Hscan).
    cbn [odesugar] in Hv. unfold atom_prefix in *.
    destruct (nth_error parse_atom_arms arm) as [[p init]|] eqn:Hn; [|discriminate].
    rewrite <- app_assoc in Hrest.
    unfold p_atom. rewrite (find_arm_firstn parse_atom_arms st arm p init Hn).
    - unfold skip.
      rewrite (name_loop_scan L name _ [] (step F (length (p E)) st) k);
        [ | apply wf_step, Hwf | apply rest_step, Hrest | exact Hscan | ].
      + cbn [app]. rewrite (atom_value_parse init name v _ Hv). rewrite step_step. f_equal. apply step_eq. now rewrite app_length.
      + rewrite (rest_step _ _ _ Hrest), app_length. lia.
    - apply forallb_forall. intros x Hx. apply negb_true_iff, st_starts_false. rewrite Hrest.
      apply (no_start_In _ _ _ Hearlier). unfold earlier_prefixes. apply in_map_iff. now exists x.
    - apply (st_starts_true L _ _ st Hwf Hrest). rewrite app_assoc. now apply app_nonempty_l.
  Qed.

  (* ---- what the enclosing construct tests first never matches the text of the term ---- *)
  Lemma render_lb t : exists lb r, (In lb (left_brackets E) /\ render E t = lb ++ r) \/ (exists arm name, t = SAtom arm name).
  Proof.
    destruct t as [arm name|ext sp0 gaps items sp1|arm sp0 gaps items sp1|arm sp0 sp1 sp2 sp3 s p]; cbn [render].
    - exists [], []. right. eauto.
    - destruct ext; cbn [set_lb]; eexists _, _; left; (split; [|reflexivity]); unfold left_brackets; cbn [In]; tauto.
    - eexists _, _; left; (split; [|reflexivity]); unfold left_brackets; cbn [In]; tauto.
    - eexists _, _; left; (split; [|reflexivity]); unfold left_brackets; cbn [In]; tauto.
  Qed.

  Lemma unamb_forbid forbid t k kw :
    unamb_ctx is_alnum E forbid t k = true -> In kw forbid -> In kw (item_delims E) ->
    starts kw (render E t ++ k) = false.
  Proof.
    intros Hu Hf Hd. destruct (render_lb t) as (lb & r & [[Hlb Hr]|(arm & name & ->)]).
    - rewrite Hr, <- app_assoc. now apply delim_lb.
    - cbn [unamb_ctx render] in Hu |- *. unfold atom_unamb in Hu. rewrite !andb_true_iff in Hu.
      destruct Hu as (((H1 & _) & _) & _). rewrite <- app_assoc. exact (no_start_In _ _ _ H1 Hf).
  Qed.

  Lemma render_ne t v : odesugar t = Some v -> render E t <> [].
  Proof.
    intros Hv. destruct (render_lb t) as (lb & r & [[Hlb Hr]|(arm & name & ->)]).
    - rewrite Hr. apply app_nonempty_l. unfold left_brackets in Hlb. cbn [In] in Hlb.
      destruct Hlb as [<-|[<-|[<-|[<-|[]]]]]; [apply xlb_ne | apply ilb_ne | apply clb_ne | apply slb_ne].
    - cbn [render]. exact (atom_render_ne arm name v Hv).
  Qed.

  Definition item_ok (pt : pstate -> pres term) (forbid : list str) (x : sterm) : Prop :=
    forall v k L (st : pstate),
      odesugar x = Some v -> unamb_ctx is_alnum E forbid x k = true ->
      wf F L st -> s_rest st = render E x ++ k ->
      pt st = POk v (step F (length (render E x)) st).

  (* ---- the loop of parse_compound_terms ---- *)
  Section Loop.
    Variable pt : pstate -> pres term.
    Variable rb : str.
    Hypothesis Hrb : In rb (list_right_brackets E).

    Lemma p_terms_space L fuel acc (st : pstate) r :
      wf F L st -> s_rest st = space ++ r -> (length (s_rest st) < fuel)%nat ->
      exists fuel', p_terms F E pt rb fuel acc st = p_terms F E pt rb fuel' acc (step F (length space) st) /\ (length r < fuel')%nat.
    Proof.
      intros Hwf Hrest Hf. destruct fuel as [|fuel]; [lia|]. exists fuel. split.
      - cbn [p_terms]. assert (Hne : space ++ r <> []) by apply app_nonempty_l, space_ne.
        rewrite (can_consume_true L st Hwf) by (now rewrite Hrest).
        now rewrite (st_starts_true L _ _ st Hwf Hrest Hne).
      - rewrite Hrest, app_length in Hf. pose proof space_len. lia.
    Qed.

    Lemma p_terms_sp L : forall n fuel acc (st : pstate) r,
      wf F L st -> s_rest st = sp E n ++ r -> (length (s_rest st) < fuel)%nat ->
      exists fuel', p_terms F E pt rb fuel acc st = p_terms F E pt rb fuel' acc (step F (length (sp E n)) st) /\ (length r < fuel')%nat.
    Proof.
      induction n as [|n IH]; intros fuel acc st r Hwf Hrest Hf.
      - exists fuel. rewrite sp_0 in *. cbn [length]. rewrite step_0. split; [reflexivity|]. now rewrite Hrest in Hf.
      - rewrite sp_S, <- app_assoc in Hrest.
        destruct (p_terms_space L fuel acc st _ Hwf Hrest Hf) as (f1 & H1 & Hf1).
        destruct (IH f1 acc (step F (length space) st) r (wf_step F L _ _ Hwf) (rest_step _ _ _ Hrest)) as (f2 & H2 & Hf2).
        { now rewrite (rest_step _ _ _ Hrest). }
        exists f2. split; [|exact Hf2]. rewrite H1, H2, step_step. do 2 f_equal. now rewrite sp_S, app_length.
    Qed.

    Lemma p_terms_sep L fuel acc (st : pstate) r :
      wf F L st -> s_rest st = sep ++ r -> (length (s_rest st) < fuel)%nat ->
      exists fuel', p_terms F E pt rb fuel acc st = p_terms F E pt rb fuel' acc (step F (length sep) st) /\ (length r < fuel')%nat.
    Proof.
      intros Hwf Hrest Hf. destruct fuel as [|fuel]; [lia|]. exists fuel. split.
      - cbn [p_terms]. assert (Hne : sep ++ r <> []) by apply app_nonempty_l, sep_ne.
        rewrite (can_consume_true L st Hwf) by (now rewrite Hrest).
        rewrite (st_starts_false space st) by (rewrite Hrest; apply incompat_starts, pk_sp_sep).
        now rewrite (st_starts_true L _ _ st Hwf Hrest Hne).
      - rewrite Hrest, app_length in Hf. pose proof sep_len. lia.
    Qed.

    Lemma p_terms_gap L g fuel acc (st : pstate) r :
      wf F L st -> s_rest st = gap E g ++ r -> (length (s_rest st) < fuel)%nat ->
      exists fuel', p_terms F E pt rb fuel acc st = p_terms F E pt rb fuel' acc (step F (length (gap E g)) st) /\ (length r < fuel')%nat.
    Proof.
      intros Hwf Hrest Hf. unfold gap in *. rewrite <- !app_assoc in Hrest.
      destruct (p_terms_sp L _ fuel acc st _ Hwf Hrest Hf) as (f1 & H1 & Hf1).
      pose proof (wf_step F L (length (sp E (fst g))) st Hwf) as Hwf1. pose proof (rest_step _ _ _ Hrest) as Hr1.
      destruct (p_terms_sep L f1 acc _ _ Hwf1 Hr1) as (f2 & H2 & Hf2); [now rewrite Hr1|].
      pose proof (wf_step F L (length sep) _ Hwf1) as Hwf2. pose proof (rest_step _ _ _ Hr1) as Hr2.
      destruct (p_terms_sp L _ f2 acc _ _ Hwf2 Hr2) as (f3 & H3 & Hf3); [now rewrite Hr2|].
      exists f3. split; [|exact Hf3]. rewrite H1, H2, H3, !step_step. do 2 f_equal. rewrite !app_length. lia.
    Qed.

    Lemma p_terms_stop L fuel acc (st : pstate) k :
      wf F L st -> s_rest st = rb ++ k -> (0 < fuel)%nat -> p_terms F E pt rb fuel acc st = POk acc st.
    Proof.
      intros Hwf Hrest Hf. destruct fuel as [|fuel]; [lia|]. cbn [p_terms].
      destruct (rb_facts rb Hrb) as (Hne & Hsp & Hsep).
      rewrite (can_consume_true L st Hwf) by (rewrite Hrest; now apply app_nonempty_l).
      rewrite (st_starts_false space st) by (rewrite Hrest; now apply incompat_starts).
      rewrite (st_starts_false sep st) by (rewrite Hrest; now apply incompat_starts).
      rewrite (st_starts_true L _ _ st Hwf Hrest) by now apply app_nonempty_l. reflexivity.
    Qed.

    Lemma p_terms_items L gaps : forall l, Forall (item_ok pt (item_forbid E rb)) l ->
      forall lead i vs n k fuel acc (st : pstate),
        omap odesugar l = Some vs ->
        unamb_items E (unamb_ctx is_alnum E (item_forbid E rb)) (render E) gaps i l (sp E n ++ rb ++ k) = true ->
        wf F L st -> s_rest st = render_items E (render E) gaps lead i l ++ sp E n ++ rb ++ k ->
        (length (s_rest st) < fuel)%nat ->
        p_terms F E pt rb fuel acc st =
          POk (acc ++ vs) (step F (length (render_items E (render E) gaps lead i l ++ sp E n)) st).
    Proof.
      induction l as [|x l IH]; intros Hall lead i vs n k fuel acc st Hvs Hu Hwf Hrest Hf.
      - cbn [omap] in Hvs. injection Hvs as <-. cbn [render_items app] in Hrest |- *. rewrite app_nil_r.
        destruct (p_terms_sp L n fuel acc st _ Hwf Hrest Hf) as (f1 & H1 & Hf1). rewrite H1.
        apply (p_terms_stop L f1 acc _ k); [apply wf_step, Hwf | apply rest_step, Hrest | lia].
      - inversion Hall as [|x' l' Hx Hl]; subst x' l'.
        rewrite omap_cons in Hvs. destruct (odesugar x) as [v|] eqn:Hv; [|discriminate].
        destruct (omap odesugar l) as [vs'|] eqn:Hvs'; [|discriminate]. injection Hvs as <-.
        rewrite unamb_items_cons in Hu. apply andb_true_iff in Hu as [Hux Hul].
        rewrite render_items_cons in Hrest |- *. rewrite <- !app_assoc in Hrest.
        match type of Hrest with _ = ?c ++ _ => pose (g := c); assert (Hg : g = c) by reflexivity end.
        clearbody g. rewrite <- Hg in Hrest |- *.
        (* the gap *)
        assert (Hgap : exists f1, p_terms F E pt rb fuel acc st = p_terms F E pt rb f1 acc (step F (length g) st) /\
                                  (length (s_rest (step F (length g) st)) < f1)%nat).
        { destruct lead; cbn iota in Hg; subst g.
          - destruct (p_terms_gap L _ fuel acc st _ Hwf Hrest Hf) as (f1 & H1 & Hf1). exists f1. split; [exact H1|].
            now rewrite (rest_step _ _ _ Hrest).
          - exists fuel. cbn [length]. rewrite step_0. split; [reflexivity | exact Hf]. }
        destruct Hgap as (f1 & H1 & Hf1). rewrite H1.
        pose proof (wf_step F L (length g) st Hwf) as Hwf1. pose proof (rest_step _ _ _ Hrest) as Hr1.
        set (st1 := step F (length g) st) in *.
        set (kx := render_items E (render E) gaps true (S i) l ++ sp E n ++ rb ++ k) in *.
        (* the item *)
        destruct f1 as [|f1]; [lia|]. cbn [p_terms].
        pose proof (render_ne x v Hv) as Hne.
        rewrite (can_consume_true L st1 Hwf1) by (rewrite Hr1; now apply app_nonempty_l).
        assert (Hns : forall kw, In kw (item_forbid E rb) -> st_starts F kw st1 = false).
        { intros kw Hkw. apply st_starts_false. rewrite Hr1. apply (unamb_forbid _ x kx kw Hux Hkw).
          unfold item_forbid in Hkw. cbn [In] in Hkw. unfold item_delims. cbn [In].
          destruct Hkw as [<-|[<-|[<-|[]]]]; [tauto | tauto | right; right; exact Hrb]. }
        rewrite (Hns space) by (unfold item_forbid; cbn [In]; tauto).
        rewrite (Hns sep) by (unfold item_forbid; cbn [In]; tauto).
        rewrite (Hns rb) by (unfold item_forbid; cbn [In]; tauto).
        rewrite (Hx v kx L st1 Hv Hux Hwf1 Hr1). cbn [pbind].
        pose proof (wf_step F L (length (render E x)) st1 Hwf1) as Hwf2. pose proof (rest_step _ _ _ Hr1) as Hr2.
        rewrite (IH Hl true (S i) vs' n k f1 (acc ++ [v]) _ eq_refl Hul Hwf2 Hr2).
        + rewrite <- app_assoc. cbn [app]. unfold st1. rewrite !step_step. do 2 f_equal. rewrite !app_length. lia.
        + rewrite Hr2. rewrite Hr1, app_length in Hf1. apply ne_len_pos in Hne. lia.
    Qed.
  End Loop.

  (* ---- sets ---- *)
  Lemma items_first_no_space rb gaps items vs tail :
    In rb (list_right_brackets E) -> omap odesugar items = Some vs -> vs <> [] ->
    unamb_items E (unamb_ctx is_alnum E (item_forbid E rb)) (render E) gaps 0 items tail = true ->
    starts space (render_items E (render E) gaps false 0 items ++ tail) = false.
  Proof.
    intros Hrb Hvs Hne Hu. destruct items as [|x l]; [cbn in Hvs; injection Hvs as <-; congruence|].
    rewrite unamb_items_cons in Hu. apply andb_true_iff in Hu as [Hux _].
    rewrite render_items_cons. cbn [app]. rewrite <- app_assoc.
    apply (unamb_forbid _ x _ space Hux); [unfold item_forbid; cbn [In]; tauto | unfold item_delims; cbn [In]; tauto].
  Qed.

  Lemma p_term_set_render L pt c lb rb sp0 gaps items sp1 k vs (st : pstate) :
    In rb (list_right_brackets E) ->
    Forall (item_ok pt (item_forbid E rb)) items ->
    omap odesugar items = Some vs -> vs <> [] ->
    unamb_items E (unamb_ctx is_alnum E (item_forbid E rb)) (render E) gaps 0 items (sp E sp1 ++ rb ++ k) = true ->
    wf F L st ->
    s_rest st = (lb ++ sp E sp0 ++ render_items E (render E) gaps false 0 items ++ sp E sp1 ++ rb) ++ k ->
    p_term_set F E pt c lb rb st =
      POk (TSet c (mk_set vs))
          (step F (length (lb ++ sp E sp0 ++ render_items E (render E) gaps false 0 items ++ sp E sp1 ++ rb)) st).
  Proof.
    intros Hrb Hall Hvs Hne Hu Hwf Hrest. rewrite <- !app_assoc in Hrest.
    destruct (rb_facts rb Hrb) as (Hrbne & Hsprb & _).
    unfold p_term_set.
    rewrite (skip_and_spaces_eq L lb sp0 _ st Hwf Hrest) by (apply (items_first_no_space rb gaps items vs _ Hrb Hvs Hne Hu)).
    set (st1 := step F (length (lb ++ sp E sp0)) st).
    assert (Hwf1 : wf F L st1) by apply wf_step, Hwf.
    assert (Hr1 : s_rest st1 = render_items E (render E) gaps false 0 items ++ sp E sp1 ++ rb ++ k).
    { unfold st1. apply rest_step. now rewrite <- app_assoc. }
    rewrite (p_terms_items pt rb Hrb L gaps items Hall false 0 vs sp1 k _ [] st1 Hvs Hu Hwf1 Hr1) by (unfold terms_fuel; lia).
    cbn [pbind app].
    set (st2 := step F (length (render_items E (render E) gaps false 0 items ++ sp E sp1)) st1).
    assert (Hwf2 : wf F L st2) by apply wf_step, Hwf1.
    assert (Hr2 : s_rest st2 = sp E 0 ++ rb ++ k).
    { unfold st2. apply rest_step. now rewrite <- app_assoc. }
    rewrite (skip_after_spaces_eq L rb 0 k st2 Hwf2 Hr2) by now apply incompat_starts.
    destruct vs as [|v0 vs]; [congruence|]. f_equal.
    unfold st2, st1. rewrite !step_step. apply step_eq. rewrite sp_0. cbn [app]. rewrite !app_length. lia.
  Qed.

  (* ---- compounds ---- *)
  Lemma fill_compound_pure i ts v (st : pstate) : fill_pure i ts = Some v -> fill_compound F i ts st = POk v st.
  Proof.
    unfold fill_pure, fill_compound.
    repeat match goal with
           | |- context [match ?x with _ => _ end] => destruct x
           end; try discriminate; try (intros [= <-]; reflexivity).
  Qed.

  Lemma p_compound_render L pt arm kw init sp0 gaps items sp1 k vs v (st : pstate) :
    nth_error parse_compound_arms arm = Some (kw, init) ->
    Forall (item_ok pt (item_forbid E crb)) items ->
    omap odesugar items = Some vs -> vs <> [] -> fill_pure init vs = Some v ->
    unamb_items E (unamb_ctx is_alnum E (item_forbid E crb)) (render E) gaps 0 items (sp E sp1 ++ crb ++ k) = true ->
    wf F L st ->
    s_rest st = (clb ++ sp E sp0 ++ kw E ++ render_items E (render E) gaps true 0 items ++ sp E sp1 ++ crb) ++ k ->
    p_compound F E pt st =
      POk v (step F (length (clb ++ sp E sp0 ++ kw E ++ render_items E (render E) gaps true 0 items ++ sp E sp1 ++ crb)) st).
  Proof.
    intros Hn Hall Hvs Hne Hfill Hu Hwf Hrest. rewrite <- !app_assoc in Hrest.
    assert (Hcrb : In crb (list_right_brackets E)) by (unfold list_right_brackets; cbn [In]; tauto).
    destruct (rb_facts crb Hcrb) as (Hrbne & Hsprb & _).
    unfold p_compound.
    rewrite (skip_and_spaces_eq L clb sp0 _ st Hwf Hrest).
    2:{ apply incompat_starts. pose proof pk_sp_comp as H. rewrite forallb_forall in H. exact (H _ (nth_error_In _ _ Hn)). }
    set (st1 := step F (length (clb ++ sp E sp0)) st).
    assert (Hwf1 : wf F L st1) by apply wf_step, Hwf.
    assert (Hr1 : s_rest st1 = kw E ++ render_items E (render E) gaps true 0 items ++ sp E sp1 ++ crb ++ k).
    { unfold st1. apply rest_step. now rewrite <- app_assoc. }
    (* what follows the connecter: a space or the separator *)
    assert (Hfol : exists f r, In f [space; sep] /\ f <> [] /\ s_rest st1 = kw E ++ f ++ r).
    { destruct items as [|x l]; [cbn in Hvs; injection Hvs as <-; congruence|].
      rewrite Hr1, render_items_cons. unfold gap. destruct (fst (gaps 0%nat)) as [|a].
      - exists sep. eexists. split; [cbn [In]; tauto|]. split; [apply sep_ne|]. rewrite sp_0. cbn [app]. rewrite <- !app_assoc. reflexivity.
      - exists space. eexists. split; [cbn [In]; tauto|]. split; [apply space_ne|]. rewrite sp_S. rewrite <- !app_assoc. reflexivity. }
    destruct Hfol as (f & r & Hf & Hfne & Hr1').
    rewrite find_arm_none.
    2:{ apply forallb_forall. intros [g u] Hin. apply in_map_iff in Hin as (g' & Heq & Hg'). injection Heq as <- <-. cbn [fst].
        apply negb_true_iff, st_starts_false. rewrite Hr1. apply incompat_starts.
        pose proof pk_reject as H. rewrite forallb_forall in H. specialize (H _ Hg'). rewrite forallb_forall in H.
        exact (H _ (nth_error_In _ _ Hn)). }
    rewrite (find_arm_order parse_compound_arms [space; sep] L st1 arm kw init f r pk_comp_order Hn Hf Hwf1 Hr1').
    2:{ rewrite app_assoc. apply app_nonempty_l. intros H. apply app_eq_nil in H as [_ H]. contradiction. }
    unfold skip. set (st2 := step F (length (kw E)) st1).
    assert (Hwf2 : wf F L st2) by apply wf_step, Hwf1.
    assert (Hr2 : s_rest st2 = render_items E (render E) gaps true 0 items ++ sp E sp1 ++ crb ++ k).
    { unfold st2. apply rest_step. exact Hr1. }
    rewrite (p_terms_items pt crb Hcrb L gaps items Hall true 0 vs sp1 k _ [] st2 Hvs Hu Hwf2 Hr2) by (unfold terms_fuel; lia).
    cbn [pbind app].
    set (st3 := step F (length (render_items E (render E) gaps true 0 items ++ sp E sp1)) st2).
    assert (Hwf3 : wf F L st3) by apply wf_step, Hwf2.
    assert (Hr3 : s_rest st3 = sp E 0 ++ crb ++ k).
    { unfold st3. apply rest_step. now rewrite <- app_assoc. }
    destruct vs as [|v0 vs]; [congruence|].
    rewrite (fill_compound_pure init (v0 :: vs) v st3 Hfill). cbn [pbind].
    rewrite (skip_after_spaces_eq L crb 0 k st3 Hwf3 Hr3) by now apply incompat_starts.
    f_equal. unfold st3, st2, st1. rewrite !step_step. apply step_eq. rewrite sp_0. cbn [app]. rewrite !app_length. lia.
  Qed.

  (* ---- statements ---- *)
  Lemma space_delim : In space (item_delims E).
  Proof. unfold item_delims. cbn [In]. tauto. Qed.

  Lemma p_statement_render L pt arm kw b sp0 sp1 sp2 sp3 s p k vs vp (st : pstate) :
    nth_error parse_statement_arms arm = Some (kw, b) ->
    item_ok pt [space] s -> item_ok pt [space] p ->
    odesugar s = Some vs -> odesugar p = Some vp ->
    unamb_ctx is_alnum E [space] s (sp E sp1 ++ kw E ++ sp E sp2 ++ render E p ++ sp E sp3 ++ srb ++ k) = true ->
    unamb_ctx is_alnum E [space] p (sp E sp3 ++ srb ++ k) = true ->
    wf F L st ->
    s_rest st = (slb ++ sp E sp0 ++ render E s ++ sp E sp1 ++ kw E ++ sp E sp2 ++ render E p ++ sp E sp3 ++ srb) ++ k ->
    p_statement F E pt st =
      POk (build_statement b vs vp)
          (step F (length (slb ++ sp E sp0 ++ render E s ++ sp E sp1 ++ kw E ++ sp E sp2 ++ render E p ++ sp E sp3 ++ srb)) st).
  Proof.
    intros Hn Hs Hp Hvs Hvp Hus Hup Hwf Hrest. rewrite <- !app_assoc in Hrest.
    assert (Hin : In space [space]) by (cbn [In]; tauto).
    pose proof pk_copulas as Hkw. rewrite forallb_forall in Hkw. specialize (Hkw _ (nth_error_In _ _ Hn)). cbn [fst] in Hkw.
    apply andb_true_iff in Hkw as [_ Hkw]. apply nonempty_ne in Hkw.
    unfold p_statement.
    rewrite (skip_and_spaces_eq L slb sp0 _ st Hwf Hrest) by (apply (unamb_forbid _ s _ space Hus Hin space_delim)).
    set (st1 := step F (length (slb ++ sp E sp0)) st).
    assert (Hwf1 : wf F L st1) by apply wf_step, Hwf.
    assert (Hr1 : s_rest st1 = render E s ++ sp E sp1 ++ kw E ++ sp E sp2 ++ render E p ++ sp E sp3 ++ srb ++ k).
    { unfold st1. apply rest_step. now rewrite <- app_assoc. }
    rewrite (Hs vs _ L st1 Hvs Hus Hwf1 Hr1). cbn [pbind].
    set (st2 := step F (length (render E s)) st1).
    assert (Hwf2 : wf F L st2) by apply wf_step, Hwf1.
    assert (Hr2 : s_rest st2 = sp E sp1 ++ kw E ++ sp E sp2 ++ render E p ++ sp E sp3 ++ srb ++ k).
    { unfold st2. apply rest_step. exact Hr1. }
    rewrite (skip_spaces_sp L sp1 st2 _ Hwf2 Hr2).
    2:{ apply incompat_starts. pose proof pk_sp_stmt as H. rewrite forallb_forall in H. exact (H _ (nth_error_In _ _ Hn)). }
    set (st3 := step F (length (sp E sp1)) st2).
    assert (Hwf3 : wf F L st3) by apply wf_step, Hwf2.
    assert (Hr3 : s_rest st3 = kw E ++ [] ++ sp E sp2 ++ render E p ++ sp E sp3 ++ srb ++ k).
    { unfold st3. apply rest_step. exact Hr2. }
    rewrite (find_arm_order parse_statement_arms [[]] L st3 arm kw b [] _ pk_stmt_order Hn (or_introl eq_refl) Hwf3 Hr3)
      by now apply app_nonempty_l.
    cbn [app] in Hr3. unfold skip.
    set (st4 := step F (length (kw E)) st3).
    assert (Hwf4 : wf F L st4) by apply wf_step, Hwf3.
    assert (Hr4 : s_rest st4 = sp E sp2 ++ render E p ++ sp E sp3 ++ srb ++ k).
    { unfold st4. apply rest_step. exact Hr3. }
    rewrite (skip_spaces_sp L sp2 st4 _ Hwf4 Hr4) by (apply (unamb_forbid _ p _ space Hup Hin space_delim)).
    set (st5 := step F (length (sp E sp2)) st4).
    assert (Hwf5 : wf F L st5) by apply wf_step, Hwf4.
    assert (Hr5 : s_rest st5 = render E p ++ sp E sp3 ++ srb ++ k).
    { unfold st5. apply rest_step. exact Hr4. }
    rewrite (Hp vp _ L st5 Hvp Hup Hwf5 Hr5). cbn [pbind].
    set (st6 := step F (length (render E p)) st5).
    assert (Hwf6 : wf F L st6) by apply wf_step, Hwf5.
    assert (Hr6 : s_rest st6 = sp E sp3 ++ srb ++ k).
    { unfold st6. apply rest_step. exact Hr5. }
    rewrite (skip_after_spaces_eq L srb sp3 k st6 Hwf6 Hr6) by (apply incompat_starts, pk_sp_srb).
    f_equal. unfold st6, st5, st4, st3, st2, st1. rewrite !step_step. apply step_eq. rewrite !app_length. lia.
  Qed.

  (* ---- the theorem ---- *)
  Lemma sdepth_items x items : In x items -> (sdepth x <= fold_right (fun x acc => Nat.max (sdepth x) acc) 0 items)%nat.
  Proof.
    induction items as [|y items IH]; cbn [In fold_right]; [tauto|].
    intros [->|H]; [lia | specialize (IH H); lia].
  Qed.

  Theorem p_term_ctx : forall t forbid v k L (st : pstate) fuel,
    odesugar t = Some v -> unamb_ctx is_alnum E forbid t k = true ->
    wf F L st -> s_rest st = render E t ++ k -> (sdepth t < fuel)%nat ->
    p_term F is_alnum E fuel st = POk v (step F (length (render E t)) st).
  Proof.
    intros t.
    induction t as [arm name|ext sp0 gaps items sp1 IH|arm sp0 gaps items sp1 IH|arm sp0 sp1 sp2 sp3 s p IHs IHp] using sterm_ind';
      intros forbid v k L st fuel Hv Hu Hwf Hrest Hf; (destruct fuel as [|fuel]; [lia|]); cbn [p_term].
    - (* atom *)
      cbn [render] in Hrest |- *. cbn [unamb_ctx] in Hu. pose proof Hu as Hu'.
      unfold atom_unamb in Hu'. rewrite !andb_true_iff in Hu'. destruct Hu' as (((_ & Hlb) & _) & _).
      rewrite <- app_assoc in Hrest.
      assert (Hno : forall lb, In lb (left_brackets E) -> st_starts F lb st = false).
      { intros lb Hin. apply st_starts_false. rewrite Hrest. exact (no_start_In _ _ _ Hlb Hin). }
      unfold left_brackets in Hno. cbn [In] in Hno.
      rewrite (Hno xlb), (Hno ilb), (Hno clb), (Hno slb) by tauto.
      rewrite app_assoc in Hrest. exact (p_atom_render L forbid arm name v k st Hv Hu Hwf Hrest).
    - (* set *)
      cbn [render] in Hrest |- *. cbn [unamb_ctx] in Hu. cbn [odesugar] in Hv. cbn [sdepth] in Hf.
      destruct (omap odesugar items) as [[|v0 vs]|] eqn:Hvs; try discriminate. injection Hv as <-.
      assert (Hitems : forall fb, Forall (item_ok (p_term F is_alnum E fuel) fb) items).
      { intros fb. apply Forall_forall. intros x Hx. rewrite Forall_forall in IH.
        intros v' k' L' st' Hv' Hu' Hwf' Hrest'. apply (IH x Hx fb v' k' L' st' fuel Hv' Hu' Hwf' Hrest').
        pose proof (sdepth_items x items Hx). lia. }
      pose proof lb_order as (Hxi & _).
      destruct ext; cbn [set_lb set_rb] in *.
      + pose proof Hrest as Hrest'. rewrite <- app_assoc in Hrest'.
        rewrite (st_starts_true L xlb _ st Hwf Hrest') by (apply app_nonempty_l, xlb_ne).
        apply (p_term_set_render L _ SetExtension xlb xrb sp0 gaps items sp1 k (v0 :: vs) st); auto; try discriminate.
        unfold list_right_brackets; cbn [In]; tauto.
      + pose proof Hrest as Hrest'. rewrite <- app_assoc in Hrest'.
        rewrite (st_starts_false xlb st) by (rewrite Hrest'; now apply incompat_starts).
        rewrite (st_starts_true L ilb _ st Hwf Hrest') by (apply app_nonempty_l, ilb_ne).
        apply (p_term_set_render L _ SetIntension ilb irb sp0 gaps items sp1 k (v0 :: vs) st); auto; try discriminate.
        unfold list_right_brackets; cbn [In]; tauto.
    - (* compound *)
      cbn [render] in Hrest |- *. cbn [unamb_ctx] in Hu. cbn [odesugar] in Hv. cbn [sdepth] in Hf.
      unfold comp_kw in *. destruct (nth_error parse_compound_arms arm) as [[kw init]|] eqn:Hn; [|discriminate].
      destruct (omap odesugar items) as [[|v0 vs]|] eqn:Hvs; try discriminate.
      assert (Hitems : forall fb, Forall (item_ok (p_term F is_alnum E fuel) fb) items).
      { intros fb. apply Forall_forall. intros x Hx. rewrite Forall_forall in IH.
        intros v' k' L' st' Hv' Hu' Hwf' Hrest'. apply (IH x Hx fb v' k' L' st' fuel Hv' Hu' Hwf' Hrest').
        pose proof (sdepth_items x items Hx). lia. }
      pose proof lb_order as (_ & Hxc & _ & Hic & _).
      pose proof Hrest as Hrest'. rewrite <- app_assoc in Hrest'.
      rewrite (st_starts_false xlb st) by (rewrite Hrest'; now apply incompat_starts).
      rewrite (st_starts_false ilb st) by (rewrite Hrest'; now apply incompat_starts).
      rewrite (st_starts_true L clb _ st Hwf Hrest') by (apply app_nonempty_l, clb_ne).
      apply (p_compound_render L _ arm kw init sp0 gaps items sp1 k (v0 :: vs) v st); auto; discriminate.
    - (* statement *)
      cbn [render] in Hrest |- *. cbn [unamb_ctx] in Hu. cbn [odesugar] in Hv. cbn [sdepth] in Hf.
      unfold stmt_kw in *. destruct (nth_error parse_statement_arms arm) as [[kw b]|] eqn:Hn; [|discriminate].
      destruct (odesugar s) as [vs|] eqn:Hvs; [|discriminate]. destruct (odesugar p) as [vp|] eqn:Hvp; [|discriminate].
      injection Hv as <-. apply andb_true_iff in Hu as [Hus Hup].
      pose proof lb_order as (_ & _ & Hxs & _ & His & Hcs).
      pose proof Hrest as Hrest'. rewrite <- app_assoc in Hrest'.
      rewrite (st_starts_false xlb st) by (rewrite Hrest'; now apply incompat_starts).
      rewrite (st_starts_false ilb st) by (rewrite Hrest'; now apply incompat_starts).
      rewrite (st_starts_false clb st) by (rewrite Hrest'; now apply incompat_starts).
      rewrite (st_starts_true L slb _ st Hwf Hrest') by (apply app_nonempty_l, slb_ne).
      apply (p_statement_render L _ arm kw b sp0 sp1 sp2 sp3 s p k vs vp st); auto.
      + intros v' k' L' st' Hv' Hu' Hwf' Hr'. rewrite Hvs in Hv'. apply (IHs [space] v' k' L' st' fuel Hv' Hu' Hwf' Hr'). lia.
      + intros v' k' L' st' Hv' Hu' Hwf' Hr'. rewrite Hvp in Hv'. apply (IHp [space] v' k' L' st' fuel Hv' Hu' Hwf' Hr'). lia.
  Qed.

  Theorem p_term_render_sec : TermParses F is_alnum E (unamb is_alnum E).
  Proof. intros t v k L st fuel Hv Hu. exact (p_term_ctx t [] v k L st fuel Hv Hu). Qed.
End TermP.

Theorem p_term_render : forall F is_alnum E, parse_ok E = true -> TermParses F is_alnum E (unamb is_alnum E).
Proof. exact p_term_render_sec. Qed.

Lemma shipped_parse_ok : forallb parse_ok shipped_formats = true.
Proof. vm_compute. reflexivity. Qed.

Lemma shipped_parse_ok_In E : shipped E -> parse_ok E = true.
Proof. intros H. pose proof shipped_parse_ok as H1. rewrite forallb_forall in H1. now apply H1. Qed.

(* the theorem for the three shipped formats, spelled out *)
Theorem p_term_render_shipped : forall (F : Type) (is_alnum : N -> bool) (E : efmt), shipped E ->
  forall (t : sterm) (v : term) (k : str) (L : nat) (st : pstate F) (fuel : nat),
    odesugar t = Some v -> unamb is_alnum E t k = true ->
    wf F L st -> s_rest st = render E t ++ k -> (sdepth t < fuel)%nat ->
    p_term F is_alnum E fuel st = POk v (step F (length (render E t)) st).
Proof. intros F is_alnum E HE. exact (p_term_render F is_alnum E (shipped_parse_ok_In E HE)). Qed.
