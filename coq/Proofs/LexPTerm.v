(* Proofs/LexPTerm.v -- C02, term layer: for a format satisfying the table obligation [lex_term_ok],
   the recursive term segmenter applied to the whitespace-free text of a term of the vocabulary,
   followed by any admissible continuation, returns exactly that term and the length of its text
   -- by structural induction over the term (any number >= 1 of components, any nesting), under
   the explicit unambiguity conditions [unamb] (which K5 violates). *)
From Nv Require Import Model.LexSpec Proofs.LexPBase Proofs.LexPTotal Proofs.LexPDict.
From Coq Require Import Lia.
Import ListNotations.

(* induction principle for the nested type lterm *)
Section LtermInd.
  Variable P : lterm -> Prop.
  Hypothesis Hatom : forall p n, P (LAtom p n).
  Hypothesis Hcomp : forall c ts, Forall P ts -> P (LCompound c ts).
  Hypothesis Hset : forall l ts r, Forall P ts -> P (LSet l ts r).
  Hypothesis Hstmt : forall c s p, P s -> P p -> P (LStatement c s p).
  Fixpoint lterm_ind2 (t : lterm) : P t :=
    match t with
    | LAtom p n => Hatom p n
    | LCompound c ts =>
        Hcomp c ts ((fix go (ts : list lterm) : Forall P ts :=
                       match ts with [] => Forall_nil P | x :: r => Forall_cons x (lterm_ind2 x) (go r) end) ts)
    | LSet l ts r =>
        Hset l ts r ((fix go (ts : list lterm) : Forall P ts :=
                        match ts with [] => Forall_nil P | x :: r => Forall_cons x (lterm_ind2 x) (go r) end) ts)
    | LStatement c s p => Hstmt c s p (lterm_ind2 s) (lterm_ind2 p)
    end.
End LtermInd.

Lemma pairwise_incompat_app l1 : forall l2 a b,
  pairwise_incompat (l1 ++ l2) = true -> In a l1 -> In b l2 -> compat a b = false.
Proof.
  induction l1 as [|x l1 IH]; intros l2 a b H Ha Hb; [destruct Ha|].
  cbn [app pairwise_incompat] in H. apply andb_true_iff in H as [H1 H2].
  destruct Ha as [->|Ha]; [|eauto].
  rewrite forallb_forall in H1. specialize (H1 b (in_or_app _ _ _ (or_intror Hb))).
  now apply negb_true_iff in H1.
Qed.

Lemma pairwise_incompat_app_r l1 : forall l2, pairwise_incompat (l1 ++ l2) = true -> pairwise_incompat l2 = true.
Proof.
  induction l1 as [|x l1 IH]; intros l2 H; [exact H|].
  cbn [app pairwise_incompat] in H. apply andb_true_iff in H as [_ H]. auto.
Qed.

Lemma pairwise_incompat_app_l l1 : forall l2, pairwise_incompat (l1 ++ l2) = true -> pairwise_incompat l1 = true.
Proof.
  induction l1 as [|x l1 IH]; intros l2 H; [reflexivity|].
  cbn [app pairwise_incompat] in *. apply andb_true_iff in H as [H1 H2]. apply andb_true_iff. split; eauto.
  rewrite forallb_forall in *. intros y Hy. apply H1. apply in_or_app; auto.
Qed.

Section TermLayer.
  Variable F : lfmt.
  Variable ia : N -> bool.
  Let C := compile F.
  Hypothesis Hok : lex_term_ok F ia = true.

  Local Notation cl := (cl F).
  Local Notation cr := (cr F).
  Local Notation sl := (sl F).
  Local Notation sr := (sr F).
  Local Notation sep := (sep F).
  Local Notation f0 := (f0 F).
  Local Notation comps_text := (comps_text F).
  Local Notation nid := (fun c => negb (ident F ia c)).

  (* ---- the table facts ---- *)
  Lemma ok_all :
    lex_starts_len_guard = true /\
    forallb (fun b => first_is nid b) (bracket_lefts F) = true /\
    pairwise_incompat (bracket_lefts F) = true /\
    forallb (fun b => forallb (fun p => negb (nonempty p) || negb (compat b p)) (c_prefixes C)) (bracket_lefts F) = true /\
    first_is nid sep = true /\
    forallb (fun b => first_is nid b && negb (compat b sep)) (bracket_rights F) = true /\
    first_match_ok (c_connecters C) sep = true /\
    pairwise_incompat (c_copulas C) = true /\
    pairwise_incompat (map fst (c_set_brackets C)) = true.
  Proof.
    pose proof Hok as H. unfold lex_term_ok in H. rewrite !andb_true_iff in H.
    repeat match goal with H : _ /\ _ |- _ => destruct H end. repeat split; assumption.
  Qed.

  Lemma Gguard : lex_starts_len_guard = true. Proof. apply ok_all. Qed.
  Lemma Gsep_first : first_is nid sep = true. Proof. apply ok_all. Qed.
  Lemma Gcopulas : pairwise_incompat (c_copulas C) = true. Proof. apply ok_all. Qed.
  Lemma Gconnecters : first_match_ok (c_connecters C) sep = true. Proof. apply ok_all. Qed.
  Lemma Gsetlefts : pairwise_incompat (map fst (c_set_brackets C)) = true. Proof. apply ok_all. Qed.

  Lemma Gleft_first b : In b (bracket_lefts F) -> first_is nid b = true.
  Proof. destruct ok_all as [_ [H _]]. rewrite forallb_forall in H. apply H. Qed.

  Lemma Gleft_prefix b p : In b (bracket_lefts F) -> In p (c_prefixes C) -> p <> [] -> compat b p = false.
  Proof.
    destruct ok_all as [_ [_ [_ [H _]]]]. rewrite forallb_forall in H. intros Hb Hp Hne.
    specialize (H _ Hb). rewrite forallb_forall in H. specialize (H _ Hp).
    apply orb_true_iff in H as [H|H]; [|now apply negb_true_iff in H].
    destruct p; [congruence | discriminate].
  Qed.

  Lemma Gright b : In b (bracket_rights F) -> first_is nid b = true /\ compat b sep = false.
  Proof.
    destruct ok_all as [_ [_ [_ [_ [_ [H _]]]]]]. rewrite forallb_forall in H. intros Hb.
    specialize (H _ Hb). apply andb_true_iff in H as [H1 H2]. apply negb_true_iff in H2. auto.
  Qed.

  Lemma In_cl : In cl (bracket_lefts F). Proof. unfold bracket_lefts. apply in_or_app. right. cbn. auto. Qed.
  Lemma In_sl : In sl (bracket_lefts F). Proof. unfold bracket_lefts. apply in_or_app. right. cbn. auto. Qed.
  Lemma In_setl l r : In (l, r) (c_set_brackets C) -> In l (bracket_lefts F).
  Proof. intros H. unfold bracket_lefts. apply in_or_app. left. apply in_map_iff. exists (l, r). auto. Qed.
  Lemma In_cr : In cr (bracket_rights F). Proof. unfold bracket_rights. apply in_or_app. right. cbn. auto. Qed.
  Lemma In_sr : In sr (bracket_rights F). Proof. unfold bracket_rights. apply in_or_app. right. cbn. auto. Qed.
  Lemma In_setr l r : In (l, r) (c_set_brackets C) -> In r (bracket_rights F).
  Proof. intros H. unfold bracket_rights. apply in_or_app. left. apply in_map_iff. exists (l, r). auto. Qed.

  Lemma Gset_cl b : In b (map fst (c_set_brackets C)) -> compat b cl = false /\ compat b sl = false.
  Proof.
    destruct ok_all as [_ [_ [H _]]]. unfold bracket_lefts in H. intros Hb. split.
    - eapply pairwise_incompat_app; eauto. cbn. auto.
    - eapply pairwise_incompat_app; eauto. cbn. auto.
  Qed.
  Lemma Gcl_sl : compat cl sl = false.
  Proof.
    destruct ok_all as [_ [_ [H _]]]. unfold bracket_lefts in H. apply pairwise_incompat_app_r in H.
    cbn [pairwise_incompat forallb] in H. rewrite !andb_true_iff in H. destruct H as [[H _] _].
    now apply negb_true_iff in H.
  Qed.

  (* ---- the text of a term ---- *)
  Lemma f0_atom p n : f0 (LAtom p n) = p ++ n.
  Proof. reflexivity. Qed.

  Lemma comps_text_cons t r : comps_text (t :: r) = sep ++ f0 t ++ comps_text r.
  Proof. unfold LexSpec.comps_text. cbn [map concat]. now rewrite <- app_assoc. Qed.

  Lemma template_rest r :
    concat (map (fun y => sep ++ [] ++ y) (map f0 r)) = comps_text r.
  Proof. unfold LexSpec.comps_text. rewrite map_map. reflexivity. Qed.

  Lemma f0_compound c t r : f0 (LCompound c (t :: r)) = cl ++ c ++ comps_text (t :: r) ++ cr.
  Proof.
    unfold LexSpec.f0 at 1. cbn [lex_fmt_term_g]. unfold ltemplate_compound, ltemplate_components.
    cbn [map]. fold f0. rewrite template_rest, comps_text_cons. cbn [app].
    unfold LexSpec.cl, LexSpec.cr, LexSpec.sep. now rewrite <- !app_assoc.
  Qed.

  Lemma f0_set l t r rb : f0 (LSet l (t :: r) rb) = l ++ f0 t ++ comps_text r ++ rb.
  Proof.
    unfold LexSpec.f0 at 1. cbn [lex_fmt_term_g]. unfold ltemplate_compound_set, ltemplate_components.
    cbn [map]. fold f0. rewrite template_rest. now rewrite <- !app_assoc.
  Qed.

  Lemma f0_statement c s p : f0 (LStatement c s p) = sl ++ f0 s ++ c ++ f0 p ++ sr.
  Proof.
    unfold LexSpec.f0 at 1. cbn [lex_fmt_term_g]. unfold ltemplate_statement. fold f0. cbn [app].
    reflexivity.
  Qed.

  (* ---- alternatives that must fail cleanly ---- *)
  Lemma set_attempt_fails rec env :
    (forall b, In b (map fst (c_set_brackets C)) -> starts b env = false) ->
    segment_term_set C rec env = LErr.
  Proof.
    intros H. unfold segment_term_set. rewrite match_prefix_pair_none; [reflexivity|].
    intros t Ht. apply H. apply in_map_iff. eauto.
  Qed.

  Lemma compound_attempt_fails rec env : starts cl env = false -> segment_compound C rec env = LErr.
  Proof. intros H. unfold segment_compound. cbv zeta. change (c_fmt C) with F. unfold LexSpec.cl in H. now rewrite H. Qed.

  Lemma statement_attempt_fails rec env : starts sl env = false -> segment_statement C rec env = LErr.
  Proof. intros H. unfold segment_statement. cbv zeta. change (c_fmt C) with F. unfold LexSpec.sl in H. now rewrite H. Qed.

  (* ---- the component loop on `(sep t)* right k` ---- *)
  Fixpoint rec_ok_seq (rec : str -> lres (lterm * nat)) (ts : list lterm) (kend : str) : Prop :=
    match ts with
    | [] => True
    | t :: r => rec (f0 t ++ comps_text r ++ kend) = LOk (t, length (f0 t)) /\ rec_ok_seq rec r kend
    end.

  Lemma seg_loop_f0 rec right k : In right (bracket_rights F) ->
    forall ts n pre acc,
    (length ts < n)%nat -> rec_ok_seq rec ts (right ++ k) ->
    seg_loop C rec right n (pre ++ comps_text ts ++ right ++ k) (length pre) acc =
    LOk (rev acc ++ ts, (length pre + length (comps_text ts) + length right)%nat).
  Proof.
    intros Hright. destruct (Gright _ Hright) as [_ Hrs].
    induction ts as [|t r IH]; intros n pre acc Hn Hrec; (destruct n as [|n]; [lia|]); cbn [seg_loop].
    - cbn [LexSpec.comps_text map concat app length]. rewrite slice_from_ok by (rewrite app_length; lia).
      cbn [lbind]. rewrite drop_app_length. rewrite slice_starts_with_str_starts by apply Gguard.
      rewrite starts_app. rewrite app_nil_r. f_equal. f_equal. lia.
    - destruct Hrec as [Ht Hr]. rewrite comps_text_cons.
      rewrite slice_from_ok by (rewrite app_length; lia). cbn [lbind]. rewrite drop_app_length.
      rewrite !slice_starts_with_str_starts by apply Gguard.
      rewrite <- !app_assoc. rewrite (compat_false_starts _ _ Hrs). change (l_separator (c_fmt C)) with sep.
      rewrite starts_app.
      assert (Hs2 : slice_from (pre ++ sep ++ f0 t ++ comps_text r ++ right ++ k) (length pre + length sep) =
                    LOk (f0 t ++ comps_text r ++ right ++ k)).
      { rewrite slice_from_ok by (rewrite !app_length; lia). f_equal.
        rewrite (app_assoc pre sep). rewrite <- (app_length pre sep). apply drop_app_length. }
      rewrite Hs2. cbn [lbind]. rewrite Ht. cbn [lbind fst snd].
      specialize (IH n (pre ++ sep ++ f0 t) (t :: acc) ltac:(cbn [length] in Hn; lia) Hr).
      rewrite <- !app_assoc in IH. rewrite !app_length in IH.
      replace (length pre + length sep + length (f0 t))%nat with (length pre + (length sep + length (f0 t)))%nat by lia.
      rewrite IH. cbn [rev]. rewrite <- app_assoc. cbn [app]. f_equal. f_equal. rewrite !app_length. lia.
  Qed.

  (* ---- slices of a text given as a concatenation ---- *)
  Lemma slice_from_pre pre r n : n = length pre -> slice_from (pre ++ r) n = LOk r.
  Proof. intros ->. rewrite slice_from_ok by (rewrite app_length; lia). now rewrite drop_app_length. Qed.

  (* ---- what may follow an atom ---- *)
  Lemma follow_first s k : first_is nid s = true -> follow_ok F ia (s ++ k) = true.
  Proof.
    intros H. apply first_is_nonempty in H as [c [s' [-> Hc]]]. cbn [app follow_ok].
    unfold LexSpec.ident in Hc. unfold LexSpec.ident. now rewrite Hc.
  Qed.

  Lemma follow_copula c rest : In c (c_copulas C) -> follow_ok F ia (c ++ rest) = true.
  Proof.
    intros Hc. unfold follow_ok. destruct (c ++ rest) as [|x xs] eqn:E; [reflexivity|].
    rewrite <- E. fold C. rewrite (pairwise_first _ _ Gcopulas Hc). apply orb_true_r.
  Qed.

  Lemma follow_comps r right k : In right (bracket_rights F) -> follow_ok F ia (comps_text r ++ right ++ k) = true.
  Proof.
    intros Hr. destruct r as [|t r].
    - cbn [LexSpec.comps_text map concat app]. apply follow_first. apply (Gright _ Hr).
    - rewrite comps_text_cons, <- app_assoc. apply follow_first. apply Gsep_first.
  Qed.

  Lemma sep_length : (1 <= length sep)%nat.
  Proof. eapply first_is_length. apply Gsep_first. Qed.

  (* ---- no opening bracket starts the text of an atom ---- *)
  Lemma left_not_atom b p n k :
    In b (bracket_lefts F) -> In p (c_prefixes C) -> nonempty n = true -> forallb (ident F ia) n = true ->
    starts b (p ++ n ++ k) = false.
  Proof.
    intros Hb Hp Hn Hid. destruct p as [|x p].
    - destruct n as [|c n]; [discriminate|]. cbn [app forallb] in *. apply andb_true_iff in Hid as [Hc _].
      eapply (first_is_mismatch (ident F ia)); [apply Gleft_first; exact Hb | exact Hc].
    - apply compat_false_starts. apply Gleft_prefix; auto. discriminate.
  Qed.

  (* ---- atoms ---- *)
  Lemma segment_atom_f0 p n k :
    nonempty n = true -> forallb (ident F ia) n = true ->
    atom_unamb F p n k -> follow_ok F ia k = true ->
    segment_atom C ia (p ++ n ++ k) = LOk (LAtom p n, length (p ++ n)).
  Proof.
    intros Hn Hid [Hp Hcop] Hk. unfold segment_atom. fold C in Hp. rewrite Hp. cbn [ok_or lbind].
    assert (Hlen : (1 <= length n)%nat) by now apply nonempty_length.
    assert (Hrb : collect_some_prefix (p ++ n ++ k) (length p) (atom_verify C ia) = (length p + length n)%nat).
    { unfold collect_some_prefix. rewrite !app_length.
      destruct (Nat.ltb_spec (length p) (length p + (length n + length k))); [|lia].
      rewrite drop_app_length. apply csp_loop_exact.
      - intros j Hj. unfold atom_verify. destruct (drop j n) as [|c r] eqn:Ed.
        { pose proof (drop_length j n) as Hd. rewrite Ed in Hd. cbn in Hd. lia. }
        cbn [app]. change (c :: r ++ k) with ((c :: r) ++ k). rewrite <- Ed.
        fold C in Hcop. rewrite (Hcop j Hj). rewrite andb_true_r. change (c_fmt C) with F.
        rewrite forallb_forall in Hid. apply Hid.
        assert (Hin : In c (drop j n)) by (rewrite Ed; left; reflexivity).
        clear -Hin. revert n Hin. induction j as [|j IH]; intros [|y n] Hin; cbn [drop] in Hin; auto.
        right. apply IH. exact Hin.
      - destruct k as [|c k']; [right; reflexivity|]. left. unfold atom_verify. change (c_fmt C) with F.
        unfold follow_ok in Hk. fold C in Hk. unfold LexSpec.ident in Hk.
        destruct (is_identifier F ia c); cbn [negb orb andb] in *; [|reflexivity].
        destruct (match_prefix (c_copulas C) (c :: k')); [reflexivity | discriminate]. }
    rewrite Hrb.
    replace ((length p + length n <=? length p)%nat) with false by (symmetry; apply Nat.leb_gt; lia).
    cbn [andb]. rewrite slice_ok by (rewrite ?app_length; lia). cbn [lbind].
    rewrite drop_app_length. replace (length p + length n - length p)%nat with (length n) by lia.
    rewrite take_app_length. rewrite app_length. reflexivity.
  Qed.

  (* ---- [unamb] of component lists ---- *)
  Lemma unamb_compound c ts k : unamb F (LCompound c ts) k <-> unamb_seq F ts (cr ++ k).
  Proof. cbn [unamb]. induction ts as [|t r IH]; cbn [unamb_seq]; [tauto|]. rewrite IH. tauto. Qed.

  Lemma unamb_set l ts rb k : unamb F (LSet l ts rb) k <-> unamb_seq F ts (rb ++ k).
  Proof. cbn [unamb]. induction ts as [|t r IH]; cbn [unamb_seq]; [tauto|]. rewrite IH. tauto. Qed.

  Definition term_round (t : lterm) : Prop :=
    forall k fuel, term_ok F ia t = true -> unamb F t k -> follow_ok F ia k = true ->
      (length (f0 t ++ k) < fuel)%nat ->
      segment_term C ia fuel (f0 t ++ k) = LOk (t, length (f0 t)).

  Lemma rec_ok_seq_intro f right k : In right (bracket_rights F) ->
    forall ts, Forall term_round ts -> forallb (term_ok F ia) ts = true -> unamb_seq F ts (right ++ k) ->
    (length (comps_text ts ++ right ++ k) <= f)%nat ->
    rec_ok_seq (segment_term C ia f) ts (right ++ k).
  Proof.
    intros Hr. induction ts as [|t r IH]; intros HF Hok' Hun Hlen; cbn [rec_ok_seq]; [exact I|].
    inversion HF as [|? ? Ht HFr]; subst. cbn [forallb] in Hok'. apply andb_true_iff in Hok' as [Hokt Hokr].
    destruct Hun as [Hut Hur]. rewrite comps_text_cons, <- !app_assoc in Hlen. rewrite app_length in Hlen.
    pose proof sep_length as Hs. split.
    - apply Ht; auto.
      + now apply follow_comps.
      + lia.
    - apply IH; auto. rewrite app_length in Hlen. lia.
  Qed.

  Lemma comps_text_length_ge ts : (length ts <= length (comps_text ts))%nat.
  Proof.
    induction ts as [|t r IH]; [cbn; lia|]. rewrite comps_text_cons, !app_length. cbn [length].
    pose proof sep_length. lia.
  Qed.

  (* ---- the theorem of the term layer ---- *)
  Theorem segment_term_f0 : forall t, term_round t.
  Proof.
    induction t as [p n | c ts IHts | l ts rb IHts | c s p IHs IHp] using lterm_ind2;
      intros k fuel Hok' Hun Hk Hfuel; (destruct fuel as [|f]; [lia|]); cbn [segment_term].
    - (* atom *)
      cbn [term_ok] in Hok'. apply andb_true_iff in Hok' as [Hp Hname]. apply str_in_In in Hp. fold C in Hp.
      unfold name_ok in Hname. rewrite !andb_true_iff in Hname. destruct Hname as [[Hn Hid] _].
      rewrite f0_atom, <- app_assoc.
      rewrite set_attempt_fails.
      2:{ intros b Hb. apply left_not_atom; auto. unfold bracket_lefts. apply in_or_app. now left. }
      rewrite compound_attempt_fails by (apply left_not_atom; auto; apply In_cl).
      rewrite statement_attempt_fails by (apply left_not_atom; auto; apply In_sl).
      cbn [or_else]. rewrite app_assoc, <- (app_assoc p n k). apply segment_atom_f0; auto.
    - (* compound *)
      cbn [term_ok] in Hok'. rewrite !andb_true_iff in Hok'. destruct Hok' as [[Hc Hne] Hts].
      apply str_in_In in Hc. fold C in Hc. destruct ts as [|t r]; [discriminate|].
      apply unamb_compound in Hun.
      rewrite f0_compound in *. rewrite <- !app_assoc in *.
      set (env := cl ++ c ++ comps_text (t :: r) ++ cr ++ k) in *.
      rewrite set_attempt_fails.
      2:{ intros b Hb. unfold env. apply compat_false_starts. now apply Gset_cl. }
      cbn [or_else].
      assert (Hcomp : segment_compound C (segment_term C ia f) env =
                      LOk (LCompound c (t :: r), length (cl ++ c ++ comps_text (t :: r) ++ cr))).
      { unfold segment_compound. cbv zeta. change (c_fmt C) with F.
        change (fst (l_compound_brackets F)) with cl. change (snd (l_compound_brackets F)) with cr.
        unfold env at 1. rewrite starts_app.
        unfold env at 1. rewrite slice_from_pre by reflexivity. cbn [lbind].
        rewrite comps_text_cons at 1. rewrite <- !app_assoc.
        rewrite (match_prefix_first _ _ _ Gconnecters Hc). cbn [ok_or lbind].
        replace env with ((cl ++ c) ++ comps_text (t :: r) ++ cr ++ k) by (unfold env; now rewrite <- app_assoc).
        rewrite <- (app_length cl c).
        rewrite (seg_loop_f0 (segment_term C ia f) cr k In_cr (t :: r)).
        - cbn [lbind fst snd rev app]. f_equal. f_equal. rewrite !app_length. lia.
        - pose proof (comps_text_length_ge (t :: r)). rewrite <- app_assoc, !app_length. cbn [length] in *. lia.
        - apply rec_ok_seq_intro; auto; [apply In_cr|].
          unfold env in Hfuel. rewrite !app_length in *. pose proof (Gleft_first _ In_cl) as Hl.
          apply first_is_length in Hl. lia. }
      rewrite Hcomp. reflexivity.
    - (* set *)
      cbn [term_ok] in Hok'. rewrite !andb_true_iff in Hok'. destruct Hok' as [[Hc Hne] Hts].
      apply pair_in_In in Hc. fold C in Hc. destruct ts as [|t r]; [discriminate|].
      apply unamb_set in Hun. destruct Hun as [Hut Hur].
      inversion IHts as [|? ? IHt IHr]; subst. cbn [forallb] in Hts. apply andb_true_iff in Hts as [Hokt Hokr].
      rewrite f0_set in *. rewrite <- !app_assoc in *.
      set (env := l ++ f0 t ++ comps_text r ++ rb ++ k) in *.
      pose proof (Gleft_first _ (In_setl _ _ Hc)) as Hl. apply first_is_length in Hl.
      assert (Hset : segment_term_set C (segment_term C ia f) env =
                     LOk (LSet l (t :: r) rb, length (l ++ f0 t ++ comps_text r ++ rb))).
      { unfold segment_term_set. unfold env at 1. rewrite (pairwise_first_pair _ _ _ Gsetlefts Hc).
        cbn [ok_or lbind fst snd]. unfold env at 1. rewrite slice_from_pre by reflexivity. cbn [lbind].
        unfold term_round in IHt. rewrite IHt; auto.
        2:{ apply follow_comps. eapply In_setr; eauto. }
        2:{ unfold env in Hfuel. rewrite !app_length in *. lia. }
        cbn [lbind fst snd].
        replace env with ((l ++ f0 t) ++ comps_text r ++ rb ++ k) by (unfold env; now rewrite <- app_assoc).
        rewrite <- (app_length l (f0 t)).
        rewrite (seg_loop_f0 (segment_term C ia f) rb k (In_setr _ _ Hc) r).
        - cbn [lbind fst snd rev app]. f_equal. f_equal. rewrite !app_length. lia.
        - pose proof (comps_text_length_ge r). rewrite <- app_assoc, !app_length. lia.
        - apply rec_ok_seq_intro; auto; [eapply In_setr; eauto|].
          unfold env in Hfuel. rewrite !app_length in *. lia. }
      rewrite Hset. reflexivity.
    - (* statement *)
      cbn [term_ok] in Hok'. rewrite !andb_true_iff in Hok'. destruct Hok' as [[Hc Hoks] Hokp].
      apply str_in_In in Hc. fold C in Hc. destruct Hun as [Hus Hup].
      rewrite f0_statement in *. rewrite <- !app_assoc in *.
      set (env := sl ++ f0 s ++ c ++ f0 p ++ sr ++ k) in *.
      pose proof (Gleft_first _ In_sl) as Hl. apply first_is_length in Hl.
      rewrite set_attempt_fails.
      2:{ intros b Hb. unfold env. apply compat_false_starts. now apply Gset_cl. }
      rewrite compound_attempt_fails by (unfold env; apply compat_false_starts; apply Gcl_sl).
      cbn [or_else].
      assert (Hst : segment_statement C (segment_term C ia f) env =
                    LOk (LStatement c s p, length (sl ++ f0 s ++ c ++ f0 p ++ sr))).
      { unfold segment_statement. cbv zeta. change (c_fmt C) with F.
        change (fst (l_statement_brackets F)) with sl. change (snd (l_statement_brackets F)) with sr.
        unfold env at 1. rewrite starts_app.
        unfold env at 1. rewrite slice_from_pre by reflexivity. cbn [lbind].
        unfold term_round in IHs, IHp. rewrite IHs; auto.
        2:{ now apply follow_copula. }
        2:{ unfold env in Hfuel. rewrite !app_length in *. lia. }
        cbn [lbind fst snd].
        replace env with ((sl ++ f0 s) ++ c ++ f0 p ++ sr ++ k) at 1 by (unfold env; now rewrite <- app_assoc).
        rewrite slice_from_pre by now rewrite app_length. cbn [lbind].
        rewrite (pairwise_first _ _ Gcopulas Hc). cbn [ok_or lbind].
        replace env with ((sl ++ f0 s ++ c) ++ f0 p ++ sr ++ k) at 1 by (unfold env; now rewrite <- !app_assoc).
        rewrite slice_from_pre by (rewrite !app_length; lia). cbn [lbind].
        rewrite IHp; auto.
        2:{ apply follow_first. apply (Gright _ In_sr). }
        2:{ unfold env in Hfuel. rewrite !app_length in *. lia. }
        cbn [lbind fst snd].
        replace env with ((sl ++ f0 s ++ c ++ f0 p) ++ sr ++ k) at 1 by (unfold env; now rewrite <- !app_assoc).
        rewrite slice_from_pre by (rewrite !app_length; lia). cbn [lbind].
        rewrite slice_starts_with_str_starts by apply Gguard. rewrite starts_app.
        f_equal. f_equal. rewrite !app_length. lia. }
      rewrite Hst. reflexivity.
  Qed.
End TermLayer.
