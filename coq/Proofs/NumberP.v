(* Proofs/NumberP.v -- lemmas about Model/Number.v (truth / budget constructors and the
   EvidentNumber API on binary64 bit patterns).  Props/C13.v restates the headline results. *)
From Coq Require Import ZArith List Bool Reals Lra.
From Flocq Require Import Core IEEE754.Binary IEEE754.Bits.
Import ListNotations.
From Nv Require Import Model.Access Model.Number.

(* ------------------------------------------------------------------------------------ *)
(* The two constants                                                                     *)
(* ------------------------------------------------------------------------------------ *)

Lemma f64_zero_eq : f64_zero = B754_zero 53 1024 false.
Proof. vm_compute. reflexivity. Qed.

Lemma f64_one_eq : exists H, f64_one = B754_finite 53 1024 false 4503599627370496 (-52) H.
Proof. vm_compute. eexists. reflexivity. Qed.

Lemma f64_zero_finite : is_finite 53 1024 f64_zero = true.
Proof. rewrite f64_zero_eq. reflexivity. Qed.

Lemma f64_one_finite : is_finite 53 1024 f64_one = true.
Proof. destruct f64_one_eq as [H E]. rewrite E. reflexivity. Qed.

Lemma B2R_f64_zero : B2R 53 1024 f64_zero = 0%R.
Proof. rewrite f64_zero_eq. reflexivity. Qed.

Lemma B2R_f64_one : B2R 53 1024 f64_one = 1%R.
Proof.
  destruct f64_one_eq as [H E]. rewrite E.
  unfold B2R, F2R. cbn [Fnum Fexp cond_Zopp].
  change (IZR 4503599627370496) with (bpow radix2 52).
  rewrite <- bpow_plus. reflexivity.
Qed.

(* ------------------------------------------------------------------------------------ *)
(* fle / in01 against the reals                                                          *)
(* ------------------------------------------------------------------------------------ *)

Lemma fle_finite : forall x y,
  is_finite 53 1024 x = true -> is_finite 53 1024 y = true ->
  (fle x y = true <-> (B2R 53 1024 x <= B2R 53 1024 y)%R).
Proof.
  intros x y Hx Hy. unfold fle. rewrite Bcompare_correct by assumption.
  destruct (Rcompare_spec (B2R 53 1024 x) (B2R 53 1024 y));
    split; intros; try reflexivity; try discriminate; lra.
Qed.

Lemma is_in_01_not_finite : forall x, is_finite 53 1024 x = false -> is_in_01 x = false.
Proof.
  intros x Hx. unfold is_in_01, fle.
  destruct f64_one_eq as [H1 E1]. rewrite E1, f64_zero_eq.
  destruct x as [s | s | s pl Hpl | s m e He]; try discriminate Hx.
  - destruct s; reflexivity.
  - reflexivity.
Qed.

Lemma is_in_01_spec : forall x,
  is_in_01 x = true <->
  is_finite 53 1024 x = true /\ (0 <= B2R 53 1024 x <= 1)%R.
Proof.
  intros x. destruct (is_finite 53 1024 x) eqn:Hx.
  - unfold is_in_01. rewrite andb_true_iff.
    rewrite (fle_finite f64_zero x f64_zero_finite Hx).
    rewrite (fle_finite x f64_one Hx f64_one_finite).
    rewrite B2R_f64_zero, B2R_f64_one. tauto.
  - rewrite (is_in_01_not_finite x Hx). split.
    + discriminate.
    + intros [H _]. discriminate H.
Qed.

Lemma in01_spec : forall z, (0 <= z < 2 ^ 64)%Z ->
  (in01 z = true <->
   is_finite 53 1024 (of_bits z) = true /\ (0 <= B2R 53 1024 (of_bits z) <= 1)%R).
Proof. intros z _. unfold in01. apply is_in_01_spec. Qed.

(* the hypothesis on the bit range is not needed *)
Lemma in01_spec_any : forall z,
  (in01 z = true <->
   is_finite 53 1024 (of_bits z) = true /\ (0 <= B2R 53 1024 (of_bits z) <= 1)%R).
Proof. intros z. unfold in01. apply is_in_01_spec. Qed.

Lemma in01_spec_nonvacuous : (0 <= 0x3FE0000000000000 < 2 ^ 64)%Z /\ in01 0x3FE0000000000000 = true.
Proof. split; [ split; [ discriminate | reflexivity ] | vm_compute; reflexivity ]. Qed.

Lemma in01_boundaries :
  in01 0 = true /\ in01 0x8000000000000000 = true /\ in01 1 = true /\
  in01 0x3FF0000000000000 = true /\ in01 0x3FF0000000000001 = false /\
  in01 0x7FF0000000000000 = false /\ in01 0xFFF0000000000000 = false /\
  in01 0x7FF8000000000000 = false /\ in01 0x7FF0000000000001 = false /\
  in01 0x8000000000000001 = false /\ in01 0xBFF0000000000000 = false.
Proof. vm_compute. repeat split. Qed.

(* ------------------------------------------------------------------------------------ *)
(* Ladder tactics                                                                        *)
(* ------------------------------------------------------------------------------------ *)

Lemma Forall_ok01_nil : Forall (fun z => in01 z = true) [] <-> True.
Proof. split; auto. Qed.

Lemma Forall_ok01_cons : forall a l,
  Forall (fun z => in01 z = true) (a :: l) <-> in01 a = true /\ Forall (fun z => in01 z = true) l.
Proof.
  intros a l. split.
  - intros H. inversion H; subst. split; assumption.
  - intros [H1 H2]. constructor; assumption.
Qed.

Ltac unfold_number :=
  unfold truth_try_from_floats, truth_new_empty, truth_new_single, truth_new_double,
         budget_try_from_floats, budget_new_empty, budget_new_single, budget_new_double,
         budget_new_triple, en_is_valid, en_try_validate, en_validate,
         try_validate_01, validate_01, rbind in *.

Ltac case_in01 :=
  repeat match goal with
         | |- context [in01 ?a] => is_var a; destruct (in01 a) eqn:?
         end.

Ltac intro_vars :=
  repeat match goal with
         | |- forall _ : Z, _ => intro
         | |- forall _ : truth, _ => intro
         | |- forall _ : budget, _ => intro
         end.

Ltac norm_forall :=
  cbn [firstn] in *;
  repeat (rewrite Forall_ok01_cons in * ) ;
  repeat (rewrite Forall_ok01_nil in * ).

Ltac finish :=
  repeat match goal with
         | |- _ /\ _ => split
         | |- _ <-> _ => split
         | |- forall _, _ => intro
         | |- ~ _ => intro
         | H : _ /\ _ |- _ => destruct H
         | H : exists _, _ |- _ => destruct H
         | H : ROk _ = ROk _ |- _ => injection H as H; subst
         end;
  try discriminate; try congruence; try tauto; try (eexists; reflexivity); try reflexivity.

(* ------------------------------------------------------------------------------------ *)
(* Truth                                                                                 *)
(* ------------------------------------------------------------------------------------ *)

Lemma truth_try_ok_iff : forall l,
  (exists t, truth_try_from_floats l = ROk t) <-> Forall (fun z => in01 z = true) (firstn 2 l).
Proof.
  intros l. destruct l as [|a [|b l]]; unfold_number; norm_forall; case_in01; finish.
Qed.

Lemma truth_try_value : forall l t,
  truth_try_from_floats l = ROk t -> truth_values t = firstn 2 l.
Proof.
  intros l t. destruct l as [|a [|b l]]; unfold_number; cbn [firstn]; case_in01; intros H;
    try discriminate H; injection H as H; subst t; reflexivity.
Qed.

Lemma truth_try_total : forall l,
  truth_try_from_floats l <> RPanic /\
  (truth_try_from_floats l = RErr <-> ~ Forall (fun z => in01 z = true) (firstn 2 l)).
Proof.
  intros l. destruct l as [|a [|b l]]; unfold_number; norm_forall; case_in01; finish.
Qed.

Lemma truth_new_vs_try :
  (forall f, truth_new_single f = RPanic <-> truth_try_from_floats [f] = RErr) /\
  (forall f, truth_new_single f <> RErr) /\
  (forall f t, truth_new_single f = ROk t <-> truth_try_from_floats [f] = ROk t) /\
  (forall f c, truth_new_double f c = RPanic <-> truth_try_from_floats [f; c] = RErr) /\
  (forall f c, truth_new_double f c <> RErr) /\
  (forall f c t, truth_new_double f c = ROk t <-> truth_try_from_floats [f; c] = ROk t).
Proof.
  repeat split; intro_vars; unfold_number; case_in01; finish.
Qed.

Lemma truth_accessors : forall t,
  (truth_f t = match nth_error (truth_values t) 0 with Some v => ROk v | None => RPanic end) /\
  (truth_c t = match nth_error (truth_values t) 1 with Some v => ROk v | None => RPanic end).
Proof. intros t. destruct t; split; reflexivity. Qed.

Lemma truth_try_nonvacuous :
  Forall (fun z => in01 z = true) (firstn 2 [0x3FF0000000000000; 0x3FECCCCCCCCCCCCD; 0x7FF8000000000000])%Z /\
  truth_try_from_floats [0x3FF0000000000000; 0x3FECCCCCCCCCCCCD; 0x7FF8000000000000]%Z
    = ROk (TrDouble 0x3FF0000000000000 0x3FECCCCCCCCCCCCD) /\
  ~ Forall (fun z => in01 z = true) (firstn 2 [0x3FF0000000000000; 0x7FF8000000000000])%Z /\
  truth_try_from_floats [0x3FF0000000000000; 0x7FF8000000000000]%Z = RErr.
Proof.
  split; [| split; [| split]].
  - cbn [firstn]. repeat constructor; vm_compute; reflexivity.
  - vm_compute. reflexivity.
  - cbn [firstn]. intros H. inversion H as [|? ? _ H2]; subst.
    inversion H2 as [|? ? H3 _]; subst. vm_compute in H3. discriminate H3.
  - vm_compute. reflexivity.
Qed.

(* ------------------------------------------------------------------------------------ *)
(* Budget                                                                                *)
(* ------------------------------------------------------------------------------------ *)

Lemma budget_try_ok_iff : forall l,
  (exists t, budget_try_from_floats l = ROk t) <-> Forall (fun z => in01 z = true) (firstn 3 l).
Proof.
  intros l. destruct l as [|a [|b [|c l]]]; unfold_number; norm_forall; case_in01; finish.
Qed.

Lemma budget_try_value : forall l t,
  budget_try_from_floats l = ROk t -> budget_values t = firstn 3 l.
Proof.
  intros l t. destruct l as [|a [|b [|c l]]]; unfold_number; cbn [firstn]; case_in01; intros H;
    try discriminate H; injection H as H; subst t; reflexivity.
Qed.

Lemma budget_try_total : forall l,
  budget_try_from_floats l <> RPanic /\
  (budget_try_from_floats l = RErr <-> ~ Forall (fun z => in01 z = true) (firstn 3 l)).
Proof.
  intros l. destruct l as [|a [|b [|c l]]]; unfold_number; norm_forall; case_in01; finish.
Qed.

Lemma budget_new_vs_try :
  (forall p, budget_new_single p = RPanic <-> budget_try_from_floats [p] = RErr) /\
  (forall p, budget_new_single p <> RErr) /\
  (forall p t, budget_new_single p = ROk t <-> budget_try_from_floats [p] = ROk t) /\
  (forall p d, budget_new_double p d = RPanic <-> budget_try_from_floats [p; d] = RErr) /\
  (forall p d, budget_new_double p d <> RErr) /\
  (forall p d t, budget_new_double p d = ROk t <-> budget_try_from_floats [p; d] = ROk t) /\
  (forall p d q, budget_new_triple p d q = RPanic <-> budget_try_from_floats [p; d; q] = RErr) /\
  (forall p d q, budget_new_triple p d q <> RErr) /\
  (forall p d q t, budget_new_triple p d q = ROk t <-> budget_try_from_floats [p; d; q] = ROk t).
Proof.
  repeat split; intro_vars; unfold_number; case_in01; finish.
Qed.

Lemma budget_accessors : forall b,
  (budget_p b = match nth_error (budget_values b) 0 with Some v => ROk v | None => RPanic end) /\
  (budget_d b = match nth_error (budget_values b) 1 with Some v => ROk v | None => RPanic end) /\
  (budget_q b = match nth_error (budget_values b) 2 with Some v => ROk v | None => RPanic end).
Proof. intros b. destruct b; repeat split; reflexivity. Qed.

Lemma budget_try_nonvacuous :
  Forall (fun z => in01 z = true)
    (firstn 3 [0x3FE0000000000000; 0x3FECCCCCCCCCCCCD; 0; 0x7FF8000000000000])%Z /\
  budget_try_from_floats [0x3FE0000000000000; 0x3FECCCCCCCCCCCCD; 0; 0x7FF8000000000000]%Z
    = ROk (BuTriple 0x3FE0000000000000 0x3FECCCCCCCCCCCCD 0) /\
  ~ Forall (fun z => in01 z = true) (firstn 3 [0x3FE0000000000000; 0; 0x3FF0000000000001])%Z /\
  budget_try_from_floats [0x3FE0000000000000; 0; 0x3FF0000000000001]%Z = RErr.
Proof.
  split; [| split; [| split]].
  - cbn [firstn]. repeat constructor; vm_compute; reflexivity.
  - vm_compute. reflexivity.
  - cbn [firstn]. intros H. inversion H as [|? ? _ H2]; subst.
    inversion H2 as [|? ? _ H3]; subst.
    inversion H3 as [|? ? H4 _]; subst. vm_compute in H4. discriminate H4.
  - vm_compute. reflexivity.
Qed.

(* ------------------------------------------------------------------------------------ *)
(* EvidentNumber                                                                         *)
(* ------------------------------------------------------------------------------------ *)

Lemma evident_agree : forall z,
  (en_is_valid z = true <-> en_try_validate z = ROk z) /\
  (en_is_valid z = false <-> en_try_validate z = RErr) /\
  (en_try_validate z = RErr <-> en_validate z = RPanic) /\
  (en_is_valid z = true <-> en_validate z = ROk z) /\
  en_is_valid z = in01 z.
Proof. intros z. unfold_number. case_in01; finish. Qed.

Lemma zero_one_valid : en_is_valid en_zero = true /\ en_is_valid en_one = true.
Proof. vm_compute. split; reflexivity. Qed.

Lemma root_valid : forall (powf : Z -> Z -> Z) (recip : N -> Z),
  (forall x e, in01 x = true -> (0 <= e <= 0x7FF0000000000000)%Z -> in01 (powf x e) = true) ->
  (forall n, (0 <= recip n <= 0x7FF0000000000000)%Z) ->
  forall x n, en_is_valid x = true -> en_is_valid (en_root powf recip x n) = true.
Proof.
  intros powf recip Hpow Hrec x n Hx. unfold en_is_valid, en_root in *.
  apply Hpow; [ exact Hx | apply Hrec ].
Qed.

(* the two contracts are satisfiable, and the conclusion is then about a real input *)
Lemma root_valid_nonvacuous :
  exists (powf : Z -> Z -> Z) (recip : N -> Z),
    (forall x e, in01 x = true -> (0 <= e <= 0x7FF0000000000000)%Z -> in01 (powf x e) = true) /\
    (forall n, (0 <= recip n <= 0x7FF0000000000000)%Z) /\
    en_is_valid 0x3FE0000000000000 = true.
Proof.
  exists (fun x e => if Z.eqb e 0 then 0x3FF0000000000000%Z else x).
  exists (fun n => if N.eqb n 1 then 0x3FF0000000000000%Z else 0x3FE0000000000000%Z).
  split; [| split].
  - intros x e Hx _. destruct (Z.eqb e 0); [ vm_compute; reflexivity | exact Hx ].
  - intros n. destruct (N.eqb n 1); split; discriminate.
  - vm_compute. reflexivity.
Qed.
