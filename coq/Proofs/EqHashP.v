(* Proofs/EqHashP.v -- C06 / C07: `impl PartialEq for Term` is an equivalence that coincides with
   the table-independent specification [sem_eq]; `impl Hash for Term` respects it.
   Table obligations are boolean functions over the REGENERATED tables of Gen/TermGen.v, discharged
   by vm_compute, so they are re-checked whenever the tables are regenerated. *)
From Nv Require Export Model.EqHash.
From Coq Require Import Permutation Lia.

(* ------------------------------------------------------------------------------------------ *)
(* Specification (independent of the tables)                                                   *)
(* ------------------------------------------------------------------------------------------ *)

Definition symmetric_box2 (c : box2_ctor) : bool :=
  match c with Similarity | Equivalence | EquivalenceConcurrent => true | _ => false end.

Inductive sem_eq : term -> term -> Prop :=
| SE_name c n : sem_eq (TName c n) (TName c n)
| SE_unit c : sem_eq (TUnit c) (TUnit c)
| SE_num c i : sem_eq (TNum c i) (TNum c i)
| SE_set c l l' :
    (forall x, In x l -> exists y, In y l' /\ sem_eq x y) ->
    (forall y, In y l' -> exists x, In x l /\ sem_eq x y) ->
    sem_eq (TSet c l) (TSet c l')
| SE_vec c l l' : Forall2 sem_eq l l' -> sem_eq (TVec c l) (TVec c l')
| SE_img c i l l' : Forall2 sem_eq l l' -> sem_eq (TImg c i l) (TImg c i l')
| SE_box1 c a a' : sem_eq a a' -> sem_eq (TBox1 c a) (TBox1 c a')
| SE_box2 c a b a' b' : sem_eq a a' -> sem_eq b b' -> sem_eq (TBox2 c a b) (TBox2 c a' b')
| SE_box2_sym c a b a' b' :
    symmetric_box2 c = true -> sem_eq a b' -> sem_eq b a' -> sem_eq (TBox2 c a b) (TBox2 c a' b').

(* same description, any iteration order at every set level *)
Inductive perm_rep : term -> term -> Prop :=
| PR_name c n : perm_rep (TName c n) (TName c n)
| PR_unit c : perm_rep (TUnit c) (TUnit c)
| PR_num c i : perm_rep (TNum c i) (TNum c i)
| PR_set c l l'' l' : Permutation l l'' -> Forall2 perm_rep l'' l' -> perm_rep (TSet c l) (TSet c l')
| PR_vec c l l' : Forall2 perm_rep l l' -> perm_rep (TVec c l) (TVec c l')
| PR_img c i l l' : Forall2 perm_rep l l' -> perm_rep (TImg c i l) (TImg c i l')
| PR_box1 c a a' : perm_rep a a' -> perm_rep (TBox1 c a) (TBox1 c a')
| PR_box2 c a b a' b' : perm_rep a a' -> perm_rep b b' -> perm_rep (TBox2 c a b) (TBox2 c a' b').

(* ------------------------------------------------------------------------------------------ *)
(* Table obligations                                                                           *)
(* ------------------------------------------------------------------------------------------ *)

Definition eq_kind_eqb (a b : eq_kind) : bool :=
  match a, b with
  | EqNever, EqNever | EqAlways, EqAlways | EqPayload, EqPayload
  | EqSymmetric, EqSymmetric | EqIndexOnly, EqIndexOnly | EqVecOnly, EqVecOnly => true
  | _, _ => false
  end.

Definition hash_kind_eqb (a b : hash_kind) : bool :=
  match a, b with
  | HashPayload, HashPayload | HashConst, HashConst | HashOrdered, HashOrdered
  | HashUnordered, HashUnordered | HashIndexThenOrdered, HashIndexThenOrdered
  | HashOrderedNoIndex, HashOrderedNoIndex => true
  | _, _ => false
  end.

Lemma eq_kind_eqb_eq a b : eq_kind_eqb a b = true -> a = b.
Proof. destruct a, b; (reflexivity || discriminate). Qed.

Lemma hash_kind_eqb_eq a b : hash_kind_eqb a b = true -> a = b.
Proof. destruct a, b; (reflexivity || discriminate). Qed.

Definition eq_tables_ok : bool :=
  forallb (fun c => eq_kind_eqb (eqk_name c) EqPayload) all_name_ctor &&
  forallb (fun c => eq_kind_eqb (eqk_unit c) EqAlways) all_unit_ctor &&
  forallb (fun c => eq_kind_eqb (eqk_num c) EqPayload) all_num_ctor &&
  forallb (fun c => eq_kind_eqb (eqk_set c) EqPayload) all_set_ctor &&
  forallb (fun c => eq_kind_eqb (eqk_vec c) EqPayload) all_vec_ctor &&
  forallb (fun c => eq_kind_eqb (eqk_img c) EqPayload) all_img_ctor &&
  forallb (fun c => eq_kind_eqb (eqk_box1 c) EqPayload) all_box1_ctor &&
  forallb (fun c => eq_kind_eqb (eqk_box2 c) (if symmetric_box2 c then EqSymmetric else EqPayload)) all_box2_ctor.

(* the hash of an order-insensitive payload must not depend on the order; every other arm of the
   model is a function of the payload feeds taken in order, which is fine as it stands *)
Definition hash_respects_eq : bool :=
  forallb (fun c => hash_kind_eqb (hashk_set c) HashUnordered) all_set_ctor &&
  forallb (fun c => if symmetric_box2 c then hash_kind_eqb (hashk_box2 c) HashUnordered else true) all_box2_ctor.

Lemma eq_tables_ok_true : eq_tables_ok = true.
Proof. vm_compute; reflexivity. Qed.

Lemma hash_respects_eq_true : hash_respects_eq = true.
Proof. vm_compute; reflexivity. Qed.

(* the constructor enumerations are exhaustive *)
Lemma all_name_ctor_complete c : In c all_name_ctor. Proof. destruct c; cbn; tauto. Qed.
Lemma all_unit_ctor_complete c : In c all_unit_ctor. Proof. destruct c; cbn; tauto. Qed.
Lemma all_num_ctor_complete c : In c all_num_ctor. Proof. destruct c; cbn; tauto. Qed.
Lemma all_set_ctor_complete c : In c all_set_ctor. Proof. destruct c; cbn; tauto. Qed.
Lemma all_vec_ctor_complete c : In c all_vec_ctor. Proof. destruct c; cbn; tauto. Qed.
Lemma all_img_ctor_complete c : In c all_img_ctor. Proof. destruct c; cbn; tauto. Qed.
Lemma all_box1_ctor_complete c : In c all_box1_ctor. Proof. destruct c; cbn; tauto. Qed.
Lemma all_box2_ctor_complete c : In c all_box2_ctor. Proof. destruct c; cbn; tauto. Qed.

Lemma eq_tables_spec :
  eq_tables_ok = true ->
  (forall c, eqk_name c = EqPayload) /\ (forall c, eqk_unit c = EqAlways) /\
  (forall c, eqk_num c = EqPayload) /\ (forall c, eqk_set c = EqPayload) /\
  (forall c, eqk_vec c = EqPayload) /\ (forall c, eqk_img c = EqPayload) /\
  (forall c, eqk_box1 c = EqPayload) /\
  (forall c, eqk_box2 c = if symmetric_box2 c then EqSymmetric else EqPayload).
Proof.
  unfold eq_tables_ok; intros H.
  repeat rewrite andb_true_iff in H. repeat rewrite forallb_forall in H.
  destruct H as [[[[[[[Hn Hu] Hi] Hs] Hv] Hg] Hb1] Hb2].
  repeat split; intros c; apply eq_kind_eqb_eq.
  - apply (Hn c), all_name_ctor_complete.
  - apply (Hu c), all_unit_ctor_complete.
  - apply (Hi c), all_num_ctor_complete.
  - apply (Hs c), all_set_ctor_complete.
  - apply (Hv c), all_vec_ctor_complete.
  - apply (Hg c), all_img_ctor_complete.
  - apply (Hb1 c), all_box1_ctor_complete.
  - apply (Hb2 c), all_box2_ctor_complete.
Qed.

Lemma hash_tables_spec :
  hash_respects_eq = true ->
  (forall c, hashk_set c = HashUnordered) /\
  (forall c, symmetric_box2 c = true -> hashk_box2 c = HashUnordered).
Proof.
  unfold hash_respects_eq; intros H.
  rewrite andb_true_iff in H. repeat rewrite forallb_forall in H. destruct H as [Hs Hb].
  split; intros c.
  - apply hash_kind_eqb_eq. apply (Hs c), all_set_ctor_complete.
  - intros Hc. apply hash_kind_eqb_eq. specialize (Hb c (all_box2_ctor_complete c)).
    now rewrite Hc in Hb.
Qed.

Lemma eqk_name_payload c : eqk_name c = EqPayload. Proof. apply (eq_tables_spec eq_tables_ok_true). Qed.
Lemma eqk_unit_always c : eqk_unit c = EqAlways. Proof. apply (eq_tables_spec eq_tables_ok_true). Qed.
Lemma eqk_num_payload c : eqk_num c = EqPayload. Proof. apply (eq_tables_spec eq_tables_ok_true). Qed.
Lemma eqk_set_payload c : eqk_set c = EqPayload. Proof. apply (eq_tables_spec eq_tables_ok_true). Qed.
Lemma eqk_vec_payload c : eqk_vec c = EqPayload. Proof. apply (eq_tables_spec eq_tables_ok_true). Qed.
Lemma eqk_img_payload c : eqk_img c = EqPayload. Proof. apply (eq_tables_spec eq_tables_ok_true). Qed.
Lemma eqk_box1_payload c : eqk_box1 c = EqPayload. Proof. apply (eq_tables_spec eq_tables_ok_true). Qed.
Lemma eqk_box2_spec c : eqk_box2 c = if symmetric_box2 c then EqSymmetric else EqPayload.
Proof. apply (eq_tables_spec eq_tables_ok_true). Qed.
Lemma hashk_set_unordered c : hashk_set c = HashUnordered.
Proof. apply (hash_tables_spec hash_respects_eq_true). Qed.
Lemma hashk_box2_sym_unordered c : symmetric_box2 c = true -> hashk_box2 c = HashUnordered.
Proof. apply (hash_tables_spec hash_respects_eq_true). Qed.

(* constructor tag equality decides Leibniz equality *)
Lemma name_ctor_eqb_eq c c' : name_ctor_eqb c c' = true <-> c = c'.
Proof. destruct c, c'; cbn; split; congruence. Qed.
Lemma unit_ctor_eqb_eq c c' : unit_ctor_eqb c c' = true <-> c = c'.
Proof. destruct c, c'; cbn; split; congruence. Qed.
Lemma num_ctor_eqb_eq c c' : num_ctor_eqb c c' = true <-> c = c'.
Proof. destruct c, c'; cbn; split; congruence. Qed.
Lemma set_ctor_eqb_eq c c' : set_ctor_eqb c c' = true <-> c = c'.
Proof. destruct c, c'; cbn; split; congruence. Qed.
Lemma vec_ctor_eqb_eq c c' : vec_ctor_eqb c c' = true <-> c = c'.
Proof. destruct c, c'; cbn; split; congruence. Qed.
Lemma img_ctor_eqb_eq c c' : img_ctor_eqb c c' = true <-> c = c'.
Proof. destruct c, c'; cbn; split; congruence. Qed.
Lemma box1_ctor_eqb_eq c c' : box1_ctor_eqb c c' = true <-> c = c'.
Proof. destruct c, c'; cbn; split; congruence. Qed.
Lemma box2_ctor_eqb_eq c c' : box2_ctor_eqb c c' = true <-> c = c'.
Proof. destruct c, c'; cbn; split; congruence. Qed.

Lemma name_ctor_eqb_refl c : name_ctor_eqb c c = true. Proof. now apply name_ctor_eqb_eq. Qed.
Lemma unit_ctor_eqb_refl c : unit_ctor_eqb c c = true. Proof. now apply unit_ctor_eqb_eq. Qed.
Lemma num_ctor_eqb_refl c : num_ctor_eqb c c = true. Proof. now apply num_ctor_eqb_eq. Qed.
Lemma set_ctor_eqb_refl c : set_ctor_eqb c c = true. Proof. now apply set_ctor_eqb_eq. Qed.
Lemma vec_ctor_eqb_refl c : vec_ctor_eqb c c = true. Proof. now apply vec_ctor_eqb_eq. Qed.
Lemma img_ctor_eqb_refl c : img_ctor_eqb c c = true. Proof. now apply img_ctor_eqb_eq. Qed.
Lemma box1_ctor_eqb_refl c : box1_ctor_eqb c c = true. Proof. now apply box1_ctor_eqb_eq. Qed.
Lemma box2_ctor_eqb_refl c : box2_ctor_eqb c c = true. Proof. now apply box2_ctor_eqb_eq. Qed.

(* ------------------------------------------------------------------------------------------ *)
(* term_eqb with the table facts plugged in                                                    *)
(* ------------------------------------------------------------------------------------------ *)

Notation eqbT := (fun x y : term => term_eqb x y = true).

Lemma eqb_name c n c' n' :
  term_eqb (TName c n) (TName c' n') = name_ctor_eqb c c' && str_eqb n n'.
Proof. cbn [term_eqb]. now rewrite eqk_name_payload. Qed.

Lemma eqb_unit c c' : term_eqb (TUnit c) (TUnit c') = unit_ctor_eqb c c'.
Proof. cbn [term_eqb]. rewrite eqk_unit_always. cbn [eq1]. apply andb_true_r. Qed.

Lemma eqb_num c i c' i' : term_eqb (TNum c i) (TNum c' i') = num_ctor_eqb c c' && N.eqb i i'.
Proof. cbn [term_eqb]. now rewrite eqk_num_payload. Qed.

Lemma eqb_set c l c' l' :
  term_eqb (TSet c l) (TSet c' l') =
  set_ctor_eqb c c' && (Nat.eqb (length l) (length l') && forallb (fun k => set_mem k l') l).
Proof. cbn [term_eqb]. now rewrite eqk_set_payload. Qed.

Lemma eqb_vec c l c' l' :
  term_eqb (TVec c l) (TVec c' l') = vec_ctor_eqb c c' && list_eqb term_eqb l l'.
Proof. cbn [term_eqb]. now rewrite eqk_vec_payload. Qed.

Lemma eqb_img c i l c' i' l' :
  term_eqb (TImg c i l) (TImg c' i' l') = img_ctor_eqb c c' && (N.eqb i i' && list_eqb term_eqb l l').
Proof. cbn [term_eqb]. now rewrite eqk_img_payload. Qed.

Lemma eqb_box1 c a c' a' : term_eqb (TBox1 c a) (TBox1 c' a') = box1_ctor_eqb c c' && term_eqb a a'.
Proof. cbn [term_eqb]. now rewrite eqk_box1_payload. Qed.

Lemma eqb_box2 c a b c' a' b' :
  term_eqb (TBox2 c a b) (TBox2 c' a' b') =
  box2_ctor_eqb c c' &&
  ((term_eqb a a' && term_eqb b b') || (symmetric_box2 c && (term_eqb a b' && term_eqb b a'))).
Proof.
  cbn [term_eqb]. rewrite eqk_box2_spec. destruct (symmetric_box2 c); cbn [andb]; [reflexivity|].
  now rewrite orb_false_r.
Qed.

(* ------------------------------------------------------------------------------------------ *)
(* small list toolkit                                                                          *)
(* ------------------------------------------------------------------------------------------ *)

Lemma forallb_Forall {A} (f : A -> bool) l : forallb f l = true <-> Forall (fun x => f x = true) l.
Proof. rewrite forallb_forall, Forall_forall. reflexivity. Qed.

Lemma list_eqb_Forall2 {A} (f : A -> A -> bool) l l' :
  list_eqb f l l' = true <-> Forall2 (fun x y => f x y = true) l l'.
Proof.
  revert l'; induction l as [|x l IH]; intros [|y l']; cbn [list_eqb].
  - split; [constructor | reflexivity].
  - split; [discriminate | inversion 1].
  - split; [discriminate | inversion 1].
  - fold (list_eqb f). rewrite andb_true_iff, IH. split.
    + intros [? ?]; now constructor.
    + inversion 1; subst; now split.
Qed.

Lemma Forall2_len {A B} (R : A -> B -> Prop) l l' : Forall2 R l l' -> length l = length l'.
Proof. induction 1; cbn [length]; congruence. Qed.
Arguments Forall2_len {A B R l l'} _.

Lemma Forall2_In_l {A B} (R : A -> B -> Prop) l l' x :
  Forall2 R l l' -> In x l -> exists y, In y l' /\ R x y.
Proof.
  induction 1 as [|a b l l' Hab _ IH]; cbn [In]; [tauto|].
  intros [<-|Hx]; [exists b; auto|]. destruct (IH Hx) as (y & ? & ?); exists y; auto.
Qed.

Lemma Forall2_In_r {A B} (R : A -> B -> Prop) l l' y :
  Forall2 R l l' -> In y l' -> exists x, In x l /\ R x y.
Proof.
  induction 1 as [|a b l l' Hab _ IH]; cbn [In]; [tauto|].
  intros [<-|Hy]; [exists a; auto|]. destruct (IH Hy) as (x & ? & ?); exists x; auto.
Qed.

Lemma Forall2_impl_In {A B} (R S : A -> B -> Prop) l l' :
  (forall x y, In x l -> In y l' -> R x y -> S x y) -> Forall2 R l l' -> Forall2 S l l'.
Proof.
  intros H F; induction F as [|a b l l' Hab _ IH]; constructor.
  - apply H; cbn; auto.
  - apply IH. intros x y Hx Hy; apply H; cbn; auto.
Qed.

Lemma Forall2_flip_iff {A B} (R : A -> B -> Prop) l l' :
  Forall2 R l l' -> Forall2 (fun y x => R x y) l' l.
Proof. induction 1; constructor; auto. Qed.

Lemma Forall2_trans_In {A} (R S T : A -> A -> Prop) l1 l2 l3 :
  (forall x y z, In x l1 -> In y l2 -> In z l3 -> R x y -> S y z -> T x z) ->
  Forall2 R l1 l2 -> Forall2 S l2 l3 -> Forall2 T l1 l3.
Proof.
  intros H F; revert l3 H; induction F as [|a b l l' Hab _ IH]; intros l3 H G; inversion G; subst.
  - constructor.
  - constructor.
    + eapply H; eauto; cbn; auto.
    + apply IH; [|assumption]. intros u v w Hu Hv Hw; apply H; cbn; auto.
Qed.

Lemma set_mem_true x l : set_mem x l = true <-> exists y, In y l /\ term_eqb x y = true.
Proof. unfold set_mem. apply existsb_exists. Qed.

Lemma set_mem_false x l : set_mem x l = false <-> forall y, In y l -> term_eqb x y = false.
Proof.
  unfold set_mem. induction l as [|a l IH]; cbn [existsb In].
  - split; [tauto | reflexivity].
  - rewrite orb_false_iff, IH. split.
    + intros [Ha Hl] y [<-|Hy]; auto.
    + intros H; split; [apply H; auto | intros y Hy; apply H; auto].
Qed.

Lemma set_mem_app x l l' : set_mem x (l ++ l') = set_mem x l || set_mem x l'.
Proof. unfold set_mem. apply existsb_app. Qed.

Lemma nodup_eqb_remove p y q : nodup_eqb (p ++ y :: q) = true -> nodup_eqb (p ++ q) = true.
Proof.
  induction p as [|a p IH]; cbn [app nodup_eqb]; rewrite !andb_true_iff.
  - tauto.
  - intros [Ha Hp]; split; [|auto].
    rewrite negb_true_iff in Ha |- *. apply set_mem_false. intros z Hz.
    apply (proj1 (set_mem_false a _) Ha). rewrite in_app_iff in Hz |- *. cbn [In]. tauto.
Qed.

(* ------------------------------------------------------------------------------------------ *)
(* reflexivity (no representation invariant needed)                                            *)
(* ------------------------------------------------------------------------------------------ *)

Lemma term_eqb_refl a : term_eqb a a = true.
Proof.
  induction a as [c n|c|c i|c l IH|c l IH|c i l IH|c a IH|c a b IHa IHb] using term_ind'.
  - now rewrite eqb_name, name_ctor_eqb_refl, str_eqb_refl.
  - now rewrite eqb_unit, unit_ctor_eqb_refl.
  - now rewrite eqb_num, num_ctor_eqb_refl, N.eqb_refl.
  - rewrite eqb_set, set_ctor_eqb_refl, Nat.eqb_refl. cbn [andb].
    apply forallb_forall. intros x Hx. apply set_mem_true. exists x; split; [assumption|].
    rewrite Forall_forall in IH; auto.
  - rewrite eqb_vec, vec_ctor_eqb_refl. cbn [andb]. apply list_eqb_Forall2.
    induction IH; constructor; auto.
  - rewrite eqb_img, img_ctor_eqb_refl, N.eqb_refl. cbn [andb]. apply list_eqb_Forall2.
    induction IH; constructor; auto.
  - now rewrite eqb_box1, box1_ctor_eqb_refl, IH.
  - now rewrite eqb_box2, box2_ctor_eqb_refl, IHa, IHb.
Qed.

Lemma set_mem_In x l : In x l -> set_mem x l = true.
Proof. intros H; apply set_mem_true; exists x; split; [assumption | apply term_eqb_refl]. Qed.

(* ------------------------------------------------------------------------------------------ *)
(* the counting argument, relative to a domain on which term_eqb is symmetric and transitive   *)
(* ------------------------------------------------------------------------------------------ *)

Section Matching.
  Variable D : term -> Prop.
  Hypothesis Dsym : forall a b, D a -> D b -> term_eqb a b = true -> term_eqb b a = true.
  Hypothesis Dtrans : forall a b c, D a -> D b -> D c ->
    term_eqb a b = true -> term_eqb b c = true -> term_eqb a c = true.

  (* a duplicate-free list included in another one can be matched injectively *)
  Lemma matching l : forall l',
    Forall D l -> Forall D l' -> nodup_eqb l = true ->
    (forall x, In x l -> set_mem x l' = true) ->
    exists l'' r, Permutation l' (l'' ++ r) /\ Forall2 eqbT l l''.
  Proof.
    induction l as [|x l IH]; intros l' Dl Dl' Hnd Hin.
    - exists [], l'. split; [apply Permutation_refl | constructor].
    - inversion Dl as [|? ? Dx Dl1]; subst.
      cbn [nodup_eqb] in Hnd. apply andb_true_iff in Hnd as [Hx Hnd]. apply negb_true_iff in Hx.
      destruct (proj1 (set_mem_true x l') (Hin x (or_introl eq_refl))) as (y & Hy & Hxy).
      destruct (in_split _ _ Hy) as (p & q & ->).
      assert (Dy : D y) by (rewrite Forall_forall in Dl'; auto).
      assert (Dpq : Forall D (p ++ q)).
      { rewrite Forall_forall in *. intros z Hz. apply Dl'. rewrite in_app_iff in *. cbn [In]. tauto. }
      destruct (IH (p ++ q) Dl1 Dpq Hnd) as (l2 & r & HP & HF).
      { intros x1 Hx1. destruct (proj1 (set_mem_true x1 _) (Hin x1 (or_intror Hx1))) as (y1 & Hy1 & Hxy1).
        apply set_mem_true. exists y1. split; [|assumption].
        rewrite in_app_iff in *. cbn [In] in Hy1. destruct Hy1 as [?|[<-|?]]; auto.
        exfalso. assert (Dx1 : D x1) by (rewrite Forall_forall in Dl1; auto).
        assert (term_eqb x x1 = true) by (eapply Dtrans; [| | | exact Hxy | apply Dsym]; auto).
        rewrite (proj1 (set_mem_false x l) Hx x1 Hx1) in H. discriminate. }
      exists (y :: l2), r. split.
      + cbn [app]. rewrite <- HP. symmetry. apply Permutation_middle.
      + constructor; assumption.
  Qed.

  Lemma incl_length l l' :
    Forall D l -> Forall D l' -> nodup_eqb l = true ->
    (forall x, In x l -> set_mem x l' = true) -> (length l <= length l')%nat.
  Proof.
    intros Dl Dl' Hnd Hin. destruct (matching l l' Dl Dl' Hnd Hin) as (l2 & r & HP & HF).
    rewrite (Permutation_length HP), app_length, <- (Forall2_len HF). lia.
  Qed.

  (* pigeonhole: if moreover l' is not longer than l, the matching is a permutation of l' *)
  Lemma matching_perm l l' :
    Forall D l -> Forall D l' -> nodup_eqb l = true ->
    (forall x, In x l -> set_mem x l' = true) -> (length l' <= length l)%nat ->
    exists l'', Permutation l' l'' /\ Forall2 eqbT l l''.
  Proof.
    intros Dl Dl' Hnd Hin Hlen. destruct (matching l l' Dl Dl' Hnd Hin) as (l2 & r & HP & HF).
    pose proof (Permutation_length HP) as HL. rewrite app_length, <- (Forall2_len HF) in HL.
    destruct r as [|z r]; [|cbn [length] in HL; lia]. rewrite app_nil_r in HP. eauto.
  Qed.

  Lemma incl_rev l l' :
    Forall D l -> Forall D l' -> nodup_eqb l = true ->
    (forall x, In x l -> set_mem x l' = true) -> (length l' <= length l)%nat ->
    forall y, In y l' -> set_mem y l = true.
  Proof.
    intros Dl Dl' Hnd Hin Hlen y Hy.
    destruct (matching_perm l l' Dl Dl' Hnd Hin Hlen) as (l2 & HP & HF).
    destruct (Forall2_In_r _ _ _ y HF) as (x & Hx & Hxy); [eapply Permutation_in; eauto|].
    apply set_mem_true. exists x. split; [assumption|].
    rewrite Forall_forall in *. apply Dsym; auto.
  Qed.
End Matching.

(* payload comparisons of the list-carrying shapes *)
Definition set_payload_eqb (l l' : list term) : bool :=
  Nat.eqb (length l) (length l') && forallb (fun k => set_mem k l') l.

Lemma set_payload_eqb_spec l l' :
  set_payload_eqb l l' = true <-> length l = length l' /\ (forall x, In x l -> set_mem x l' = true).
Proof. unfold set_payload_eqb. now rewrite andb_true_iff, Nat.eqb_eq, forallb_forall. Qed.

Section ListEquiv.
  Variable D : term -> Prop.
  Hypothesis Dsym : forall a b, D a -> D b -> term_eqb a b = true -> term_eqb b a = true.
  Hypothesis Dtrans : forall a b c, D a -> D b -> D c ->
    term_eqb a b = true -> term_eqb b c = true -> term_eqb a c = true.

  Lemma vec_payload_sym l l' :
    Forall D l -> Forall D l' -> list_eqb term_eqb l l' = true -> list_eqb term_eqb l' l = true.
  Proof.
    rewrite !list_eqb_Forall2, !Forall_forall. intros Dl Dl' H.
    apply Forall2_flip_iff in H. revert H. apply Forall2_impl_In. intros; apply Dsym; auto.
  Qed.

  Lemma vec_payload_trans l l' l'' :
    Forall D l -> Forall D l' -> Forall D l'' ->
    list_eqb term_eqb l l' = true -> list_eqb term_eqb l' l'' = true -> list_eqb term_eqb l l'' = true.
  Proof.
    rewrite !list_eqb_Forall2, !Forall_forall. intros Dl Dl' Dl''.
    apply Forall2_trans_In. intros x y z ? ? ?; apply Dtrans; auto.
  Qed.

  Lemma set_payload_sym l l' :
    Forall D l -> Forall D l' -> nodup_eqb l = true ->
    set_payload_eqb l l' = true -> set_payload_eqb l' l = true.
  Proof.
    rewrite !set_payload_eqb_spec. intros Dl Dl' Hnd [Hlen Hin]. split; [congruence|].
    apply (incl_rev D Dsym Dtrans l l'); auto. lia.
  Qed.

  Lemma set_payload_trans l l' l'' :
    Forall D l -> Forall D l' -> Forall D l'' ->
    set_payload_eqb l l' = true -> set_payload_eqb l' l'' = true -> set_payload_eqb l l'' = true.
  Proof.
    rewrite !set_payload_eqb_spec, !Forall_forall. intros Dl Dl' Dl'' [Hlen Hin] [Hlen' Hin'].
    split; [congruence|]. intros x Hx.
    destruct (proj1 (set_mem_true _ _) (Hin x Hx)) as (y & Hy & Hxy).
    destruct (proj1 (set_mem_true _ _) (Hin' y Hy)) as (z & Hz & Hyz).
    apply set_mem_true. exists z. split; [assumption|]. apply (Dtrans x y z); auto.
  Qed.
End ListEquiv.

Lemma eqb_set' c l c' l' :
  term_eqb (TSet c l) (TSet c' l') = set_ctor_eqb c c' && set_payload_eqb l l'.
Proof. apply eqb_set. Qed.

(* ------------------------------------------------------------------------------------------ *)
(* term_eqb is an equivalence on well-formed terms: induction on a size bound                 *)
(* ------------------------------------------------------------------------------------------ *)

Definition okn (n : nat) (t : term) : Prop := (tsize t <= n)%nat /\ set_ok t = true.

Lemma tsize_pos t : (1 <= tsize t)%nat.
Proof. destruct t; cbn [tsize]; lia. Qed.

Lemma tsize_in x l : In x l -> (tsize x <= fold_right (fun x acc => tsize x + acc)%nat O l)%nat.
Proof.
  induction l as [|a l IH]; cbn [In fold_right]; [tauto|]. intros [->|H]; [lia|]. specialize (IH H). lia.
Qed.

Lemma okn_list n l :
  (S (fold_right (fun x acc => tsize x + acc)%nat O l) <= S n)%nat -> forallb set_ok l = true ->
  Forall (okn n) l.
Proof.
  intros Hs Hok. apply Forall_forall. intros x Hx. split.
  - pose proof (tsize_in x l Hx). lia.
  - rewrite forallb_forall in Hok. auto.
Qed.

Lemma okn_set n c l : okn (S n) (TSet c l) -> Forall (okn n) l /\ nodup_eqb l = true.
Proof.
  unfold okn at 1. cbn [tsize set_ok]. rewrite andb_true_iff. intros [Hs [Hok Hnd]].
  split; [apply okn_list|]; assumption.
Qed.

Lemma okn_vec n c l : okn (S n) (TVec c l) -> Forall (okn n) l.
Proof. unfold okn at 1. cbn [tsize set_ok]. intros [Hs Hok]. now apply okn_list. Qed.

Lemma okn_img n c i l : okn (S n) (TImg c i l) -> Forall (okn n) l.
Proof. unfold okn at 1. cbn [tsize set_ok]. intros [Hs Hok]. now apply okn_list. Qed.

Lemma okn_box1 n c a : okn (S n) (TBox1 c a) -> okn n a.
Proof. unfold okn. cbn [tsize set_ok]. intros [Hs Hok]. split; [lia | assumption]. Qed.

Lemma okn_box2 n c a b : okn (S n) (TBox2 c a b) -> okn n a /\ okn n b.
Proof.
  unfold okn. cbn [tsize set_ok]. rewrite andb_true_iff. intros [Hs [Ha Hb]].
  repeat split; (lia || assumption).
Qed.

Lemma eqb_equiv_bounded n :
  (forall a b, okn n a -> okn n b -> term_eqb a b = true -> term_eqb b a = true) /\
  (forall a b c, okn n a -> okn n b -> okn n c ->
     term_eqb a b = true -> term_eqb b c = true -> term_eqb a c = true).
Proof.
  induction n as [|n [IHs IHt]].
  { split; intros a; intros; exfalso; pose proof (tsize_pos a);
      match goal with H : okn 0 a |- _ => destruct H end; lia. }
  split.
  - intros a b Ha Hb.
    destruct a as [c n0|c|c i|c l|c l|c i l|c x|c x y], b as [c' n0'|c'|c' i'|c' l'|c' l'|c' i' l'|c' x'|c' x' y'];
      try (cbn [term_eqb]; intros; discriminate).
    + rewrite !eqb_name, !andb_true_iff, !name_ctor_eqb_eq, !str_eqb_eq. intros [-> ->]; auto.
    + rewrite !eqb_unit, !unit_ctor_eqb_eq. auto.
    + rewrite !eqb_num, !andb_true_iff, !num_ctor_eqb_eq, !N.eqb_eq. intros [-> ->]; auto.
    + apply okn_set in Ha as [Dl Hnd], Hb as [Dl' Hnd'].
      rewrite !eqb_set', !andb_true_iff, !set_ctor_eqb_eq. intros [-> H]. split; [reflexivity|].
      apply (set_payload_sym (okn n) IHs IHt l l'); assumption.
    + apply okn_vec in Ha, Hb.
      rewrite !eqb_vec, !andb_true_iff, !vec_ctor_eqb_eq. intros [-> H]. split; [reflexivity|].
      apply (vec_payload_sym (okn n) IHs l l'); assumption.
    + apply okn_img in Ha, Hb.
      rewrite !eqb_img, !andb_true_iff, !img_ctor_eqb_eq, !N.eqb_eq. intros [-> [-> H]].
      repeat split. apply (vec_payload_sym (okn n) IHs l l'); assumption.
    + apply okn_box1 in Ha, Hb.
      rewrite !eqb_box1, !andb_true_iff, !box1_ctor_eqb_eq. intros [-> H]. split; [reflexivity|].
      apply IHs; assumption.
    + apply okn_box2 in Ha as [Hx Hy], Hb as [Hx' Hy'].
      rewrite !eqb_box2, !andb_true_iff, !orb_true_iff, !andb_true_iff, !box2_ctor_eqb_eq.
      intros [-> [[H1 H2]|[Hc [H1 H2]]]]; (split; [reflexivity|]).
      * left; split; apply IHs; assumption.
      * right; split; [assumption|]. split; apply IHs; assumption.
  - intros a b c0 Ha Hb Hc.
    destruct a as [c n0|c|c i|c l|c l|c i l|c x|c x y], b as [c' n0'|c'|c' i'|c' l'|c' l'|c' i' l'|c' x'|c' x' y'];
      try (cbn [term_eqb]; intros; discriminate);
      destruct c0 as [c'' n0''|c''|c'' i''|c'' l''|c'' l''|c'' i'' l''|c'' x''|c'' x'' y''];
      try (cbn [term_eqb]; intros; discriminate).
    + rewrite !eqb_name, !andb_true_iff, !name_ctor_eqb_eq, !str_eqb_eq. intros [-> ->] [-> ->]; auto.
    + rewrite !eqb_unit, !unit_ctor_eqb_eq. congruence.
    + rewrite !eqb_num, !andb_true_iff, !num_ctor_eqb_eq, !N.eqb_eq. intros [-> ->] [-> ->]; auto.
    + apply okn_set in Ha as [Dl Hnd], Hb as [Dl' Hnd'], Hc as [Dl'' Hnd''].
      rewrite !eqb_set', !andb_true_iff, !set_ctor_eqb_eq. intros [-> H] [-> H']. split; [reflexivity|].
      apply (set_payload_trans (okn n) IHt l l' l''); assumption.
    + apply okn_vec in Ha, Hb, Hc.
      rewrite !eqb_vec, !andb_true_iff, !vec_ctor_eqb_eq. intros [-> H] [-> H']. split; [reflexivity|].
      apply (vec_payload_trans (okn n) IHt l l' l''); assumption.
    + apply okn_img in Ha, Hb, Hc.
      rewrite !eqb_img, !andb_true_iff, !img_ctor_eqb_eq, !N.eqb_eq. intros [-> [-> H]] [-> [-> H']].
      repeat split. apply (vec_payload_trans (okn n) IHt l l' l''); assumption.
    + apply okn_box1 in Ha, Hb, Hc.
      rewrite !eqb_box1, !andb_true_iff, !box1_ctor_eqb_eq. intros [-> H] [-> H']. split; [reflexivity|].
      apply (IHt x x' x''); assumption.
    + apply okn_box2 in Ha as [Hx Hy], Hb as [Hx' Hy'], Hc as [Hx'' Hy''].
      rewrite !eqb_box2, !andb_true_iff, !orb_true_iff, !andb_true_iff, !box2_ctor_eqb_eq.
      intros [-> [[H1 H2]|[Hs [H1 H2]]]] [-> [[H3 H4]|[Hs' [H3 H4]]]]; (split; [reflexivity|]).
      * left; split; [apply (IHt x x' x'') | apply (IHt y y' y'')]; assumption.
      * right; split; [assumption|]. split; [apply (IHt x x' y'') | apply (IHt y y' x'')]; assumption.
      * right; split; [assumption|]. split; [apply (IHt x y' y'') | apply (IHt y x' x'')]; assumption.
      * left; split; [apply (IHt x y' x'') | apply (IHt y x' y'')]; assumption.
Qed.

Lemma okn_intro t : set_ok t = true -> forall n, (tsize t <= n)%nat -> okn n t.
Proof. intros; split; assumption. Qed.

Lemma term_eqb_sym_imp a b :
  set_ok a = true -> set_ok b = true -> term_eqb a b = true -> term_eqb b a = true.
Proof.
  intros Ha Hb. apply (proj1 (eqb_equiv_bounded (Nat.max (tsize a) (tsize b)))); apply okn_intro; auto; lia.
Qed.

Lemma term_eqb_sym a b : set_ok a = true -> set_ok b = true -> term_eqb a b = term_eqb b a.
Proof.
  intros Ha Hb. destruct (term_eqb a b) eqn:E1, (term_eqb b a) eqn:E2; try reflexivity.
  - apply term_eqb_sym_imp in E1; auto. congruence.
  - apply term_eqb_sym_imp in E2; auto. congruence.
Qed.

Lemma term_eqb_trans a b c :
  set_ok a = true -> set_ok b = true -> set_ok c = true ->
  term_eqb a b = true -> term_eqb b c = true -> term_eqb a c = true.
Proof.
  intros Ha Hb Hc.
  apply (proj2 (eqb_equiv_bounded (Nat.max (tsize a) (Nat.max (tsize b) (tsize c))))); apply okn_intro; auto; lia.
Qed.

Notation okT := (fun t : term => set_ok t = true).

Lemma okT_sym : forall a b, okT a -> okT b -> term_eqb a b = true -> term_eqb b a = true.
Proof. exact term_eqb_sym_imp. Qed.
Lemma okT_trans : forall a b c, okT a -> okT b -> okT c ->
  term_eqb a b = true -> term_eqb b c = true -> term_eqb a c = true.
Proof. exact term_eqb_trans. Qed.

Lemma ok_set c l : set_ok (TSet c l) = true -> Forall okT l /\ nodup_eqb l = true.
Proof. cbn [set_ok]. rewrite andb_true_iff, forallb_Forall. auto. Qed.

Lemma ok_vec c l : set_ok (TVec c l) = true -> Forall okT l.
Proof. cbn [set_ok]. now rewrite forallb_Forall. Qed.

Lemma ok_img c i l : set_ok (TImg c i l) = true -> Forall okT l.
Proof. cbn [set_ok]. now rewrite forallb_Forall. Qed.

Lemma ok_box2 c a b : set_ok (TBox2 c a b) = true -> set_ok a = true /\ set_ok b = true.
Proof. cbn [set_ok]. now rewrite andb_true_iff. Qed.

(* ------------------------------------------------------------------------------------------ *)
(* term_eqb coincides with the specification                                                   *)
(* ------------------------------------------------------------------------------------------ *)

Lemma eqb_sem a : forall b, set_ok a = true -> set_ok b = true -> term_eqb a b = true -> sem_eq a b.
Proof.
  induction a as [c n|c|c i|c l IH|c l IH|c i l IH|c x IH|c x y IHx IHy] using term_ind';
    intros [c' n'|c'|c' i'|c' l'|c' l'|c' i' l'|c' x'|c' x' y'] Ha Hb;
    try (cbn [term_eqb]; intros; discriminate).
  - rewrite eqb_name, andb_true_iff, name_ctor_eqb_eq, str_eqb_eq. intros [-> ->]. constructor.
  - rewrite eqb_unit, unit_ctor_eqb_eq. intros ->. constructor.
  - rewrite eqb_num, andb_true_iff, num_ctor_eqb_eq, N.eqb_eq. intros [-> ->]. constructor.
  - apply ok_set in Ha as [Dl Hnd], Hb as [Dl' Hnd'].
    rewrite eqb_set', andb_true_iff, set_ctor_eqb_eq, set_payload_eqb_spec. intros [-> [Hlen Hin]].
    rewrite Forall_forall in IH.
    assert (Dl0 := Dl). assert (Dl0' := Dl'). rewrite Forall_forall in Dl0, Dl0'.
    apply SE_set.
    + intros x Hx. destruct (proj1 (set_mem_true _ _) (Hin x Hx)) as (y & Hy & Hxy).
      exists y. split; [assumption|]. apply IH; auto.
    + intros y Hy.
      assert (Hm : set_mem y l = true).
      { apply (incl_rev okT okT_sym okT_trans l l'); auto. lia. }
      destruct (proj1 (set_mem_true _ _) Hm) as (x & Hx & Hyx).
      exists x. split; [assumption|]. apply IH; auto. apply term_eqb_sym_imp; auto.
  - apply ok_vec in Ha, Hb. rewrite Forall_forall in *.
    rewrite eqb_vec, andb_true_iff, vec_ctor_eqb_eq, list_eqb_Forall2. intros [-> H].
    apply SE_vec. revert H. apply Forall2_impl_In. intros; apply IH; auto.
  - apply ok_img in Ha, Hb. rewrite Forall_forall in *.
    rewrite eqb_img, !andb_true_iff, img_ctor_eqb_eq, N.eqb_eq, list_eqb_Forall2. intros [-> [-> H]].
    apply SE_img. revert H. apply Forall2_impl_In. intros; apply IH; auto.
  - cbn [set_ok] in Ha, Hb.
    rewrite eqb_box1, andb_true_iff, box1_ctor_eqb_eq. intros [-> H]. apply SE_box1. apply IH; auto.
  - apply ok_box2 in Ha as [Hx Hy], Hb as [Hx' Hy'].
    rewrite eqb_box2, !andb_true_iff, !orb_true_iff, !andb_true_iff, box2_ctor_eqb_eq.
    intros [-> [[H1 H2]|[Hs [H1 H2]]]].
    + apply SE_box2; [apply IHx | apply IHy]; auto.
    + apply SE_box2_sym; [assumption | apply IHx | apply IHy]; auto.
Qed.

Lemma sem_eq_atom_inv a b :
  sem_eq a b -> match a with TName _ _ | TUnit _ | TNum _ _ => b = a | _ => True end.
Proof. destruct 1; auto. Qed.

Lemma sem_eq_set_inv c l b :
  sem_eq (TSet c l) b ->
  exists l', b = TSet c l' /\
    (forall x, In x l -> exists y, In y l' /\ sem_eq x y) /\
    (forall y, In y l' -> exists x, In x l /\ sem_eq x y).
Proof. inversion 1; subst; eauto. Qed.

Lemma sem_eq_vec_inv c l b :
  sem_eq (TVec c l) b -> exists l', b = TVec c l' /\ Forall2 sem_eq l l'.
Proof. inversion 1; subst; eauto. Qed.

Lemma sem_eq_img_inv c i l b :
  sem_eq (TImg c i l) b -> exists l', b = TImg c i l' /\ Forall2 sem_eq l l'.
Proof. inversion 1; subst; eauto. Qed.

Lemma sem_eq_box1_inv c a b :
  sem_eq (TBox1 c a) b -> exists a', b = TBox1 c a' /\ sem_eq a a'.
Proof. inversion 1; subst; eauto. Qed.

Lemma sem_eq_box2_inv c x y b :
  sem_eq (TBox2 c x y) b ->
  exists x' y', b = TBox2 c x' y' /\
    ((sem_eq x x' /\ sem_eq y y') \/ (symmetric_box2 c = true /\ sem_eq x y' /\ sem_eq y x')).
Proof. inversion 1; subst; eauto 8. Qed.

Lemma sem_eqb a : forall b, set_ok a = true -> set_ok b = true -> sem_eq a b -> term_eqb a b = true.
Proof.
  induction a as [c n|c|c i|c l IH|c l IH|c i l IH|c x IH|c x y IHx IHy] using term_ind';
    intros b Ha Hb H.
  - apply sem_eq_atom_inv in H as ->. apply term_eqb_refl.
  - apply sem_eq_atom_inv in H as ->. apply term_eqb_refl.
  - apply sem_eq_atom_inv in H as ->. apply term_eqb_refl.
  - apply sem_eq_set_inv in H as (l' & -> & H1 & H2).
    apply ok_set in Ha as [Dl Hnd], Hb as [Dl' Hnd'].
    rewrite Forall_forall in IH.
    assert (Dl0 := Dl). assert (Dl0' := Dl'). rewrite Forall_forall in Dl0, Dl0'.
    assert (Hin : forall x, In x l -> set_mem x l' = true).
    { intros x Hx. destruct (H1 x Hx) as (y & Hy & Hxy). apply set_mem_true. exists y. auto. }
    assert (Hin' : forall y, In y l' -> set_mem y l = true).
    { intros y Hy. destruct (H2 y Hy) as (x & Hx & Hxy). apply set_mem_true. exists x.
      split; [assumption|]. apply term_eqb_sym_imp; auto. }
    rewrite eqb_set', set_ctor_eqb_refl. cbn [andb]. apply set_payload_eqb_spec. split; [|assumption].
    apply Nat.le_antisymm; apply (incl_length okT okT_sym okT_trans); auto.
  - apply sem_eq_vec_inv in H as (l' & -> & H).
    apply ok_vec in Ha, Hb. rewrite Forall_forall in *.
    rewrite eqb_vec, vec_ctor_eqb_refl. cbn [andb]. apply list_eqb_Forall2.
    revert H. apply Forall2_impl_In. intros; apply IH; auto.
  - apply sem_eq_img_inv in H as (l' & -> & H).
    apply ok_img in Ha, Hb. rewrite Forall_forall in *.
    rewrite eqb_img, img_ctor_eqb_refl, N.eqb_refl. cbn [andb]. apply list_eqb_Forall2.
    revert H. apply Forall2_impl_In. intros; apply IH; auto.
  - apply sem_eq_box1_inv in H as (a' & -> & H).
    cbn [set_ok] in Ha, Hb. rewrite eqb_box1, box1_ctor_eqb_refl. cbn [andb]. apply IH; auto.
  - apply sem_eq_box2_inv in H as (x' & y' & -> & H).
    apply ok_box2 in Ha as [Hx Hy], Hb as [Hx' Hy'].
    rewrite eqb_box2, box2_ctor_eqb_refl. cbn [andb].
    destruct H as [[H1 H2]|[Hs [H1 H2]]].
    + rewrite IHx, IHy; auto.
    + rewrite Hs. cbn [andb]. rewrite (IHx y'), (IHy x'); auto. apply orb_true_r.
Qed.

Lemma term_eqb_sem_eq a b :
  set_ok a = true -> set_ok b = true -> (term_eqb a b = true <-> sem_eq a b).
Proof. intros Ha Hb; split; [apply eqb_sem | apply sem_eqb]; assumption. Qed.

(* ------------------------------------------------------------------------------------------ *)
(* C07: equal terms feed the hasher identically                                                *)
(* ------------------------------------------------------------------------------------------ *)

Lemma two64_nz : two64 <> 0.
Proof. discriminate. Qed.

Lemma wsum_cons x l : wsum (x :: l) = (x + wsum l) mod two64.
Proof. reflexivity. Qed.

Lemma wsum_perm l l' : Permutation l l' -> wsum l = wsum l'.
Proof.
  induction 1 as [|x l l' _ IH|x y l|l1 l2 l3 _ IH1 _ IH2].
  - reflexivity.
  - rewrite !wsum_cons. now rewrite IH.
  - rewrite !wsum_cons. rewrite !N.add_mod_idemp_r by apply two64_nz. f_equal. lia.
  - congruence.
Qed.

Lemma map_ext_Forall2 {A B} (f : A -> B) l l' :
  Forall2 (fun x y => f x = f y) l l' -> map f l = map f l'.
Proof. induction 1; cbn [map]; congruence. Qed.

Lemma term_feed_eq fixed_hash a :
  forall b, set_ok a = true -> set_ok b = true -> term_eqb a b = true ->
  term_feed fixed_hash a = term_feed fixed_hash b.
Proof.
  induction a as [c n|c|c i|c l IH|c l IH|c i l IH|c x IH|c x y IHx IHy] using term_ind';
    intros [c' n'|c'|c' i'|c' l'|c' l'|c' i' l'|c' x'|c' x' y'] Ha Hb;
    try (cbn [term_eqb]; intros; discriminate).
  - rewrite eqb_name, andb_true_iff, name_ctor_eqb_eq, str_eqb_eq. intros [-> ->]. reflexivity.
  - rewrite eqb_unit, unit_ctor_eqb_eq. intros ->. reflexivity.
  - rewrite eqb_num, andb_true_iff, num_ctor_eqb_eq, N.eqb_eq. intros [-> ->]. reflexivity.
  - apply ok_set in Ha as [Dl Hnd], Hb as [Dl' Hnd'].
    rewrite eqb_set', andb_true_iff, set_ctor_eqb_eq, set_payload_eqb_spec. intros [-> [Hlen Hin]].
    destruct (matching_perm okT okT_sym okT_trans l l' Dl Dl' Hnd Hin) as (l2 & HP & HF); [lia|].
    cbn [term_feed]. rewrite hashk_set_unordered. unfold feed_unordered. do 2 f_equal.
    assert (HE : map (term_feed fixed_hash) l = map (term_feed fixed_hash) l2).
    { apply map_ext_Forall2. revert HF. apply Forall2_impl_In. intros u v Hu Hv Huv.
      rewrite Forall_forall in IH, Dl, Dl'. apply IH; auto.
      apply Dl'. eapply Permutation_in; [symmetry; exact HP | exact Hv]. }
    rewrite HE. apply wsum_perm. do 2 apply Permutation_map. now symmetry.
  - apply ok_vec in Ha, Hb. rewrite Forall_forall in *.
    rewrite eqb_vec, andb_true_iff, vec_ctor_eqb_eq, list_eqb_Forall2. intros [-> H].
    assert (HE : map (term_feed fixed_hash) l = map (term_feed fixed_hash) l').
    { apply map_ext_Forall2. revert H. apply Forall2_impl_In. intros; apply IH; auto. }
    cbn [term_feed]. now rewrite HE.
  - apply ok_img in Ha, Hb. rewrite Forall_forall in *.
    rewrite eqb_img, !andb_true_iff, img_ctor_eqb_eq, N.eqb_eq, list_eqb_Forall2. intros [-> [-> H]].
    assert (HE : map (term_feed fixed_hash) l = map (term_feed fixed_hash) l').
    { apply map_ext_Forall2. revert H. apply Forall2_impl_In. intros; apply IH; auto. }
    cbn [term_feed]. now rewrite HE.
  - cbn [set_ok] in Ha, Hb.
    rewrite eqb_box1, andb_true_iff, box1_ctor_eqb_eq. intros [-> H].
    cbn [term_feed]. now rewrite (IH x' Ha Hb H).
  - apply ok_box2 in Ha as [Hx Hy], Hb as [Hx' Hy'].
    rewrite eqb_box2, !andb_true_iff, !orb_true_iff, !andb_true_iff, box2_ctor_eqb_eq.
    intros [-> [[H1 H2]|[Hs [H1 H2]]]]; cbn [term_feed].
    + now rewrite (IHx x' Hx Hx' H1), (IHy y' Hy Hy' H2).
    + rewrite (hashk_box2_sym_unordered _ Hs), (IHx y' Hx Hy' H1), (IHy x' Hy Hx' H2).
      unfold feed_unordered. do 2 f_equal. cbn [map]. apply wsum_perm, perm_swap.
Qed.

Lemma term_hash_eq (H : Type) (h : list hitem -> H) fixed_hash a b :
  set_ok a = true -> set_ok b = true -> term_eqb a b = true ->
  h (term_feed fixed_hash a) = h (term_feed fixed_hash b).
Proof. intros Ha Hb E. now rewrite (term_feed_eq fixed_hash a b Ha Hb E). Qed.

(* a lookup with an equal key finds the stored element *)
Lemma set_lookup s a b :
  forallb set_ok s = true -> set_ok a = true -> set_ok b = true ->
  In a s -> term_eqb a b = true -> set_mem b s = true.
Proof.
  intros _ Ha Hb Hin E. apply set_mem_true. exists a. split; [assumption|].
  now apply term_eqb_sym_imp.
Qed.

(* ------------------------------------------------------------------------------------------ *)
(* sets built by repeated insertion                                                            *)
(* ------------------------------------------------------------------------------------------ *)

Lemma nodup_snoc acc y :
  Forall okT acc -> set_ok y = true -> nodup_eqb acc = true -> set_mem y acc = false ->
  nodup_eqb (acc ++ [y]) = true.
Proof.
  induction acc as [|a acc IH]; intros Dacc Hy Hnd Hm; [reflexivity|].
  inversion Dacc as [|? ? Da Dacc']; subst.
  cbn [app nodup_eqb] in *. apply andb_true_iff in Hnd as [Ha Hnd].
  cbn [set_mem existsb] in Hm. apply orb_false_iff in Hm as [Hya Hm].
  apply andb_true_iff. split; [|apply IH; auto].
  rewrite set_mem_app. apply negb_true_iff in Ha. rewrite Ha. cbn [orb set_mem existsb].
  rewrite (term_eqb_sym a y Da Hy), Hya. reflexivity.
Qed.

Lemma set_insert_spec acc y :
  Forall okT acc -> set_ok y = true -> nodup_eqb acc = true ->
  Forall okT (set_insert acc y) /\ nodup_eqb (set_insert acc y) = true /\
  (forall x, set_ok x = true -> set_mem x (set_insert acc y) = set_mem x acc || term_eqb x y).
Proof.
  intros Dacc Hy Hnd. unfold set_insert. destruct (set_mem y acc) eqn:Hm.
  - repeat split; auto. intros x Hx. destruct (term_eqb x y) eqn:Hxy; [|now rewrite orb_false_r].
    rewrite orb_true_r. apply set_mem_true in Hm as (e & He & Hye). apply set_mem_true. exists e.
    split; [assumption|]. rewrite Forall_forall in Dacc. apply (term_eqb_trans x y e); auto.
  - repeat split.
    + apply Forall_app. split; [assumption | constructor; auto].
    + apply nodup_snoc; assumption.
    + intros x Hx. rewrite set_mem_app. cbn [set_mem existsb]. now rewrite orb_false_r.
Qed.

Lemma set_extend_spec l : forall acc,
  Forall okT acc -> Forall okT l -> nodup_eqb acc = true ->
  Forall okT (set_extend acc l) /\ nodup_eqb (set_extend acc l) = true /\
  (forall x, set_ok x = true -> set_mem x (set_extend acc l) = set_mem x acc || set_mem x l).
Proof.
  unfold set_extend. induction l as [|y l IH]; intros acc Dacc Dl Hnd; cbn [fold_left].
  - repeat split; auto. intros x _. cbn [set_mem existsb]. now rewrite orb_false_r.
  - inversion Dl as [|? ? Dy Dl']; subst.
    destruct (set_insert_spec acc y Dacc Dy Hnd) as (D1 & N1 & M1).
    destruct (IH (set_insert acc y) D1 Dl' N1) as (D2 & N2 & M2).
    repeat split; auto. intros x Hx. rewrite (M2 x Hx), (M1 x Hx). cbn [set_mem existsb].
    now rewrite orb_assoc.
Qed.

Lemma mk_set_spec l :
  forallb set_ok l = true ->
  nodup_eqb (mk_set l) = true /\ forallb set_ok (mk_set l) = true /\
  (forall x, set_ok x = true -> set_mem x (mk_set l) = set_mem x l).
Proof.
  rewrite forallb_Forall. intros Dl.
  destruct (set_extend_spec l [] (Forall_nil _) Dl eq_refl) as (D & Nd & M).
  change (set_extend [] l) with (mk_set l) in *.
  repeat split; [assumption | now apply forallb_Forall | exact M].
Qed.

(* two duplicate-free descriptions with the same members are equal sets *)
Lemma set_eq_by_mem c l1 l2 :
  forallb set_ok l1 = true -> forallb set_ok l2 = true ->
  nodup_eqb l1 = true -> nodup_eqb l2 = true ->
  (forall x, set_ok x = true -> set_mem x l1 = set_mem x l2) ->
  term_eqb (TSet c l1) (TSet c l2) = true.
Proof.
  rewrite !forallb_Forall. intros D1 D2 N1 N2 M.
  assert (I12 : forall x, In x l1 -> set_mem x l2 = true).
  { intros x Hx. rewrite Forall_forall in D1. rewrite <- M by auto. now apply set_mem_In. }
  assert (I21 : forall x, In x l2 -> set_mem x l1 = true).
  { intros x Hx. rewrite Forall_forall in D2. rewrite M by auto. now apply set_mem_In. }
  rewrite eqb_set', set_ctor_eqb_refl. cbn [andb]. apply set_payload_eqb_spec. split; [|assumption].
  apply Nat.le_antisymm; apply (incl_length okT okT_sym okT_trans); auto.
Qed.

Lemma mk_set_app_comm c l l' :
  forallb set_ok l = true -> forallb set_ok l' = true ->
  term_eqb (TSet c (mk_set (l ++ l'))) (TSet c (mk_set (l' ++ l))) = true.
Proof.
  intros Hl Hl'.
  assert (H1 : forallb set_ok (l ++ l') = true) by (rewrite forallb_app, Hl, Hl'; reflexivity).
  assert (H2 : forallb set_ok (l' ++ l) = true) by (rewrite forallb_app, Hl, Hl'; reflexivity).
  destruct (mk_set_spec _ H1) as (N1 & D1 & M1). destruct (mk_set_spec _ H2) as (N2 & D2 & M2).
  apply set_eq_by_mem; auto. intros x Hx. rewrite M1, M2 by assumption.
  rewrite !set_mem_app. apply orb_comm.
Qed.

Lemma mk_set_app_dup c l :
  forallb set_ok l = true ->
  term_eqb (TSet c (mk_set (l ++ l))) (TSet c (mk_set l)) = true.
Proof.
  intros Hl.
  assert (H1 : forallb set_ok (l ++ l) = true) by (rewrite forallb_app, Hl; reflexivity).
  destruct (mk_set_spec _ H1) as (N1 & D1 & M1). destruct (mk_set_spec _ Hl) as (N2 & D2 & M2).
  apply set_eq_by_mem; auto. intros x Hx. rewrite M1, M2 by assumption.
  rewrite set_mem_app. apply orb_diag.
Qed.

(* ------------------------------------------------------------------------------------------ *)
(* iteration order of the set payloads does not matter                                         *)
(* ------------------------------------------------------------------------------------------ *)

Lemma set_mem_perm x l l' : Permutation l l' -> set_mem x l = set_mem x l'.
Proof.
  unfold set_mem. induction 1 as [|a l l' _ IH|a b l|l1 l2 l3 _ IH1 _ IH2]; cbn [existsb].
  - reflexivity.
  - now rewrite IH.
  - rewrite !orb_assoc. f_equal. apply orb_comm.
  - congruence.
Qed.

Lemma Forall_perm {A} (P : A -> Prop) l l' : Permutation l l' -> Forall P l -> Forall P l'.
Proof.
  rewrite !Forall_forall. intros HP H x Hx. apply H. eapply Permutation_in; [symmetry; exact HP | exact Hx].
Qed.

Lemma nodup_perm l l' : Permutation l l' -> Forall okT l -> nodup_eqb l = nodup_eqb l'.
Proof.
  induction 1 as [|a l l' HP IH|a b l|l1 l2 l3 HP1 IH1 HP2 IH2]; intros Dl.
  - reflexivity.
  - inversion Dl; subst. cbn [nodup_eqb]. now rewrite (set_mem_perm a l l' HP), IH.
  - inversion Dl as [|? ? Db Dl1]; subst. inversion Dl1 as [|? ? Da Dl2]; subst.
    cbn [nodup_eqb]. unfold set_mem. cbn [existsb]. rewrite (term_eqb_sym b a Db Da).
    destruct (term_eqb a b), (existsb (fun e => term_eqb a e) l), (existsb (fun e => term_eqb b e) l),
      (nodup_eqb l); reflexivity.
  - rewrite IH1 by assumption. apply IH2. eapply Forall_perm; eassumption.
Qed.

Lemma nodup_Forall2 l l' :
  Forall2 eqbT l l' -> Forall okT l -> Forall okT l' -> nodup_eqb l = true -> nodup_eqb l' = true.
Proof.
  induction 1 as [|x y l l' Hxy HF IH]; intros Dl Dl' Hnd; [reflexivity|].
  inversion Dl as [|? ? Dx Dl1]; subst. inversion Dl' as [|? ? Dy Dl1']; subst.
  cbn [nodup_eqb] in *. apply andb_true_iff in Hnd as [Hx Hnd]. apply negb_true_iff in Hx.
  apply andb_true_iff. split; [|auto]. apply negb_true_iff.
  destruct (set_mem y l') eqn:Hm; [|reflexivity]. exfalso.
  apply set_mem_true in Hm as (y1 & Hy1 & Hyy1).
  destruct (Forall2_In_r _ _ _ y1 HF Hy1) as (x1 & Hx1 & Hx1y1).
  rewrite Forall_forall in Dl1, Dl1'.
  assert (E : term_eqb x x1 = true).
  { apply (term_eqb_trans x y x1); auto. apply (term_eqb_trans y y1 x1); auto.
    apply term_eqb_sym_imp; auto. }
  rewrite (proj1 (set_mem_false x l) Hx x1 Hx1) in E. discriminate.
Qed.

Lemma perm_rep_atom_inv a a' :
  perm_rep a a' -> match a with TName _ _ | TUnit _ | TNum _ _ => a' = a | _ => True end.
Proof. destruct 1; auto. Qed.

Lemma perm_rep_set_inv c l a' :
  perm_rep (TSet c l) a' ->
  exists l'' l', a' = TSet c l' /\ Permutation l l'' /\ Forall2 perm_rep l'' l'.
Proof. inversion 1; subst; eauto. Qed.

Lemma perm_rep_vec_inv c l a' :
  perm_rep (TVec c l) a' -> exists l', a' = TVec c l' /\ Forall2 perm_rep l l'.
Proof. inversion 1; subst; eauto. Qed.

Lemma perm_rep_img_inv c i l a' :
  perm_rep (TImg c i l) a' -> exists l', a' = TImg c i l' /\ Forall2 perm_rep l l'.
Proof. inversion 1; subst; eauto. Qed.

Lemma perm_rep_box1_inv c a a' :
  perm_rep (TBox1 c a) a' -> exists x', a' = TBox1 c x' /\ perm_rep a x'.
Proof. inversion 1; subst; eauto. Qed.

Lemma perm_rep_box2_inv c x y a' :
  perm_rep (TBox2 c x y) a' -> exists x' y', a' = TBox2 c x' y' /\ perm_rep x x' /\ perm_rep y y'.
Proof. inversion 1; subst; eauto. Qed.

(* children related by perm_rep are pairwise equal and well-formed, given the IH *)
Lemma perm_rep_children l l' :
  Forall (fun x => forall a', set_ok x = true -> perm_rep x a' -> term_eqb x a' = true /\ set_ok a' = true) l ->
  Forall okT l -> Forall2 perm_rep l l' -> Forall2 eqbT l l' /\ Forall okT l'.
Proof.
  intros IH Dl HF. induction HF as [|x y l l' Hxy HF IHF].
  - split; constructor.
  - inversion IH as [|? ? IHx IHl]; subst. inversion Dl as [|? ? Dx Dl1]; subst.
    destruct (IHx y Dx Hxy) as [E O]. destruct (IHF IHl Dl1) as [F1 F2].
    split; constructor; assumption.
Qed.

Lemma perm_rep_eq a :
  forall a', set_ok a = true -> perm_rep a a' -> term_eqb a a' = true /\ set_ok a' = true.
Proof.
  induction a as [c n|c|c i|c l IH|c l IH|c i l IH|c x IH|c x y IHx IHy] using term_ind';
    intros a' Ha H.
  - apply perm_rep_atom_inv in H as ->. split; [apply term_eqb_refl | reflexivity].
  - apply perm_rep_atom_inv in H as ->. split; [apply term_eqb_refl | reflexivity].
  - apply perm_rep_atom_inv in H as ->. split; [apply term_eqb_refl | reflexivity].
  - apply perm_rep_set_inv in H as (l2 & l' & -> & HP & HF).
    apply ok_set in Ha as [Dl Hnd].
    assert (Dl2 : Forall okT l2) by (eapply Forall_perm; eassumption).
    assert (IH2 := Forall_perm _ _ _ HP IH).
    destruct (perm_rep_children l2 l' IH2 Dl2 HF) as [HE Dl'].
    assert (Hnd2 : nodup_eqb l2 = true) by (rewrite <- (nodup_perm l l2 HP Dl); assumption).
    assert (Hnd' : nodup_eqb l' = true) by (eapply nodup_Forall2; eassumption).
    split.
    + rewrite eqb_set', set_ctor_eqb_refl. cbn [andb]. apply set_payload_eqb_spec. split.
      * rewrite (Permutation_length HP). apply (Forall2_len HE).
      * intros x Hx. apply (Permutation_in _ HP) in Hx.
        destruct (Forall2_In_l _ _ _ x HE Hx) as (y & Hy & Hxy). apply set_mem_true. eauto.
    + cbn [set_ok]. rewrite Hnd'. rewrite (proj2 (forallb_Forall _ _) Dl'). reflexivity.
  - apply perm_rep_vec_inv in H as (l' & -> & HF). apply ok_vec in Ha.
    destruct (perm_rep_children l l' IH Ha HF) as [HE Dl']. split.
    + rewrite eqb_vec, vec_ctor_eqb_refl. cbn [andb]. now apply list_eqb_Forall2.
    + cbn [set_ok]. now apply forallb_Forall.
  - apply perm_rep_img_inv in H as (l' & -> & HF). apply ok_img in Ha.
    destruct (perm_rep_children l l' IH Ha HF) as [HE Dl']. split.
    + rewrite eqb_img, img_ctor_eqb_refl, N.eqb_refl. cbn [andb]. now apply list_eqb_Forall2.
    + cbn [set_ok]. now apply forallb_Forall.
  - apply perm_rep_box1_inv in H as (x' & -> & H). cbn [set_ok] in Ha.
    destruct (IH x' Ha H) as [E O]. split; [|exact O].
    now rewrite eqb_box1, box1_ctor_eqb_refl, E.
  - apply perm_rep_box2_inv in H as (x' & y' & -> & H1 & H2). apply ok_box2 in Ha as [Hx Hy].
    destruct (IHx x' Hx H1) as [E1 O1]. destruct (IHy y' Hy H2) as [E2 O2]. split.
    + now rewrite eqb_box2, box2_ctor_eqb_refl, E1, E2.
    + cbn [set_ok]. now rewrite O1, O2.
Qed.

Lemma order_stable a a' b b' :
  set_ok a = true -> set_ok b = true -> perm_rep a a' -> perm_rep b b' ->
  term_eqb a b = term_eqb a' b'.
Proof.
  intros Ha Hb Pa Pb.
  destruct (perm_rep_eq a a' Ha Pa) as [Ea Ha']. destruct (perm_rep_eq b b' Hb Pb) as [Eb Hb'].
  destruct (term_eqb a b) eqn:E1, (term_eqb a' b') eqn:E2; try reflexivity.
  - rewrite <- E2. symmetry. apply (term_eqb_trans a' a b'); auto; [now apply term_eqb_sym_imp|].
    apply (term_eqb_trans a b b'); auto.
  - rewrite <- E1. apply (term_eqb_trans a a' b); auto. apply (term_eqb_trans a' b' b); auto.
    now apply term_eqb_sym_imp.
Qed.

(* ------------------------------------------------------------------------------------------ *)
(* non-vacuity: concrete nested sets in two different orders                                   *)
(* ------------------------------------------------------------------------------------------ *)

Module Examples.
  Definition A := TName Word [65].
  Definition B := TName Word [66].
  Definition C := TName Word [67].
  (* {{A, B}, C} and {C, {B, A}} *)
  Definition s1 := TSet SetExtension [TSet SetExtension [A; B]; C].
  Definition s2 := TSet SetExtension [C; TSet SetExtension [B; A]].
  (* {{A, C}, C}: a different set *)
  Definition s3 := TSet SetExtension [TSet SetExtension [A; C]; C].

  Definition toy_hash (items : list hitem) : N :=
    fold_left (fun acc it =>
      (acc * 31 + match it with
                  | HStr s => fold_left (fun a ch => a * 131 + ch) s 7
                  | HNum n => n + 1
                  | HSum n => n + 2
                  end) mod two64) items 17.

  Example ex_ok : set_ok s1 = true /\ set_ok s2 = true /\ set_ok s3 = true.
  Proof. vm_compute. auto. Qed.
  Example ex_eq : term_eqb s1 s2 = true /\ term_eqb s2 s1 = true.
  Proof. vm_compute. auto. Qed.
  Example ex_neq : term_eqb s1 s3 = false /\ term_eqb s3 s2 = false.
  Proof. vm_compute. auto. Qed.
  Example ex_feed_eq : term_feed toy_hash s1 = term_feed toy_hash s2.
  Proof. vm_compute. reflexivity. Qed.
  Example ex_feed_neq : term_feed toy_hash s1 <> term_feed toy_hash s3.
  Proof. vm_compute. discriminate. Qed.
  Example ex_feed_eq_any fh : term_feed fh s1 = term_feed fh s2.
  Proof. apply term_feed_eq; vm_compute; reflexivity. Qed.

  Example ex_perm_rep : perm_rep s1 s2.
  Proof.
    apply PR_set with (l'' := [C; TSet SetExtension [A; B]]); [apply perm_swap|].
    repeat constructor.
    apply PR_set with (l'' := [B; A]); [apply perm_swap | repeat constructor].
  Qed.

  Example ex_sem_eq : sem_eq s1 s2.
  Proof. apply eqb_sem; vm_compute; reflexivity. Qed.

  (* symmetric statements compare either way round and hash alike, asymmetric ones do not *)
  Example ex_sym_stmt :
    term_eqb (TBox2 Similarity A B) (TBox2 Similarity B A) = true /\
    term_feed toy_hash (TBox2 Similarity A B) = term_feed toy_hash (TBox2 Similarity B A) /\
    term_eqb (TBox2 Inheritance A B) (TBox2 Inheritance B A) = false.
  Proof. vm_compute. auto. Qed.

  (* sets built by insertion: duplicates and order disappear *)
  Example ex_mk_set : mk_set [A; B; A; C; B] = [A; B; C].
  Proof. vm_compute. reflexivity. Qed.
  Example ex_mk_set_eq :
    term_eqb (TSet SetExtension (mk_set [A; B; A; C; B])) (TSet SetExtension (mk_set [C; B; A])) = true.
  Proof. vm_compute. reflexivity. Qed.

  (* the representation invariant is needed: with a duplicate in the payload list the comparison
     is not even symmetric *)
  Example ex_invariant_needed :
    set_ok (TSet SetExtension [A; A]) = false /\
    term_eqb (TSet SetExtension [A; A]) (TSet SetExtension [A; B]) = true /\
    term_eqb (TSet SetExtension [A; B]) (TSet SetExtension [A; A]) = false.
  Proof. vm_compute. auto. Qed.
End Examples.
