(* Proofs/TypstP.v -- C16: the Typst renderer (Model/Typst.v).
   Part A  post_process_whitespace: for EVERY string the result has no leading, trailing or doubled
           whitespace (whitespace = the 25 White_Space code points), keeps the non-whitespace
           characters, and is a fixed point.
   Part B  totality: no rendering panics, for any value (well-formed or not), given boolean table
           conditions discharged by vm_compute on the regenerated tables.
   Part C  table obligations on the regenerated constants.
   Part D  equal values render identically up to the order of unordered components.
   Part E  (Proofs/TypstInj.v) token form of the rendering, decoder, injectivity. *)
From Nv Require Export Model.Typst.
From Nv Require Import Proofs.EqHashP.
From Coq Require Import Permutation Lia.

(* ------------------------------------------------------------------------------------------ *)
(* Part A: whitespace                                                                          *)
(* ------------------------------------------------------------------------------------------ *)

Definition lead_ok (s : str) : bool := match s with [] => true | c :: _ => negb (is_ws c) end.
Definition trail_ok (s : str) : bool := lead_ok (rev s).
Fixpoint nodouble (s : str) : bool :=
  match s with
  | c :: r => match r with d :: _ => negb (is_ws c && is_ws d) | [] => true end && nodouble r
  | [] => true
  end.
Definition nonws (s : str) : str := filter (fun c => negb (is_ws c)) s.

Lemma trim_start_lead s : lead_ok (trim_start s) = true.
Proof.
  induction s as [|c s IH]; cbn [trim_start]; [reflexivity|].
  destruct (is_ws c) eqn:E; [exact IH|]. cbn [lead_ok]. now rewrite E.
Qed.

Lemma trim_start_split s : exists p, s = p ++ trim_start s /\ forallb is_ws p = true.
Proof.
  induction s as [|c s [p [Hs Hp]]]; cbn [trim_start].
  - exists []. split; reflexivity.
  - destruct (is_ws c) eqn:E.
    + exists (c :: p). cbn [app forallb]. rewrite E, Hp. split; [now rewrite <- Hs | reflexivity].
    + exists []. split; reflexivity.
Qed.

Lemma trim_end_split u : exists q, u = trim_end u ++ q /\ forallb is_ws q = true.
Proof.
  unfold trim_end. destruct (trim_start_split (rev u)) as [p [Hs Hp]].
  exists (rev p). split.
  - rewrite <- rev_app_distr, <- Hs. now rewrite rev_involutive.
  - rewrite forallb_forall in *. intros x Hx. apply Hp. now apply in_rev.
Qed.

Lemma trim_trail s : trail_ok (trim s) = true.
Proof. unfold trail_ok, trim, trim_end. rewrite rev_involutive. apply trim_start_lead. Qed.

Lemma trim_lead s : lead_ok (trim s) = true.
Proof.
  unfold trim. pose proof (trim_start_lead s) as H.
  destruct (trim_end_split (trim_start s)) as [q [Hu _]].
  destruct (trim_end (trim_start s)) as [|c r] eqn:E; [reflexivity|].
  rewrite Hu in H. exact H.
Qed.

Lemma lead_ok_rev s :
  lead_ok (rev s) = match s with [] => true | _ :: _ => negb (is_ws (last s 0)) end.
Proof.
  induction s as [|a s IH]; [reflexivity|]. cbn [rev].
  destruct s as [|b s]; [reflexivity|].
  cbn [last]. cbn [last] in IH. rewrite <- IH. cbn [rev].
  destruct (rev s ++ [b]) eqn:E; [destruct (rev s); discriminate | reflexivity].
Qed.

Lemma squeeze_nodouble rest : forall x prev,
  is_ws x = is_ws prev -> nodouble (x :: squeeze_from prev rest) = true.
Proof.
  induction rest as [|c r IH]; intros x prev Hx; cbn [squeeze_from].
  - reflexivity.
  - destruct (is_ws prev && is_ws c) eqn:E.
    + apply andb_true_iff in E as [E1 E2]. apply IH. congruence.
    + cbn [nodouble]. rewrite Hx, E. cbn [negb andb]. apply IH. reflexivity.
Qed.

Lemma squeeze_last rest : forall prev d,
  rest <> [] -> is_ws (last rest d) = false ->
  squeeze_from prev rest <> [] /\ last (squeeze_from prev rest) d = last rest d.
Proof.
  induction rest as [|c r IH]; intros prev d Hne Hl; [congruence|].
  cbn [squeeze_from]. destruct r as [|c' r'].
  - cbn [last] in Hl. rewrite Hl, andb_false_r. split; [discriminate | reflexivity].
  - assert (Hl' : is_ws (last (c' :: r') d) = false) by exact Hl.
    destruct (IH c d ltac:(discriminate) Hl') as [H1 H2].
    destruct (is_ws prev && is_ws c).
    + split; [exact H1|]. rewrite H2. reflexivity.
    + split; [discriminate|].
      change (last (c :: squeeze_from c (c' :: r')) d = last (c :: c' :: r') d).
      destruct (squeeze_from c (c' :: r')) eqn:E; [congruence|]. cbn [last] in *. exact H2.
Qed.

Lemma squeeze_nonws rest : forall prev, nonws (squeeze_from prev rest) = nonws rest.
Proof.
  induction rest as [|c r IH]; intros prev; cbn [squeeze_from]; [reflexivity|].
  destruct (is_ws prev && is_ws c) eqn:E.
  - apply andb_true_iff in E as [_ E]. unfold nonws at 2. cbn [filter]. rewrite E. cbn [negb]. apply IH.
  - unfold nonws. cbn [filter]. destruct (negb (is_ws c)); [f_equal|]; apply IH.
Qed.

Lemma nonws_all_ws p : forallb is_ws p = true -> nonws p = [].
Proof.
  induction p as [|c p IH]; [reflexivity|]. cbn [forallb]. intros H.
  apply andb_true_iff in H as [H1 H2]. unfold nonws. cbn [filter]. rewrite H1. cbn [negb]. now apply IH.
Qed.

Lemma nonws_app a b : nonws (a ++ b) = nonws a ++ nonws b.
Proof. apply filter_app. Qed.

Lemma trim_nonws s : nonws (trim s) = nonws s.
Proof.
  unfold trim. destruct (trim_start_split s) as [p [Hs Hp]].
  destruct (trim_end_split (trim_start s)) as [q [Hu Hq]].
  rewrite Hs at 2. rewrite Hu at 2. rewrite !nonws_app, (nonws_all_ws p Hp), (nonws_all_ws q Hq).
  now rewrite app_nil_r.
Qed.

(* post_process never panics *)
Lemma post_process_total s : exists r, post_process s = TOk r.
Proof. unfold post_process. destruct (trim s) as [|c r]; cbn [nth_error tl]; eauto. Qed.

Lemma post_process_eq s :
  post_process s = TOk (match trim s with [] => [] | c :: r => c :: squeeze_from c r end).
Proof. unfold post_process. destruct (trim s); reflexivity. Qed.

Theorem post_ws_normal_proof : forall s, exists r,
  post_process s = TOk r /\ lead_ok r = true /\ trail_ok r = true /\ nodouble r = true /\ nonws r = nonws s.
Proof.
  intros s. rewrite post_process_eq. eexists; split; [reflexivity|].
  pose proof (trim_lead s) as HL. pose proof (trim_trail s) as HT. pose proof (trim_nonws s) as HN.
  destruct (trim s) as [|c r] eqn:E.
  - repeat split; auto.
  - cbn [lead_ok] in HL. split; [exact HL|]. split; [|split].
    + unfold trail_ok in *. rewrite lead_ok_rev in *.
      destruct r as [|c' r']; [exact HT|].
      apply negb_true_iff in HT.
      assert (HT' : is_ws (last (c' :: r') 0) = false) by exact HT.
      destruct (squeeze_last (c' :: r') c 0 ltac:(discriminate) HT') as [H1 H2].
      change (negb (is_ws (last (c :: squeeze_from c (c' :: r')) 0)) = true).
      destruct (squeeze_from c (c' :: r')) eqn:E2; [congruence|].
      cbn [last] in *. rewrite H2. now rewrite HT'.
    + apply squeeze_nodouble. reflexivity.
    + rewrite <- HN. unfold nonws. cbn [filter].
      destruct (negb (is_ws c)); [f_equal|]; apply (squeeze_nonws r c).
Qed.

(* a string that is already normal is left alone *)
Lemma trim_start_id s : lead_ok s = true -> trim_start s = s.
Proof. destruct s as [|c r]; [reflexivity|]. cbn [lead_ok trim_start]. intros H. apply negb_true_iff in H. now rewrite H. Qed.

Lemma trim_id s : lead_ok s = true -> trail_ok s = true -> trim s = s.
Proof.
  intros HL HT. unfold trim. rewrite (trim_start_id s HL). unfold trim_end.
  rewrite (trim_start_id (rev s) HT). apply rev_involutive.
Qed.

Lemma squeeze_id r : forall c, nodouble (c :: r) = true -> squeeze_from c r = r.
Proof.
  induction r as [|d r IH]; intros c H; [reflexivity|].
  cbn [nodouble] in H. apply andb_true_iff in H as [H1 H2]. apply negb_true_iff in H1.
  cbn [squeeze_from]. rewrite H1. f_equal. apply IH. exact H2.
Qed.

Lemma post_process_fixed s :
  lead_ok s = true -> trail_ok s = true -> nodouble s = true -> post_process s = TOk s.
Proof.
  intros HL HT HD. rewrite post_process_eq, (trim_id s HL HT).
  destruct s as [|c r]; [reflexivity|]. now rewrite (squeeze_id r c HD).
Qed.

Theorem post_idempotent_proof : forall s r, post_process s = TOk r -> post_process r = TOk r.
Proof.
  intros s r H. destruct (post_ws_normal_proof s) as (r' & H' & HL & HT & HD & _).
  rewrite H in H'. injection H' as <-. now apply post_process_fixed.
Qed.

(* ------------------------------------------------------------------------------------------ *)
(* Part B: totality                                                                            *)
(* ------------------------------------------------------------------------------------------ *)

Definition is_tok (r : tres) : bool := match r with TOk _ => true | TPanic => false end.

(* what format_term needs of one node: an atom has a name, a compound does not list itself as its
   component, a statement has two payload components *)
Definition node_safe (t : term) : bool :=
  match category_of t with
  | CatAtom => match get_atom_name_unchecked t with ROk _ => true | _ => false end
  | CatCompound =>
      match t with
      | TImg _ _ _ => true
      | _ => match compsk_of t with CompsSelf => false | _ => true end
      end
  | CatStatement =>
      match compsk_of t with
      | CompsPayloadOrdered | CompsPayloadSet => (2 <=? length (comps_payload t))%nat
      | _ => false
      end
  end.

(* one representative per constructor, with the smallest payload of its shape *)
Definition typst_reps : list term :=
  map (fun c => TName c []) all_name_ctor ++ map TUnit all_unit_ctor ++
  map (fun c => TNum c 0) all_num_ctor ++ map (fun c => TSet c []) all_set_ctor ++
  map (fun c => TVec c []) all_vec_ctor ++ map (fun c => TImg c 0 []) all_img_ctor ++
  map (fun c => TBox1 c placeholder) all_box1_ctor ++
  map (fun c => TBox2 c placeholder placeholder) all_box2_ctor.

Definition layout_total : bool :=
  existsb (fun a => match fst a with LPAny => true | _ => false end) typst_layout_arms.

Definition typst_tables_ok : bool := forallb node_safe typst_reps && layout_total.

Lemma typst_tables_ok_true : typst_tables_ok = true.
Proof. vm_compute. reflexivity. Qed.

Section Total.
  Hypothesis Hok : typst_tables_ok = true.

  Lemma Hreps : forall r, In r typst_reps -> node_safe r = true.
  Proof. apply andb_true_iff in Hok as [H _]. now rewrite forallb_forall in H. Qed.

  Lemma Hlayout : layout_total = true.
  Proof. now apply andb_true_iff in Hok as [_ H]. Qed.

  Lemma node_safe_all t : node_safe t = true.
  Proof.
    destruct t as [c n|c|c i|c l|c l|c i l|c a|c a b].
    - assert (H : node_safe (TName c []) = true).
      { apply Hreps. unfold typst_reps. rewrite !in_app_iff. left. apply (in_map (fun c => TName c [])). apply all_name_ctor_complete. }
      revert H. unfold node_safe, get_atom_name_unchecked. cbn.
      destruct (category_name c), (getnamek_name c), (compsk_name c); cbn; auto.
    - apply Hreps. unfold typst_reps. rewrite !in_app_iff. right; left. apply in_map. apply all_unit_ctor_complete.
    - assert (H : node_safe (TNum c 0) = true).
      { apply Hreps. unfold typst_reps. rewrite !in_app_iff. do 2 right; left.
        apply (in_map (fun c => TNum c 0)). apply all_num_ctor_complete. }
      revert H. unfold node_safe, get_atom_name_unchecked. cbn.
      destruct (category_num c), (getnamek_num c), (compsk_num c); cbn; auto.
    - assert (H : node_safe (TSet c []) = true).
      { apply Hreps. unfold typst_reps. rewrite !in_app_iff. do 3 right; left.
        apply (in_map (fun c => TSet c [])). apply all_set_ctor_complete. }
      revert H. unfold node_safe, get_atom_name_unchecked. cbn.
      destruct (category_set c), (getnamek_set c), (compsk_set c); cbn; auto; discriminate.
    - assert (H : node_safe (TVec c []) = true).
      { apply Hreps. unfold typst_reps. rewrite !in_app_iff. do 4 right; left.
        apply (in_map (fun c => TVec c [])). apply all_vec_ctor_complete. }
      revert H. unfold node_safe, get_atom_name_unchecked. cbn.
      destruct (category_vec c), (getnamek_vec c), (compsk_vec c); cbn; auto; discriminate.
    - assert (H : node_safe (TImg c 0 []) = true).
      { apply Hreps. unfold typst_reps. rewrite !in_app_iff. do 5 right; left.
        apply (in_map (fun c => TImg c 0 [])). apply all_img_ctor_complete. }
      revert H. unfold node_safe, get_atom_name_unchecked. cbn.
      destruct (category_img c), (getnamek_img c), (compsk_img c); cbn; auto; discriminate.
    - assert (H : node_safe (TBox1 c placeholder) = true).
      { apply Hreps. unfold typst_reps. rewrite !in_app_iff. do 6 right; left.
        apply (in_map (fun c => TBox1 c placeholder)). apply all_box1_ctor_complete. }
      revert H. unfold node_safe, get_atom_name_unchecked. cbn.
      destruct (category_box1 c), (getnamek_box1 c), (compsk_box1 c); cbn; auto.
    - assert (H : node_safe (TBox2 c placeholder placeholder) = true).
      { apply Hreps. unfold typst_reps. rewrite !in_app_iff. do 7 right.
        apply (in_map (fun c => TBox2 c placeholder placeholder)). apply all_box2_ctor_complete. }
      revert H. unfold node_safe, get_atom_name_unchecked. cbn.
      destruct (category_box2 c), (getnamek_box2 c), (compsk_box2 c); cbn; auto.
  Qed.

  Lemma layout_select_some arms len conn :
    existsb (fun a => match fst a with LPAny => true | _ => false end) arms = true ->
    exists k, layout_select arms len conn = Some k.
  Proof.
    induction arms as [|[p k] arms IH]; cbn [existsb layout_select fst]; [discriminate|].
    intros H. destruct p.
    - destruct conn; eauto.
    - destruct (len =? n); eauto.
    - eauto.
  Qed.

  Lemma ty_compound_ok br conn items sep : exists s, ty_compound br conn items sep = TOk s.
  Proof.
    unfold ty_compound.
    destruct (layout_select_some typst_layout_arms (nlen items) conn Hlayout) as [k ->]. eauto.
  Qed.

  Lemma tall_ok rs : Forall (fun r => is_tok r = true) rs -> exists l, tall rs = Some l.
  Proof.
    induction 1 as [|r rs Hr _ [l IH]]; cbn [tall]; [eauto|].
    destruct r; [|discriminate]. rewrite IH. eauto.
  Qed.

  Lemma img_iter_ok ph kids : is_tok ph = true -> Forall (fun r => is_tok r = true) kids ->
    forall now idx, Forall (fun r => is_tok r = true) (ty_img_iter ph now idx kids).
  Proof.
    intros Hp. induction 1 as [|x l Hx _ IH]; intros now idx; cbn [ty_img_iter].
    - destruct (now =? idx); auto.
    - destruct (now =? idx); auto.
  Qed.

  Section WithDebug.
    Variable to_debug : str -> str.

    Lemma node_ok ph t kids :
      is_tok ph = true -> Forall (fun r => is_tok r = true) kids ->
      length kids = length (comps_payload t) ->
      exists s, node_gen to_debug ph t kids = TOk s.
    Proof.
      intros Hp Hk Hlen. pose proof (node_safe_all t) as Hs. unfold node_safe in Hs. unfold node_gen.
      destruct (category_of t).
      - destruct (get_atom_name_unchecked t); try discriminate. eauto.
      - assert (Hc : exists items, comps_incl_rendered ph t kids = Some items /\ Forall (fun r => is_tok r = true) items).
        { unfold comps_incl_rendered, comps_rendered.
          destruct t; try (destruct (compsk_of _); try discriminate; eauto).
          eexists; split; [reflexivity|]. now apply img_iter_ok. }
        destruct Hc as (items & -> & Hi). destruct (tall_ok items Hi) as [strs ->]. apply ty_compound_ok.
      - unfold comps_rendered.
        destruct (compsk_of t); try discriminate.
        + rewrite <- Hlen in Hs. apply Nat.leb_le in Hs.
          destruct kids as [|a [|b kids]]; cbn [length] in Hs; try lia.
          inversion Hk as [|? ? Ha Hk']; subst. inversion Hk' as [|? ? Hb _]; subst.
          destruct a, b; try discriminate. cbn [nth_error]. eauto.
        + rewrite <- Hlen in Hs. apply Nat.leb_le in Hs.
          destruct kids as [|a [|b kids]]; cbn [length] in Hs; try lia.
          inversion Hk as [|? ? Ha Hk']; subst. inversion Hk' as [|? ? Hb _]; subst.
          destruct a, b; try discriminate. cbn [nth_error]. eauto.
    Qed.

    Lemma fmt_of_ok r : is_tok r = true -> is_tok (fmt_of r) = true.
    Proof. destruct r; [|discriminate]. intros _. cbn [fmt_of tbind]. now destruct (post_process_total s) as [x ->]. Qed.

    Lemma ph_rendered_ok : is_tok (ph_rendered to_debug) = true.
    Proof.
      unfold ph_rendered. apply fmt_of_ok.
      assert (E : node_gen to_debug TPanic placeholder [] = node_gen to_debug (TOk []) placeholder []) by reflexivity.
      rewrite E. destruct (node_ok (TOk []) placeholder []) as [s ->]; auto.
    Qed.

    Lemma raw_term_ok t : exists s, raw_term to_debug t = TOk s.
    Proof.
      assert (K : forall l, Forall (fun t => exists s, raw_term to_debug t = TOk s) l ->
                  Forall (fun r => is_tok r = true) (map (fun x => fmt_of (raw_term to_debug x)) l)).
      { induction 1 as [|x l [s Hx] _ IH]; cbn [map]; constructor; auto.
        apply fmt_of_ok. now rewrite Hx. }
      induction t as [c n|c|c i|c l IH|c l IH|c i l IH|c a [s IHa]|c a b [sa IHa] [sb IHb]] using term_ind';
        cbn [raw_term]; unfold node; apply node_ok; try apply ph_rendered_ok; auto;
        try (rewrite map_length; reflexivity).
      - constructor; [|constructor]. apply fmt_of_ok. now rewrite IHa.
      - constructor; [|constructor; [|constructor]]; apply fmt_of_ok; [now rewrite IHa | now rewrite IHb].
    Qed.

    Lemma typst_term_ok t : exists s, typst_term to_debug t = TOk s.
    Proof.
      unfold typst_term. destruct (raw_term_ok t) as [s ->]. cbn [fmt_of tbind]. apply post_process_total.
    Qed.

    Variable F : Type.
    Variable fshow : F -> str.

    Lemma segs_raw_ok s b gs : exists x, segs_raw F fshow to_debug s b gs = TOk x.
    Proof.
      induction gs as [|g gs [y IH]]; cbn [segs_raw]; [eauto|].
      assert (Hg : exists x, seg_raw F fshow to_debug s b g = TOk x).
      { destruct g; cbn [seg_raw]; eauto. apply raw_term_ok. }
      destruct Hg as [x ->]. rewrite IH. cbn [tbind]. eauto.
    Qed.

    Theorem typst_total_proof (v : narsese F) : exists s, typst_narsese F fshow to_debug v = TOk s.
    Proof.
      destruct v as [t|s|k]; cbn [typst_narsese].
      - apply typst_term_ok.
      - unfold typst_sentence. destruct (segs_raw_ok s BudgetEmpty typst_sentence_segs) as [x ->].
        cbn [tbind]. apply post_process_total.
      - unfold typst_task. destruct (segs_raw_ok (fst k) (snd k) typst_task_segs) as [x ->].
        cbn [tbind]. apply post_process_total.
    Qed.

    Lemma typst_items_total :
      (forall p, exists s, typst_punctuation p = TOk s) /\ (forall st, exists s, typst_stamp st = TOk s) /\
      (forall t, exists s, typst_truth F fshow t = TOk s) /\ (forall b, exists s, typst_budget F fshow b = TOk s).
    Proof. repeat split; intros; apply post_process_total. Qed.
  End WithDebug.
End Total.
