(* Proofs/RangesP.v -- deciding that two character predicates built from inclusive ranges agree on EVERY code point
   by comparing them on finitely many points: a predicate that is a boolean combination of range tests is constant
   between consecutive boundary points (`lo` and `hi+1` of its ranges), so two such predicates are equal everywhere as
   soon as they are equal at 0 and at every boundary point of either.  Used by Props/Tie.v to tie the character
   predicates the translator READS from the source text (is_alphanumeric || c == '_' ..., matches!(c, '0'..='9' | ...))
   to the functions AS COMPILED, evaluated by the harness on all of Unicode and dumped as ranges. *)
From Coq Require Import List NArith Lia Bool.
Import ListNotations.
Open Scope N_scope.

Fixpoint in_rs (rs : list (N * N)) (c : N) : bool :=
  match rs with
  | [] => false
  | (lo, hi) :: rest => ((lo <=? c) && (c <=? hi)) || in_rs rest c
  end.

(* f is constant on every interval [p, c] that contains no point of B except possibly p itself *)
Definition pc (f : N -> bool) (B : list N) : Prop :=
  forall p c, p <= c -> (forall b, In b B -> ~ (p < b /\ b <= c)) -> f c = f p.

Lemma pc_ext f g B : (forall c, f c = g c) -> pc f B -> pc g B.
Proof. intros E H p c Hpc Hb. rewrite <- !E. apply H; assumption. Qed.

Lemma pc_weaken f B B' : (forall b, In b B -> In b B') -> pc f B -> pc f B'.
Proof. intros Hi H p c Hpc Hb. apply H; [assumption|]. intros b Hin. apply Hb, Hi, Hin. Qed.

Lemma pc_const k B : pc (fun _ => k) B.
Proof. intros p c _ _. reflexivity. Qed.

Lemma pc_orb f g B1 B2 : pc f B1 -> pc g B2 -> pc (fun c => f c || g c) (B1 ++ B2).
Proof.
  intros Hf Hg p c Hpc Hb.
  rewrite (Hf p c Hpc), (Hg p c Hpc); [reflexivity| |]; intros b Hin; apply Hb, in_or_app; auto.
Qed.

Lemma pc_andb_l k f B : pc f B -> pc (fun c => k && f c) B.
Proof. intros Hf p c Hpc Hb. rewrite (Hf p c Hpc Hb). reflexivity. Qed.

Lemma pc_range lo hi : pc (fun c => (lo <=? c) && (c <=? hi)) [lo; hi + 1].
Proof.
  intros p c Hpc Hb.
  assert (H1 : ~ (p < lo /\ lo <= c)) by (apply Hb; simpl; auto).
  assert (H2 : ~ (p < hi + 1 /\ hi + 1 <= c)) by (apply Hb; simpl; auto).
  destruct (N.leb_spec lo c), (N.leb_spec c hi), (N.leb_spec lo p), (N.leb_spec p hi); simpl; try reflexivity; lia.
Qed.

Definition bounds (rs : list (N * N)) : list N := flat_map (fun r => [fst r; snd r + 1]) rs.

Lemma pc_in_rs rs : pc (in_rs rs) (bounds rs).
Proof.
  induction rs as [|[lo hi] rs IH]; [intros p c _ _; reflexivity|].
  cbn [in_rs bounds flat_map fst snd].
  apply (pc_orb (fun c => (lo <=? c) && (c <=? hi)) (in_rs rs) [lo; hi + 1] (bounds rs)); [apply pc_range|exact IH].
Qed.

Fixpoint mem (c : N) (l : list N) : bool :=
  match l with [] => false | x :: r => (c =? x) || mem c r end.

Definition pbounds (l : list N) : list N := flat_map (fun x => [x; x + 1]) l.

Lemma pc_mem l : pc (fun c => mem c l) (pbounds l).
Proof.
  induction l as [|x l IH]; [intros p c _ _; reflexivity|].
  cbn [mem pbounds flat_map].
  apply (pc_orb (fun c => c =? x) (fun c => mem c l) [x; x + 1] (pbounds l)); [|exact IH].
  apply (pc_ext (fun c => (x <=? c) && (c <=? x))); [|apply pc_range].
  intros c. destruct (N.eqb_spec c x), (N.leb_spec x c), (N.leb_spec c x); simpl; try reflexivity; lia.
Qed.

Lemma pc_above t : pc (fun c => t <? c) [t + 1].
Proof.
  intros p c Hpc Hb.
  assert (H1 : ~ (p < t + 1 /\ t + 1 <= c)) by (apply Hb; simpl; auto).
  destruct (N.ltb_spec t c), (N.ltb_spec t p); try reflexivity; lia.
Qed.

Lemma pc_andb f g B1 B2 : pc f B1 -> pc g B2 -> pc (fun c => f c && g c) (B1 ++ B2).
Proof.
  intros Hf Hg p c Hpc Hb.
  rewrite (Hf p c Hpc), (Hg p c Hpc); [reflexivity| |]; intros b Hin; apply Hb, in_or_app; auto.
Qed.

(* Unicode scalar values: what a Rust `char` can be *)
Definition scalar_ranges : list (N * N) := [(0, 55295); (57344, 1114111)].
Definition is_scalar (c : N) : bool := in_rs scalar_ranges c.

(* the largest point of 0 :: L that is <= c *)
Fixpoint lastpt (L : list N) (c : N) : N :=
  match L with
  | [] => 0
  | b :: r => let a := lastpt r c in if (b <=? c) && (a <? b) then b else a
  end.

Lemma lastpt_in L c : lastpt L c = 0 \/ In (lastpt L c) L.
Proof.
  induction L as [|b r IH]; cbn [lastpt]; [left; reflexivity|].
  destruct ((b <=? c) && (lastpt r c <? b)); [right; left; reflexivity|].
  destruct IH as [IH|IH]; [left; exact IH|right; right; exact IH].
Qed.

Lemma lastpt_le L c : lastpt L c <= c.
Proof.
  induction L as [|b r IH]; cbn [lastpt]; [lia|].
  destruct (N.leb_spec b c); cbn [andb]; [|exact IH].
  destruct (N.ltb_spec (lastpt r c) b); [assumption|exact IH].
Qed.

Lemma lastpt_max L c b : In b L -> b <= c -> b <= lastpt L c.
Proof.
  induction L as [|x r IH]; [intros []|].
  intros [->|Hin] Hbc; cbn [lastpt].
  - destruct (N.leb_spec b c); cbn [andb]; [|lia].
    destruct (N.ltb_spec (lastpt r c) b); lia.
  - specialize (IH Hin Hbc).
    destruct (N.leb_spec x c); cbn [andb]; [|exact IH].
    destruct (N.ltb_spec (lastpt r c) x); lia.
Qed.

(* THE DECISION: agreement on 0 and on every boundary point is agreement everywhere *)
Theorem pc_agree f g B1 B2 :
  pc f B1 -> pc g B2 ->
  forallb (fun p => Bool.eqb (f p) (g p)) (0 :: B1 ++ B2) = true ->
  forall c, f c = g c.
Proof.
  intros Hf Hg Hall c.
  set (L := B1 ++ B2). set (p := lastpt L c).
  assert (Hpc : p <= c) by apply lastpt_le.
  assert (Hno : forall b, In b L -> ~ (p < b /\ b <= c)).
  { intros b Hin [H1 H2]. pose proof (lastpt_max L c b Hin H2). fold p in H. lia. }
  rewrite (Hf p c Hpc), (Hg p c Hpc).
  - rewrite forallb_forall in Hall.
    apply Bool.eqb_prop, Hall.
    destruct (lastpt_in L c) as [E|Hin]; fold p in E || fold p in Hin; [left; symmetry; exact E|right; exact Hin].
  - intros b Hin. apply Hno, in_or_app; auto.
  - intros b Hin. apply Hno, in_or_app; auto.
Qed.

(* the same, for the code points a `char` can hold *)
Theorem pc_agree_scalar f g B1 B2 :
  pc f B1 -> pc g B2 ->
  forallb (fun p => Bool.eqb (is_scalar p && f p) (is_scalar p && g p)) (0 :: (bounds scalar_ranges ++ B1) ++ (bounds scalar_ranges ++ B2)) = true ->
  forall c, is_scalar c = true -> f c = g c.
Proof.
  intros Hf Hg Hall c Hc.
  pose proof (pc_agree (fun c => is_scalar c && f c) (fun c => is_scalar c && g c) _ _
                (pc_andb _ _ _ _ (pc_in_rs scalar_ranges) Hf) (pc_andb _ _ _ _ (pc_in_rs scalar_ranges) Hg) Hall c) as H.
  cbv beta in H. rewrite Hc in H. exact H.
Qed.
