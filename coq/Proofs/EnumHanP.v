(* Proofs/EnumHanP.v -- C01 / C09 / C15 for whole enum Narsese values in the HAN format, UNCONDITIONAL on a
   natural decidable subdomain: values all of whose atom names are KEYWORD-FREE.

   Why a subdomain.  In Han the keywords are ordinary CJK letters, i.e. name characters, and a term is
   written without spaces between its tokens.  The property's well-formedness (names contain no copula, do
   not start with an atom prefix ...) does not exclude
     K2  a top-level text 预...算 is read as a budget                         (sent_unamb_han_K2, Proofs/EnumSentP.v)
     K3  a name ending in the first character of a two-character copula, followed by a copula that
         completes it: 「x将得y」 reads  x 将得 y                               (K3_witness, Proofs/EnumUnambP.v)
   and the table checks behind the ASCII / LaTeX theorems (unamb_fmt_ok, final_fmt_ok) are false for Han.

   The condition.  kwfree_name E n: no character of n occurs in ANY keyword of the format record -- the
   60 string fields (Model/SstOf.v probe_fields: spaces, atom prefixes, brackets, separators, connecters,
   copulas, punctuations, stamp brackets and markers, truth / budget brackets and separators).
   "Names avoid the format's keyword characters": decidable, independent of context and spacing.

   The argument (generic in the format record; the format enters through two finite boolean checks
   kwfree_term_ok / kwfree_sent_ok, which all three shipped formats pass):
     - no copula starts inside a keyword-free name: a copula is non-empty and its first character is a
       keyword character (this holds for the dependency's starts_with_str with or without the length guard:
       it compares first characters in either case);
     - the name scan stops where the name ends: what follows an atom inside a term is a space, the
       separator, a right bracket (of a set, a compound, a statement) or a copula (look-ahead); after the
       term of a sentence a punctuation, a space or the end of input.  For Han the first characters of
       all these -- space ， 』 】 ） 」 。 ！ ？ ； -- are NOT alphanumeric in Rust's table (alnum_facts_han; the
       copulas are letters, but the look-ahead stops the scan in front of them).  So NO extra condition
       on what follows an atom is needed: the keywords that start with a name character (connecters, atom
       prefixes, stamp markers 过去 现在 将来 发生在, truth / budget brackets 真 值 预 算) never directly
       follow an atom in the text of a value or of any re-spacing of it (a punctuation always stands
       between the term and a stamp / truth: follows_ok);
     - the text of an atom does not start with a delimiter, a left bracket or the prefix of an arm that
       parse_atom tests earlier: with a non-empty own prefix by prefix-incompatibility (table), with the
       empty (word) prefix because the name's first character is keyword-free and the other keyword is
       non-empty;
     - K2: the term's text does not start with the budget's left bracket: left brackets and non-empty
       atom prefixes diverge from it (or ARE it -- ASCII `$x` -- and then the closing bracket cannot
       follow, as in Proofs/EnumFinalP.v), and a word's first character is not a keyword character.

   Sections: 1 definitions; 2 term level (unamb); 3 canonical trees and re-spacings; 4 sentence level
   (sent_unamb); 5 the theorems, generic in E; 6 Han (and ASCII / LaTeX) instances, Rust's Unicode table;
   7 non-vacuity and the K2 / K3 witnesses; 8 statements for Props/C01e.v. *)
From Nv Require Import Base.FloatDec Gen.Unicode Model.SstOf Model.SstOk Model.SstSent Proofs.DecP Proofs.EnumTotalP
  Proofs.EnumParseP Proofs.EnumFmtP Proofs.EnumTermP Proofs.EnumTermCor Proofs.EnumRoundP Proofs.EnumUnambP Proofs.EnumSentP
  Proofs.EnumFinalP.

(* ================================================================================== *)
(* 1. definitions                                                                      *)
Section Defs.
  Variable ia : N -> bool.
  Variable E : efmt.

  (* every character of every keyword of the format *)
  Definition kw_chars : list N := concat (probe_fields E).
  Definition kwfree_char (c : N) : bool := negb (memb c kw_chars).
  Definition kwfree_name (n : str) : bool := forallb kwfree_char n.

  (* names of a term / a value *)
  Fixpoint term_kwfree (t : term) : bool :=
    match t with
    | TName _ n => kwfree_name n
    | TUnit _ | TNum _ _ => true
    | TSet _ l | TVec _ l | TImg _ _ l => forallb term_kwfree l
    | TBox1 _ a => term_kwfree a
    | TBox2 _ a b => term_kwfree a && term_kwfree b
    end.
  Definition names_kwfree {F} (v : narsese F) : bool := term_kwfree (nv_term v).

  (* atom names of a surface tree / of its spacing-free skeleton *)
  Fixpoint skwfree (s : sterm) : bool :=
    match s with
    | SAtom _ name => kwfree_name name
    | SSet _ _ _ items _ | SComp _ _ _ items _ => forallb skwfree items
    | SStmt _ _ _ _ _ x y => skwfree x && skwfree y
    end.
  Fixpoint kkwfree (s : skel) : bool :=
    match s with
    | KAtom _ name => kwfree_name name
    | KSet _ items | KComp _ items => forallb kkwfree items
    | KStmt _ x y => kkwfree x && kkwfree y
    end.

  (* the keywords the argument compares with the first character of a name; each must be one of the 60
     fields (the arm tables are regenerated: checked, not assumed) *)
  Definition used_keywords : list str :=
    stops E ++ left_brackets E ++ prefixes E ++ gen_copulas E ++ [task_budget_brackets_0 E].

  (* kw never starts the text p ++ name ++ k of an atom with prefix p and keyword-free name *)
  Definition kw_vs_prefix_h (kw p : str) : bool :=
    match p with [] => nonempty kw | _ => incompat kw p end.

  Definition prefix_order_h : bool :=
    forallb (fun i => match nth_error (prefixes E) i with
                      | Some p => forallb (fun q => kw_vs_prefix_h q p) (firstn i (prefixes E))
                      | None => true
                      end) (seq 0 (length (prefixes E))).

  (* term level *)
  Definition kwfree_term_ok : bool :=
    forallb (fun kw => existsb (str_eqb kw) (probe_fields E)) used_keywords
    (* the name scan stops in front of the statement's right bracket, a space, the separator, a right bracket *)
    && forallb (head_not_name ia E) (stops E)
    (* no delimiter / left bracket / earlier prefix starts the text of an atom *)
    && forallb (fun p => forallb (fun kw => kw_vs_prefix_h kw p) (delims E ++ left_brackets E)) (prefixes E)
    && prefix_order_h
    (* a copula has a first character *)
    && forallb nonempty (gen_copulas E)
    (* interval names: the ten digits are name characters and occur in no keyword *)
    && forallb (NC ia E) digits && kwfree_name digits.

  (* the closing-bracket argument of Proofs/EnumFinalP.v, needed only when an atom prefix IS the budget's
     left bracket (ASCII, LaTeX; not Han) *)
  Definition close_ok : bool :=
    nonempty (task_budget_brackets_1 E) && memb (close_char E) (task_budget_brackets_1 E)
    && negb (NC ia E (close_char E)) && negb (is_int_char (close_char E)) && negb (is_float_char (close_char E))
    && forallb (absent (close_char E)) (tail_keywords E).

  Definition prefix_vs_budget_h (p : str) : bool :=
    let b0 := task_budget_brackets_0 E in
    match p with
    | [] => nonempty b0                      (* the text starts with the name: a keyword-free character *)
    | _ => diverge b0 p || (str_eqb p b0 && close_ok)
    end.

  (* sentence level *)
  Definition kwfree_sent_ok : bool :=
    (* the name scan stops in front of every punctuation mark *)
    forallb (fun x => head_not_name ia E (fst (fst x) E)) punct_arms
    (* budget back-off *)
    && budget_requires_close && nonempty (task_budget_brackets_1 E)
    && forallb (fun lb => diverge (task_budget_brackets_0 E) lb) (left_brackets E)
    && forallb prefix_vs_budget_h (prefixes E).
End Defs.

(* ================================================================================== *)
(* 2. term level: the name condition [unamb] of every surface tree with well-formed,   *)
(*    keyword-free atoms, at any spacing, before any continuation the scan stops at    *)
Section TermLevel.
  Variable ia : N -> bool.
  Variable E : efmt.
  Hypothesis Hpo : parse_ok E = true.
  Hypothesis Hko : kwfree_term_ok ia E = true.

  Notation NC := (NC ia E).
  Notation stop_ok := (stop_ok ia E).

  Lemma ko_unpack :
    forallb (fun kw => existsb (str_eqb kw) (probe_fields E)) (used_keywords E) = true /\
    forallb (head_not_name ia E) (stops E) = true /\
    forallb (fun p => forallb (fun kw => kw_vs_prefix_h kw p) (delims E ++ left_brackets E)) (prefixes E) = true /\
    prefix_order_h E = true /\
    forallb nonempty (gen_copulas E) = true /\
    forallb NC digits = true /\ kwfree_name E digits = true.
  Proof. unfold kwfree_term_ok in Hko. rewrite !andb_true_iff in Hko. tauto. Qed.

  (* ---- membership in used_keywords ---- *)
  Lemma used_stops kw : In kw (stops E) -> In kw (used_keywords E).
  Proof. intros H. unfold used_keywords. apply in_or_app. now left. Qed.
  Lemma used_delims kw : In kw (delims E) -> In kw (used_keywords E).
  Proof. intros H. apply used_stops. now right. Qed.
  Lemma used_lb kw : In kw (left_brackets E) -> In kw (used_keywords E).
  Proof. intros H. unfold used_keywords. apply in_or_app. right. apply in_or_app. now left. Qed.
  Lemma used_prefix kw : In kw (prefixes E) -> In kw (used_keywords E).
  Proof. intros H. unfold used_keywords. apply in_or_app. right. apply in_or_app. right. apply in_or_app. now left. Qed.
  Lemma used_copula kw : In kw (gen_copulas E) -> In kw (used_keywords E).
  Proof.
    intros H. unfold used_keywords. apply in_or_app. right. apply in_or_app. right. apply in_or_app. right.
    apply in_or_app. now left.
  Qed.
  Lemma used_b0 : In (task_budget_brackets_0 E) (used_keywords E).
  Proof.
    unfold used_keywords. apply in_or_app. right. apply in_or_app. right. apply in_or_app. right.
    apply in_or_app. right. now left.
  Qed.

  (* ---- a keyword-free character is not the first character of a keyword ---- *)
  Lemma kw_chars_In kw d : In kw (used_keywords E) -> In d kw -> In d (kw_chars E).
  Proof.
    intros Hkw Hd. destruct ko_unpack as (Hu & _). pose proof (forallb_In _ _ _ Hu Hkw) as H. cbn beta in H.
    apply existsb_exists in H as (f & Hf & Heq). apply str_eqb_eq in Heq. subst f.
    unfold kw_chars. apply in_concat. eauto.
  Qed.

  Lemma free_not_kw c : kwfree_char E c = true -> ~ In c (kw_chars E).
  Proof. unfold kwfree_char. intros H Hin. apply memb_In in Hin. rewrite Hin in H. discriminate. Qed.

  Lemma kw_no_start kw c r : In kw (used_keywords E) -> kw <> [] -> kwfree_char E c = true -> starts kw (c :: r) = false.
  Proof.
    intros Hkw Hne Hc. destruct kw as [|d kw']; [congruence|]. cbn [starts].
    destruct (N.eqb_spec d c) as [->|]; [|reflexivity]. exfalso. apply (free_not_kw c Hc).
    apply (kw_chars_In (c :: kw')); [exact Hkw | now left].
  Qed.

  (* ---- no copula starts at a keyword-free character (with or without the length guard) ---- *)
  Lemma copula_head_free x r : kwfree_char E x = true -> copula_head_str E (x :: r) = false.
  Proof.
    intros Hx. destruct (copula_head_str E (x :: r)) eqn:Hc; [exfalso | reflexivity].
    unfold copula_head_str in Hc. apply existsb_exists in Hc as (c & Hin & Hc). apply andb_true_iff in Hc as [_ Hc].
    destruct ko_unpack as (_ & _ & _ & _ & Hne & _). pose proof (forallb_In _ _ _ Hne Hin) as Hcne.
    destruct c as [|y c]; [discriminate|]. unfold starts_with_str in Hc. cbn [sws] in Hc.
    destruct (N.eqb_spec x y) as [<-|]; [|discriminate].
    apply (free_not_kw x Hx). apply (kw_chars_In (x :: c)); [now apply used_copula | now left].
  Qed.

  Lemma name_scan_free k : stop_ok k = true -> forall n,
    forallb NC n = true -> kwfree_name E n = true -> name_scan_ok ia E n k = true.
  Proof.
    intros Hk. induction n as [|x n IH]; intros Hnc Hfree; cbn [name_scan_ok]; [exact Hk|].
    unfold kwfree_name in Hfree. cbn [forallb] in Hnc, Hfree.
    apply andb_true_iff in Hnc as [Hx Hnc]. apply andb_true_iff in Hfree as [Hfx Hfree].
    change (x :: n ++ k) with (x :: (n ++ k)). rewrite (copula_head_free x _ Hfx). unfold EnumUnambP.NC in Hx. rewrite Hx.
    cbn [negb andb]. now apply IH.
  Qed.

  (* ---- digits ---- *)
  Lemma digits_nc n : forallb is_ascii_digit n = true -> forallb NC n = true.
  Proof.
    intros Hd. destruct ko_unpack as (_ & _ & _ & _ & _ & Hdig & _). apply forallb_forall. intros c Hc.
    apply (forallb_In _ _ _ Hdig). apply is_digit_In. exact (forallb_In _ _ _ Hd Hc).
  Qed.

  Lemma digits_free n : forallb is_ascii_digit n = true -> kwfree_name E n = true.
  Proof.
    intros Hd. destruct ko_unpack as (_ & _ & _ & _ & _ & _ & Hdig). apply forallb_forall. intros c Hc.
    apply (forallb_In _ _ _ Hdig). apply is_digit_In. exact (forallb_In _ _ _ Hd Hc).
  Qed.

  (* ---- the scan stops in front of every delimiter ---- *)
  Lemma stop_kw_h kw r : In kw (stops E) -> stop_ok (kw ++ r) = true.
  Proof. intros H. apply head_not_name_stop. destruct ko_unpack as (_ & H1 & _). exact (forallb_In _ _ _ H1 H). Qed.

  Lemma stop_sp_h n r : stop_ok r = true -> stop_ok (sp E n ++ r) = true.
  Proof.
    destruct n as [|n]; [intros H; exact H | intros _].
    unfold sp. cbn [rep]. rewrite <- app_assoc. apply stop_kw_h. right. left. reflexivity.
  Qed.

  Lemma stop_gap_h g r : stop_ok (gap E g ++ r) = true.
  Proof. unfold gap. rewrite <- !app_assoc. apply stop_sp_h, stop_kw_h. right. right. left. reflexivity. Qed.

  (* ---- an atom ---- *)
  Lemma satom_nc arm name : satom_ok ia E arm name = true -> forallb NC name = true.
  Proof.
    unfold satom_ok. destruct (nth_error parse_atom_arms arm) as [[pf [c|c|c]]|]; [| | |discriminate]; intros H.
    - unfold name_ok in H. rewrite !andb_true_iff in H. tauto.
    - destruct name as [|x n]; [reflexivity|]. unfold scan_pre in H. rewrite !andb_true_iff in H. tauto.
    - apply andb_true_iff in H as [_ H]. now apply digits_nc.
  Qed.

  (* with the empty (word) prefix the name is non-empty *)
  Lemma satom_ne arm name pf init :
    nth_error parse_atom_arms arm = Some (pf, init) -> satom_ok ia E arm name = true -> pf E = [] -> name <> [].
  Proof.
    intros Hn Hatom Hnil. unfold satom_ok in Hatom. rewrite Hn in Hatom. destruct init as [c|c|c].
    - unfold name_ok in Hatom. rewrite !andb_true_iff in Hatom. destruct name; [|discriminate].
      cbn [nonempty] in Hatom. intuition discriminate.
    - pose proof (tk_atoms E Hpo) as Ha. pose proof (forallb_In _ _ _ Ha (nth_error_In _ _ Hn)) as Hx.
      cbn [snd fst] in Hx. rewrite Hnil in Hx. discriminate.
    - apply andb_true_iff in Hatom as [Hatom _]. destruct name; discriminate.
  Qed.

  Lemma hatom_unamb_ok forbid arm name k :
    (forall kw, In kw forbid -> In kw (delims E)) -> satom_ok ia E arm name = true -> kwfree_name E name = true ->
    stop_ok k = true -> atom_unamb ia E forbid arm name k = true.
  Proof.
    intros Hforbid Hatom Hfree Hk. pose proof (satom_nc _ _ Hatom) as Hnc.
    destruct (nth_error parse_atom_arms arm) as [[pf init]|] eqn:Hn; [|unfold satom_ok in Hatom; rewrite Hn in Hatom; discriminate].
    pose proof (satom_ne _ _ _ _ Hn Hatom) as Hne.
    pose proof (prefix_In E _ _ _ Hn) as Hp. pose proof (nth_error_In _ _ Hp) as Hpin.
    destruct ko_unpack as (_ & _ & Hkws & Hord & _ & _ & _).
    assert (Hkw : forall kw, In kw (used_keywords E) -> kw_vs_prefix_h kw (pf E) = true -> starts kw (pf E ++ name ++ k) = false).
    { intros kw Hu H. unfold kw_vs_prefix_h in H. destruct (pf E) as [|p0 pr] eqn:Hpf.
      - destruct name as [|c n']; [now elim (Hne eq_refl)|]. cbn [app]. apply kw_no_start; [exact Hu | now apply EnumTermP.nonempty_ne |].
        unfold kwfree_name in Hfree. cbn [forallb] in Hfree. now apply andb_true_iff in Hfree as [Hfree _].
      - now apply incompat_starts. }
    assert (Hall : forall kw, In kw (delims E ++ left_brackets E) -> starts kw (pf E ++ name ++ k) = false).
    { intros kw Hin. apply Hkw.
      - apply in_app_or in Hin as [Hin|Hin]; [now apply used_delims | now apply used_lb].
      - exact (forallb_In _ _ _ (forallb_In _ _ _ Hkws Hpin) Hin). }
    unfold atom_unamb, atom_prefix. rewrite Hn. rewrite !andb_true_iff. repeat split.
    - apply forallb_forall. intros kw Hin. apply negb_true_iff, Hall, in_or_app. left. now apply Hforbid.
    - apply forallb_forall. intros kw Hin. apply negb_true_iff, Hall, in_or_app. now right.
    - apply forallb_forall. intros q Hq. apply negb_true_iff.
      unfold earlier_prefixes in Hq. rewrite <- firstn_map in Hq. fold (prefixes E) in Hq.
      unfold prefix_order_h in Hord. pose proof (forallb_In _ _ _ Hord (nth_error_seq _ _ _ Hp)) as Ho.
      cbn beta in Ho. rewrite Hp in Ho. apply Hkw; [apply used_prefix; exact (firstn_In _ _ _ Hq) | exact (forallb_In _ _ _ Ho Hq)].
    - now apply name_scan_free.
  Qed.

  (* ---- a tree ---- *)
  Definition htree_ok (s : sterm) : Prop :=
    forall forbid k, satoms_ok ia E s = true -> skwfree E s = true ->
      (forall kw, In kw forbid -> In kw (delims E)) -> stop_ok k = true -> unamb_ctx ia E forbid s k = true.

  Lemma hitems_ok forbid gaps : (forall kw, In kw forbid -> In kw (delims E)) ->
    forall items, Forall htree_ok items -> forallb (satoms_ok ia E) items = true -> forallb (skwfree E) items = true ->
    forall i tail, stop_ok tail = true ->
      unamb_items E (unamb_ctx ia E forbid) (render E) gaps i items tail = true.
  Proof.
    intros Hf. induction 1 as [|x l Hx _ IH]; intros Hs Hq i tail Ht; [reflexivity|].
    cbn [forallb] in Hs, Hq. apply andb_true_iff in Hs as [Hsx Hsl]. apply andb_true_iff in Hq as [Hqx Hql].
    rewrite unamb_items_cons. apply andb_true_iff. split; [|now apply IH].
    apply Hx; [exact Hsx | exact Hqx | exact Hf |].
    destruct l as [|y l]; [exact Ht|]. rewrite render_items_cons, <- !app_assoc. apply stop_gap_h.
  Qed.

  Theorem unamb_ctx_kwfree : forall s, htree_ok s.
  Proof.
    induction s as [arm name|ext sp0 gaps items sp1 IH|arm sp0 gaps items sp1 IH|arm sp0 sp1 sp2 sp3 x y IHx IHy] using sterm_ind';
      intros forbid k Hs Hq Hf Hk; cbn [unamb_ctx satoms_ok skwfree] in *.
    - now apply hatom_unamb_ok.
    - assert (Hrb : In (set_rb E ext) (list_right_brackets E)) by (destruct ext; [left | right; left]; reflexivity).
      apply hitems_ok; [now apply item_forbid_delims | exact IH | exact Hs | exact Hq |].
      apply stop_sp_h, stop_kw_h. right. right. right. exact Hrb.
    - assert (Hrb : In (compound_brackets_1 E) (list_right_brackets E)) by (right; right; left; reflexivity).
      apply hitems_ok; [now apply item_forbid_delims | exact IH | exact Hs | exact Hq |].
      apply stop_sp_h, stop_kw_h. right. right. right. exact Hrb.
    - rewrite !andb_true_iff in Hs. destruct Hs as [[Harm Hsx] Hsy]. apply andb_true_iff in Hq as [Hqx Hqy].
      assert (Hsp : forall kw, In kw [space_parse E] -> In kw (delims E)) by (intros kw [<-|[]]; left; reflexivity).
      apply andb_true_iff. split.
      + apply IHx; [exact Hsx | exact Hqx | exact Hsp |]. apply stop_sp_h. apply stop_ok_copula; [exact Hpo|].
        destruct (nth_error parse_statement_arms arm); [congruence | discriminate].
      + apply IHy; [exact Hsy | exact Hqy | exact Hsp |]. apply stop_sp_h, stop_kw_h. left. reflexivity.
  Qed.

  Corollary unamb_of_kwfree s k :
    satoms_ok ia E s = true -> skwfree E s = true -> stop_ok k = true -> unamb ia E s k = true.
  Proof. intros Hs Hq Hk. apply unamb_ctx_kwfree; [exact Hs | exact Hq | intros kw [] | exact Hk]. Qed.
End TermLevel.

(* ================================================================================== *)
(* 3. canonical trees: the names of sst E t are the names of t, intervals print digits, *)
(*    the placeholder has no name; skwfree does not look at the spacing annotations     *)
Section SstNames.
  Variable ia : N -> bool.
  Variable E : efmt.
  Hypothesis Hko : kwfree_term_ok ia E = true.

  Lemma sst_atom_skwfree a init n s : sst_atom E a init n = Some s -> kwfree_name E n = true -> skwfree E s = true.
  Proof. intros H Hn. apply sst_atom_inv in H as (i & p & -> & _). exact Hn. Qed.

  Lemma sst_comp_skwfree kw init items s :
    sst_comp E kw init items = Some s -> forallb (skwfree E) items = true -> skwfree E s = true.
  Proof.
    unfold sst_comp. destruct items as [|x items]; [discriminate|].
    destruct (comp_arm_ix E kw init); [|discriminate]. intros H; injection H as <-. trivial.
  Qed.

  Lemma sst_of_skwfree : forall t s, term_kwfree E t = true -> sst_of E t = Some s -> skwfree E s = true.
  Proof.
    assert (Hlist : forall l, Forall (fun t => forall s, term_kwfree E t = true -> sst_of E t = Some s -> skwfree E s = true) l ->
              forallb (term_kwfree E) l = true -> forall items, omap (sst_of E) l = Some items ->
              forallb (skwfree E) items = true).
    { induction 1 as [|t l Ht _ IH]; intros Hw items Hi.
      - cbn [omap] in Hi. injection Hi as <-. reflexivity.
      - rewrite EnumFmtP.omap_cons in Hi. destruct (sst_of E t) as [s|] eqn:Hs; [|discriminate].
        destruct (omap (sst_of E) l) as [ss|]; [|discriminate]. injection Hi as <-.
        cbn [forallb] in *. apply andb_true_iff in Hw as [Hw1 Hw2]. rewrite (Ht s Hw1 eq_refl), (IH Hw2 ss eq_refl). reflexivity. }
    induction t as [c n|c|c i|c l IH|c l IH|c i l IH|c a IH|c a b IHa IHb] using term_ind';
      intros s Hw H; cbn [term_kwfree sst_of] in *.
    - eapply sst_atom_skwfree; eassumption.
    - eapply sst_atom_skwfree; [eassumption | reflexivity].
    - eapply sst_atom_skwfree; [eassumption|]. apply (digits_free ia E Hko). apply show_N_digitsb.
    - destruct (omap (sst_of E) l) as [items|] eqn:Hi; [|discriminate]. specialize (Hlist l IH Hw items Hi).
      destruct (fmt_arm_set c); cbn [sst_set] in H; try discriminate.
      + destruct (_ && _ && _); [injection H as <-; exact Hlist|]. destruct (_ && _ && _); [injection H as <-; exact Hlist | discriminate].
      + eapply sst_comp_skwfree; eassumption.
    - destruct (omap (sst_of E) l) as [items|] eqn:Hi; [|discriminate]. specialize (Hlist l IH Hw items Hi).
      unfold sst_vec in H. destruct (fmt_arm_vec c); try discriminate. eapply sst_comp_skwfree; eassumption.
    - destruct (omap (sst_of E) l) as [items|] eqn:Hi; [|discriminate]. specialize (Hlist l IH Hw items Hi).
      unfold sst_img in H. destruct (fmt_arm_img c); try discriminate.
      destruct (sst_placeholder E) as [ph|] eqn:Hph; [|discriminate].
      eapply sst_comp_skwfree; [eassumption|]. apply img_iter_forallb; [|assumption].
      unfold sst_placeholder in Hph. eapply sst_atom_skwfree; [eassumption | reflexivity].
    - destruct (sst_of E a) as [x|] eqn:Ha; [|discriminate]. unfold sst_box1 in H.
      destruct (fmt_arm_box1 c); try discriminate. eapply sst_comp_skwfree; [eassumption|].
      cbn [forallb]. now rewrite (IH x Hw eq_refl).
    - apply andb_true_iff in Hw as [Hwa Hwb].
      destruct (sst_of E a) as [x|] eqn:Ha; [|discriminate]. destruct (sst_of E b) as [y|] eqn:Hb; [|discriminate].
      specialize (IHa x Hwa eq_refl). specialize (IHb y Hwb eq_refl). unfold sst_box2 in H.
      destruct (fmt_arm_box2 c); try discriminate.
      + eapply sst_comp_skwfree; [eassumption|]. cbn [forallb]. now rewrite IHa, IHb.
      + destruct (stmt_arm_ix E kw c) as [j|] eqn:Hj; [|discriminate]. injection H as <-.
        cbn [skwfree]. now rewrite IHa, IHb.
  Qed.

  Lemma sst_skwfree t : arms_cover E = true -> wf_term ia E t = true -> term_kwfree E t = true -> skwfree E (sst E t) = true.
  Proof.
    intros Hc Hw Hq. destruct (sst_of_desugar ia E Hc t Hw) as (s & Hs & _).
    unfold sst. rewrite Hs. exact (sst_of_skwfree t s Hq Hs).
  Qed.

  Lemma skwfree_erase : forall s, skwfree E s = kkwfree E (SstOk.erase s).
  Proof.
    assert (Hl : forall items, Forall (fun s => skwfree E s = kkwfree E (SstOk.erase s)) items ->
              forallb (skwfree E) items = forallb (kkwfree E) (map SstOk.erase items)).
    { induction 1 as [|x l Hx _ IH]; [reflexivity|]. cbn [forallb map]. now rewrite Hx, IH. }
    induction s as [arm name|ext sp0 gaps items sp1 IH|arm sp0 gaps items sp1 IH|arm sp0 sp1 sp2 sp3 x y IHx IHy] using sterm_ind';
      cbn [skwfree SstOk.erase kkwfree]; auto. now rewrite IHx, IHy.
  Qed.

  Lemma skwfree_shape s1 s2 : same_shape s1 s2 -> skwfree E s1 = skwfree E s2.
  Proof. unfold same_shape. intros H. now rewrite !skwfree_erase, H. Qed.
End SstNames.

(* ================================================================================== *)
(* 4. sentence level: the back-off conditions of consume_one hold of every surface     *)
(*    input whose atoms are well-formed and keyword-free -- at ANY spacing             *)
Section SentLevel.
  Variable F : Type.
  Variable fread : str -> option F.
  Variable fzero : F.
  Variable in01 : F -> bool.
  Variable ia : N -> bool.
  Variable E : efmt.
  Hypothesis Hpo : parse_ok E = true.
  Hypothesis Hko : kwfree_term_ok ia E = true.
  Hypothesis Hso : sent_ok E = true.
  Hypothesis Hks : kwfree_sent_ok ia E = true.

  Notation b0 := (task_budget_brackets_0 E).
  Notation b1 := (task_budget_brackets_1 E).
  Notation cc := (close_char E).

  Lemma ks_unpack :
    forallb (fun x => head_not_name ia E (fst (fst x) E)) punct_arms = true /\
    budget_requires_close = true /\ b1 <> [] /\
    forallb (fun lb => diverge b0 lb) (left_brackets E) = true /\
    forallb (prefix_vs_budget_h ia E) (prefixes E) = true.
  Proof.
    pose proof Hks as H. unfold kwfree_sent_ok in H. rewrite !andb_true_iff in H.
    repeat match goal with H : _ /\ _ |- _ => destruct H end.
    repeat split; try assumption. now apply EnumSentP.nonempty_ne.
  Qed.

  (* the name scan of the term's last atom stops in front of what follows the term: a punctuation
     (after any number of spaces), or nothing but spaces *)
  Lemma stop_tail0_h s : sitems_ok s = true -> follows_ok s = true -> stop_ok ia E (tail0 E s) = true.
  Proof.
    intros Hi Hf. destruct ks_unpack as (Hp & _). unfold sitems_ok in Hi. rewrite !andb_true_iff in Hi. destruct Hi as [[Hi _] _].
    unfold follows_ok in Hf. unfold tail0, ropt. destruct (sn_punct s) as [[g a]|].
    - apply (stop_sp_h ia E Hko), head_not_name_stop. unfold punct_kw.
      destruct (nth_error punct_arms a) as [[[kw kw'] p]|] eqn:Hn; [|discriminate].
      exact (forallb_In _ _ _ Hp (nth_error_In _ _ Hn)).
    - cbn [has orb] in Hf. apply andb_true_iff in Hf as [H1 H2].
      unfold tail1, tail2, tail3, ropt. destruct (sn_stamp s); [discriminate|]. destruct (sn_truth s); [discriminate|].
      rewrite <- (app_nil_r (sp E (sn_trail s))). now apply (stop_sp_h ia E Hko).
  Qed.

  (* the text of a term does not start with the space keyword *)
  Lemma term_no_space_h t k : satoms_ok ia E t = true -> skwfree E t = true -> stop_ok ia E k = true ->
    starts (space_parse E) (render E t ++ k) = false.
  Proof.
    intros Ht Hq Hk. apply (unamb_forbid ia E Hpo [space_parse E] t k (space_parse E)); [| left; reflexivity | left; reflexivity].
    apply (unamb_ctx_kwfree ia E Hpo Hko t [space_parse E] k Ht Hq); [|exact Hk]. intros kw [<-|[]]. left. reflexivity.
  Qed.

  (* K2 excluded: the text of a term is not taken for a budget.  It does not start with the budget's left
     bracket -- a composite starts with a left bracket, an atom with a non-empty prefix that diverges from
     it, a word with a keyword-free character -- or (a prefix that IS that bracket) no right bracket can
     follow *)
  Lemma term_vs_budget_h t k : satoms_ok ia E t = true -> skwfree E t = true ->
    (close_ok ia E = true -> absent cc k = true) ->
    starts b0 (render E t ++ k) = false \/ no_occ b1 (drop (length b0) (render E t ++ k)) = true.
  Proof.
    intros Ht Hq Hk. destruct ks_unpack as (_ & _ & _ & Hlb & Hpre).
    destruct (render_lb E t) as (lb & r & [[Hin Hr]|(arm & name & ->)]).
    - left. rewrite Hr, <- app_assoc. apply diverge_starts. exact (forallb_In _ _ _ Hlb Hin).
    - cbn [satoms_ok skwfree render] in *. pose proof (satom_nc ia E Hko _ _ Ht) as Hname. unfold atom_prefix.
      destruct (nth_error parse_atom_arms arm) as [[pf init]|] eqn:Hn; [|unfold satom_ok in Ht; rewrite Hn in Ht; discriminate].
      pose proof (satom_ne ia E Hpo _ _ _ _ Hn Ht) as Hne.
      pose proof (forallb_In _ _ _ Hpre (nth_error_In _ _ (prefix_In E _ _ _ Hn))) as Hp. unfold prefix_vs_budget_h in Hp.
      rewrite <- app_assoc. destruct (pf E) as [|p0 pr] eqn:Hpf.
      + left. cbn [app]. destruct name as [|c n]; [now elim (Hne eq_refl)|]. cbn [app].
        apply (kw_no_start ia E Hko); [apply used_b0 | now apply EnumTermP.nonempty_ne |].
        unfold kwfree_name in Hq. cbn [forallb] in Hq. now apply andb_true_iff in Hq as [Hq _].
      + apply orb_true_iff in Hp as [Hp|Hp].
        * left. now apply diverge_starts.
        * right. apply andb_true_iff in Hp as [Hp Hc]. specialize (Hk Hc).
          unfold close_ok in Hc. rewrite !andb_true_iff, !negb_true_iff in Hc.
          destruct Hc as [[[[[_ Hcc] Hnc] _] _] _]. apply memb_In in Hcc.
          apply str_eqb_eq in Hp. rewrite Hp, drop_app_length.
          apply (absent_no_occ cc); [exact Hcc|]. now rewrite absent_app, (absent_class (NC ia E) cc name Hnc Hname), Hk.
  Qed.

  Theorem sent_unamb_kwfree s :
    sitems_ok s = true -> satoms_ok ia E (sn_term s) = true -> skwfree E (sn_term s) = true ->
    follows_ok s = true -> stamp_nf E s = true ->
    sent_unamb F fread fzero in01 E (unamb ia E) s = true.
  Proof.
    intros Hi Ht Hq Hf Hnf. destruct ks_unpack as (_ & Hclose & Hb1 & _ & _).
    pose proof (stop_tail0_h s Hi Hf) as Hstop.
    apply sent_unamb_intro.
    - exact (pk_total E Hpo).
    - pose proof Hso as H. unfold sent_ok in H. rewrite !andb_true_iff in H. tauto.
    - exact Hclose.
    - exact Hb1.
    - now apply unamb_of_kwfree.
    - now apply term_no_space_h.
    - right. apply term_vs_budget_h; [exact Ht | exact Hq |]. intros Hc.
      unfold close_ok in Hc. rewrite !andb_true_iff, !negb_true_iff in Hc. destruct Hc as [[[[_ Hint] Hfl]] Hkw].
      now apply tail0_absent.
    - unfold stamp_nf in Hnf. destruct (sn_stamp s) as [[g x]|]; [exact Hnf | exact I].
  Qed.
End SentLevel.

(* ================================================================================== *)
(* 5. the theorems, generic in the format record                                       *)
Section Main.
  Variable F : Type.
  Variable fshow : F -> str.          (* f64::to_string *)
  Variable fread : str -> option F.   (* f64::from_str *)
  Variable fzero : F.                 (* 0.0 *)
  Variable in01 : F -> bool.          (* the parser's range test (0.0..=1.0).contains(&x) *)
  Variable okn : F -> bool.           (* the PROPERTY's condition on a number: finite, non-negative-signed, within [0,1] *)
  Variable ia : N -> bool.            (* char::is_alphanumeric *)
  Variable E : efmt.
  Variables kt ki : nat.
  (* finite checks on the regenerated tables *)
  Hypothesis Hpo : parse_ok E = true.
  Hypothesis Hso : sent_ok E = true.
  Hypothesis Hft : fmt_tables_ok E kt ki = true.
  Hypothesis Hsp : fmt_space_ok E = true.
  Hypothesis Hcov : arms_cover E = true.
  Hypothesis Hko : kwfree_term_ok ia E = true.
  Hypothesis Hks : kwfree_sent_ok ia E = true.
  (* float oracles *)
  Hypothesis H_empty : fread [] = None.
  Hypothesis H_zero : in01 fzero = true.
  Hypothesis H_ok01 : forall x, okn x = true -> in01 x = true.
  Hypothesis H_rt : forall x, okn x = true -> fread (fshow x) = Some x.
  Hypothesis H_cs : forall x, okn x = true -> fshow x <> [] /\ Forall (fun c => is_float_char c = true) (fshow x).

  (* term level, C01 + C09: a well-formed term with keyword-free names, written with ANY spacing at its
     token boundaries, followed by any k the scan stops at, parses to the term *)
  Theorem spaced_roundtrip_kwfree : forall (t : term) (s : sterm) (k : str) (L : nat) (st : pstate F),
    wf_term ia E t = true -> term_kwfree E t = true -> same_shape s (sst E t) -> stop_ok ia E k = true ->
    wf F L st -> s_rest st = render E s ++ k ->
    parse_term F ia E st = POk t (step F (length (render E s)) st).
  Proof.
    intros t s k L st Hw Hq Hsh Hk Hwf Hrest.
    destruct (sst_of_desugar ia E Hcov t Hw) as (s0 & Hs0 & Hd).
    assert (Hsst : sst E t = s0) by (unfold sst; now rewrite Hs0).
    apply (parse_term_render F ia E Hpo s t k L st); auto.
    - rewrite (same_shape_meaning _ _ Hsh), Hsst. exact Hd.
    - apply (unamb_of_kwfree ia E Hpo Hko); [| | exact Hk].
      + rewrite (satoms_ok_shape ia E _ _ Hsh). now apply sst_satoms_ok.
      + rewrite (skwfree_shape E _ _ Hsh). now apply (sst_skwfree ia).
  Qed.

  Theorem unamb_of_wf_kwfree : forall t s k,
    wf_term ia E t = true -> term_kwfree E t = true -> same_shape s (sst E t) -> stop_ok ia E k = true ->
    unamb ia E s k = true.
  Proof.
    intros t s k Hw Hq Hsh Hk. apply (unamb_of_kwfree ia E Hpo Hko); [| | exact Hk].
    - rewrite (satoms_ok_shape ia E _ _ Hsh). now apply sst_satoms_ok.
    - rewrite (skwfree_shape E _ _ Hsh). now apply (sst_skwfree ia).
  Qed.

  (* THE sentence-level parser theorem: ANY surface input (any spacing everywhere, any readable items)
     whose term has well-formed keyword-free atoms and in which a punctuation is written whenever a stamp
     or a truth is, parses to its documented meaning *)
  Theorem parse_kwfree_input s v :
    odesugar_narsese F fread in01 s = Some v -> satoms_ok ia E (sn_term s) = true -> skwfree E (sn_term s) = true ->
    follows_ok s = true ->
    exists st, parse_narsese F fread fzero in01 ia E (render_narsese E s) = POk v st.
  Proof.
    intros Hv Ht Hq Hf. destruct (norm_stamp_facts F fread in01 E s) as (Hv' & Ht' & Hf' & Hnf).
    rewrite <- norm_stamp_render.
    apply (parse_narsese_render F fread fzero in01 ia E Hso H_empty H_zero _ (Hterm F ia E Hpo)); [now rewrite Hv'|].
    apply (sent_unamb_kwfree F fread fzero in01 ia E Hpo Hko Hso Hks); [| now rewrite Ht' | now rewrite Ht' | now rewrite Hf' | exact Hnf].
    apply (odesugar_sitems F fread in01 _ v). now rewrite Hv'.
  Qed.

  Lemma value_kwfree_facts (v : narsese F) : wf_value ia E v = true -> names_kwfree E v = true ->
    skwfree E (sst E (nv_term v)) = true.
  Proof. rewrite wf_value_term. intros Hw Hq. now apply (sst_skwfree ia). Qed.

  (* C01 for whole values *)
  Theorem C01_value_kwfree (v : narsese F) :
    wf_value ia E v = true -> names_kwfree E v = true -> vals_ok F okn v = true ->
    exists st, parse_narsese F fread fzero in01 ia E (fmt_narsese F fshow E v) = POk v st.
  Proof.
    intros Hw Hq Hv. destruct (value_term_facts F ia E Hsp Hcov v Hw) as (Hr & Hd & Ha).
    rewrite (fmt_narsese_canon F fshow E kt ki Hft _ v Hr).
    apply parse_kwfree_input; [| now rewrite canon_term | rewrite canon_term; now apply value_kwfree_facts | apply canon_follows].
    now apply (canon_meaning F fshow fread in01 okn E kt ki Hft H_ok01 H_rt H_cs).
  Qed.

  (* C09 for whole values: every re-spacing of the formatter's output *)
  Theorem C09_value_kwfree (v : narsese F) s' :
    wf_value ia E v = true -> names_kwfree E v = true -> vals_ok F okn v = true ->
    erase s' = erase (canon_narsese F fshow kt ki (sst E (nv_term v)) v) ->
    exists st, parse_narsese F fread fzero in01 ia E (render_narsese E s') = POk v st.
  Proof.
    intros Hw Hq Hv He. destruct (value_term_facts F ia E Hsp Hcov v Hw) as (Hr & Hd & Ha).
    pose proof (f_equal sn_term He) as Ht. cbn [erase sn_term] in Ht. rewrite canon_term in Ht.
    apply parse_kwfree_input.
    - rewrite <- odesugar_narsese_erase, He, odesugar_narsese_erase.
      now apply (canon_meaning F fshow fread in01 okn E kt ki Hft H_ok01 H_rt H_cs).
    - now rewrite (satoms_ok_shape ia E _ _ (erase_t_same_shape _ _ Ht)).
    - rewrite (skwfree_shape E _ _ (erase_t_same_shape _ _ Ht)). now apply value_kwfree_facts.
    - now rewrite <- follows_ok_erase, He, follows_ok_erase, canon_follows.
  Qed.

  (* C15: the text of cast_to_task s parses to the task with the empty budget *)
  Theorem C15_cast_kwfree (s : sentence F) :
    wf_term ia E (s_term s) = true -> term_kwfree E (s_term s) = true -> sent_vals_ok F okn s = true ->
    exists st, parse_narsese F fread fzero in01 ia E (fmt_task F fshow E (cast_to_task s)) = POk (NTask (s, BudgetEmpty)) st.
  Proof.
    intros Hw Hq Hv. apply (C01_value_kwfree (NTask (cast_to_task s))); [exact Hw | exact Hq |].
    cbn [vals_ok cast_to_task budget_list forallb]. now rewrite Hv.
  Qed.
End Main.

(* ================================================================================== *)
(* 6. the formats; the Unicode facts                                                   *)
(* Han.  Characters that must NOT be alphanumeric: what the name scan must stop at --
     space  」 ， 』 】 ）   (after an atom inside a term: U+0020 U+300D U+FF0C U+300F U+3011 U+FF09)
     。 ！ ？ ；               (after the term of a sentence: U+3002 U+FF01 U+FF1F U+FF1B)
   -- and the ten ASCII digits must be (interval names).  Every OTHER token that can follow an atom is a
   copula (letters: 是 似 得 同 为 有 具有 将得 ...), in front of which the look-ahead stops the scan.
   The keywords that start with a letter and are not copulas (atom prefixes, connecters, 过去 现在 将来
   发生在 真 值 预 算) never follow an atom directly. *)
Definition han_nonalnum_chars : list N := [32; 12301; 65292; 12303; 12305; 65289; 12290; 65281; 65311; 65307].

Definition alnum_facts_han (ia : N -> bool) : bool :=
  forallb (fun c => negb (ia c)) han_nonalnum_chars && forallb ia digits.

Lemma alnum_facts_han_std : alnum_facts_han is_alnum_std = true.
Proof. vm_compute. reflexivity. Qed.

Lemma alnum_facts_han_unpack ia : alnum_facts_han ia = true ->
  (forall c, memb c han_nonalnum_chars = true -> ia c = false) /\ (forall c, memb c digits = true -> ia c = true).
Proof.
  unfold alnum_facts_han. intros H. apply andb_true_iff in H as [H1 H2]. split; intros c Hc; apply memb_In in Hc.
  - apply negb_true_iff. exact (forallb_In _ _ _ H1 Hc).
  - exact (forallb_In _ _ _ H2 Hc).
Qed.

Lemma kwfree_term_ok_han ia : alnum_facts_han ia = true -> kwfree_term_ok ia FORMAT_HAN = true.
Proof. intros H. destruct (alnum_facts_han_unpack ia H) as [Hn Hd]. vm_compute. use_alnum_facts Hn Hd ia; reflexivity. Qed.

Lemma kwfree_sent_ok_han ia : alnum_facts_han ia = true -> kwfree_sent_ok ia FORMAT_HAN = true.
Proof. intros H. destruct (alnum_facts_han_unpack ia H) as [Hn Hd]. vm_compute. use_alnum_facts Hn Hd ia; reflexivity. Qed.

(* the same two checks hold of ASCII and LaTeX (given the facts of Proofs/EnumUnambP.v and EnumFinalP.v):
   the argument is not Han-specific.  There `$x` / `\$x` is the case "the prefix IS the budget bracket". *)
Lemma kwfree_term_ok_plain ia : alnum_facts ia = true ->
  kwfree_term_ok ia FORMAT_ASCII = true /\ kwfree_term_ok ia FORMAT_LATEX = true.
Proof.
  intros H. destruct (alnum_facts_unpack ia H) as [Hn Hd]. split; vm_compute; use_alnum_facts Hn Hd ia; reflexivity.
Qed.

Lemma kwfree_sent_ok_plain ia : alnum_facts ia = true -> alnum_facts2 ia = true ->
  kwfree_sent_ok ia FORMAT_ASCII = true /\ kwfree_sent_ok ia FORMAT_LATEX = true.
Proof.
  intros H H2. destruct (alnum_facts_unpack ia H) as [Hn Hd]. pose proof (alnum_facts2_unpack ia H2) as Hn2.
  split; vm_compute; use_alnum_facts2 Hn Hd Hn2 ia; reflexivity.
Qed.

(* every listed Han fact is used: flipping the oracle on ONE listed character breaks a check *)
Lemma alnum_facts_han_all_needed :
  alnum_facts_han ascii_alnum = true /\
  forallb (fun c => negb (kwfree_term_ok (flip ascii_alnum c) FORMAT_HAN && kwfree_sent_ok (flip ascii_alnum c) FORMAT_HAN))
          (han_nonalnum_chars ++ digits) = true.
Proof. split; vm_compute; reflexivity. Qed.

Section Han.
  Variable ia : N -> bool.
  Hypothesis Hia : alnum_facts_han ia = true.
  Variable F : Type.
  Variable fshow : F -> str.
  Variable fread : str -> option F.
  Variable fzero : F.
  Variables in01 okn : F -> bool.
  Hypothesis H_empty : fread [] = None.
  Hypothesis H_zero : in01 fzero = true.
  Hypothesis H_ok01 : forall x, okn x = true -> in01 x = true.
  Hypothesis H_rt : forall x, okn x = true -> fread (fshow x) = Some x.
  Hypothesis H_cs : forall x, okn x = true -> fshow x <> [] /\ Forall (fun c => is_float_char c = true) (fshow x).

  Theorem parse_kwfree_input_han (s : snarsese) (v : narsese F) :
    odesugar_narsese F fread in01 s = Some v -> satoms_ok ia FORMAT_HAN (sn_term s) = true ->
    skwfree FORMAT_HAN (sn_term s) = true -> follows_ok s = true ->
    exists st, parse_narsese F fread fzero in01 ia FORMAT_HAN (render_narsese FORMAT_HAN s) = POk v st.
  Proof.
    destruct han_sent_side as (S1 & S2 & S3 & S4 & S5).
    apply parse_kwfree_input; auto; [now apply kwfree_term_ok_han | now apply kwfree_sent_ok_han].
  Qed.

  Theorem C01_value_han_kwfree (v : narsese F) :
    wf_value ia FORMAT_HAN v = true -> names_kwfree FORMAT_HAN v = true -> vals_ok F okn v = true ->
    exists st, parse_narsese F fread fzero in01 ia FORMAT_HAN (fmt_narsese F fshow FORMAT_HAN v) = POk v st.
  Proof.
    destruct han_sent_side as (S1 & S2 & S3 & S4 & S5).
    apply (C01_value_kwfree F fshow fread fzero in01 okn ia FORMAT_HAN 0 1); auto;
      [now apply kwfree_term_ok_han | now apply kwfree_sent_ok_han].
  Qed.

  (* the canonical input: Han prints NO space around copulas / after separators / between the items of a
     sentence (kt = 0) and one space between budget and sentence (ki = 1) *)
  Theorem value_canonical_han (v : narsese F) : wf_value ia FORMAT_HAN v = true ->
    fmt_narsese F fshow FORMAT_HAN v = render_narsese FORMAT_HAN (canon_narsese F fshow 0 1 (sst FORMAT_HAN (nv_term v)) v).
  Proof.
    destruct han_sent_side as (S1 & S2 & S3 & S4 & S5). intros Hw.
    apply (fmt_narsese_canon F fshow FORMAT_HAN 0 1 S3). now destruct (value_term_facts F ia FORMAT_HAN S4 S5 v Hw).
  Qed.

  Theorem C09_value_han_kwfree (v : narsese F) (s' : snarsese) :
    wf_value ia FORMAT_HAN v = true -> names_kwfree FORMAT_HAN v = true -> vals_ok F okn v = true ->
    erase s' = erase (canon_narsese F fshow 0 1 (sst FORMAT_HAN (nv_term v)) v) ->
    exists st, parse_narsese F fread fzero in01 ia FORMAT_HAN (render_narsese FORMAT_HAN s') = POk v st.
  Proof.
    destruct han_sent_side as (S1 & S2 & S3 & S4 & S5).
    apply (C09_value_kwfree F fshow fread fzero in01 okn ia FORMAT_HAN 0 1); auto;
      [now apply kwfree_term_ok_han | now apply kwfree_sent_ok_han].
  Qed.

  Theorem C15_cast_han_kwfree (s : sentence F) :
    wf_term ia FORMAT_HAN (s_term s) = true -> term_kwfree FORMAT_HAN (s_term s) = true -> sent_vals_ok F okn s = true ->
    exists st, parse_narsese F fread fzero in01 ia FORMAT_HAN (fmt_task F fshow FORMAT_HAN (cast_to_task s)) =
               POk (NTask (s, BudgetEmpty)) st.
  Proof.
    destruct han_sent_side as (S1 & S2 & S3 & S4 & S5).
    apply (C15_cast_kwfree F fshow fread fzero in01 okn ia FORMAT_HAN 0 1); auto;
      [now apply kwfree_term_ok_han | now apply kwfree_sent_ok_han].
  Qed.

  (* term level: the name condition and the round trip at any spacing *)
  Theorem unamb_han_kwfree (t : term) (s : sterm) (k : str) :
    wf_term ia FORMAT_HAN t = true -> term_kwfree FORMAT_HAN t = true -> same_shape s (sst FORMAT_HAN t) ->
    stop_ok ia FORMAT_HAN k = true -> unamb ia FORMAT_HAN s k = true.
  Proof.
    destruct han_sent_side as (S1 & S2 & S3 & S4 & S5).
    apply (unamb_of_wf_kwfree ia FORMAT_HAN S1 S5). now apply kwfree_term_ok_han.
  Qed.

  Theorem C09_term_han_kwfree (t : term) (s : sterm) (k : str) (L : nat) (st : pstate F) :
    wf_term ia FORMAT_HAN t = true -> term_kwfree FORMAT_HAN t = true -> same_shape s (sst FORMAT_HAN t) ->
    stop_ok ia FORMAT_HAN k = true -> wf F L st -> s_rest st = render FORMAT_HAN s ++ k ->
    parse_term F ia FORMAT_HAN st = POk t (step F (length (render FORMAT_HAN s)) st).
  Proof.
    destruct han_sent_side as (S1 & S2 & S3 & S4 & S5).
    apply (spaced_roundtrip_kwfree F ia FORMAT_HAN S1 S5). now apply kwfree_term_ok_han.
  Qed.
End Han.

(* ================================================================================== *)
(* 7. non-vacuity; the K2 / K3 witnesses are outside the subdomain                      *)
(* 预0.5、0.75、1算 「猫是鸟狗」。发生在-12真1、0.9值 *)
Definition ex_han_task : narsese str :=
  NTask (SJudgement (TBox2 Inheritance (TName Word [29483]) (TName Word [40479; 29399]))
                    (TruthDouble [49]%N [48; 46; 57]%N) (Fixed (-12)),
         BudgetTriple [48; 46; 53]%N [48; 46; 55; 53]%N [49]%N).
(* 『abc，任一x1，间隔42』？ *)
Definition ex_han_question : narsese str :=
  NSentence (SQuestion (TSet SetExtension [TName Word [97; 98; 99]; TName VariableIndependent [120; 49]; TNum Interval 42]) Eternal).
(* the bare word 鸟狗 *)
Definition ex_han_word : narsese str := NTerm (TName Word [40479; 29399]).

Definition ex_han_values : list (narsese str) := [ex_han_task; ex_han_question; ex_han_word; ex_task_value; ex_dollar_value].

Definition ex_hyp_han (v : narsese str) : bool :=
  wf_value is_alnum_std FORMAT_HAN v && names_kwfree FORMAT_HAN v && vals_ok str toy_in01 v.
Definition ex_nospace_han (v : narsese str) : option (narsese str) :=
  match parse_narsese str toy_read toy_zero toy_in01 is_alnum_std FORMAT_HAN
          (render_narsese FORMAT_HAN (erase (canon_narsese str toy_show 0 1 (sst FORMAT_HAN (nv_term v)) v))) with
  | POk r _ => Some r | _ => None
  end.

(* the hypotheses hold of all five values (ex_task_value: all 30 constructors, names A1 b-_c x1 猫), and
   the parser model -- run by vm_compute, independently of the theorems -- returns each value, on the
   formatter's text and on the text with every space removed *)
Lemma ex_han_kwfree :
  alnum_facts_han is_alnum_std = true /\
  forallb ex_hyp_han ex_han_values = true /\
  map (ex_roundtrip FORMAT_HAN) ex_han_values = map Some ex_han_values /\
  map ex_nospace_han ex_han_values = map Some ex_han_values /\
  fmt_narsese str toy_show FORMAT_HAN ex_han_task =
    [39044; 48; 46; 53; 12289; 48; 46; 55; 53; 12289; 49; 31639; 32; 12300; 29483; 26159; 40479; 29399; 12301; 12290;
     21457; 29983; 22312; 45; 49; 50; 30495; 49; 12289; 48; 46; 57; 20540]%N.
Proof. split; [|split; [|split; [|split]]]; vm_compute; reflexivity. Qed.

(* the K2 / K3 witnesses are well-formed but their names contain keyword characters *)
Lemma kwfree_excludes_K2_K3 :
  wf_term is_alnum_std FORMAT_HAN (TName Word [39044; 31639]) = true /\
  term_kwfree FORMAT_HAN (TName Word [39044; 31639]) = false /\
  wf_term is_alnum_std FORMAT_HAN k3_term = true /\ term_kwfree FORMAT_HAN k3_term = false.
Proof. repeat split; vm_compute; reflexivity. Qed.

(* the condition is far from "CJK-free": the Han keywords consist of 57 distinct characters (the space, 14
   brackets / separators / punctuation marks, 42 ideographs) *)
Lemma kw_chars_han_count :
  length (nodup N.eq_dec (kw_chars FORMAT_HAN)) = 57%nat /\
  length (filter is_alnum_std (nodup N.eq_dec (kw_chars FORMAT_HAN))) = 42%nat.
Proof. split; vm_compute; reflexivity. Qed.

(* follows_ok (a punctuation stands between the term and a stamp / truth) is needed by parse_kwfree_input in
   Han and is NOT a restriction on the texts of values: the surface input  猫真1值  (term, truth, no
   punctuation, no space) means the term 猫 (the truth is dropped), but 真 1 值 are letters / digits and the
   scan reads the word 猫真1值.  With a space in front of 真 the scan stops. *)
Definition ex_han_no_punct : snarsese :=
  {| sn_lead := 0; sn_budget := None; sn_term := SAtom 6 [29483]; sn_punct := None; sn_stamp := None;
     sn_truth := Some (O, {| nl_sp0 := 0; nl_gaps := fun _ => (O, O); nl_texts := [[49]]; nl_sp1 := 0 |}); sn_trail := 0 |}.
Lemma follows_ok_needed_han :
  odesugar_narsese str toy_read toy_in01 ex_han_no_punct = Some (NTerm (TName Word [29483])) /\
  satoms_ok is_alnum_std FORMAT_HAN (sn_term ex_han_no_punct) = true /\ skwfree FORMAT_HAN (sn_term ex_han_no_punct) = true /\
  follows_ok ex_han_no_punct = false /\
  render_narsese FORMAT_HAN ex_han_no_punct = [29483; 30495; 49; 20540] /\
  exists st, parse_narsese str toy_read toy_zero toy_in01 is_alnum_std FORMAT_HAN (render_narsese FORMAT_HAN ex_han_no_punct)
             = POk (NTerm (TName Word [29483; 30495; 49; 20540])) st.
Proof. repeat split; try (vm_compute; reflexivity). eexists. vm_compute. reflexivity. Qed.

(* ================================================================================== *)
(* 8. statements for Props/C01e.v                                                      *)
Lemma memb_same l1 l2 : forallb (fun x => memb x l2) l1 = true -> forallb (fun x => memb x l1) l2 = true ->
  forall c, memb c l1 = memb c l2.
Proof.
  intros H1 H2 c. apply eq_true_iff_eq. rewrite !memb_In. split; intros H.
  - apply memb_In. exact (forallb_In _ _ _ H1 H).
  - apply memb_In. exact (forallb_In _ _ _ H2 H).
Qed.

(* the 57 keyword characters of Han *)
Definition han_kw_chars : list N :=
  [32;                                                             (* space *)
   20219; 19968; 20854; 25152; 38382; 38388; 38548; 25805; 20316; 26576;    (* 任一 其(一) 所问 间隔 操作 某 *)
   65288; 65289; 65292; 12302; 12303; 12304; 12305;                 (* （ ） ， 『 』 【 】 *)
   22806; 20132; 20869; 24046; 31215; 20687; 19982; 25110; 38750; 25509; 36830; 21516; 26102;
                                                                   (* 外交 内 差 积 像 与 或 非 接连 同时 *)
   12300; 12301;                                                    (* 「 」 *)
   26159; 20284; 24471; 20026; 26377; 20855; 23558; 29616; 26366;   (* 是 似 得 (同) 为 有 具 将 现 曾 *)
   12290; 65281; 65311; 65307;                                      (* 。 ！ ？ ； *)
   36807; 21435; 22312; 26469; 21457; 29983;                        (* 过去 (现)在 (将)来 发生(在) *)
   30495; 20540; 12289; 39044; 31639].                              (* 真 值 、 预 算 *)

Lemma kwfree_char_han : forall c, kwfree_char FORMAT_HAN c = negb (memb c han_kw_chars).
Proof. intros c. unfold kwfree_char. f_equal. apply memb_same; vm_compute; reflexivity. Qed.

Lemma kwfree_name_meaning : forall (E : efmt) (n : str),
  kwfree_name E n = forallb (fun c => negb (memb c (concat (probe_fields E)))) n.
Proof. reflexivity. Qed.

Lemma kwfree_name_han : forall n, kwfree_name FORMAT_HAN n = forallb (fun c => negb (memb c han_kw_chars)) n.
Proof.
  intros n. unfold kwfree_name. induction n as [|x n IH]; [reflexivity|]. cbn [forallb]. now rewrite IH, kwfree_char_han.
Qed.

Lemma term_kwfree_meaning : forall (E : efmt) (t : term),
  term_kwfree E t =
  match t with
  | TName _ n => kwfree_name E n
  | TUnit _ | TNum _ _ => true
  | TSet _ l | TVec _ l | TImg _ _ l => forallb (term_kwfree E) l
  | TBox1 _ a => term_kwfree E a
  | TBox2 _ a b => term_kwfree E a && term_kwfree E b
  end.
Proof. intros E t. destruct t; reflexivity. Qed.

Lemma names_kwfree_meaning : forall (E : efmt) (F : Type) (v : narsese F),
  names_kwfree E v = term_kwfree E (match v with NTerm t => t | NSentence s => s_term s | NTask k => s_term (fst k) end).
Proof. intros E F v. destruct v; reflexivity. Qed.

Lemma skwfree_meaning : forall (E : efmt) (s : sterm),
  skwfree E s =
  match s with
  | SAtom _ name => kwfree_name E name
  | SSet _ _ _ items _ | SComp _ _ _ items _ => forallb (skwfree E) items
  | SStmt _ _ _ _ _ x y => skwfree E x && skwfree E y
  end.
Proof. intros E s. destruct s; reflexivity. Qed.

Lemma alnum_facts_han_meaning : forall ia : N -> bool,
  alnum_facts_han ia =
  forallb (fun c => negb (ia c)) [32; 12301; 65292; 12303; 12305; 65289; 12290; 65281; 65311; 65307]
  && forallb ia [48; 49; 50; 51; 52; 53; 54; 55; 56; 57].
Proof. reflexivity. Qed.

Lemma kwfree_term_ok_meaning : forall (ia : N -> bool) (E : efmt),
  kwfree_term_ok ia E =
  forallb (fun kw => existsb (str_eqb kw) (probe_fields E))
          ((statement_brackets_1 E :: space_parse E :: compound_separator E :: list_right_brackets E)
           ++ left_brackets E ++ map (fun a => fst a E) parse_atom_arms ++ gen_copulas E ++ [task_budget_brackets_0 E])
  && forallb (head_not_name ia E) (statement_brackets_1 E :: space_parse E :: compound_separator E :: list_right_brackets E)
  && forallb (fun p => forallb (fun kw => match p with [] => nonempty kw | _ => incompat kw p end)
                               ((space_parse E :: compound_separator E :: list_right_brackets E) ++ left_brackets E))
             (map (fun a => fst a E) parse_atom_arms)
  && forallb (fun i => match nth_error (map (fun a => fst a E) parse_atom_arms) i with
                       | Some p => forallb (fun q => match p with [] => nonempty q | _ => incompat q p end)
                                           (firstn i (map (fun a => fst a E) parse_atom_arms))
                       | None => true
                       end) (seq 0 (length (map (fun a => fst a E) parse_atom_arms)))
  && forallb nonempty (gen_copulas E)
  && forallb (name_charb ia E) [48; 49; 50; 51; 52; 53; 54; 55; 56; 57]
  && kwfree_name E [48; 49; 50; 51; 52; 53; 54; 55; 56; 57].
Proof. reflexivity. Qed.

Lemma kwfree_sent_ok_meaning : forall (ia : N -> bool) (E : efmt),
  kwfree_sent_ok ia E =
  forallb (fun x => head_not_name ia E (fst (fst x) E)) punct_arms
  && budget_requires_close && nonempty (task_budget_brackets_1 E)
  && forallb (fun lb => diverge (task_budget_brackets_0 E) lb) (left_brackets E)
  && forallb (fun p => match p with
                       | [] => nonempty (task_budget_brackets_0 E)
                       | _ => diverge (task_budget_brackets_0 E) p
                              || (str_eqb p (task_budget_brackets_0 E) && close_ok ia E)
                       end) (map (fun a => fst a E) parse_atom_arms).
Proof. reflexivity. Qed.

Lemma close_ok_meaning : forall (ia : N -> bool) (E : efmt),
  close_ok ia E =
  nonempty (task_budget_brackets_1 E) && memb (last (task_budget_brackets_1 E) 0) (task_budget_brackets_1 E)
  && negb (name_charb ia E (last (task_budget_brackets_1 E) 0))
  && negb (is_int_char (last (task_budget_brackets_1 E) 0)) && negb (is_float_char (last (task_budget_brackets_1 E) 0))
  && forallb (fun kw => forallb (fun c => negb (c =? last (task_budget_brackets_1 E) 0)) kw)
       (space_parse E :: map (fun x => fst (fst x) E) punct_arms
        ++ sentence_stamp_brackets_0 E :: sentence_stamp_brackets_1 E :: map (fun x => fst (fst x) E) stamp_arms
        ++ [sentence_truth_brackets_0 E; sentence_truth_brackets_1 E; sentence_truth_separator E]).
Proof. reflexivity. Qed.

Lemma kwfree_tables_han : forall ia : N -> bool, alnum_facts_han ia = true ->
  kwfree_term_ok ia FORMAT_HAN = true /\ kwfree_sent_ok ia FORMAT_HAN = true.
Proof. intros ia H. exact (conj (kwfree_term_ok_han ia H) (kwfree_sent_ok_han ia H)). Qed.

Lemma kwfree_tables_shipped : forall ia : N -> bool,
  alnum_facts ia = true -> alnum_facts2 ia = true -> alnum_facts_han ia = true ->
  forall E, shipped E -> kwfree_term_ok ia E = true /\ kwfree_sent_ok ia E = true.
Proof.
  intros ia H H2 H3 E HE. destruct (kwfree_term_ok_plain ia H) as [T1 T2]. destruct (kwfree_sent_ok_plain ia H H2) as [S1 S2].
  unfold shipped, shipped_formats in HE. cbn [In] in HE. destruct HE as [<-|[<-|[<-|[]]]]; split; auto;
    [now apply kwfree_term_ok_han | now apply kwfree_sent_ok_han].
Qed.

(* Rust's Unicode table *)
Theorem C01_value_han_kwfree_std :
  forall (F : Type) (fshow : F -> str) (fread : str -> option F) (fzero : F) (in01 okn : F -> bool),
    fread [] = None -> in01 fzero = true -> (forall x, okn x = true -> in01 x = true) ->
    (forall x, okn x = true -> fread (fshow x) = Some x) ->
    (forall x, okn x = true -> fshow x <> [] /\ Forall (fun c => is_float_char c = true) (fshow x)) ->
    forall v : narsese F, wf_value is_alnum_std FORMAT_HAN v = true -> names_kwfree FORMAT_HAN v = true -> vals_ok F okn v = true ->
      exists st, parse_narsese F fread fzero in01 is_alnum_std FORMAT_HAN (fmt_narsese F fshow FORMAT_HAN v) = POk v st.
Proof. exact (C01_value_han_kwfree is_alnum_std alnum_facts_han_std). Qed.

(* the formatter's output with every space removed (Han prints one: between budget and sentence) *)
Corollary C09_value_han_nospace : forall ia : N -> bool, alnum_facts_han ia = true ->
  forall (F : Type) (fshow : F -> str) (fread : str -> option F) (fzero : F) (in01 okn : F -> bool),
    fread [] = None -> in01 fzero = true -> (forall x, okn x = true -> in01 x = true) ->
    (forall x, okn x = true -> fread (fshow x) = Some x) ->
    (forall x, okn x = true -> fshow x <> [] /\ Forall (fun c => is_float_char c = true) (fshow x)) ->
    forall v : narsese F, wf_value ia FORMAT_HAN v = true -> names_kwfree FORMAT_HAN v = true -> vals_ok F okn v = true ->
      exists st, parse_narsese F fread fzero in01 ia FORMAT_HAN
                   (render_narsese FORMAT_HAN (erase (canon_narsese F fshow 0 1 (sst FORMAT_HAN (nv_term v)) v))) = POk v st.
Proof.
  intros ia Hia F fshow fread fzero in01 okn H1 H2 H3 H4 H5 v Hw Hq Hv.
  apply (C09_value_han_kwfree ia Hia F fshow fread fzero in01 okn H1 H2 H3 H4 H5 v); auto. apply erase_idem.
Qed.
