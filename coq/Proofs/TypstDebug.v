(* Proofs/TypstDebug.v -- C16: properties of [debug_str], the model of Rust's `impl Debug for str`,
   for ANY table [esc] of \u{..}-escaped characters: it begins with a quote, it is injective (a
   prefix code character by character), a whitespace-free string stays whitespace-free; and if the
   table escapes every whitespace character other than U+0020 that has no short escape (which the
   harness checks exhaustively against std on every run), the only whitespace it leaves is U+0020. *)
From Nv Require Export Proofs.TypstTok.
From Coq Require Import Lia.

Definition hexdig (d : N) : bool := ((48 <=? d) && (d <=? 57)) || ((97 <=? d) && (d <=? 102)).
Definition hexval (d : N) : N := if d <? 58 then d - 48 else d - 87.
Definition unhex_acc (v : N) (s : str) : N := fold_left (fun a d => 16 * a + hexval d) s v.

Lemma hex_digit_dig d : d < 16 -> hexdig (hex_digit d) = true.
Proof.
  intros H. unfold hexdig, hex_digit. destruct (N.ltb_spec d 10).
  - apply orb_true_iff. left. apply andb_true_iff. split; apply N.leb_le; lia.
  - apply orb_true_iff. right. apply andb_true_iff. split; apply N.leb_le; lia.
Qed.

Lemma hex_digit_val d : d < 16 -> hexval (hex_digit d) = d.
Proof.
  intros H. unfold hexval, hex_digit. destruct (N.ltb_spec d 10).
  - destruct (N.ltb_spec (48 + d) 58); lia.
  - destruct (N.ltb_spec (87 + d) 58); lia.
Qed.

Lemma hex_go_digits f : forall n acc, Forall (fun d => hexdig d = true) acc ->
  Forall (fun d => hexdig d = true) (hex_go f n acc).
Proof.
  induction f as [|f IH]; intros n acc H; cbn [hex_go]; [exact H|].
  assert (Hd : hexdig (hex_digit (n mod 16)) = true) by (apply hex_digit_dig; apply N.mod_lt; lia).
  destruct (n / 16 =? 0); [constructor; assumption | apply IH; constructor; assumption].
Qed.

Lemma hex_go_unhex f : forall n acc, n < 16 ^ N.of_nat f -> unhex_acc 0 (hex_go f n acc) = unhex_acc n acc.
Proof.
  induction f as [|f IH]; intros n acc H.
  - cbn [N.of_nat] in H. rewrite N.pow_0_r in H. assert (n = 0) by lia. subst. reflexivity.
  - cbn [hex_go]. rewrite Nat2N.inj_succ, N.pow_succ_r' in H.
    pose proof (N.div_mod' n 16) as Hdm. pose proof (N.mod_lt n 16 ltac:(lia)) as Hm.
    destruct (N.eqb_spec (n / 16) 0) as [E|E].
    + unfold unhex_acc. cbn [fold_left]. rewrite hex_digit_val by exact Hm. f_equal. lia.
    + rewrite IH.
      * unfold unhex_acc. cbn [fold_left]. rewrite hex_digit_val by exact Hm. f_equal. lia.
      * apply N.div_lt_upper_bound; lia.
Qed.

Lemma pos_size_bound p : N.pos p < 2 ^ N.of_nat (Pos.size_nat p).
Proof.
  induction p as [p IH|p IH|]; cbn [Pos.size_nat]; rewrite ?Nat2N.inj_succ, ?N.pow_succ_r'; lia.
Qed.

Lemma size_bound n : n < 16 ^ N.of_nat (S (N.size_nat n)).
Proof.
  rewrite Nat2N.inj_succ, N.pow_succ_r'.
  assert (H : n < 2 ^ N.of_nat (N.size_nat n) \/ n = 0).
  { destruct n as [|p]; [now right | left; apply pos_size_bound]. }
  assert (H2 : 2 ^ N.of_nat (N.size_nat n) <= 16 ^ N.of_nat (N.size_nat n)) by (apply N.pow_le_mono_l; lia).
  assert (H3 : 0 < 16 ^ N.of_nat (N.size_nat n)) by (apply N.neq_0_lt_0, N.pow_nonzero; lia).
  destruct H as [H | ->]; lia.
Qed.

Lemma hex_of_unhex n : unhex_acc 0 (hex_of n) = n.
Proof. unfold hex_of. rewrite hex_go_unhex by apply size_bound. reflexivity. Qed.

Lemma hex_of_inj a b : hex_of a = hex_of b -> a = b.
Proof. intros H. rewrite <- (hex_of_unhex a), <- (hex_of_unhex b). now rewrite H. Qed.

Lemma hex_of_digits n : Forall (fun d => hexdig d = true) (hex_of n).
Proof. apply hex_go_digits. constructor. Qed.

Lemma hexdig_not_ws d : hexdig d = true -> is_ws d = false.
Proof.
  unfold hexdig. intros H. apply orb_true_iff in H as [H|H]; apply andb_true_iff in H as [H1 H2];
    apply N.leb_le in H1, H2; unfold is_ws, ws_ranges; cbn [rng_mem];
    repeat match goal with |- context [?a <=? ?b] => destruct (N.leb_spec a b); try lia end; reflexivity.
Qed.

Lemma hexdig_not_125 d : hexdig d = true -> d <> 125.
Proof.
  unfold hexdig. intros H ->. cbv in H. discriminate.
Qed.

(* a run of hex digits ends at the first closing brace *)
Lemma hex_run_split h : forall h' r r',
  Forall (fun d => hexdig d = true) h -> Forall (fun d => hexdig d = true) h' ->
  h ++ 125 :: r = h' ++ 125 :: r' -> h = h' /\ r = r'.
Proof.
  induction h as [|x h IH]; intros [|y h'] r r' Hh Hh' E; cbn [app] in E.
  - injection E as E. auto.
  - injection E as E _. inversion Hh'; subst. exfalso. now apply (hexdig_not_125 125).
  - injection E as E _. inversion Hh; subst. exfalso. now apply (hexdig_not_125 125).
  - injection E as E1 E2. subst y. inversion Hh; subst. inversion Hh'; subst.
    destruct (IH h' r r') as [-> ->]; auto.
Qed.

Section Dbg.
  Variable esc : N -> bool.

  (* the shape of one escaped character *)
  Lemma esc_char_cases c :
    (esc_char esc c = [c] /\ c <> 92 /\ c <> 34 /\ c <> 0 /\ c <> 9 /\ c <> 10 /\ c <> 13 /\ esc c = false) \/
    (c = 0 /\ esc_char esc c = [92; 48]) \/ (c = 9 /\ esc_char esc c = [92; 116]) \/
    (c = 13 /\ esc_char esc c = [92; 114]) \/ (c = 10 /\ esc_char esc c = [92; 110]) \/
    (c = 92 /\ esc_char esc c = [92; 92]) \/ (c = 34 /\ esc_char esc c = [92; 34]) \/
    (esc_char esc c = [92; 117; 123] ++ hex_of c ++ [125]).
  Proof.
    unfold esc_char.
    destruct (N.eqb_spec c 0); [subst; auto 10|].
    destruct (N.eqb_spec c 9); [subst; auto 10|].
    destruct (N.eqb_spec c 13); [subst; auto 10|].
    destruct (N.eqb_spec c 10); [subst; auto 10|].
    destruct (N.eqb_spec c 92); [subst; auto 10|].
    destruct (N.eqb_spec c 34); [subst; auto 10|].
    destruct (esc c) eqn:E; [auto 10|]. left. repeat split; auto.
  Qed.

  Lemma esc_char_prefix c c' r r' : esc_char esc c ++ r = esc_char esc c' ++ r' -> c = c' /\ r = r'.
  Proof.
    intros E.
    destruct (esc_char_cases c) as [(H & N1 & _)|[(-> & H)|[(-> & H)|[(-> & H)|[(-> & H)|[(-> & H)|[(-> & H)|H]]]]]]];
    destruct (esc_char_cases c') as [(H' & N1' & _)|[(-> & H')|[(-> & H')|[(-> & H')|[(-> & H')|[(-> & H')|[(-> & H')|H']]]]]]];
    try rewrite H in E; try rewrite H' in E; cbn [app] in E;
    try (injection E; intros; subst; auto; congruence);
    try discriminate E.
    (* both \u{..} *)
    rewrite <- !app_assoc in E. cbn [app] in E. injection E as E.
    destruct (hex_run_split _ _ _ _ (hex_of_digits c) (hex_of_digits c') E) as [Eh Er].
    split; [now apply hex_of_inj | exact Er].
  Qed.

  Lemma esc_char_head c : exists x r, esc_char esc c = x :: r /\ x <> 34.
  Proof.
    destruct (esc_char_cases c) as [(H & _ & N2 & _)|[(_ & H)|[(_ & H)|[(_ & H)|[(_ & H)|[(_ & H)|[(_ & H)|H]]]]]]];
      rewrite H; cbn [app]; eexists _, _; (split; [reflexivity|]); try discriminate. exact N2.
  Qed.

  Lemma debug_body_inj n : forall n',
    concat (map (esc_char esc) n) ++ [34] = concat (map (esc_char esc) n') ++ [34] -> n = n'.
  Proof.
    induction n as [|c n IH]; intros [|c' n'] E; cbn [map concat app] in E.
    - reflexivity.
    - destruct (esc_char_head c') as (x & r & Hx & Nx). rewrite Hx in E. cbn [app] in E. injection E as E _. congruence.
    - destruct (esc_char_head c) as (x & r & Hx & Nx). rewrite Hx in E. cbn [app] in E. injection E as E _. congruence.
    - rewrite <- !app_assoc in E. apply esc_char_prefix in E as [-> E]. f_equal. now apply IH.
  Qed.

  Theorem debug_str_inj n n' : debug_str esc n = debug_str esc n' -> n = n'.
  Proof. unfold debug_str. intros E. injection E as E. now apply debug_body_inj. Qed.

  Theorem debug_str_quote n : exists r, debug_str esc n = 34 :: r.
  Proof. unfold debug_str. eauto. Qed.

  Lemma not_ws_consts : is_ws 92 = false /\ is_ws 48 = false /\ is_ws 116 = false /\ is_ws 114 = false /\
    is_ws 110 = false /\ is_ws 34 = false /\ is_ws 117 = false /\ is_ws 123 = false /\ is_ws 125 = false.
  Proof. repeat split; reflexivity. Qed.

  Lemma hex_of_ws_free c : ws_free (hex_of c) = true.
  Proof.
    unfold ws_free. rewrite forallb_forall. pose proof (hex_of_digits c) as H. rewrite Forall_forall in H.
    intros d Hd. now rewrite (hexdig_not_ws d (H d Hd)).
  Qed.

  (* the characters an escape introduces are not whitespace *)
  Lemma esc_char_ws_free c : is_ws c = false -> ws_free (esc_char esc c) = true.
  Proof.
    intros Hc.
    destruct (esc_char_cases c) as [(H & _)|[(_ & H)|[(_ & H)|[(_ & H)|[(_ & H)|[(_ & H)|[(_ & H)|H]]]]]]];
      rewrite H; try reflexivity.
    - cbn [ws_free forallb]. now rewrite Hc.
    - rewrite !ws_free_app, hex_of_ws_free. reflexivity.
  Qed.

  Theorem debug_str_ws_free n : ws_free n = true -> ws_free (debug_str esc n) = true.
  Proof.
    intros H. unfold debug_str. change (34 :: concat (map (esc_char esc) n) ++ [34]) with ([34] ++ concat (map (esc_char esc) n) ++ [34]).
    rewrite !ws_free_app.
    assert (K : ws_free (concat (map (esc_char esc) n)) = true).
    { induction n as [|c n IH]; [reflexivity|]. cbn [ws_free forallb] in H. apply andb_true_iff in H as [H1 H2].
      apply negb_true_iff in H1. cbn [map concat]. rewrite ws_free_app, (esc_char_ws_free c H1). now apply IH. }
    rewrite K. reflexivity.
  Qed.

  (* std escapes every whitespace character except the space; the short escapes cover 9, 10, 13 *)
  Hypothesis Hesc_ws : forall c, is_ws c = true -> c = 32 \/ c = 9 \/ c = 10 \/ c = 13 \/ esc c = true.

  Lemma esc_char_only_sp c : only_sp (esc_char esc c) = true.
  Proof.
    destruct (esc_char_cases c) as [(H & _ & _ & _ & N9 & N10 & N13 & He)|[(_ & H)|[(_ & H)|[(_ & H)|[(_ & H)|[(_ & H)|[(_ & H)|H]]]]]]];
      rewrite H; try reflexivity.
    - cbn [only_sp forallb]. rewrite andb_true_r. destruct (is_ws c) eqn:Hw; [|reflexivity].
      destruct (Hesc_ws c Hw) as [->|[->|[->|[->|E]]]]; try congruence. reflexivity.
    - apply ws_free_only_sp. rewrite !ws_free_app, hex_of_ws_free. reflexivity.
  Qed.

  Theorem debug_str_only_sp n : only_sp (debug_str esc n) = true.
  Proof.
    unfold debug_str. change (34 :: concat (map (esc_char esc) n) ++ [34]) with ([34] ++ concat (map (esc_char esc) n) ++ [34]).
    rewrite !only_sp_app.
    assert (K : only_sp (concat (map (esc_char esc) n)) = true).
    { induction n as [|c n IH]; [reflexivity|]. cbn [map concat]. now rewrite only_sp_app, esc_char_only_sp, IH. }
    rewrite K. reflexivity.
  Qed.
End Dbg.
