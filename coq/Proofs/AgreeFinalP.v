(* Proofs/AgreeFinalP.v -- C03 for whole values, ASCII and LaTeX, with the enum-side premise of
   Proofs/AgreeValueP.v (Henum) discharged by the final C01 theorem (Proofs/EnumFinalP.v). *)
From Nv Require Import Model.AgreeValue Proofs.AgreeValueP Proofs.EnumFinalP Proofs.EnumUnambP Proofs.LexPTables.

Lemma std_alnum_facts : alnum_facts std_alnum = true /\ alnum_facts2 std_alnum = true.
Proof. split; vm_compute; reflexivity. Qed.

Theorem agree_value_final :
  forall (F : Type) (fshow : F -> str) (fread : str -> option F) (fzero : F) (in01 : F -> bool) (E : efmt) (L : lfmt),
  (E = FORMAT_ASCII /\ L = LEX_ASCII) \/ (E = FORMAT_LATEX /\ L = LEX_LATEX) ->
  fread [] = None -> in01 fzero = true ->
  (forall x, in01 x = true -> fread (fshow x) = Some x) ->
  (forall x, in01 x = true -> fshow x <> [] /\ Forall (fun c => is_float_char c = true) (fshow x)) ->
  forall v : narsese F, wf_value std_alnum E v = true -> vals_ok F in01 v = true ->
  (exists st, parse_narsese F fread fzero in01 std_alnum E (fmt_narsese F fshow E v) = EnumParser.POk v st) /\
  lex_parse std_alnum L (fmt_narsese F fshow E v) = LOk (Readme.lex_of_narsese F fshow E v) /\
  lex_then_fold_narsese F fread in01 std_alnum L E (fmt_narsese F fshow E v) = FOk v.
Proof.
  intros F fshow fread fzero in01 E L HEL He Hz Hrt Hcs.
  apply (agree_value_plain F fshow fread fzero in01 E L HEL Hrt Hcs).
  intros v Hw Hv. destruct HEL as [[-> ->]|[-> ->]].
  - destruct std_alnum_facts as [H1 H2]. apply (C01_value_ascii std_alnum H1 H2 F fshow fread fzero in01 in01 He Hz (fun x H => H) Hrt Hcs v Hw Hv).
  - destruct std_alnum_facts as [H1 H2]. apply (C01_value_latex std_alnum H1 H2 F fshow fread fzero in01 in01 He Hz (fun x H => H) Hrt Hcs v Hw Hv).
Qed.
