(* Proofs/LexPDict.v -- prefix comparability, dictionary look-ups and the repaired prefix test:
   generic lemmas for the round-trip proofs of the lexical parser (C02). *)
From Nv Require Import Model.LexSpec Proofs.LexPBase.
From Coq Require Import Lia.
Import ListNotations.

Lemma starts_app_cases a : forall b r, starts a (b ++ r) = true -> starts a b = true \/ starts b a = true.
Proof.
  induction a as [|x a IH]; intros b r H; [left; reflexivity|].
  destruct b as [|y b]; [right; reflexivity|].
  cbn [app starts] in *. apply andb_true_iff in H as [Hxy H]. apply IH in H as [H|H].
  - left. now rewrite Hxy, H.
  - right. apply N.eqb_eq in Hxy. subst. now rewrite N.eqb_refl, H.
Qed.

Lemma compat_false_starts a b : compat a b = false -> forall r, starts a (b ++ r) = false.
Proof.
  unfold compat. intros H r. apply orb_false_iff in H as [H1 H2].
  destruct (starts a (b ++ r)) eqn:E; auto. apply starts_app_cases in E as [E|E]; congruence.
Qed.

Lemma compat_sym a b : compat a b = compat b a.
Proof. unfold compat. apply orb_comm. Qed.

Lemma first_is_nonempty P s : first_is P s = true -> exists c s', s = c :: s' /\ P c = true.
Proof. destruct s as [|c s']; cbn; [discriminate|]. eauto. Qed.

Lemma first_is_length P s : first_is P s = true -> (1 <= length s)%nat.
Proof. destruct s; cbn; [discriminate | lia]. Qed.

(* a keyword whose first character is not an identifier character does not start a text whose
   first character is one *)
Lemma first_is_mismatch (P : N -> bool) b c s :
  first_is (fun x => negb (P x)) b = true -> P c = true -> starts b (c :: s) = false.
Proof.
  intros H Hc. apply first_is_nonempty in H as [x [b' [-> Hx]]]. cbn [starts].
  destruct (N.eqb_spec x c) as [->|]; [|reflexivity]. rewrite Hc in Hx. discriminate.
Qed.

(* ---- the repaired prefix test of parser.rs is the exact prefix test ---- *)
Lemma sws_loop_starts s : forall n, (length n <= length s)%nat -> sws_loop s n = starts n s.
Proof.
  induction s as [|c s IH]; intros n H.
  - destruct n; [reflexivity | cbn in H; lia].
  - destruct n as [|c2 n]; [reflexivity|]. cbn [sws_loop starts length] in *.
    rewrite (N.eqb_sym c2 c). destruct (c =? c2)%N; [|reflexivity]. apply IH. lia.
Qed.

Lemma slice_starts_with_str_starts s n :
  lex_starts_len_guard = true -> slice_starts_with_str s n = starts n s.
Proof.
  intros G. unfold slice_starts_with_str. rewrite G.
  destruct (Nat.leb_spec (length n) (length s)) as [H|H]; cbn [andb].
  - unfold starts_with_str. destruct n as [|c2 n]; [reflexivity|].
    destruct s as [|c s]; [cbn in H; lia|]. apply sws_loop_starts. exact H.
  - destruct (starts n s) eqn:E; [|reflexivity]. apply starts_length in E. lia.
Qed.

(* ---- dictionary look-ups ---- *)
Lemma str_in_In s d : str_in s d = true -> In s d.
Proof.
  unfold str_in. intros H. apply existsb_exists in H as [x [Hx He]]. apply str_eqb_eq in He. now subst.
Qed.

Lemma pair_in_In t d : pair_in t d = true -> In t d.
Proof.
  unfold pair_in. intros H. apply existsb_exists in H as [[a b] [Hx He]].
  apply andb_true_iff in He as [H1 H2]. apply str_eqb_eq in H1, H2. cbn [fst snd] in *.
  destruct t; cbn [fst snd] in *. now subst.
Qed.

Lemma match_prefix_none dict env :
  (forall q, In q dict -> starts q env = false) -> match_prefix dict env = None.
Proof.
  unfold match_prefix. induction dict as [|q d IH]; intros H; cbn [find]; [reflexivity|].
  rewrite (H q (or_introl eq_refl)). apply IH. intros q' Hq. apply H. now right.
Qed.

Lemma match_prefix_pair_none dict env :
  (forall t, In t dict -> starts (fst t) env = false) -> match_prefix_pair dict env = None.
Proof.
  unfold match_prefix_pair. induction dict as [|q d IH]; intros H; cbn [find]; [reflexivity|].
  rewrite (H q (or_introl eq_refl)). apply IH. intros q' Hq. apply H. now right.
Qed.

Lemma match_prefix_first dict follow kw :
  first_match_ok dict follow = true -> In kw dict ->
  forall rest, match_prefix dict (kw ++ follow ++ rest) = Some kw.
Proof.
  unfold match_prefix. induction dict as [|q d IH]; intros H Hin rest; [destruct Hin|].
  cbn [first_match_ok] in H. apply andb_true_iff in H as [H1 H2]. cbn [find].
  destruct (str_eqb_spec q kw) as [->|Hne].
  - now rewrite starts_app.
  - destruct Hin as [Hq|Hin]; [congruence|].
    rewrite forallb_forall in H1. specialize (H1 _ Hin). apply negb_true_iff in H1.
    assert (Hq : starts q (kw ++ follow ++ rest) = false)
      by (rewrite app_assoc; apply compat_false_starts; exact H1).
    rewrite Hq. apply IH; auto.
Qed.

Lemma pairwise_first dict kw :
  pairwise_incompat dict = true -> In kw dict ->
  forall rest, match_prefix dict (kw ++ rest) = Some kw.
Proof.
  unfold match_prefix. induction dict as [|q d IH]; intros H Hin rest; [destruct Hin|].
  cbn [pairwise_incompat] in H. apply andb_true_iff in H as [H1 H2]. cbn [find].
  destruct (str_eqb_spec q kw) as [->|Hne].
  - now rewrite starts_app.
  - destruct Hin as [Hq|Hin]; [congruence|].
    rewrite forallb_forall in H1. specialize (H1 _ Hin). apply negb_true_iff in H1.
    rewrite (compat_false_starts _ _ H1). apply IH; auto.
Qed.

Lemma pairwise_first_pair dict l r :
  pairwise_incompat (map fst dict) = true -> In (l, r) dict ->
  forall rest, match_prefix_pair dict (l ++ rest) = Some (l, r).
Proof.
  unfold match_prefix_pair. induction dict as [|[l' r'] d IH]; intros H Hin rest; [destruct Hin|].
  cbn [map fst pairwise_incompat] in H. apply andb_true_iff in H as [H1 H2]. cbn [find fst].
  destruct Hin as [Hq|Hin].
  - injection Hq as -> ->. now rewrite starts_app.
  - rewrite forallb_forall in H1. assert (Hl : In l (map fst d)) by (apply in_map_iff; exists (l, r); auto).
    specialize (H1 _ Hl). apply negb_true_iff in H1.
    rewrite (compat_false_starts _ _ H1). apply IH; auto.
Qed.

Lemma pairwise_incompat_In dict a b :
  pairwise_incompat dict = true -> In a dict -> In b dict -> a <> b -> compat a b = false.
Proof.
  induction dict as [|q d IH]; intros H Ha Hb Hne; [destruct Ha|].
  cbn [pairwise_incompat] in H. apply andb_true_iff in H as [H1 H2]. rewrite forallb_forall in H1.
  destruct Ha as [->|Ha], Hb as [->|Hb]; try congruence.
  - specialize (H1 _ Hb). now apply negb_true_iff in H1.
  - specialize (H1 _ Ha). apply negb_true_iff in H1. now rewrite compat_sym.
  - auto.
Qed.

(* ---- the name scan ---- *)
Lemma csp_loop_exact verify n : forall k i,
  (forall j, (j < length n)%nat -> verify (drop j n ++ k) = true) ->
  verify k = false \/ k = [] ->
  csp_loop verify (n ++ k) i = (i + length n)%nat.
Proof.
  induction n as [|c n IH]; intros k i Hn Hk; cbn [app length].
  - destruct k as [|c k]; cbn [csp_loop]; [lia|]. destruct Hk as [Hk|Hk]; [|discriminate]. rewrite Hk. lia.
  - cbn [csp_loop]. change (c :: n ++ k) with (drop 0 (c :: n) ++ k). rewrite (Hn 0%nat) by (cbn; lia).
    rewrite IH; auto; [lia|]. intros j Hj. apply (Hn (S j)). cbn; lia.
Qed.
