(* Proofs/TypstValue.v -- C16 part E5: sentences, tasks and Narsese values.
   Token form of a whole value ([typst_value_tokens_proof]) for any float printer whose outputs are
   tokens (non-empty, no whitespace -- true of f64::to_string). *)
From Nv Require Export Proofs.TypstMain.
From Nv Require Import Proofs.DecP.
From Coq Require Import Lia.

(* ---- the shape of the segment lists (regenerated tables) ---- *)
Definition seg_eqb (a b : typst_seg) : bool :=
  match a, b with
  | SegTerm, SegTerm | SegPunct, SegPunct | SegStamp, SegStamp | SegTruth, SegTruth | SegBudget, SegBudget => true
  | SegConst x, SegConst y => str_eqb x y
  | _, _ => false
  end.

Lemma seg_eqb_eq a b : seg_eqb a b = true -> a = b.
Proof. destruct a, b; cbn; try discriminate; auto. intros H. apply str_eqb_eq in H. now subst. Qed.

Lemma seg_list_eqb_eq l l' : list_eqb seg_eqb l l' = true -> l = l'.
Proof.
  revert l'. induction l as [|a l IH]; intros [|b l']; cbn; try discriminate; auto.
  intros H. apply andb_true_iff in H as [H1 H2]. f_equal; [now apply seg_eqb_eq | now apply IH].
Qed.

(* the separators between the items of a sentence / a task *)
Definition sent_sep : str :=
  match typst_sentence_segs with [SegTerm; SegPunct; SegStamp; SegConst c; SegTruth] => c | _ => [] end.
Definition task_seps : str * str * str :=
  match typst_task_segs with
  | [SegBudget; SegConst c1; SegTerm; SegPunct; SegConst c2; SegStamp; SegConst c3; SegTruth] => (c1, c2, c3)
  | _ => ([], [], [])
  end.
Definition task_sep1 : str := fst (fst task_seps).
Definition task_sep2 : str := snd (fst task_seps).
Definition task_sep3 : str := snd task_seps.

Definition all_punct : list punct := [Judgement; Goal; Question; Quest].
Definition stamp_reps : list stamp := [Eternal; Past; Present; Future; Fixed 0].
Definition is_fixed (s : stamp) : bool := match s with Fixed _ => true | _ => false end.

Definition value_tables_ok : bool :=
  list_eqb seg_eqb typst_sentence_segs [SegTerm; SegPunct; SegStamp; SegConst sent_sep; SegTruth] &&
  list_eqb seg_eqb typst_task_segs
    [SegBudget; SegConst task_sep1; SegTerm; SegPunct; SegConst task_sep2; SegStamp; SegConst task_sep3; SegTruth] &&
  Kne sent_sep && Kne task_sep1 && Kne task_sep2 && Kne task_sep3 &&
  forallb (fun p => Kne (typst_punct p)) all_punct &&
  forallb (fun s => Kb (typst_stamp_prefix s) && (if is_fixed s then Kne (typst_stamp_prefix s) else true)) stamp_reps &&
  Kne (fst typst_truth_brackets) && Kne (snd typst_truth_brackets) &&
  Kne (fst typst_budget_brackets) && Kne (snd typst_budget_brackets) &&
  is_token typst_truth_sep && is_token typst_budget_sep.

Lemma value_tables_ok_true : value_tables_ok = true.
Proof. vm_compute. reflexivity. Qed.

Lemma show_Z_token z : is_token (show_Z z) = true.
Proof.
  assert (D : forall n, is_token (show_N n) = true).
  { intros n. destruct (show_N_head n) as (c & s & E & _). unfold is_token. rewrite E. rewrite <- E.
    apply show_N_ws_free. }
  destruct z as [|p|p]; cbn [show_Z].
  - reflexivity.
  - apply D.
  - specialize (D (N.pos p)). unfold is_token in *. destruct (show_N (N.pos p)); [discriminate|].
    cbn [ws_free forallb] in *. exact D.
Qed.

Lemma is_token_ws_free t : is_token t = true -> ws_free t = true.
Proof. destruct t; [discriminate | auto]. Qed.

Lemma Kne_nonempty c : Kne c = true -> c <> [].
Proof. unfold Kne. intros H. apply andb_true_iff in H as [_ H]. destruct c; [discriminate | discriminate]. Qed.

Section Value.
  Variable to_debug : str -> str.
  Hypothesis Hdbg_sp : forall n, only_sp (to_debug n) = true.
  Variable F : Type.
  Variable fshow : F -> str.
  Hypothesis Hf_tok : forall f, is_token (fshow f) = true.
  Hypothesis Hok : tok_tables_ok = true.
  Hypothesis Hval : value_tables_ok = true.

  Lemma Hval_parts :
    typst_sentence_segs = [SegTerm; SegPunct; SegStamp; SegConst sent_sep; SegTruth] /\
    typst_task_segs = [SegBudget; SegConst task_sep1; SegTerm; SegPunct; SegConst task_sep2; SegStamp; SegConst task_sep3; SegTruth] /\
    Kne sent_sep = true /\ Kne task_sep1 = true /\ Kne task_sep2 = true /\ Kne task_sep3 = true /\
    (forall p, Kne (typst_punct p) = true) /\
    (forall s, Kb (typst_stamp_prefix s) = true /\ (is_fixed s = true -> Kne (typst_stamp_prefix s) = true)) /\
    Kne (fst typst_truth_brackets) = true /\ Kne (snd typst_truth_brackets) = true /\
    Kne (fst typst_budget_brackets) = true /\ Kne (snd typst_budget_brackets) = true /\
    is_token typst_truth_sep = true /\ is_token typst_budget_sep = true.
  Proof.
    unfold value_tables_ok in Hval.
    apply andb_true_iff in Hval as [Hv Q14]. apply andb_true_iff in Hv as [Hv Q13].
    apply andb_true_iff in Hv as [Hv Q12]. apply andb_true_iff in Hv as [Hv Q11].
    apply andb_true_iff in Hv as [Hv Q10]. apply andb_true_iff in Hv as [Hv Q9].
    apply andb_true_iff in Hv as [Hv Q8]. apply andb_true_iff in Hv as [Hv Q7].
    apply andb_true_iff in Hv as [Hv Q6]. apply andb_true_iff in Hv as [Hv Q5].
    apply andb_true_iff in Hv as [Hv Q4]. apply andb_true_iff in Hv as [Hv Q3].
    apply andb_true_iff in Hv as [Q1 Q2].
    rewrite forallb_forall in Q7, Q8.
    repeat apply conj; auto using seg_list_eqb_eq.
    - intros p. apply Q7. destruct p; cbn; auto.
    - intros s.
      assert (E : exists r, In r stamp_reps /\ typst_stamp_prefix s = typst_stamp_prefix r /\ is_fixed s = is_fixed r).
      { destruct s as [| | | |z]; [exists Eternal | exists Past | exists Present | exists Future | exists (Fixed 0)];
          (split; [cbn; auto 10 | split; reflexivity]). }
      destruct E as (r & Hr & E1 & E2). specialize (Q8 r Hr). apply andb_true_iff in Q8 as [A B].
      rewrite E1, E2. split; [exact A|]. intros Hf. now rewrite Hf in B.
  Qed.

  (* ---- token lists of the items ---- *)
  Definition floats_tok (sep : str) (fs : list F) : str := ty_components sep (map fshow fs).

  Definition truth_toks (tr : truthv F) : list str :=
    match tr with
    | TruthEmpty => []
    | _ => words (fst typst_truth_brackets) ++ [floats_tok typst_truth_sep (truth_list tr)] ++ words (snd typst_truth_brackets)
    end.
  Definition budget_toks (b : budgetv F) : list str :=
    words (fst typst_budget_brackets) ++
    match budget_list b with [] => [] | fs => [floats_tok typst_budget_sep fs] end ++
    words (snd typst_budget_brackets).
  Definition stamp_toks (st : stamp) : list str :=
    words (typst_stamp_prefix st) ++ match st with Fixed z => [show_Z z] | _ => [] end.
  Definition s_truth0 (s : sentence F) : truthv F := match s_truth s with Some t => t | None => TruthEmpty end.

  Definition sentence_toks (s : sentence F) : list str :=
    toks to_debug (s_term s) ++ words (typst_punct (s_punct s)) ++ stamp_toks (s_stamp s) ++
    words sent_sep ++ truth_toks (s_truth0 s).
  Definition task_toks (k : task F) : list str :=
    budget_toks (snd k) ++ words task_sep1 ++ toks to_debug (s_term (fst k)) ++
    words (typst_punct (s_punct (fst k))) ++ words task_sep2 ++ stamp_toks (s_stamp (fst k)) ++
    words task_sep3 ++ truth_toks (s_truth0 (fst k)).
  Definition value_toks (v : narsese F) : list str :=
    match v with
    | NTerm t => toks to_debug t
    | NSentence s => sentence_toks s
    | NTask k => task_toks k
    end.

  (* a non-empty list of floats joined by a whitespace-free separator is one token *)
  Lemma floats_token sep fs : is_token sep = true -> fs <> [] -> is_token (floats_tok sep fs) = true.
  Proof.
    intros Hs Hne. unfold floats_tok. destruct fs as [|f fs]; [congruence|]. cbn [map ty_components].
    assert (T : ws_free (concat (map (fun y => sep ++ y) (map fshow fs))) = true).
    { clear Hne. induction fs as [|g fs IH]; [reflexivity|]. cbn [map concat]. rewrite !ws_free_app, IH.
      rewrite (is_token_ws_free sep Hs), (is_token_ws_free _ (Hf_tok g)). reflexivity. }
    pose proof (Hf_tok f) as Hf. pose proof (is_token_ws_free _ Hf) as Hw.
    destruct (fshow f) as [|c r] eqn:E; [discriminate|].
    cbn [app is_token]. change (c :: r ++ concat (map (fun y => sep ++ y) (map fshow fs))) with ((c :: r) ++ concat (map (fun y => sep ++ y) (map fshow fs))).
    now rewrite ws_free_app, Hw, T.
  Qed.

  Lemma Kne_wsb c y : Kne c = true -> wsb_start (c ++ y) = true.
  Proof. apply Kne_start. Qed.

  Lemma bracketed_words l r mid :
    Kne l = true -> Kne r = true -> is_token mid = true ->
    only_sp (l ++ mid ++ r) = true /\ words (l ++ mid ++ r) = words l ++ [mid] ++ words r /\
    wsb_start (l ++ mid ++ r) = true.
  Proof.
    intros Hl Hr Hm. pose proof (Kne_Kb l Hl) as Kl. pose proof (Kne_Kb r Hr) as Kr. repeat split.
    - now rewrite !only_sp_app, (Kb_only_sp l Kl), (Kb_only_sp r Kr), (ws_free_only_sp mid (is_token_ws_free mid Hm)).
    - now rewrite (words_K_l l _ Kl), (words_K_r mid r Kr), (words_token mid Hm).
    - now apply Kne_start.
  Qed.

  Lemma truth_words tr :
    only_sp (raw_truth F fshow tr) = true /\ words (raw_truth F fshow tr) = truth_toks tr /\
    wsb_start (raw_truth F fshow tr) = true.
  Proof.
    destruct Hval_parts as (_ & _ & _ & _ & _ & _ & _ & _ & T1 & T2 & _ & _ & T3 & _).
    destruct tr as [|f|f c]; [repeat split; reflexivity| |].
    - apply bracketed_words; auto. apply floats_token; [exact T3 | discriminate].
    - apply bracketed_words; auto. apply floats_token; [exact T3 | discriminate].
  Qed.

  Lemma budget_words b :
    only_sp (raw_budget F fshow b) = true /\ words (raw_budget F fshow b) = budget_toks b /\
    wsb_start (raw_budget F fshow b) = true.
  Proof.
    destruct Hval_parts as (_ & _ & _ & _ & _ & _ & _ & _ & _ & _ & B1 & B2 & _ & B3).
    unfold raw_budget, ty_floats, budget_toks.
    destruct (budget_list b) as [|f fs] eqn:E.
    - cbn [map ty_components app]. pose proof (Kne_Kb _ B1) as K1. pose proof (Kne_Kb _ B2) as K2.
      split; [|split].
      + now rewrite only_sp_app, (Kb_only_sp _ K1), (Kb_only_sp _ K2).
      + now apply words_K_l.
      + now apply Kne_start.
    - apply (bracketed_words _ _ (floats_tok typst_budget_sep (f :: fs))); auto.
      apply floats_token; [exact B3 | discriminate].
  Qed.

  Lemma stamp_words st :
    only_sp (raw_stamp st) = true /\ words (raw_stamp st) = stamp_toks st /\ wsb_start (raw_stamp st) = true.
  Proof.
    destruct Hval_parts as (_ & _ & _ & _ & _ & _ & _ & S & _).
    destruct (S st) as [K Kf]. unfold raw_stamp, stamp_toks.
    destruct st as [| | | |z];
      try (rewrite !app_nil_r; split; [now apply Kb_only_sp | split; [reflexivity | now apply Kb_start]]).
    specialize (Kf eq_refl). split; [|split].
    - now rewrite only_sp_app, (Kb_only_sp _ K), (ws_free_only_sp _ (is_token_ws_free _ (show_Z_token z))).
    - now rewrite (words_K_l _ _ K), (words_token _ (show_Z_token z)).
    - now apply Kne_start.
  Qed.

  Lemma seg_chain a b : forall ta tb,
    only_sp a = true -> only_sp b = true -> words a = ta -> words b = tb -> wsb_start b = true ->
    only_sp (a ++ b) = true /\ words (a ++ b) = ta ++ tb.
  Proof.
    intros ta tb Ha Hb Ea Eb Hs. split; [now rewrite only_sp_app, Ha, Hb|]. now rewrite (words_app_r a b Hs), Ea, Eb.
  Qed.

  Theorem sentence_tokens_proof s : typst_sentence F fshow to_debug s = TOk (unwords (sentence_toks s)).
  Proof.
    destruct Hval_parts as (E1 & _ & K1 & _ & _ & _ & P & _).
    destruct (raw_toks_proof to_debug Hdbg_sp Hok (s_term s)) as (rt & Hrt & Hro & Hrw).
    destruct (truth_words (s_truth0 s)) as (T1 & T2 & T3).
    destruct (stamp_words (s_stamp s)) as (S1 & S2 & S3).
    pose proof (P (s_punct s)) as Kp. pose proof (Kne_Kb _ Kp) as Kp'. pose proof (Kne_Kb _ K1) as K1'.
    unfold typst_sentence. rewrite E1. cbn [segs_raw seg_raw]. rewrite Hrt. cbn [tbind]. unfold raw_punct.
    fold (s_truth0 s). rewrite app_nil_r.
    (* the four tails, from the right *)
    destruct (seg_chain sent_sep (raw_truth F fshow (s_truth0 s)) _ _ (Kb_only_sp _ K1') T1 eq_refl T2 T3) as [A1 A2].
    assert (A3 : wsb_start (sent_sep ++ raw_truth F fshow (s_truth0 s)) = true) by now apply Kne_start.
    destruct (seg_chain (raw_stamp (s_stamp s)) _ _ _ S1 A1 S2 A2 A3) as [B1 B2].
    assert (B3 : wsb_start (raw_stamp (s_stamp s) ++ sent_sep ++ raw_truth F fshow (s_truth0 s)) = true).
    { destruct (raw_stamp (s_stamp s)) eqn:Er; [exact A3 | exact S3]. }
    destruct (seg_chain (typst_punct (s_punct s)) _ _ _ (Kb_only_sp _ Kp') B1 eq_refl B2 B3) as [C1 C2].
    assert (C3 : wsb_start (typst_punct (s_punct s) ++ raw_stamp (s_stamp s) ++ sent_sep ++ raw_truth F fshow (s_truth0 s)) = true)
      by now apply Kne_start.
    destruct (seg_chain rt _ _ _ Hro C1 Hrw C2 C3) as [D1 D2].
    rewrite (pp_words _ D1), D2. unfold sentence_toks. rewrite <- ?app_assoc. reflexivity.
  Qed.

  Theorem task_tokens_proof k : typst_task F fshow to_debug k = TOk (unwords (task_toks k)).
  Proof.
    destruct Hval_parts as (_ & E2 & _ & K1 & K2 & K3 & P & _).
    destruct k as [s b]. cbn [fst snd].
    destruct (raw_toks_proof to_debug Hdbg_sp Hok (s_term s)) as (rt & Hrt & Hro & Hrw).
    destruct (truth_words (s_truth0 s)) as (T1 & T2 & T3).
    destruct (stamp_words (s_stamp s)) as (S1 & S2 & S3).
    destruct (budget_words b) as (G1 & G2 & G3).
    pose proof (P (s_punct s)) as Kp. pose proof (Kne_Kb _ Kp) as Kp'.
    pose proof (Kne_Kb _ K1) as K1'. pose proof (Kne_Kb _ K2) as K2'. pose proof (Kne_Kb _ K3) as K3'.
    unfold typst_task. cbn [fst snd]. rewrite E2. cbn [segs_raw seg_raw]. rewrite Hrt. cbn [tbind]. unfold raw_punct.
    fold (s_truth0 s). rewrite app_nil_r.
    destruct (seg_chain task_sep3 (raw_truth F fshow (s_truth0 s)) _ _ (Kb_only_sp _ K3') T1 eq_refl T2 T3) as [A1 A2].
    assert (A3 : wsb_start (task_sep3 ++ raw_truth F fshow (s_truth0 s)) = true) by now apply Kne_start.
    destruct (seg_chain (raw_stamp (s_stamp s)) _ _ _ S1 A1 S2 A2 A3) as [B1 B2].
    assert (B3 : wsb_start (task_sep2 ++ raw_stamp (s_stamp s) ++ task_sep3 ++ raw_truth F fshow (s_truth0 s)) = true)
      by now apply Kne_start.
    assert (B4 : wsb_start (raw_stamp (s_stamp s) ++ task_sep3 ++ raw_truth F fshow (s_truth0 s)) = true).
    { destruct (raw_stamp (s_stamp s)) eqn:Er; [exact A3 | exact S3]. }
    destruct (seg_chain task_sep2 _ _ _ (Kb_only_sp _ K2') B1 eq_refl B2 B4) as [C1 C2].
    destruct (seg_chain (typst_punct (s_punct s)) _ _ _ (Kb_only_sp _ Kp') C1 eq_refl C2 B3) as [D1 D2].
    assert (D3 : wsb_start (typst_punct (s_punct s) ++ task_sep2 ++ raw_stamp (s_stamp s) ++ task_sep3 ++ raw_truth F fshow (s_truth0 s)) = true)
      by now apply Kne_start.
    destruct (seg_chain rt _ _ _ Hro D1 Hrw D2 D3) as [E1' E2'].
    assert (E3 : wsb_start (rt ++ typst_punct (s_punct s) ++ task_sep2 ++ raw_stamp (s_stamp s) ++ task_sep3 ++ raw_truth F fshow (s_truth0 s)) = true \/ True) by now right.
    assert (F3 : wsb_start (task_sep1 ++ rt ++ typst_punct (s_punct s) ++ task_sep2 ++ raw_stamp (s_stamp s) ++ task_sep3 ++ raw_truth F fshow (s_truth0 s)) = true)
      by now apply Kne_start.
    assert (F1 : only_sp (task_sep1 ++ rt ++ typst_punct (s_punct s) ++ task_sep2 ++ raw_stamp (s_stamp s) ++ task_sep3 ++ raw_truth F fshow (s_truth0 s)) = true)
      by now rewrite only_sp_app, (Kb_only_sp _ K1'), E1'.
    assert (F2 : words (task_sep1 ++ rt ++ typst_punct (s_punct s) ++ task_sep2 ++ raw_stamp (s_stamp s) ++ task_sep3 ++ raw_truth F fshow (s_truth0 s)) =
                 words task_sep1 ++ (toks to_debug (s_term s) ++ words (typst_punct (s_punct s)) ++ words task_sep2 ++ stamp_toks (s_stamp s) ++ words task_sep3 ++ truth_toks (s_truth0 s)))
      by now rewrite (words_K_l _ _ K1'), E2'.
    destruct (seg_chain (raw_budget F fshow b) _ _ _ G1 F1 G2 F2 F3) as [H1 H2].
    rewrite (pp_words _ H1), H2. unfold task_toks. cbn [fst snd]. rewrite <- ?app_assoc. reflexivity.
  Qed.

  Theorem typst_value_tokens_proof v : typst_narsese F fshow to_debug v = TOk (unwords (value_toks v)).
  Proof.
    destruct v as [t|s|k]; cbn [typst_narsese value_toks].
    - now apply typst_tokens_proof.
    - apply sentence_tokens_proof.
    - apply task_tokens_proof.
  Qed.

  Lemma value_toks_tokens v : Forall (fun x => is_token x = true) (value_toks v).
  Proof.
    pose proof (typst_value_tokens_proof v) as H.
    (* the token list is the word list of a string *)
    assert (E : exists s, value_toks v = words s).
    { destruct v as [t|s|k]; cbn [value_toks].
      - destruct (raw_toks_proof to_debug Hdbg_sp Hok t) as (r & _ & _ & <-). eauto.
      - unfold sentence_toks.
        destruct Hval_parts as (_ & _ & K1 & _ & _ & _ & P & _).
        exists (unwords (sentence_toks s)). clear H.
        (* every piece is a list of words *)
        symmetry. apply words_unwords. unfold sentence_toks.
        rewrite !Forall_app. repeat split.
        + apply (toks_tokens to_debug Hdbg_sp Hok).
        + apply words_tokens.
        + destruct (stamp_words (s_stamp s)) as (_ & <- & _). apply words_tokens.
        + apply words_tokens.
        + destruct (truth_words (s_truth0 s)) as (_ & <- & _). apply words_tokens.
      - exists (unwords (task_toks k)). clear H. symmetry. apply words_unwords. unfold task_toks.
        rewrite !Forall_app. repeat split; try apply words_tokens.
        + destruct (budget_words (snd k)) as (_ & <- & _). apply words_tokens.
        + apply (toks_tokens to_debug Hdbg_sp Hok).
        + destruct (stamp_words (s_stamp (fst k))) as (_ & <- & _). apply words_tokens.
        + destruct (truth_words (s_truth0 (fst k))) as (_ & <- & _). apply words_tokens. }
    destruct E as [s ->]. apply words_tokens.
  Qed.
End Value.
