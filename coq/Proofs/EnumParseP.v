(* Proofs/EnumParseP.v -- facts about the enum parser model that do not depend on the surface syntax:
   C08 (results depend only on format and input), C12 (every Ok value is well-formed, for ANY input),
   C15 (classification by the items present; casts). *)
From Nv Require Import Model.EnumOk Proofs.EnumTotalP Proofs.EqHashP.

Arguments s_len {F} _.
Arguments s_head {F} _.
Arguments s_rest {F} _.
Arguments s_mid {F} _.

(* ------------------------------------------------------------------------------------------ *)
(* well-formedness of parser output (C12) *)
Fixpoint term_ok (t : term) : bool :=
  match t with
  | TName _ n => nonempty n
  | TUnit _ | TNum _ _ => true
  | TSet _ l => negb (Nat.eqb (length l) 0) && forallb term_ok l && nodup_eqb l   (* the HashSet invariant *)
  | TVec _ l => negb (Nat.eqb (length l) 0) && forallb term_ok l
  | TImg _ i l => (i <=? nlen l) && forallb term_ok l
  | TBox1 _ a => term_ok a
  | TBox2 _ a b => term_ok a && term_ok b
  end.

(* every name constructor really stores the new name (table fact used by the non-empty-name argument) *)
Definition setname_table_ok : bool :=
  forallb (fun c => match setnamek_name c with SnReplace => true | _ => false end) all_name_ctor.

Lemma fold_insert_In l : forall acc x, In x (fold_left set_insert l acc) -> In x acc \/ In x l.
Proof.
  induction l as [|y l IH]; intros acc x H; cbn [fold_left] in H; [now left|].
  apply IH in H as [H|H]; [|right; now right].
  unfold set_insert in H. destruct (set_mem y acc); [now left|].
  apply in_app_or in H as [H|[<-|[]]]; [now left | right; now left].
Qed.

Lemma fold_insert_len l : forall acc, (length acc <= length (fold_left set_insert l acc))%nat.
Proof.
  induction l as [|y l IH]; intros acc; cbn [fold_left]; [lia|].
  etransitivity; [|apply IH]. unfold set_insert. destruct (set_mem y acc); [lia | rewrite app_length; lia].
Qed.

Lemma mk_set_nonempty y l : (0 < length (mk_set (y :: l)))%nat.
Proof.
  unfold mk_set. cbn [fold_left]. unfold set_insert at 2. cbn [set_mem existsb app].
  pose proof (fold_insert_len l [y]) as H. cbn [length] in H. lia.
Qed.

Lemma forallb_Forall_iff0 {A} (f : A -> bool) l : forallb f l = true <-> Forall (fun x => f x = true) l.
Proof. rewrite forallb_forall, Forall_forall. reflexivity. Qed.

(* well-formed parser output satisfies the representation invariant of set payloads (C06 / C07's hypothesis) *)
Lemma term_ok_set_ok : forall t, term_ok t = true -> set_ok t = true.
Proof.
  induction t as [c n|c|c i|c l IH|c l IH|c i l IH|c a IH|c a b IHa IHb] using term_ind'; cbn [term_ok set_ok]; intros H; auto.
  - apply andb_true_iff in H as [H Hnd]. apply andb_true_iff in H as [_ H]. rewrite Hnd, andb_true_r.
    apply forallb_Forall_iff0. apply forallb_Forall_iff0 in H. clear Hnd. induction IH; inversion H; subst; constructor; auto.
  - apply andb_true_iff in H as [_ H]. apply forallb_Forall_iff0. apply forallb_Forall_iff0 in H. induction IH; inversion H; subst; constructor; auto.
  - apply andb_true_iff in H as [_ H]. apply forallb_Forall_iff0. apply forallb_Forall_iff0 in H. induction IH; inversion H; subst; constructor; auto.
  - apply andb_true_iff in H as [H1 H2]. now rewrite IHa, IHb.
Qed.

Lemma mk_set_ok l : l <> [] -> forallb term_ok l = true ->
  negb (Nat.eqb (length (mk_set l)) 0) && forallb term_ok (mk_set l) && nodup_eqb (mk_set l) = true.
Proof.
  intros Hne Hall. destruct l as [|y l]; [congruence|].
  pose proof (mk_set_nonempty y l) as Hlen.
  assert (Hso : forallb set_ok (y :: l) = true).
  { apply forallb_forall. intros x Hx. rewrite forallb_forall in Hall. apply term_ok_set_ok, Hall, Hx. }
  destruct (mk_set_spec (y :: l) Hso) as (Hnd & _ & _).
  rewrite Hnd, andb_true_r.
  apply andb_true_iff. split.
  - destruct (length (mk_set (y :: l))); [lia | reflexivity].
  - apply forallb_forall. intros x Hx. unfold mk_set in Hx. apply fold_insert_In in Hx as [[]|Hx].
    rewrite forallb_forall in Hall. now apply Hall.
Qed.

Lemma forallb_Forall_iff {A} (f : A -> bool) l : forallb f l = true <-> Forall (fun x => f x = true) l.
Proof. rewrite forallb_forall, Forall_forall. reflexivity. Qed.

Lemma split_placeholder_spec l : forall i j r,
  split_placeholder i l = Some (j, r) ->
  (i <= j)%N /\ (j <= i + nlen r)%N /\ (forall P, Forall P l -> Forall P r).
Proof.
  induction l as [|x l IH]; intros i j r H; cbn [split_placeholder] in H; [discriminate|].
  destruct (term_eqb x placeholder).
  - injection H as <- <-. repeat split; [lia | unfold nlen; lia | intros P HP; now inversion HP].
  - destruct (split_placeholder (i + 1) l) as [[j' r']|] eqn:Hs; [|discriminate].
    injection H as <- <-. destruct (IH _ _ _ Hs) as (H1 & H2 & H3).
    repeat split; [lia | unfold nlen in *; cbn [length]; lia |].
    intros P HP. inversion HP; subst. constructor; auto.
Qed.

Section Parse.
  Variable F : Type.
  Variable fread : str -> option F.
  Variable fzero : F.
  Variable in01 : F -> bool.
  Variable is_alnum : N -> bool.
  Variable E : efmt.

  Notation pstate := (pstate F).
  Notation pres := (pres F).
  Notation mid := (mid F).

  (* ---------------- C08 ---------------- *)
  Lemma reset_to_fresh : reset_clears_mid = true -> forall st i, reset_to F st i = new_state F i.
  Proof. intros H st i. unfold reset_to, new_state. now rewrite H. Qed.

  Definition to_outcome (r : pres (narsese F)) : option (outcome (narsese F)) :=
    match r with POk v _ => Some (OOk v) | PErr _ => Some OErr | PPanic | PFuel => None end.

  Fixpoint seq_opt {A} (l : list (option A)) : option (list A) :=
    match l with
    | [] => Some []
    | Some a :: l' => option_map (cons a) (seq_opt l')
    | None :: _ => None
    end.

  (* parse_chars builds the same state from the same characters (ParseState::new = from_env . chars) *)
  Definition parse_chars (chars : str) : pres (narsese F) := run_parse F fread fzero in01 is_alnum E (new_state F chars).

  Theorem parse_multi_independent :
    reset_clears_mid = true ->
    forall inputs st,
      parse_multi_from F fread fzero in01 is_alnum E st inputs =
      seq_opt (map (fun i => to_outcome (parse_narsese F fread fzero in01 is_alnum E i)) inputs).
  Proof.
    intros Hr. induction inputs as [|i inputs IH]; intros st; cbn [parse_multi_from map seq_opt]; [reflexivity|].
    rewrite (reset_to_fresh Hr). unfold parse_narsese.
    destruct (run_parse F fread fzero in01 is_alnum E (new_state F i)); cbn [to_outcome]; try reflexivity; now rewrite IH.
  Qed.

  Theorem parse_chars_same input : parse_chars input = parse_narsese F fread fzero in01 is_alnum E input.
  Proof. reflexivity. Qed.

  (* ---------------- C15: classification ---------------- *)
  Definition has {A} (o : option A) : bool := match o with Some _ => true | None => false end.

  Theorem classify_spec st :
    match transform_mid_result F st with
    | POk (NTask (s, b)) _ =>
        m_budget F (s_mid st) = Some b /\ has (m_punct F (s_mid st)) = true /\ m_term F (s_mid st) = Some (s_term s) /\
        m_punct F (s_mid st) = Some (s_punct s)
    | POk (NSentence s) _ =>
        m_budget F (s_mid st) = None /\ m_term F (s_mid st) = Some (s_term s) /\ m_punct F (s_mid st) = Some (s_punct s)
    | POk (NTerm t) _ => m_term F (s_mid st) = Some t /\ m_punct F (s_mid st) = None
    | PErr _ => m_term F (s_mid st) = None
    | PPanic => m_term F (s_mid st) = None
    | PFuel => False
    end.
  Proof.
    unfold transform_mid_result, perr.
    destruct (m_term F (s_mid st)) as [t|]; [|destruct (err_window_ok F st); reflexivity].
    destruct (m_punct F (s_mid st)) as [p|]; [|split; reflexivity].
    destruct (m_budget F (s_mid st)) as [b|]; destruct p; cbn; repeat split; reflexivity.
  Qed.

  (* the kind is a function of which items are present: task iff budget & term & punctuation ... *)
  Theorem classify_kind st v st' :
    transform_mid_result F st = POk v st' ->
    has (m_term F (s_mid st)) = true /\
    nv_is_task v = has (m_budget F (s_mid st)) && has (m_punct F (s_mid st)) /\
    nv_is_sentence v = negb (has (m_budget F (s_mid st))) && has (m_punct F (s_mid st)) /\
    nv_is_term v = negb (has (m_punct F (s_mid st))).
  Proof.
    unfold transform_mid_result, perr.
    destruct (m_term F (s_mid st)) as [t|]; [|destruct (err_window_ok F st); discriminate].
    destruct (m_punct F (s_mid st)) as [p|]; [destruct (m_budget F (s_mid st)) as [b|]|];
      intros H; injection H as <- _; cbn; rewrite ?andb_false_r; repeat split; reflexivity.
  Qed.

  (* ---------------- C12: invariant ---------------- *)
  Definition truth_ok (t : truthv F) : bool := forallb in01 (truth_list t).
  Definition budget_ok (b : budgetv F) : bool := forallb in01 (budget_list b).
  Definition mid_ok (m : mid) : Prop :=
    (forall t, m_term F m = Some t -> term_ok t = true) /\
    (forall t, m_truth F m = Some t -> truth_ok t = true) /\
    (forall b, m_budget F m = Some b -> budget_ok b = true).

  Definition sentence_ok (s : sentence F) : bool :=
    term_ok (s_term s) && match s_truth s with Some t => truth_ok t | None => true end.
  Definition narsese_ok (v : narsese F) : bool :=
    match v with
    | NTerm t => term_ok t
    | NSentence s => sentence_ok s
    | NTask (s, b) => sentence_ok s && budget_ok b
    end.

  (* [keeps Q st r]: the state a result carries (Ok or Err) has a mid result satisfying Q *)
  Definition keeps {A} (Q : mid -> Prop) (r : pres A) : Prop :=
    match r with POk _ st' | PErr st' => Q (s_mid st') | _ => True end.
  (* [same st r]: the mid result is untouched, and an Ok value satisfies P *)
  Definition same {A} (P : A -> Prop) (st : pstate) (r : pres A) : Prop :=
    match r with POk a st' => s_mid st' = s_mid st /\ P a | PErr st' => s_mid st' = s_mid st | _ => True end.

  Lemma same_impl {A} (P Q : A -> Prop) st st0 r :
    same P st r -> s_mid st = s_mid st0 -> (forall a, P a -> Q a) -> same Q st0 r.
  Proof.
    destruct r as [a st'|st'| |]; cbn; intros H Hm Himp; auto.
    - destruct H as [H1 H2]. split; [congruence | auto].
    - congruence.
  Qed.

  Lemma pbind_same {A B} (P : A -> Prop) (Q : B -> Prop) st r f :
    same P st r -> (forall a st', s_mid st' = s_mid st -> P a -> same Q st' (f a st')) -> same Q st (pbind F r f).
  Proof.
    destruct r as [a st'| | |]; cbn; auto. intros [Hm Hp] Hf. specialize (Hf a st' Hm Hp).
    destruct (f a st') as [b st''|st''| |]; cbn in *; auto.
    - destruct Hf as [H1 H2]. split; [congruence | exact H2].
    - congruence.
  Qed.

  Lemma mid_step n st : s_mid (step F n st) = s_mid st.
  Proof. reflexivity. Qed.
  Lemma mid_skip kw st : s_mid (skip F kw st) = s_mid st.
  Proof. reflexivity. Qed.
  Lemma mid_skip_spaces_fuel n : forall st, s_mid (skip_spaces_fuel F E n st) = s_mid st.
  Proof. induction n as [|n IH]; intros st; cbn [skip_spaces_fuel]; [reflexivity|]. destruct (st_starts F (space_parse E) st); [now rewrite IH | reflexivity]. Qed.
  Lemma mid_skip_spaces st : s_mid (skip_spaces F E st) = s_mid st.
  Proof. apply mid_skip_spaces_fuel. Qed.
  Lemma mid_skip_and_spaces kw st : s_mid (skip_and_spaces F E kw st) = s_mid st.
  Proof. unfold skip_and_spaces. now rewrite mid_skip_spaces. Qed.
  Lemma mid_skip_after_spaces kw st : s_mid (skip_after_spaces F E kw st) = s_mid st.
  Proof. unfold skip_after_spaces. now rewrite mid_skip, mid_skip_spaces. Qed.

  Ltac midrw := repeat first [rewrite mid_skip_after_spaces | rewrite mid_skip_and_spaces | rewrite mid_skip_spaces | rewrite mid_skip | rewrite mid_step].

  Lemma perr_same {A} (P : A -> Prop) st : same P st (perr F st).
  Proof. unfold perr. destruct (err_window_ok F st); cbn; auto. Qed.
  Lemma perr_same' {A} (P : A -> Prop) st st0 : s_mid st = s_mid st0 -> same P st0 (perr F st).
  Proof. intros H. unfold perr. destruct (err_window_ok F st); cbn; auto. Qed.

  Lemma floats_same fuel : forall n sep rb acc buf st,
    same (fun _ => True) st (floats_loop F fread E fuel n sep rb acc buf st).
  Proof.
    induction fuel as [|fuel IH]; intros n sep rb acc buf st; cbn [floats_loop]; [exact I|].
    destruct (can_consume F st && Nat.ltb (length acc) n); [|cbn; auto].
    destruct (s_rest st) as [|c r]; [exact I|].
    assert (Hrec : forall k acc' buf', same (fun _ => True) st (floats_loop F fread E fuel n sep rb acc' buf' (step F k st))).
    { intros k acc' buf'. eapply same_impl; [apply IH | apply mid_step | auto]. }
    destruct (st_starts F (space_parse E) st); [apply Hrec|].
    destruct (is_float_char c); [apply Hrec|].
    destruct (st_starts F sep st); [destruct (fread buf); [apply Hrec | apply perr_same]|].
    destruct (st_starts F rb st); [destruct (fread buf); cbn; auto | apply perr_same].
  Qed.

  Lemma mk_truth_ok l t : mk_truth F in01 l = Some t -> truth_ok t = true.
  Proof.
    unfold truth_ok. destruct l as [|f [|c l]]; cbn [mk_truth].
    - intros H; injection H as <-; reflexivity.
    - destruct (in01 f) eqn:Hf; [|discriminate]. intros H; injection H as <-. cbn. now rewrite Hf.
    - destruct (in01 f) eqn:Hf; [|discriminate]. destruct (in01 c) eqn:Hc; [|discriminate].
      intros H; injection H as <-. cbn. now rewrite Hf, Hc.
  Qed.
  Lemma mk_budget_ok l b : mk_budget F in01 l = Some b -> budget_ok b = true.
  Proof.
    unfold budget_ok. destruct l as [|p [|d [|q l]]]; cbn [mk_budget].
    - intros H; injection H as <-; reflexivity.
    - destruct (in01 p) eqn:Hp; [|discriminate]. intros H; injection H as <-. cbn. now rewrite Hp.
    - destruct (in01 p) eqn:Hp; [|discriminate]. destruct (in01 d) eqn:Hd; [|discriminate].
      intros H; injection H as <-. cbn. now rewrite Hp, Hd.
    - destruct (in01 p) eqn:Hp; [|discriminate]. destruct (in01 d) eqn:Hd; [|discriminate]. destruct (in01 q) eqn:Hq; [|discriminate].
      intros H; injection H as <-. cbn. now rewrite Hp, Hd, Hq.
  Qed.

  Lemma mid_ok_set_truth m t : mid_ok m -> truth_ok t = true -> mid_ok (mid_set_truth F m t).
  Proof. intros (H1 & H2 & H3) Ht. repeat split; cbn; auto. intros t' H; injection H as <-; exact Ht. Qed.
  Lemma mid_ok_set_budget m b : mid_ok m -> budget_ok b = true -> mid_ok (mid_set_budget F m b).
  Proof. intros (H1 & H2 & H3) Hb. repeat split; cbn; auto. intros b' H; injection H as <-; exact Hb. Qed.
  Lemma mid_ok_set_stamp m s : mid_ok m -> mid_ok (mid_set_stamp F m s).
  Proof. intros (H1 & H2 & H3). repeat split; cbn; auto. Qed.
  Lemma mid_ok_set_punct m p : mid_ok m -> mid_ok (mid_set_punct F m p).
  Proof. intros (H1 & H2 & H3). repeat split; cbn; auto. Qed.
  Lemma mid_ok_set_term m t : mid_ok m -> term_ok t = true -> mid_ok (mid_set_term F m t).
  Proof. intros (H1 & H2 & H3) Ht. repeat split; cbn; auto. intros t' H; injection H as <-; exact Ht. Qed.

  Lemma keeps_of_same {A} (P : A -> Prop) st (r : pres A) : same P st r -> mid_ok (s_mid st) -> keeps mid_ok r.
  Proof. destruct r; cbn; intuition congruence. Qed.

  Lemma consume_truth_keeps st : mid_ok (s_mid st) -> keeps mid_ok (consume_truth F fread fzero in01 E st).
  Proof.
    intros Hm. unfold consume_truth, parse_floats.
    pose proof (floats_same (length (s_rest (skip_and_spaces F E (sentence_truth_brackets_0 E) st)) + 2 + 1) 2
                  (sentence_truth_separator E) (sentence_truth_brackets_1 E) [] [] (skip_and_spaces F E (sentence_truth_brackets_0 E) st)) as Hs.
    destruct (floats_loop F fread E _ 2 _ _ [] [] _) as [l st2|st2| |]; cbn [pbind keeps]; cbn [same] in Hs; auto.
    - destruct Hs as [Hs _]. rewrite mid_skip_and_spaces in Hs.
      destruct (negb (forallb in01 (pad F fzero 2 l))).
      + unfold perr. destruct (err_window_ok F st2); cbn [keeps]; [congruence | exact I].
      + destruct (mk_truth F in01 l) as [t|] eqn:Ht; [|exact I]. cbn.
        apply mid_ok_set_truth; [midrw; congruence | apply (mk_truth_ok l), Ht].
    - rewrite mid_skip_and_spaces in Hs. congruence.
  Qed.

  Lemma consume_budget_keeps st : mid_ok (s_mid st) -> keeps mid_ok (consume_budget F fread fzero in01 E st).
  Proof.
    intros Hm. unfold consume_budget, parse_floats.
    pose proof (floats_same (length (s_rest (skip_and_spaces F E (task_budget_brackets_0 E) st)) + 3 + 1) 3
                  (task_budget_separator E) (task_budget_brackets_1 E) [] [] (skip_and_spaces F E (task_budget_brackets_0 E) st)) as Hs.
    destruct (floats_loop F fread E _ 3 _ _ [] [] _) as [l st2|st2| |]; cbn [pbind keeps]; cbn [same] in Hs; auto.
    - destruct Hs as [Hs _]. rewrite mid_skip_and_spaces in Hs.
      destruct (negb (forallb in01 (pad F fzero 3 l))).
      + unfold perr. destruct (err_window_ok F st2); cbn [keeps]; [congruence | exact I].
      + destruct (mk_budget F in01 l) as [b|] eqn:Hb; [|exact I].
        destruct budget_requires_close.
        * destruct (st_starts F (task_budget_brackets_1 E) (skip_spaces F E st2)).
          -- cbn [keeps set_mid s_mid]. apply mid_ok_set_budget; [midrw; congruence | apply (mk_budget_ok l), Hb].
          -- unfold perr. destruct (err_window_ok F _); cbn [keeps]; [midrw; congruence | exact I].
        * cbn [keeps set_mid s_mid]. apply mid_ok_set_budget; [midrw; congruence | apply (mk_budget_ok l), Hb].
    - rewrite mid_skip_and_spaces in Hs. congruence.
  Qed.

  Lemma parse_isize_same st : same (fun _ => True) st (parse_isize F st).
  Proof.
    unfold parse_isize. set (buf := if can_consume F st then int_scan (s_rest st) else []).
    destruct buf as [|c b]; [apply perr_same'; apply mid_step|].
    destruct (read_isize (c :: b)); [cbn; auto | apply perr_same'; apply mid_step].
  Qed.

  Lemma consume_stamp_keeps st : mid_ok (s_mid st) -> keeps mid_ok (consume_stamp F E st).
  Proof.
    intros Hm. unfold consume_stamp.
    set (st1 := skip_and_spaces F E (sentence_stamp_brackets_0 E) st).
    assert (H1 : s_mid st1 = s_mid st) by apply mid_skip_and_spaces.
    destruct (find_arm F E _ st1) as [[g [sk kind]]|].
    2:{ unfold perr. destruct (err_window_ok F st1); cbn [keeps]; [congruence | exact I]. }
    assert (Hfin : forall s st3, s_mid st3 = s_mid st ->
              keeps mid_ok (POk tt (skip_after_spaces F E (sentence_stamp_brackets_1 E) (set_mid F st3 (mid_set_stamp F (s_mid st3) s))) : pres unit)).
    { intros s st3 H3. cbn [keeps]. rewrite mid_skip_after_spaces. cbn [set_mid s_mid]. apply mid_ok_set_stamp. congruence. }
    destruct kind; try (apply Hfin; rewrite mid_skip; exact H1).
    set (st2' := if stamp_fixed_skip_spaces then skip_spaces F E (skip F (sk E) st1) else skip F (sk E) st1).
    assert (H2 : s_mid st2' = s_mid st).
    { unfold st2'. destruct stamp_fixed_skip_spaces; [rewrite mid_skip_spaces|]; rewrite mid_skip; exact H1. }
    pose proof (parse_isize_same st2') as Hs.
    destruct (parse_isize F st2') as [z st3|st3| |]; cbn [pbind]; cbn [same] in Hs; try exact I.
    - apply Hfin. destruct Hs; congruence.
    - cbn [keeps]. congruence.
  Qed.

  Lemma consume_punctuation_keeps st : mid_ok (s_mid st) -> keeps mid_ok (consume_punctuation F E st).
  Proof.
    intros Hm. unfold consume_punctuation.
    destruct (find_arm F E _ st) as [[g [sk p]]|].
    - cbn [keeps set_mid s_mid]. apply mid_ok_set_punct. exact Hm.
    - unfold perr. destruct (err_window_ok F st); cbn; [exact Hm | exact I].
  Qed.

  (* ---- terms ---- *)
  Lemma name_loop_mid fuel : forall acc st, s_mid (snd (name_loop F is_alnum E fuel acc st)) = s_mid st.
  Proof.
    induction fuel as [|fuel IH]; intros acc st; cbn [name_loop]; [reflexivity|].
    destruct (can_consume F st); [|reflexivity]. destruct (s_rest st); [reflexivity|].
    destruct (copula_at_head F E st); [reflexivity|]. destruct (name_charb is_alnum E n); [|reflexivity].
    rewrite IH. apply mid_step.
  Qed.

  Hypothesis Htab : setname_table_ok = true.

  Lemma set_atom_name_ok init name t : name <> [] ->
    set_atom_name (atom_of_init init) name = (true, t) -> term_ok t = true.
  Proof.
    intros Hne. destruct init as [c|c|c]; unfold set_atom_name; cbn [atom_of_init setnamek_of].
    - assert (Hc : setnamek_name c = SnReplace).
      { unfold setname_table_ok in Htab. rewrite forallb_forall in Htab.
        assert (Hin : In c all_name_ctor) by (destruct c; cbn; tauto).
        specialize (Htab c Hin). destruct (setnamek_name c); congruence. }
      rewrite Hc. intros H; inversion H; subst. cbn. destruct name; [congruence | reflexivity].
    - destruct (setnamek_unit c); intros H; inversion H; subst; reflexivity.
    - destruct (setnamek_num c); try (intros H; inversion H; subst; reflexivity).
      destruct (read_usize name); intros H; inversion H; subst; reflexivity.
  Qed.

  Lemma p_atom_same st : same (fun t => term_ok t = true) st (p_atom F is_alnum E st).
  Proof.
    unfold p_atom. destruct (find_arm F E parse_atom_arms st) as [[p init]|]; [|apply perr_same].
    pose proof (name_loop_mid (length (s_rest (skip F (p E) st))) [] (skip F (p E) st)) as Hm.
    destruct (name_loop F is_alnum E _ [] (skip F (p E) st)) as [name st2]. cbn [snd] in Hm. rewrite mid_skip in Hm.
    assert (Hnamed : forall t0, (forall t, set_atom_name t0 name = (true, t) -> name <> [] -> term_ok t = true) ->
              same (fun t => term_ok t = true) st
                (match name with
                 | [] => perr F st2
                 | _ :: _ => match set_atom_name t0 name with (true, t) => POk t st2 | (false, _) => perr F st2 end
                 end)).
    { intros t0 Ht0. destruct name as [|c name]; [apply perr_same', Hm|].
      destruct (set_atom_name t0 (c :: name)) as [[|] t] eqn:Hs; [|apply perr_same', Hm].
      cbn. split; [exact Hm | apply (Ht0 t eq_refl); discriminate]. }
    destruct init as [c|c|c].
    - apply Hnamed. intros t H Hne. apply (set_atom_name_ok (AIName c) name t Hne H).
    - cbn. auto.
    - apply Hnamed. intros t H Hne. apply (set_atom_name_ok (AINum c) name t Hne H).
  Qed.

  Definition pt_ok (pt : pstate -> pres term) : Prop := forall st, same (fun t => term_ok t = true) st (pt st).

  Lemma p_terms_same pt rb : pt_ok pt -> forall fuel acc st,
    forallb term_ok acc = true ->
    same (fun ts => forallb term_ok ts = true) st (p_terms F E pt rb fuel acc st).
  Proof.
    intros Hpt. induction fuel as [|fuel IH]; intros acc st Hacc; cbn [p_terms]; [exact I|].
    destruct (can_consume F st); [|cbn; auto].
    assert (Hrec : forall k, same (fun ts => forallb term_ok ts = true) st (p_terms F E pt rb fuel acc (step F k st))).
    { intros k. eapply same_impl; [apply IH, Hacc | apply mid_step | auto]. }
    destruct (st_starts F (space_parse E) st); [apply Hrec|].
    destruct (st_starts F (compound_separator E) st); [apply Hrec|].
    destruct (st_starts F rb st); [cbn; auto|].
    eapply pbind_same; [apply Hpt|]. cbn beta. intros t st' Hm Ht.
    apply IH. rewrite forallb_app, Hacc. cbn. now rewrite Ht.
  Qed.

  Lemma fill_compound_same i ts st :
    ts <> [] -> forallb term_ok ts = true -> same (fun t => term_ok t = true) st (fill_compound F i ts st).
  Proof.
    intros Hne Hts. unfold fill_compound.
    destruct (comp_fill_kind i) eqn:Hk.
    - destruct i; try apply perr_same. destruct ts as [|x [|y ts]]; try apply perr_same.
      cbn in *. rewrite andb_true_r in Hts. auto.
    - destruct i; try apply perr_same. destruct ts as [|x [|y [|z ts]]]; try apply perr_same.
      cbn in *. rewrite andb_true_r in Hts. auto.
    - destruct i; try apply perr_same.
      destruct (split_placeholder 0 ts) as [[idx rest]|] eqn:Hs; [|apply perr_same].
      destruct (split_placeholder_spec ts 0 idx rest Hs) as (H1 & H2 & H3).
      cbn. split; [reflexivity|]. apply andb_true_iff. split; [apply N.leb_le; lia|].
      apply forallb_Forall_iff. apply H3. now apply forallb_Forall_iff.
    - destruct (push_components (comp_initial i) ts) as [[|] t] eqn:Hp; [|apply perr_same].
      cbn. split; [reflexivity|]. unfold push_components in Hp.
      destruct i; cbn [comp_initial pushk_of] in Hp.
      + destruct (pushk_set c); try discriminate. injection Hp as <-. unfold set_extend.
        change (fold_left set_insert ts []) with (mk_set ts). cbn [term_ok]. now apply mk_set_ok.
      + destruct (pushk_vec c); try discriminate. injection Hp as <-. cbn [app term_ok].
        rewrite Hts, andb_true_r. destruct ts; [congruence | reflexivity].
      + destruct (pushk_img c); try discriminate. injection Hp as <-. cbn [app term_ok]. rewrite Hts.
        apply andb_true_iff; split; [apply N.leb_le; lia | reflexivity].
      + destruct (pushk_box1 c); discriminate.
      + destruct (pushk_box2 c); discriminate.
  Qed.

  Section WithPt.
    Variable pt : pstate -> pres term.
    Hypothesis Hpt : pt_ok pt.

    Lemma p_term_set_same c lb rb st : same (fun t => term_ok t = true) st (p_term_set F E pt c lb rb st).
    Proof.
      unfold p_term_set.
      eapply same_impl with (st := skip_and_spaces F E lb st); [|apply mid_skip_and_spaces | intros a H; exact H].
      eapply pbind_same; [apply (p_terms_same pt rb Hpt); reflexivity|].
      cbn beta. intros ts st2 Hm Hts.
      destruct ts as [|t ts]; [apply perr_same'; apply mid_skip_after_spaces|].
      cbn [same]. split; [apply mid_skip_after_spaces|]. cbn [term_ok]. apply mk_set_ok; [discriminate | exact Hts].
    Qed.

    Lemma p_compound_same st : same (fun t => term_ok t = true) st (p_compound F E pt st).
    Proof.
      unfold p_compound.
      set (st1 := skip_and_spaces F E (compound_brackets_0 E) st).
      assert (H1 : s_mid st1 = s_mid st) by apply mid_skip_and_spaces.
      destruct (find_arm F E (map (fun g => (g, tt)) parse_compound_reject) st1) as [[g u]|].
      { apply perr_same'. rewrite mid_skip. exact H1. }
      destruct (find_arm F E parse_compound_arms st1) as [[kw init]|]; [|apply perr_same', H1].
      eapply same_impl with (st := skip F (kw E) st1); [|rewrite mid_skip; exact H1 | intros a H; exact H].
      eapply pbind_same; [apply (p_terms_same pt _ Hpt); reflexivity|].
      cbn beta. intros ts st3 Hm Hts.
      destruct ts as [|t ts]; [apply perr_same|].
      eapply pbind_same; [apply fill_compound_same; [discriminate | exact Hts]|].
      cbn beta. intros t' st4 Hm4 Ht'. cbn [same]. split; [apply mid_skip_after_spaces | exact Ht'].
    Qed.

    Lemma build_statement_ok b s p : term_ok s = true -> term_ok p = true -> term_ok (build_statement b s p) = true.
    Proof.
      intros Hs Hp. destruct b as [c|[]]; cbn [build_statement term_ok]; rewrite ?Hs, ?Hp; try reflexivity.
      - rewrite (mk_set_ok [s]); [reflexivity | discriminate | cbn; now rewrite Hs].
      - rewrite (mk_set_ok [p]); [reflexivity | discriminate | cbn; now rewrite Hp].
      - rewrite (mk_set_ok [s]), (mk_set_ok [p]); [reflexivity | discriminate | cbn; now rewrite Hp | discriminate | cbn; now rewrite Hs].
    Qed.

    Lemma p_statement_same st : same (fun t => term_ok t = true) st (p_statement F E pt st).
    Proof.
      unfold p_statement.
      eapply same_impl with (st := skip_and_spaces F E (statement_brackets_0 E) st); [|apply mid_skip_and_spaces | intros a H; exact H].
      eapply pbind_same; [apply Hpt|]. cbn beta. intros subj st2 Hm2 Hsubj.
      destruct (find_arm F E parse_statement_arms (skip_spaces F E st2)) as [[kw b]|]; [|apply perr_same'; apply mid_skip_spaces].
      eapply same_impl with (st := skip_spaces F E (skip F (kw E) (skip_spaces F E st2)));
        [|now rewrite mid_skip_spaces, mid_skip, mid_skip_spaces | intros a H; exact H].
      eapply pbind_same; [apply Hpt|]. cbn beta. intros pred st5 Hm5 Hpred.
      cbn [same]. split; [apply mid_skip_after_spaces | now apply build_statement_ok].
    Qed.
  End WithPt.

  Lemma p_term_same fuel : pt_ok (p_term F is_alnum E fuel).
  Proof.
    induction fuel as [|fuel IH]; intros st; cbn [p_term]; [exact I|].
    destruct (st_starts F (compound_brackets_set_extension_0 E) st); [apply p_term_set_same, IH|].
    destruct (st_starts F (compound_brackets_set_intension_0 E) st); [apply p_term_set_same, IH|].
    destruct (st_starts F (compound_brackets_0 E) st); [apply p_compound_same, IH|].
    destruct (st_starts F (statement_brackets_0 E) st); [apply p_statement_same, IH|].
    apply p_atom_same.
  Qed.

  Lemma consume_term_keeps st : mid_ok (s_mid st) -> keeps mid_ok (consume_term F is_alnum E st).
  Proof.
    intros Hm. unfold consume_term, parse_term.
    pose proof (p_term_same (term_fuel F st) st) as Hs.
    destruct (p_term F is_alnum E (term_fuel F st) st) as [t st'|st'| |]; cbn [pbind keeps]; cbn [same] in Hs; try exact I.
    - destruct Hs as [Hs Ht]. cbn [set_mid s_mid]. apply mid_ok_set_term; [congruence | exact Ht].
    - congruence.
  Qed.

  Lemma try_branch_keeps orig guard branch k cur :
    mid_ok (s_mid cur) ->
    (forall s, mid_ok (s_mid s) -> keeps mid_ok (branch s)) ->
    (forall c, mid_ok (s_mid c) -> keeps mid_ok (k c)) ->
    keeps mid_ok (try_branch F orig guard branch k cur).
  Proof.
    intros Hc Hb Hk. unfold try_branch. destruct (guard cur); [|apply Hk, Hc].
    specialize (Hb (restore F orig cur) Hc).
    destruct (branch (restore F orig cur)); cbn in Hb |- *; auto.
  Qed.

  Lemma consume_one_keeps st : mid_ok (s_mid st) -> keeps mid_ok (consume_one F fread fzero in01 is_alnum E st).
  Proof.
    intros Hm. unfold consume_one.
    apply try_branch_keeps; [exact Hm | intros s Hs; cbn; exact Hs | intros c1 H1].
    apply try_branch_keeps; [exact H1 | apply consume_budget_keeps | intros c2 H2].
    apply try_branch_keeps; [exact H2 | apply consume_term_keeps | intros c3 H3].
    apply try_branch_keeps; [exact H3 | apply consume_punctuation_keeps | intros c4 H4].
    apply try_branch_keeps; [exact H4 | apply consume_stamp_keeps | intros c5 H5].
    apply try_branch_keeps; [exact H5 | apply consume_truth_keeps | intros c6 H6].
    unfold perr. destruct (err_window_ok F c6); cbn; [exact H6 | exact I].
  Qed.

  Lemma build_loop_keeps fuel : forall st, mid_ok (s_mid st) -> keeps mid_ok (build_loop F fread fzero in01 is_alnum E fuel st).
  Proof.
    induction fuel as [|fuel IH]; intros st Hm; cbn [build_loop]; [exact I|].
    destruct (can_consume F st); [|exact Hm].
    destruct (can_consume F (skip_spaces F E st)).
    - pose proof (consume_one_keeps (skip_spaces F E st)) as H1. rewrite mid_skip_spaces in H1. specialize (H1 Hm).
      destruct (consume_one F fread fzero in01 is_alnum E (skip_spaces F E st)); cbn [pbind]; cbn [keeps] in H1; auto.
    - apply IH. rewrite mid_skip_spaces. exact Hm.
  Qed.

  Lemma mid_ok_empty : mid_ok (mid_empty F).
  Proof. repeat split; cbn; discriminate. Qed.

  Lemma transform_ok st v st' : mid_ok (s_mid st) -> transform_mid_result F st = POk v st' -> narsese_ok v = true.
  Proof.
    intros (H1 & H2 & H3). unfold transform_mid_result.
    destruct (m_term F (s_mid st)) as [t|] eqn:Ht; [|unfold perr; destruct (err_window_ok F st); discriminate].
    specialize (H1 t eq_refl).
    destruct (m_punct F (s_mid st)) as [p|].
    - assert (Hs : sentence_ok (from_punctuation t p (unwrap_stamp (m_stamp F (s_mid st))) (unwrap_truth F (m_truth F (s_mid st)))) = true).
      { unfold sentence_ok. destruct p; cbn; rewrite H1; cbn; try reflexivity;
          (destruct (m_truth F (s_mid st)) as [tr|]; [apply H2; reflexivity | reflexivity]). }
      destruct (m_budget F (s_mid st)) as [b|]; intros H; injection H as <- _; cbn [narsese_ok]; rewrite Hs; [apply H3; reflexivity | reflexivity].
    - intros H; injection H as <- _. exact H1.
  Qed.

  Theorem parse_output_ok input v st :
    parse_narsese F fread fzero in01 is_alnum E input = POk v st -> narsese_ok v = true.
  Proof.
    unfold parse_narsese, run_parse, build_mid_result.
    pose proof (build_loop_keeps (S (S (length (s_rest (new_state F input))))) (new_state F input) mid_ok_empty) as Hk.
    destruct (build_loop F fread fzero in01 is_alnum E _ (new_state F input)) as [u st1|st1| |]; cbn [pbind]; try discriminate.
    cbn [keeps] in Hk. apply transform_ok, Hk.
  Qed.

  (* the side doors: stand-alone truth / budget parsers return range-checked values too *)
  Theorem door_truth_ok input t st : door_truth F fread fzero in01 E input = POk t st -> truth_ok t = true.
  Proof.
    unfold door_truth, door.
    pose proof (consume_truth_keeps (new_state F input) mid_ok_empty) as Hk.
    destruct (consume_truth F fread fzero in01 E (new_state F input)) as [u st1|st1| |]; cbn [pbind]; try discriminate.
    destruct (err_window_ok F st1); [|discriminate]. destruct (m_truth F (s_mid st1)) as [t'|] eqn:Ht; [|discriminate].
    intros H; injection H as <- _. cbn [keeps] in Hk. apply Hk, Ht.
  Qed.
  Theorem door_budget_ok input b st : door_budget F fread fzero in01 E input = POk b st -> budget_ok b = true.
  Proof.
    unfold door_budget, door.
    pose proof (consume_budget_keeps (new_state F input) mid_ok_empty) as Hk.
    destruct (consume_budget F fread fzero in01 E (new_state F input)) as [u st1|st1| |]; cbn [pbind]; try discriminate.
    destruct (err_window_ok F st1); [|discriminate]. destruct (m_budget F (s_mid st1)) as [b'|] eqn:Hb; [|discriminate].
    intros H; injection H as <- _. cbn [keeps] in Hk. apply Hk, Hb.
  Qed.
End Parse.

Lemma setname_table_ok_true : setname_table_ok = true.
Proof. vm_compute. reflexivity. Qed.

(* ---------------- C15: casts on the enum and lexical models ---------------- *)
Lemma cast_roundtrip_enum F (s : sentence F) : try_cast_to_sentence (cast_to_task s) = inl s.
Proof. reflexivity. Qed.
Lemma cast_back_enum F (k : task F) :
  try_cast_to_sentence k = if budget_empty (snd k) then inl (fst k) else inr k.
Proof. reflexivity. Qed.
Lemma cast_roundtrip_lex (s : lsentence) : ltry_cast_to_sentence (lcast_to_task s) = inl s.
Proof. reflexivity. Qed.
Lemma cast_back_lex (k : ltask) :
  ltry_cast_to_sentence k = match lt_budget k with [] => inl (lt_sentence k) | _ => inr k end.
Proof. reflexivity. Qed.

Lemma seq_opt_spec {A} (l : list (option A)) outs :
  seq_opt l = Some outs ->
  length outs = length l /\ forall k, option_map Some (nth_error outs k) = nth_error l k.
Proof.
  revert outs; induction l as [|[a|] l IH]; intros outs H; cbn [seq_opt] in H; try discriminate.
  - injection H as <-. split; [reflexivity | intros [|k]; reflexivity].
  - destruct (seq_opt l) as [o|]; [|discriminate]. injection H as <-.
    destruct (IH o eq_refl) as [H1 H2]. split; [cbn; now rewrite H1|].
    intros [|k]; cbn; [reflexivity | apply H2].
Qed.

Lemma multi_shipped :
  forall (F : Type) (fread : str -> option F) (fzero : F) (in01 : F -> bool) (is_alnum : N -> bool) (E : efmt),
    shipped E -> forall (inputs : list str),
    exists outs, parse_multi F fread fzero in01 is_alnum E inputs = Some outs /\ length outs = length inputs /\
                 forall k i, nth_error inputs k = Some i ->
                   option_map Some (nth_error outs k) = Some (to_outcome F (parse_narsese F fread fzero in01 is_alnum E i)).
Proof.
  intros F fread fzero in01 is_alnum E HE inputs.
  pose proof (shipped_ok E HE) as Hok. destruct shipped_total_ok as [_ Hf].
  destruct (parse_multi_total F fread fzero in01 is_alnum E Hok Hf inputs (new_state F [])) as [Hne Hlen].
  unfold parse_multi. destruct (parse_multi_from F fread fzero in01 is_alnum E (new_state F []) inputs) as [outs|] eqn:Hm; [|congruence].
  exists outs. split; [reflexivity|]. split; [now apply Hlen|].
  rewrite (parse_multi_independent F fread fzero in01 is_alnum E reset_clears_mid_true) in Hm.
  apply seq_opt_spec in Hm as [_ Hn]. intros k i Hk. rewrite Hn.
  rewrite nth_error_map, Hk. reflexivity.
Qed.

Lemma term_ok_meaning : forall t : term,
  term_ok t = true ->
  match t with
  | TName _ n => n <> []
  | TSet _ l => l <> [] /\ forallb term_ok l = true /\ nodup_eqb l = true
  | TVec _ l => l <> [] /\ forallb term_ok l = true
  | TImg _ i l => (i <= nlen l)%N /\ forallb term_ok l = true
  | TBox1 _ a => term_ok a = true
  | TBox2 _ a b => term_ok a = true /\ term_ok b = true
  | _ => True
  end.
Proof.
  intros [c n|c|c i|c l|c l|c i l|c a|c a b]; cbn [term_ok]; intros H; auto.
  - destruct n; [discriminate | discriminate].
  - apply andb_true_iff in H as [H H3]. apply andb_true_iff in H as [H1 H2].
    split; [destruct l; [discriminate | discriminate] | split; assumption].
  - apply andb_true_iff in H as [H1 H2]. split; [destruct l; [discriminate | discriminate] | exact H2].
  - apply andb_true_iff in H as [H1 H2]. split; [apply N.leb_le, H1 | exact H2].
  - apply andb_true_iff in H. exact H.
Qed.

Lemma parse_output_set_ok :
  forall (F : Type) (fread : str -> option F) (fzero : F) (in01 : F -> bool) (is_alnum : N -> bool) (E : efmt)
         (input : str) (v : narsese F) (st : pstate F),
    parse_narsese F fread fzero in01 is_alnum E input = POk v st ->
    set_ok (match v with NTerm t => t | NSentence s => s_term s | NTask k => s_term (fst k) end) = true.
Proof.
  intros F fread fzero in01 is_alnum E input v st H.
  pose proof (parse_output_ok F fread fzero in01 is_alnum E setname_table_ok_true input v st H) as Hok.
  apply term_ok_set_ok. destruct v as [t|s|[s b]]; cbn [narsese_ok] in Hok.
  - exact Hok.
  - unfold sentence_ok in Hok. apply andb_true_iff in Hok as [Hok _]. exact Hok.
  - apply andb_true_iff in Hok as [Hok _]. unfold sentence_ok in Hok. apply andb_true_iff in Hok as [Hok _]. exact Hok.
Qed.
