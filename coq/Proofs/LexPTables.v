(* Proofs/LexPTables.v -- the boolean table obligations of C02 on the three regenerated lexical
   format tables, with char::is_alphanumeric instantiated by the range table dumped from Rust's
   std (Gen/Unicode.v); satisfiability examples; the K5 witness.  All by computation: re-checked
   whenever Gen/LexFormats.v or Gen/Unicode.v changes. *)
From Nv Require Import Model.LexSpec Proofs.LexPFinal Gen.Unicode.
Import ListNotations.

Definition std_alnum (c : N) : bool := in_ranges_cc alnum_ranges c.

(* every dictionary used as a suffix matcher (punctuations, stamp right brackets) is iterated so that
   no keyword is tried before a longer one that extends it on the matching side -- part of
   lex_items_ok ([suffix_first_ok], [stamp_first_ok]); prefix dictionaries are iterated in
   descending code-point order, which always tries an extension before the keyword it extends *)
Fixpoint dict_order_prefix_ok (dict : list str) : bool :=
  match dict with
  | [] => true
  | kw :: rest => forallb (fun later => negb (starts kw later)) rest && dict_order_prefix_ok rest
  end.
Fixpoint dict_order_suffix_ok (dict : list str) : bool :=
  match dict with
  | [] => true
  | kw :: rest => forallb (fun later => negb (ends kw later)) rest && dict_order_suffix_ok rest
  end.
Fixpoint distinct (dict : list str) : bool :=
  match dict with
  | [] => true
  | kw :: rest => negb (existsb (str_eqb kw) rest) && distinct rest
  end.

(* no keyword is tried before a different keyword of which it is a prefix (resp. suffix) *)
Definition dict_order_ok (F : lfmt) : bool :=
  let C := compile F in
  dict_order_prefix_ok (c_prefixes C) && dict_order_prefix_ok (c_connecters C) &&
  dict_order_prefix_ok (c_copulas C) && dict_order_prefix_ok (map fst (c_set_brackets C)) &&
  dict_order_suffix_ok (c_punctuations C) && dict_order_suffix_ok (map snd (c_stamp_brackets C)) &&
  distinct (c_prefixes C) && distinct (c_connecters C) && distinct (c_copulas C) &&
  distinct (c_punctuations C) && distinct (map fst (c_set_brackets C)) && distinct (map snd (c_set_brackets C)) &&
  distinct (map snd (c_stamp_brackets C)) &&
  (* compiling loses no keyword: every raw keyword is in its dictionary *)
  forallb (fun k => str_in k (c_prefixes C)) (l_prefixes_raw F) &&
  forallb (fun k => str_in k (c_connecters C)) (l_connecters_raw F) &&
  forallb (fun k => str_in k (c_copulas C)) (l_copulas_raw F) &&
  forallb (fun k => str_in k (c_punctuations C)) (l_punctuations_raw F) &&
  forallb (fun t => pair_in t (c_set_brackets C)) (l_set_brackets_raw F) &&
  forallb (fun t => pair_in t (c_stamp_brackets C)) (l_stamp_brackets_raw F).

Lemma shipped_dict_order_ok : forallb dict_order_ok shipped_lex_formats = true.
Proof. vm_compute. reflexivity. Qed.

Lemma shipped_lex_rt_ok : forallb (fun F => lex_rt_ok F std_alnum) shipped_lex_formats = true.
Proof. vm_compute. reflexivity. Qed.

Lemma ascii_selfdelim : lex_selfdelim LEX_ASCII std_alnum = true.
Proof. vm_compute. reflexivity. Qed.
Lemma latex_selfdelim : lex_selfdelim LEX_LATEX std_alnum = true.
Proof. vm_compute. reflexivity. Qed.
Lemma han_not_selfdelim : lex_selfdelim LEX_HAN std_alnum = false.
Proof. vm_compute. reflexivity. Qed.

Lemma In_shipped_rt_ok F : In F shipped_lex_formats -> lex_rt_ok F std_alnum = true.
Proof. intros H. pose proof shipped_lex_rt_ok as G. rewrite forallb_forall in G. auto. Qed.

(* ---- K5: the Han witness (in the vocabulary, fails the round trip) ---- *)
Definition k5_witness : lnarsese :=
  NTerm (LStatement [24471] (LAtom [] [120; 23558]) (LAtom [] [121])).  (* Statement("得", "x将", "y") *)

Lemma k5_witness_fails :
  vocab_ok LEX_HAN std_alnum k5_witness = true /\
  lex_parse std_alnum LEX_HAN (lex_fmt LEX_HAN k5_witness) =
  LOk (NTerm (LStatement [23558; 24471] (LAtom [] [120]) (LAtom [] [121]))).  (* copula "将得", subject "x" *)
Proof. split; vm_compute; reflexivity. Qed.

(* ---- the hypotheses of the round-trip theorems are satisfiable ---- *)
(* the ASCII task  $0.5;0.7$ <( *, {SELF}, $a) --> ^go>. :|: %1.0;0.9%  *)
Definition sample_task_ascii : lnarsese :=
  NTask {| lt_budget := [[48; 46; 53]; [48; 46; 55]];
           lt_sentence := {| ls_term := LStatement [45; 45; 62]
                                          (LCompound [42] [LSet [123] [LAtom [] [83; 69; 76; 70]] [125]; LAtom [36] [97]])
                                          (LAtom [94] [103; 111]);
                             ls_punct := [46]; ls_stamp := [58; 124; 58];
                             ls_truth := [[49; 46; 48]; [48; 46; 57]] |} |}.

Lemma sample_task_ascii_ok :
  vocab_ok LEX_ASCII std_alnum sample_task_ascii = true /\
  lex_parse std_alnum LEX_ASCII (lex_fmt LEX_ASCII sample_task_ascii) = LOk sample_task_ascii.
Proof. split; vm_compute; reflexivity. Qed.
