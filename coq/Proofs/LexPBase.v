(* Proofs/LexPBase.v -- list / string lemmas shared by the proofs about the lexical parser model. *)
From Nv Require Import Model.LexParser.
From Coq Require Import Lia.
Import ListNotations.

Lemma drop_0 {A} (l : list A) : drop 0 l = l.
Proof. destruct l; reflexivity. Qed.

Lemma drop_all {A} (l : list A) n : (length l <= n)%nat -> drop n l = [].
Proof. revert l; induction n as [|n IH]; intros [|x l] H; cbn [drop length] in *; auto; try lia. apply IH; lia. Qed.

Lemma drop_drop {A} (l : list A) a b : drop a (drop b l) = drop (a + b) l.
Proof.
  revert l a; induction b as [|b IH]; intros l a.
  - rewrite drop_0. f_equal; lia.
  - replace (a + S b)%nat with (S (a + b)) by lia. destruct l as [|x l]; cbn [drop].
    + now rewrite drop_nil.
    + apply IH.
Qed.

Lemma drop_app_ge {A} (p r : list A) n : (length p <= n)%nat -> drop n (p ++ r) = drop (n - length p) r.
Proof.
  revert n; induction p as [|x p IH]; intros n H; cbn [app length] in *.
  - f_equal; lia.
  - destruct n as [|n]; [lia|]. cbn [drop]. rewrite IH by lia. f_equal.
Qed.

Lemma drop_app_le {A} (p r : list A) n : (n <= length p)%nat -> drop n (p ++ r) = drop n p ++ r.
Proof.
  revert n; induction p as [|x p IH]; intros n H; cbn [app length] in *.
  - assert (n = 0)%nat by lia. subst. now rewrite !drop_0.
  - destruct n as [|n]; cbn [drop app]; [reflexivity|]. apply IH; lia.
Qed.

Lemma take_app_length {A} (p r : list A) : take (length p) (p ++ r) = p.
Proof. induction p as [|x p IH]; cbn [take length app]; [destruct r; reflexivity|]. now rewrite IH. Qed.

Lemma take_all {A} (l : list A) n : (length l <= n)%nat -> take n l = l.
Proof. revert l; induction n as [|n IH]; intros [|x l] H; cbn [take length] in *; auto; try lia. f_equal; apply IH; lia. Qed.

Lemma take_length_le {A} (l : list A) n : (n <= length l)%nat -> length (take n l) = n.
Proof. intros H. rewrite take_length. lia. Qed.

Lemma drop_take_app {A} (l : list A) a b : (a <= b)%nat -> drop a l = drop a (take b l) ++ drop b l.
Proof.
  intros H. rewrite <- (take_drop b l) at 1.
  destruct (Nat.le_gt_cases b (length l)) as [Hb|Hb].
  - rewrite drop_app_le; [reflexivity|]. rewrite take_length_le; lia.
  - rewrite (drop_all l b) by lia. rewrite app_nil_r, (take_all l b) by lia. now rewrite app_nil_r.
Qed.

Lemma nth_error_drop {A} (l : list A) a k : nth_error (drop a l) k = nth_error l (a + k).
Proof.
  revert l; induction a as [|a IH]; intros l; [now rewrite drop_0|].
  destruct l as [|x l]; cbn [drop]; [now destruct k|]. apply IH.
Qed.

Lemma starts_length_le p s : starts p s = true -> (length p <= length s)%nat.
Proof. apply starts_length. Qed.

Lemma starts_split p s : starts p s = true -> s = p ++ drop (length p) s.
Proof. intros H. apply starts_spec in H as [r ->]. now rewrite drop_app_length. Qed.

Lemma ends_split p s : ends p s = true -> s = take (length s - length p) s ++ p.
Proof.
  intros H. apply ends_spec in H as [r ->]. rewrite app_length.
  replace (length r + length p - length p)%nat with (length r) by lia. now rewrite take_app_length.
Qed.

Lemma ends_length_le p s : ends p s = true -> (length p <= length s)%nat.
Proof. intros H. apply ends_spec in H as [r ->]. rewrite app_length; lia. Qed.

Lemma filter_length_le {A} (f : A -> bool) l : (length (filter f l) <= length l)%nat.
Proof. induction l as [|x l IH]; cbn [filter length]; [lia|]. destruct (f x); cbn [length]; lia. Qed.

Lemma find_some_pair {A} (f : A -> bool) l x : find f l = Some x -> In x l /\ f x = true.
Proof. apply find_some. Qed.

Lemma Forall_drop {A} (P : A -> Prop) l n : Forall P l -> Forall P (drop n l).
Proof. revert l; induction n as [|n IH]; intros [|x l] H; cbn [drop]; auto. inversion H; auto. Qed.

Lemma In_concat_intro {A} (x : A) l ls : In l ls -> In x l -> In x (concat ls).
Proof. intros H1 H2. apply in_concat. eauto. Qed.
