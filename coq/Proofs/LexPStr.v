(* Proofs/LexPStr.v -- suffix comparability, the two bracket scans on well-formed content, and
   std's trim_start_matches / trim_end_matches / split on `l ++ join sep entries ++ r`. *)
From Nv Require Import Model.LexSpec Proofs.LexPBase Proofs.LexPDict.
From Coq Require Import Lia.
Import ListNotations.

Lemma scompat_compat_rev a b : scompat a b = compat (rev a) (rev b).
Proof. reflexivity. Qed.

Lemma scompat_false_ends a b : scompat a b = false -> forall x, ends a (x ++ b) = false.
Proof.
  intros H x. unfold ends. rewrite rev_app_distr. apply compat_false_starts. exact H.
Qed.

Lemma ends_last_mismatch (P : N -> bool) z x c :
  last_is (fun y => negb (P y)) z = true -> P c = true -> ends z (x ++ [c]) = false.
Proof.
  intros H Hc. unfold ends. rewrite rev_app_distr. cbn [rev app].
  eapply first_is_mismatch; eauto.
Qed.

Lemma ends_app p r : ends p (r ++ p) = true.
Proof. apply ends_spec. now exists r. Qed.

Lemma ends_app_same a r x : ends (a ++ r) (x ++ r) = ends a x.
Proof.
  unfold ends. rewrite !rev_app_distr. induction (rev r) as [|c rr IH]; cbn [app starts]; [reflexivity|].
  now rewrite N.eqb_refl, IH.
Qed.

Lemma last_is_nonempty P s : last_is P s = true -> exists s' c, s = s' ++ [c] /\ P c = true.
Proof.
  unfold last_is. intros H. apply first_is_nonempty in H as [c [r [Hr Hc]]].
  exists (rev r), c. split; auto. rewrite <- (rev_involutive s), Hr. reflexivity.
Qed.

(* ---- the forward scan over `content right rest` ---- *)
Lemma ssp_loop_content right verify content rest : forall i,
  forallb verify content = true -> first_is (fun c => negb (verify c)) right = true ->
  ssp_loop right verify (content ++ right ++ rest) i = Some (i + length content + length right)%nat.
Proof.
  intros i Hc Hr. revert i. induction content as [|x content IH]; intros i.
  - cbn [app length]. apply first_is_nonempty in Hr as [c [r' [-> _]]].
    cbn [app ssp_loop]. change (c :: r' ++ rest) with ((c :: r') ++ rest). rewrite starts_app. f_equal. lia.
  - cbn [forallb] in Hc. apply andb_true_iff in Hc as [Hx Hc]. cbn [app ssp_loop].
    rewrite (first_is_mismatch verify right x _ Hr Hx). rewrite Hx. rewrite IH by assumption.
    f_equal. cbn [length]. lia.
Qed.

(* ---- the backward scan (on the reversed text) over `content left rest` ---- *)
Lemma sss_loop_nil verify rr : sss_loop [] verify rr = Some (length rr).
Proof. destruct rr; cbn [sss_loop starts]; f_equal; cbn [length]; lia. Qed.

Lemma sss_loop_content rleft verify rcontent rrest :
  forallb verify rcontent = true -> first_is (fun c => negb (verify c)) rleft = true ->
  sss_loop rleft verify (rcontent ++ rleft ++ rrest) = Some (length rrest).
Proof.
  intros Hc Hr. induction rcontent as [|x rc IH].
  - cbn [app]. pose proof Hr as Hr'. apply first_is_nonempty in Hr' as [c [r' [-> _]]].
    cbn [app sss_loop]. change (c :: r' ++ rrest) with ((c :: r') ++ rrest). rewrite starts_app.
    f_equal. rewrite app_length. lia.
  - cbn [forallb] in Hc. apply andb_true_iff in Hc as [Hx Hc]. cbn [app sss_loop].
    rewrite (first_is_mismatch verify rleft x _ Hr Hx). rewrite Hx. auto.
Qed.

(* ---- trim ---- *)
Lemma trim_start_n_stop n pat s : starts pat s = false -> trim_start_n n pat s = s.
Proof. intros H. destruct n; cbn [trim_start_n]; [reflexivity|]. now rewrite H. Qed.

Lemma trim_start_once pat s : pat <> [] -> starts pat s = false -> trim_start_matches pat (pat ++ s) = s.
Proof.
  intros Hne H. unfold trim_start_matches. destruct pat as [|c p]; [congruence|].
  remember (c :: p) as pat. assert (Hl : (1 <= length (pat ++ s))%nat) by (subst; cbn; lia).
  destruct (length (pat ++ s)) as [|m]; [lia|]. cbn [trim_start_n]. rewrite starts_app, drop_app_length.
  now apply trim_start_n_stop.
Qed.

Lemma trim_end_once pat s : pat <> [] -> ends pat s = false -> trim_end_matches pat (s ++ pat) = s.
Proof.
  intros Hne H. unfold trim_end_matches. rewrite rev_app_distr. rewrite trim_start_once.
  - apply rev_involutive.
  - intros E. apply (f_equal (@rev N)) in E. rewrite rev_involutive in E. now cbn in E.
  - exact H.
Qed.

(* ---- join ---- *)
Lemma ljoin_cons2 sep e e2 r : ljoin_to sep (e :: e2 :: r) = e ++ sep ++ ljoin_to sep (e2 :: r).
Proof. reflexivity. Qed.

Lemma ljoin_all (P : N -> bool) sep bs :
  forallb P sep = true -> forallb (forallb P) bs = true -> forallb P (ljoin_to sep bs) = true.
Proof.
  intros Hs. induction bs as [|e [|e2 r] IH]; intros H; [reflexivity| |].
  - cbn [ljoin_to forallb] in *. now apply andb_true_iff in H as [H _].
  - rewrite ljoin_cons2. cbn [forallb] in H. apply andb_true_iff in H as [He H].
    rewrite !forallb_app, He, Hs. cbn [andb]. apply IH. exact H.
Qed.

(* first and last character of a join of non-empty entries *)
Lemma ljoin_first (P : N -> bool) sep e r :
  nonempty e = true -> forallb P e = true -> exists d J', ljoin_to sep (e :: r) = d :: J' /\ P d = true.
Proof.
  intros Hn He. destruct e as [|d e']; [discriminate|]. cbn [forallb] in He. apply andb_true_iff in He as [Hd _].
  destruct r as [|e2 r]; [exists d, e'; auto|]. rewrite ljoin_cons2. exists d, (e' ++ sep ++ ljoin_to sep (e2 :: r)). auto.
Qed.

Lemma ljoin_last (P : N -> bool) sep : forall bs, bs <> [] ->
  forallb (fun e => nonempty e && forallb P e) bs = true ->
  exists J' d, ljoin_to sep bs = J' ++ [d] /\ P d = true.
Proof.
  induction bs as [|e [|e2 r] IH]; intros Hne H; [congruence| |].
  - cbn [ljoin_to forallb] in *. rewrite andb_true_r in H. apply andb_true_iff in H as [Hn He].
    destruct (rev e) as [|d re] eqn:Er.
    { apply (f_equal (@rev N)) in Er. rewrite rev_involutive in Er. subst e. discriminate. }
    exists (rev re), d. split.
    + rewrite <- (rev_involutive e), Er. reflexivity.
    + rewrite forallb_forall in He. apply He. apply in_rev. rewrite Er. now left.
  - rewrite ljoin_cons2. cbn [forallb] in H. apply andb_true_iff in H as [_ H].
    destruct (IH ltac:(discriminate) H) as [J' [d [HJ Hd]]]. exists (e ++ sep ++ J'), d.
    rewrite HJ. now rewrite <- !app_assoc.
Qed.

(* ---- split ---- *)
Lemma split_n_nil_s n sep cur : split_n n sep cur [] = [rev cur].
Proof. destruct n; reflexivity. Qed.

Lemma split_n_entry (P : N -> bool) sep e : forall cur rest n,
  forallb P e = true -> first_is (fun c => negb (P c)) sep = true ->
  (length (e ++ rest) <= n)%nat ->
  split_n n sep cur (e ++ rest) = split_n (n - length e) sep (rev e ++ cur) rest.
Proof.
  induction e as [|x e IH]; intros cur rest n He Hs Hn.
  - cbn [app length rev]. f_equal. lia.
  - cbn [forallb] in He. apply andb_true_iff in He as [Hx He]. cbn [app length] in *.
    destruct n as [|n]; [lia|]. cbn [split_n]. rewrite (first_is_mismatch P sep x _ Hs Hx).
    rewrite IH by (auto; lia). cbn [rev]. rewrite <- app_assoc. reflexivity.
Qed.

Lemma split_n_sep n sep cur rest : sep <> [] ->
  split_n (S n) sep cur (sep ++ rest) = rev cur :: split_n n sep [] rest.
Proof.
  intros Hne. destruct sep as [|c s'] eqn:E; [congruence|]. rewrite <- E.
  assert (Hm : sep ++ rest = c :: s' ++ rest) by (subst sep; reflexivity).
  cbn [split_n]. rewrite Hm at 1. rewrite starts_app, drop_app_length. reflexivity.
Qed.

Lemma split_n_join (P : N -> bool) sep : first_is (fun c => negb (P c)) sep = true ->
  forall bs n, bs <> [] -> forallb (forallb P) bs = true ->
  (length (ljoin_to sep bs) <= n)%nat ->
  split_n n sep [] (ljoin_to sep bs) = bs.
Proof.
  intros Hs. induction bs as [|e [|e2 r] IH]; intros n Hne H Hn; [congruence| |].
  - cbn [ljoin_to forallb] in *. apply andb_true_iff in H as [He _].
    rewrite <- (app_nil_r e) at 1. rewrite (split_n_entry P) by (auto; rewrite app_nil_r; lia).
    rewrite split_n_nil_s, app_nil_r, rev_involutive. reflexivity.
  - rewrite ljoin_cons2 in *. cbn [forallb] in H. apply andb_true_iff in H as [He H].
    rewrite (split_n_entry P) by auto. rewrite app_nil_r.
    pose proof (first_is_length _ _ Hs) as Hsl. rewrite !app_length in Hn.
    destruct (n - length e)%nat as [|m] eqn:Em; [lia|].
    assert (Hsne : sep <> []) by (destruct sep; [cbn in Hsl; lia | discriminate]).
    rewrite split_n_sep by exact Hsne.
    rewrite rev_involutive. f_equal. apply IH; auto; [discriminate|]. unfold str, char in *. lia.
Qed.

Lemma split_nonempty sep s : sep <> [] -> split sep s = split_n (length s) sep [] s.
Proof. intros H. destruct sep; [congruence | reflexivity]. Qed.

(* ---- split_values on a well-formed bracketed list ---- *)
Lemma split_values_join l r sep bs :
  first_is nnum l = true -> last_is nnum r = true -> first_is nnum sep = true ->
  bs <> [] -> forallb number_ok bs = true ->
  split_values l r sep (l ++ ljoin_to sep bs ++ r) = bs.
Proof.
  intros Hl Hr Hs Hne Hbs.
  assert (Hnum : forallb (fun e => nonempty e && forallb numc e) bs = true) by exact Hbs.
  assert (Hall : forallb (forallb numc) bs = true).
  { rewrite forallb_forall in *. intros e He. specialize (Hnum e He). now apply andb_true_iff in Hnum as [_ H]. }
  assert (Hne_all : filter nonempty bs = bs).
  { clear -Hnum. induction bs as [|e bs IH]; [reflexivity|]. cbn [forallb filter] in *.
    apply andb_true_iff in Hnum as [He Hr]. apply andb_true_iff in He as [He _]. rewrite He. f_equal. auto. }
  destruct bs as [|e bs']; [congruence|].
  cbn [forallb] in Hnum. apply andb_true_iff in Hnum as [He0 Hrest]. apply andb_true_iff in He0 as [Hn0 Hp0].
  destruct (ljoin_first numc sep e bs' Hn0 Hp0) as [d [J' [HJ Hd]]].
  destruct (ljoin_last numc sep (e :: bs') ltac:(discriminate)) as [J2 [d2 [HJ2 Hd2]]].
  { cbn [forallb]. now rewrite Hn0, Hp0, Hrest. }
  set (J := ljoin_to sep (e :: bs')) in *.
  unfold split_values.
  rewrite trim_start_once.
  - rewrite trim_end_once.
    + rewrite split_nonempty.
      2:{ apply first_is_nonempty in Hs as [c [s' [-> _]]]. discriminate. }
      unfold J. rewrite (split_n_join numc) by (auto; discriminate). exact Hne_all.
    + apply last_is_nonempty in Hr as [r' [c [-> _]]]. destruct r'; discriminate.
    + rewrite HJ2. eapply ends_last_mismatch; eauto.
  - apply first_is_nonempty in Hl as [c [l' [-> _]]]. discriminate.
  - rewrite HJ. cbn [app]. eapply first_is_mismatch; eauto.
Qed.
