(* Proofs/EnumTotalP.v -- totality of the enum parser model (property C04):
   for every format record satisfying the boolean side-condition [total_ok], for EVERY input and every
   instance of the float / Unicode oracles, no entry point returns PPanic or PFuel.
   Invariant: the cursor record is consistent ([wf]: rest is what is left of an environment of
   length L at position head, head may exceed L); progress: every successful consume step strictly
   advances the cursor. *)
From Nv Require Import Model.EnumOk.

Arguments s_len {F} _.
Arguments s_head {F} _.
Arguments s_rest {F} _.
Arguments s_mid {F} _.

Section Total.
  Variable F : Type.
  Variable fread : str -> option F.
  Variable fzero : F.
  Variable in01 : F -> bool.
  Variable is_alnum : N -> bool.
  Variable E : efmt.
  Hypothesis Hok : total_ok E = true.
  Hypothesis Hfacts : state_facts_ok = true.

  Notation pstate := (pstate F).
  Notation pres := (pres F).

  Definition wf (L : nat) (st : pstate) : Prop :=
    s_len st = L /\ length (s_rest st) = (L - s_head st)%nat.

  Definition good {A} (L : nat) (P : A -> pstate -> Prop) (r : pres A) : Prop :=
    match r with
    | POk a st => wf L st /\ P a st
    | PErr st => wf L st
    | PPanic | PFuel => False
    end.

  Lemma good_impl {A} L (P Q : A -> pstate -> Prop) r :
    good L P r -> (forall a st, wf L st -> P a st -> Q a st) -> good L Q r.
  Proof. destruct r; cbn; intuition. Qed.

  Lemma pbind_good {A B} L (P : A -> pstate -> Prop) (Q : B -> pstate -> Prop) r f :
    good L P r -> (forall a st, wf L st -> P a st -> good L Q (f a st)) -> good L Q (pbind F r f).
  Proof. destruct r; cbn; intuition. Qed.

  (* ---- side conditions unpacked ---- *)
  Lemma nonempty_len s : nonempty s = true -> (0 < length s)%nat.
  Proof. destruct s; cbn; [discriminate | lia]. Qed.

  Ltac ok_split := unfold total_ok in Hok; repeat rewrite andb_true_iff in Hok.

  Lemma ok_space : (0 < length (space_parse E))%nat.
  Proof. ok_split. apply nonempty_len; tauto. Qed.
  Lemma ok_csep : (0 < length (compound_separator E))%nat.
  Proof. ok_split. apply nonempty_len; tauto. Qed.
  Lemma ok_tsep : (0 < length (sentence_truth_separator E))%nat.
  Proof. ok_split. apply nonempty_len; tauto. Qed.
  Lemma ok_bsep : (0 < length (task_budget_separator E))%nat.
  Proof. ok_split. apply nonempty_len; tauto. Qed.
  Lemma ok_cb0 : (0 < length (compound_brackets_0 E))%nat.
  Proof. ok_split. apply nonempty_len; tauto. Qed.
  Lemma ok_sb0 : (0 < length (statement_brackets_0 E))%nat.
  Proof. ok_split. apply nonempty_len; tauto. Qed.
  Lemma ok_xb0 : (0 < length (compound_brackets_set_extension_0 E))%nat.
  Proof. ok_split. apply nonempty_len; tauto. Qed.
  Lemma ok_ib0 : (0 < length (compound_brackets_set_intension_0 E))%nat.
  Proof. ok_split. apply nonempty_len; tauto. Qed.
  Lemma ok_tb0 : (0 < length (sentence_truth_brackets_0 E))%nat.
  Proof. ok_split. apply nonempty_len; tauto. Qed.
  Lemma ok_bb0 : (0 < length (task_budget_brackets_0 E))%nat.
  Proof. ok_split. apply nonempty_len; tauto. Qed.
  Lemma ok_punct : forallb (fun x => nonempty (snd (fst x) E)) punct_arms = true.
  Proof. ok_split. tauto. Qed.
  Lemma ok_stamp : forallb (fun x => nonempty (snd (fst x) E)) stamp_arms = true.
  Proof. ok_split. tauto. Qed.
  Lemma ok_atoms : forallb (fun x => match snd x with AIUnit _ => nonempty (fst x E) | _ => true end) parse_atom_arms = true.
  Proof. ok_split. tauto. Qed.

  (* ---- cursor primitives ---- *)
  Lemma wf_step L n st : wf L st -> wf L (step F n st).
  Proof. intros [Hl Hr]. split; cbn [step s_len s_head s_rest]; [exact Hl|]. rewrite drop_length, Hr. lia. Qed.
  Lemma wf_skip L kw st : wf L st -> wf L (skip F kw st).
  Proof. apply wf_step. Qed.
  Lemma wf_set_mid L st m : wf L st -> wf L (set_mid F st m).
  Proof. intros [Hl Hr]; split; assumption. Qed.
  Lemma wf_restore L orig cur : wf L orig -> wf L cur -> wf L (restore F orig cur).
  Proof. intros [Hl Hr] [Hl' Hr']; split; cbn [restore s_len s_head s_rest]; assumption. Qed.
  Lemma head_step n st : s_head (step F n st) = (s_head st + n)%nat.
  Proof. reflexivity. Qed.
  Lemma head_skip kw st : s_head (skip F kw st) = (s_head st + length kw)%nat.
  Proof. reflexivity. Qed.
  Lemma head_set_mid st m : s_head (set_mid F st m) = s_head st.
  Proof. reflexivity. Qed.

  Lemma skip_spaces_fuel_ok L n st :
    wf L st -> wf L (skip_spaces_fuel F E n st) /\ (s_head st <= s_head (skip_spaces_fuel F E n st))%nat.
  Proof.
    revert st; induction n as [|n IH]; intros st Hwf; cbn [skip_spaces_fuel]; [split; [assumption | lia]|].
    destruct (st_starts F (space_parse E) st); [|split; [assumption | lia]].
    destruct (IH (skip F (space_parse E) st) (wf_skip L _ _ Hwf)) as [H1 H2].
    split; [exact H1|]. rewrite head_skip in H2. lia.
  Qed.
  Lemma wf_skip_spaces L st : wf L st -> wf L (skip_spaces F E st).
  Proof. intros H; apply (skip_spaces_fuel_ok L _ st H). Qed.
  Lemma head_skip_spaces L st : wf L st -> (s_head st <= s_head (skip_spaces F E st))%nat.
  Proof. intros H; apply (skip_spaces_fuel_ok L _ st H). Qed.
  Lemma wf_skip_and_spaces L kw st : wf L st -> wf L (skip_and_spaces F E kw st).
  Proof. intros H; apply wf_skip_spaces, wf_skip, H. Qed.
  Lemma head_skip_and_spaces L kw st : wf L st -> (s_head st + length kw <= s_head (skip_and_spaces F E kw st))%nat.
  Proof. intros H. unfold skip_and_spaces. pose proof (head_skip_spaces L _ (wf_skip L kw st H)) as H1. rewrite head_skip in H1. exact H1. Qed.
  Lemma wf_skip_after_spaces L kw st : wf L st -> wf L (skip_after_spaces F E kw st).
  Proof. intros H; apply wf_skip, wf_skip_spaces, H. Qed.
  Lemma head_skip_after_spaces L kw st : wf L st -> (s_head st <= s_head (skip_after_spaces F E kw st))%nat.
  Proof. intros H. unfold skip_after_spaces. rewrite ?head_skip. pose proof (head_skip_spaces L _ H). lia. Qed.

  Lemma can_consume_lt L st : wf L st -> can_consume F st = true -> (s_head st < L)%nat.
  Proof. intros [Hl _] H. unfold can_consume in H. apply Nat.ltb_lt in H. lia. Qed.
  Lemma can_consume_rest L st : wf L st -> can_consume F st = true -> exists c r, s_rest st = c :: r.
  Proof.
    intros Hwf H. pose proof (can_consume_lt L st Hwf H) as Hlt. destruct Hwf as [_ Hr].
    destruct (s_rest st) as [|c r]; [cbn in Hr; lia | eauto].
  Qed.
  Lemma cannot_consume_ge L st : wf L st -> can_consume F st = false -> (L <= s_head st)%nat.
  Proof. intros [Hl _] H. unfold can_consume in H. apply Nat.ltb_ge in H. lia. Qed.

  (* ---- errors never panic: the window is well-formed because the index is clamped ---- *)
  Lemma err_window_ok_true st : err_window_ok F st = true.
  Proof.
    unfold err_window_ok, err_window. unfold state_facts_ok in Hfacts. rewrite Hfacts.
    destruct (Nat.ltb_spec err_view_range (Nat.min (s_head st) (s_len st)));
      destruct (Nat.ltb_spec (Nat.min (s_head st) (s_len st) + err_view_range + 1) (s_len st));
      apply Nat.leb_le; lia.
  Qed.
  Lemma perr_good {A} L (P : A -> pstate -> Prop) st : wf L st -> good L P (perr F st).
  Proof. intros H. unfold perr. rewrite err_window_ok_true. exact H. Qed.

  (* ---- number lists ---- *)
  Lemma floats_good L fuel : forall n sep rb acc buf st,
    wf L st -> (L - s_head st < fuel)%nat -> (0 < length sep)%nat ->
    good L (fun _ st' => (s_head st <= s_head st')%nat) (floats_loop F fread E fuel n sep rb acc buf st).
  Proof.
    induction fuel as [|fuel IH]; intros n sep rb acc buf st Hwf Hf Hsep; [lia|].
    cbn [floats_loop].
    destruct (can_consume F st) eqn:Hc; cbn [andb]; [|cbn; split; [assumption | lia]].
    destruct (Nat.ltb (length acc) n); [|cbn; split; [assumption | lia]].
    destruct (can_consume_rest L st Hwf Hc) as (c & r & Hrest). rewrite Hrest.
    pose proof (can_consume_lt L st Hwf Hc) as Hlt.
    assert (Hrec : forall k acc' buf', (0 < k)%nat ->
              good L (fun _ st' => (s_head st <= s_head st')%nat) (floats_loop F fread E fuel n sep rb acc' buf' (step F k st))).
    { intros k acc' buf' Hk. eapply good_impl.
      - apply IH; [apply wf_step, Hwf | rewrite ?head_step; lia | exact Hsep].
      - cbn beta. intros _ st' _ H. rewrite head_step in H. lia. }
    destruct (st_starts F (space_parse E) st); [apply Hrec, ok_space|].
    destruct (is_float_char c); [apply Hrec; lia|].
    destruct (st_starts F sep st).
    - destruct (fread buf); [apply Hrec, Hsep | apply perr_good, Hwf].
    - destruct (st_starts F rb st); [|apply perr_good, Hwf].
      destruct (fread buf); cbn; (split; [assumption | lia]).
  Qed.

  Lemma parse_floats_good L n sep rb st :
    wf L st -> (0 < length sep)%nat ->
    good L (fun _ st' => (s_head st <= s_head st')%nat) (parse_floats F fread E n sep rb st).
  Proof. intros Hwf Hsep. unfold parse_floats. apply floats_good; [assumption | destruct Hwf as [_ Hr]; lia | assumption]. Qed.

  Lemma forallb_pad_incl n l : forallb in01 (pad F fzero n l) = true -> forallb in01 l = true.
  Proof. unfold pad. rewrite forallb_app, andb_true_iff. tauto. Qed.

  Lemma mk_truth_some l : forallb in01 l = true -> mk_truth F in01 l <> None.
  Proof.
    destruct l as [|f [|c l]]; cbn [mk_truth forallb]; [discriminate| |].
    - rewrite andb_true_r. intros ->. discriminate.
    - rewrite !andb_true_iff. intros (-> & -> & _). discriminate.
  Qed.
  Lemma mk_budget_some l : forallb in01 l = true -> mk_budget F in01 l <> None.
  Proof.
    destruct l as [|p [|d [|q l]]]; cbn [mk_budget forallb]; [discriminate| | |].
    - rewrite andb_true_r. intros ->. discriminate.
    - rewrite !andb_true_iff. intros (-> & -> & _). discriminate.
    - rewrite !andb_true_iff. intros (-> & -> & -> & _). discriminate.
  Qed.

  Definition adv (st : pstate) {A} : A -> pstate -> Prop := fun _ st' => (s_head st < s_head st')%nat.

  Lemma consume_truth_good L st : wf L st -> good L (adv st) (consume_truth F fread fzero in01 E st).
  Proof.
    intros Hwf. unfold consume_truth.
    pose proof (wf_skip_and_spaces L (sentence_truth_brackets_0 E) st Hwf) as Hwf1.
    pose proof (head_skip_and_spaces L (sentence_truth_brackets_0 E) st Hwf) as Hh1.
    pose proof ok_tb0 as Hb.
    eapply pbind_good; [apply parse_floats_good; [exact Hwf1 | apply ok_tsep]|].
    cbn beta. intros l st2 Hwf2 Hh2.
    destruct (forallb in01 (pad F fzero 2 l)) eqn:Hin; cbn [negb]; [|apply perr_good, Hwf2].
    pose proof (mk_truth_some l (forallb_pad_incl _ _ Hin)) as Hs.
    destruct (mk_truth F in01 l) as [t|]; [|congruence].
    cbn. split.
    - apply wf_set_mid, wf_skip_after_spaces, Hwf2.
    - unfold adv. rewrite ?head_set_mid. pose proof (head_skip_after_spaces L (sentence_truth_brackets_1 E) st2 Hwf2). lia.
  Qed.

  Lemma consume_budget_good L st : wf L st -> good L (adv st) (consume_budget F fread fzero in01 E st).
  Proof.
    intros Hwf. unfold consume_budget.
    pose proof (wf_skip_and_spaces L (task_budget_brackets_0 E) st Hwf) as Hwf1.
    pose proof (head_skip_and_spaces L (task_budget_brackets_0 E) st Hwf) as Hh1.
    pose proof ok_bb0 as Hb.
    eapply pbind_good; [apply parse_floats_good; [exact Hwf1 | apply ok_bsep]|].
    cbn beta. intros l st2 Hwf2 Hh2.
    destruct (forallb in01 (pad F fzero 3 l)) eqn:Hin; cbn [negb]; [|apply perr_good, Hwf2].
    pose proof (mk_budget_some l (forallb_pad_incl _ _ Hin)) as Hs.
    destruct (mk_budget F in01 l) as [b|]; [|congruence].
    destruct budget_requires_close.
    - pose proof (wf_skip_spaces L st2 Hwf2) as Hwf3. pose proof (head_skip_spaces L st2 Hwf2) as Hh3.
      destruct (st_starts F (task_budget_brackets_1 E) (skip_spaces F E st2)); [|apply perr_good, Hwf3].
      cbn. split; [apply wf_set_mid, wf_skip, Hwf3|]. unfold adv. rewrite ?head_set_mid, ?head_skip. lia.
    - cbn. split; [apply wf_set_mid, wf_skip_after_spaces, Hwf2|].
      unfold adv. rewrite ?head_set_mid. pose proof (head_skip_after_spaces L (task_budget_brackets_1 E) st2 Hwf2). lia.
  Qed.

  Lemma find_arm_In {A} (arms : list ((efmt -> str) * A)) st g a :
    find_arm F E arms st = Some (g, a) -> In (g, a) arms.
  Proof.
    induction arms as [|[g' a'] arms IH]; cbn [find_arm]; [discriminate|].
    destruct (st_starts F (g' E) st); [intros H; injection H as -> ->; now left | intros H; right; auto].
  Qed.

  Lemma parse_isize_good L st : wf L st -> good L (fun _ st' => (s_head st <= s_head st')%nat) (parse_isize F st).
  Proof.
    intros Hwf. unfold parse_isize.
    set (buf := if can_consume F st then int_scan (s_rest st) else []).
    pose proof (wf_step L (length buf) st Hwf) as Hwf'.
    destruct buf as [|c buf'] eqn:Hb; [apply perr_good, Hwf'|].
    destruct (read_isize (c :: buf')); [|apply perr_good, Hwf'].
    cbn. split; [exact Hwf'|]. rewrite ?head_step. lia.
  Qed.

  Lemma consume_stamp_good L st : wf L st -> good L (adv st) (consume_stamp F E st).
  Proof.
    intros Hwf. unfold consume_stamp.
    pose proof (wf_skip_and_spaces L (sentence_stamp_brackets_0 E) st Hwf) as Hwf1.
    pose proof (head_skip_and_spaces L (sentence_stamp_brackets_0 E) st Hwf) as Hh1.
    set (st1 := skip_and_spaces F E (sentence_stamp_brackets_0 E) st) in *.
    destruct (find_arm F E _ st1) as [[g [sk kind]]|] eqn:Hfa; [|apply perr_good, Hwf1].
    apply find_arm_In in Hfa. apply in_map_iff in Hfa as ([[g' sk'] kind'] & Heq & Hin).
    cbn in Heq. injection Heq as -> -> ->.
    pose proof ok_stamp as Hs. rewrite forallb_forall in Hs. specialize (Hs _ Hin). cbn in Hs.
    apply nonempty_len in Hs.
    pose proof (wf_skip L (sk E) st1 Hwf1) as Hwf2.
    assert (Hfin : forall s st3, wf L st3 -> (s_head st1 + length (sk E) <= s_head st3)%nat ->
              good L (adv st) (POk tt (skip_after_spaces F E (sentence_stamp_brackets_1 E)
                                         (set_mid F st3 (mid_set_stamp F (s_mid st3) s))) : pres unit)).
    { intros s st3 Hwf3 Hh3. cbn. split; [apply wf_skip_after_spaces, wf_set_mid, Hwf3|].
      unfold adv. pose proof (head_skip_after_spaces L (sentence_stamp_brackets_1 E) _ (wf_set_mid L st3 (mid_set_stamp F (s_mid st3) s) Hwf3)) as H.
      rewrite head_set_mid in H. lia. }
    destruct kind; try (apply Hfin; [exact Hwf2 | rewrite ?head_skip; lia]).
    set (st2' := if stamp_fixed_skip_spaces then skip_spaces F E (skip F (sk E) st1) else skip F (sk E) st1).
    assert (Hwf2' : wf L st2' /\ (s_head st1 + length (sk E) <= s_head st2')%nat).
    { unfold st2'. destruct stamp_fixed_skip_spaces.
      - split; [apply wf_skip_spaces, Hwf2|]. pose proof (head_skip_spaces L _ Hwf2) as H. rewrite head_skip in H. exact H.
      - split; [exact Hwf2 | rewrite ?head_skip; lia]. }
    destruct Hwf2' as [Hwf2' Hh2'].
    eapply pbind_good; [apply parse_isize_good, Hwf2'|].
    cbn beta. intros z st3 Hwf3 Hh3. apply Hfin; [exact Hwf3 | lia].
  Qed.

  Lemma consume_punctuation_good L st : wf L st -> good L (adv st) (consume_punctuation F E st).
  Proof.
    intros Hwf. unfold consume_punctuation.
    destruct (find_arm F E _ st) as [[g [sk p]]|] eqn:Hfa; [|apply perr_good, Hwf].
    apply find_arm_In in Hfa. apply in_map_iff in Hfa as ([[g' sk'] p'] & Heq & Hin).
    cbn in Heq. injection Heq as -> -> ->.
    pose proof ok_punct as Hs. rewrite forallb_forall in Hs. specialize (Hs _ Hin). cbn in Hs.
    apply nonempty_len in Hs.
    cbn. split; [apply wf_set_mid, wf_skip, Hwf|]. unfold adv. rewrite ?head_set_mid, ?head_skip. lia.
  Qed.

  (* ---- atoms ---- *)
  Lemma name_loop_ok L fuel : forall acc st,
    wf L st ->
    wf L (snd (name_loop F is_alnum E fuel acc st)) /\
    (s_head st <= s_head (snd (name_loop F is_alnum E fuel acc st)))%nat /\
    length (fst (name_loop F is_alnum E fuel acc st)) =
      (length acc + (s_head (snd (name_loop F is_alnum E fuel acc st)) - s_head st))%nat.
  Proof.
    induction fuel as [|fuel IH]; intros acc st Hwf; cbn [name_loop].
    - cbn. repeat split; [apply Hwf | apply Hwf | lia | lia].
    - assert (Hstop : wf L (snd (acc, st)) /\ (s_head st <= s_head (snd (acc, st)))%nat /\
                      length (fst (acc, st)) = (length acc + (s_head (snd (acc, st)) - s_head st))%nat).
      { cbn. split; [exact Hwf|]. split; lia. }
      destruct (can_consume F st); [|exact Hstop].
      destruct (s_rest st) as [|c r]; [exact Hstop|].
      destruct (copula_at_head F E st); [exact Hstop|].
      destruct (name_charb is_alnum E c); [|exact Hstop].
      destruct (IH (acc ++ [c]) (step F 1 st) (wf_step L 1 st Hwf)) as (H1 & H2 & H3).
      split; [exact H1|]. rewrite head_step in H2, H3. rewrite app_length in H3. cbn in H3.
      split; lia.
  Qed.

  Lemma p_atom_good L st : wf L st -> good L (adv st) (p_atom F is_alnum E st).
  Proof.
    intros Hwf. unfold p_atom.
    destruct (find_arm F E parse_atom_arms st) as [[p init]|] eqn:Hfa; [|apply perr_good, Hwf].
    apply find_arm_In in Hfa.
    pose proof ok_atoms as Hs. rewrite forallb_forall in Hs. specialize (Hs _ Hfa). cbn in Hs.
    pose proof (wf_skip L (p E) st Hwf) as Hwf1.
    destruct (name_loop_ok L (length (s_rest (skip F (p E) st))) [] (skip F (p E) st) Hwf1) as (H1 & H2 & H3).
    destruct (name_loop F is_alnum E (length (s_rest (skip F (p E) st))) [] (skip F (p E) st)) as [name st2].
    cbn [fst snd] in H1, H2, H3. rewrite head_skip in H2, H3. cbn [length] in H3.
    assert (Hnamed : forall t0, good L (adv st)
              (match name with
               | [] => perr F st2
               | _ :: _ => match set_atom_name t0 name with (true, t) => POk t st2 | (false, _) => perr F st2 end
               end)).
    { intros t0. destruct name as [|c name]; [apply perr_good, H1|].
      destruct (set_atom_name t0 (c :: name)) as [[|] t]; [|apply perr_good, H1].
      cbn. split; [exact H1|]. unfold adv. cbn [length] in H3. lia. }
    destruct init as [c|c|c]; [apply Hnamed| |apply Hnamed].
    apply nonempty_len in Hs. cbn. split; [exact H1|]. unfold adv. lia.
  Qed.

  (* ---- component lists ---- *)
  Lemma p_terms_good L pt rb h0 :
    (forall st', wf L st' -> (h0 <= s_head st')%nat -> good L (adv st') (pt st')) ->
    forall fuel acc st, wf L st -> (h0 <= s_head st)%nat -> (L - s_head st < fuel)%nat ->
    good L (fun _ st' => (s_head st <= s_head st')%nat) (p_terms F E pt rb fuel acc st).
  Proof.
    intros Hpt. induction fuel as [|fuel IH]; intros acc st Hwf Hh Hf; [lia|].
    cbn [p_terms].
    destruct (can_consume F st) eqn:Hc; [|cbn; split; [assumption | lia]].
    pose proof (can_consume_lt L st Hwf Hc) as Hlt.
    assert (Hrec : forall k acc', (0 < k)%nat ->
              good L (fun _ st' => (s_head st <= s_head st')%nat) (p_terms F E pt rb fuel acc' (step F k st))).
    { intros k acc' Hk. eapply good_impl.
      - apply IH; [apply wf_step, Hwf | rewrite ?head_step; lia | rewrite ?head_step; lia].
      - cbn beta. intros _ st' _ H. rewrite head_step in H. lia. }
    destruct (st_starts F (space_parse E) st); [apply Hrec, ok_space|].
    destruct (st_starts F (compound_separator E) st); [apply Hrec, ok_csep|].
    destruct (st_starts F rb st); [cbn; split; [assumption | lia]|].
    eapply pbind_good; [apply Hpt; assumption|].
    cbn beta. intros t st' Hwf' Hadv. unfold adv in Hadv.
    eapply good_impl; [apply IH; [exact Hwf' | lia | lia]|].
    cbn beta. intros _ st'' _ H. lia.
  Qed.

  Lemma fill_compound_good L i ts st : wf L st -> good L (fun _ st' => st' = st) (fill_compound F i ts st).
  Proof.
    intros Hwf. unfold fill_compound.
    repeat match goal with
           | |- good _ _ (match ?x with _ => _ end) => destruct x
           end; try (apply perr_good, Hwf); cbn; auto.
  Qed.

  Section WithPt.
    Variable L : nat.
    Variable pt : pstate -> pres term.
    Variable h0 : nat.
    Hypothesis Hpt : forall st', wf L st' -> (h0 <= s_head st')%nat -> good L (adv st') (pt st').

    Lemma p_term_set_good c lb rb st :
      wf L st -> (0 < length lb)%nat -> (h0 <= s_head st + length lb)%nat ->
      good L (adv st) (p_term_set F E pt c lb rb st).
    Proof.
      intros Hwf Hlb Hh. unfold p_term_set.
      pose proof (wf_skip_and_spaces L lb st Hwf) as Hwf1.
      pose proof (head_skip_and_spaces L lb st Hwf) as Hh1.
      eapply pbind_good.
      - apply (p_terms_good L pt rb h0 Hpt); [exact Hwf1 | lia | unfold terms_fuel; destruct Hwf1 as [_ Hr]; lia].
      - cbn beta. intros ts st2 Hwf2 Hh2.
        pose proof (wf_skip_after_spaces L rb st2 Hwf2) as Hwf3.
        pose proof (head_skip_after_spaces L rb st2 Hwf2) as Hh3.
        destruct ts; [apply perr_good, Hwf3|]. cbn. split; [exact Hwf3|]. unfold adv. lia.
    Qed.

    Lemma p_compound_good st :
      wf L st -> (h0 <= s_head st + length (compound_brackets_0 E))%nat ->
      good L (adv st) (p_compound F E pt st).
    Proof.
      intros Hwf Hh. unfold p_compound. pose proof ok_cb0 as Hlb.
      pose proof (wf_skip_and_spaces L (compound_brackets_0 E) st Hwf) as Hwf1.
      pose proof (head_skip_and_spaces L (compound_brackets_0 E) st Hwf) as Hh1.
      set (st1 := skip_and_spaces F E (compound_brackets_0 E) st) in *.
      destruct (find_arm F E (map (fun g => (g, tt)) parse_compound_reject) st1) as [[g u]|]; [apply perr_good, wf_skip, Hwf1|].
      destruct (find_arm F E parse_compound_arms st1) as [[kw init]|]; [|apply perr_good, Hwf1].
      pose proof (wf_skip L (kw E) st1 Hwf1) as Hwf2.
      eapply pbind_good.
      - apply (p_terms_good L pt (compound_brackets_1 E) h0 Hpt); [exact Hwf2 | rewrite ?head_skip; lia | unfold terms_fuel; destruct Hwf2 as [_ Hr]; lia].
      - cbn beta. intros ts st3 Hwf3 Hh3. rewrite head_skip in Hh3.
        destruct ts as [|t ts]; [apply perr_good, Hwf3|].
        eapply pbind_good; [apply fill_compound_good, Hwf3|].
        cbn beta. intros t' st4 Hwf4 ->.
        cbn. split; [apply wf_skip_after_spaces, Hwf3|].
        unfold adv. pose proof (head_skip_after_spaces L (compound_brackets_1 E) st3 Hwf3). lia.
    Qed.

    Lemma p_statement_good st :
      wf L st -> (h0 <= s_head st + length (statement_brackets_0 E))%nat ->
      good L (adv st) (p_statement F E pt st).
    Proof.
      intros Hwf Hh. unfold p_statement. pose proof ok_sb0 as Hlb.
      pose proof (wf_skip_and_spaces L (statement_brackets_0 E) st Hwf) as Hwf1.
      pose proof (head_skip_and_spaces L (statement_brackets_0 E) st Hwf) as Hh1.
      eapply pbind_good; [apply Hpt; [exact Hwf1 | lia]|].
      cbn beta. intros subj st2 Hwf2 Hh2. unfold adv in Hh2.
      pose proof (wf_skip_spaces L st2 Hwf2) as Hwf3. pose proof (head_skip_spaces L st2 Hwf2) as Hh3.
      destruct (find_arm F E parse_statement_arms (skip_spaces F E st2)) as [[kw b]|]; [|apply perr_good, Hwf3].
      pose proof (wf_skip_spaces L _ (wf_skip L (kw E) _ Hwf3)) as Hwf4.
      pose proof (head_skip_spaces L _ (wf_skip L (kw E) _ Hwf3)) as Hh4. rewrite head_skip in Hh4.
      eapply pbind_good; [apply Hpt; [exact Hwf4 | lia]|].
      cbn beta. intros pred st5 Hwf5 Hh5. unfold adv in Hh5.
      cbn. split; [apply wf_skip_after_spaces, Hwf5|].
      unfold adv. pose proof (head_skip_after_spaces L (statement_brackets_1 E) st5 Hwf5). lia.
    Qed.
  End WithPt.

  Lemma st_starts_fits L kw st : wf L st -> st_starts F kw st = true -> (s_head st + length kw <= L)%nat.
  Proof.
    intros [Hl _]. unfold st_starts. destruct (Nat.ltb_spec (s_len st) (s_head st + length kw)); [discriminate | lia].
  Qed.

  Lemma p_term_good L fuel : forall st,
    wf L st -> (L - s_head st < fuel)%nat -> good L (adv st) (p_term F is_alnum E fuel st).
  Proof.
    induction fuel as [|fuel IH]; intros st Hwf Hf; [lia|].
    cbn [p_term].
    assert (Hpt : forall lb, (0 < length lb)%nat -> st_starts F lb st = true ->
              forall st', wf L st' -> (s_head st + length lb <= s_head st')%nat ->
                          good L (adv st') (p_term F is_alnum E fuel st')).
    { intros lb Hlb Hst st' Hwf' Hh. apply IH; [exact Hwf'|].
      pose proof (st_starts_fits L lb st Hwf Hst). lia. }
    destruct (st_starts F (compound_brackets_set_extension_0 E) st) eqn:H1.
    { apply (p_term_set_good L _ _ (Hpt _ ok_xb0 H1)); [exact Hwf | apply ok_xb0 | lia]. }
    destruct (st_starts F (compound_brackets_set_intension_0 E) st) eqn:H2.
    { apply (p_term_set_good L _ _ (Hpt _ ok_ib0 H2)); [exact Hwf | apply ok_ib0 | lia]. }
    destruct (st_starts F (compound_brackets_0 E) st) eqn:H3.
    { apply (p_compound_good L _ _ (Hpt _ ok_cb0 H3)); [exact Hwf | lia]. }
    destruct (st_starts F (statement_brackets_0 E) st) eqn:H4.
    { apply (p_statement_good L _ _ (Hpt _ ok_sb0 H4)); [exact Hwf | lia]. }
    apply p_atom_good, Hwf.
  Qed.

  Lemma consume_term_good L st : wf L st -> good L (adv st) (consume_term F is_alnum E st).
  Proof.
    intros Hwf. unfold consume_term, parse_term.
    eapply pbind_good; [apply p_term_good; [exact Hwf | unfold term_fuel; destruct Hwf as [_ Hr]; lia]|].
    cbn beta. intros t st' Hwf' Hadv. cbn. split; [apply wf_set_mid, Hwf' | exact Hadv].
  Qed.

  (* ---- the item loop ---- *)
  Lemma try_branch_good L orig guard branch k cur (P : unit -> pstate -> Prop) :
    wf L orig -> wf L cur ->
    (forall s, wf L s -> s_head s = s_head orig -> good L P (branch s)) ->
    (forall c, wf L c -> good L P (k c)) ->
    good L P (try_branch F orig guard branch k cur).
  Proof.
    intros Ho Hc Hb Hk. unfold try_branch. destruct (guard cur); [|apply Hk, Hc].
    specialize (Hb (restore F orig cur) (wf_restore L orig cur Ho Hc) eq_refl).
    destruct (branch (restore F orig cur)); cbn in Hb |- *; [exact Hb | apply Hk, Hb | exact Hb | exact Hb].
  Qed.

  Lemma consume_one_good L st : wf L st -> good L (adv st) (consume_one F fread fzero in01 is_alnum E st).
  Proof.
    intros Hwf. unfold consume_one.
    assert (Hre : forall (br : pstate -> pres unit), (forall s, wf L s -> good L (adv s) (br s)) ->
              forall s, wf L s -> s_head s = s_head st -> good L (adv st) (br s)).
    { intros br Hbr s Hs Heq. eapply good_impl; [apply Hbr, Hs|]. unfold adv. intros _ st' _ H. lia. }
    apply try_branch_good; [exact Hwf | exact Hwf | | intros c1 Hc1].
    { intros s Hs Heq. cbn. split; [apply wf_skip, Hs|]. unfold adv. rewrite ?head_skip. pose proof ok_space. lia. }
    apply try_branch_good; [exact Hwf | exact Hc1 | apply Hre; intros; now apply consume_budget_good | intros c2 Hc2].
    apply try_branch_good; [exact Hwf | exact Hc2 | apply Hre; intros; now apply consume_term_good | intros c3 Hc3].
    apply try_branch_good; [exact Hwf | exact Hc3 | apply Hre; intros; now apply consume_punctuation_good | intros c4 Hc4].
    apply try_branch_good; [exact Hwf | exact Hc4 | apply Hre; intros; now apply consume_stamp_good | intros c5 Hc5].
    apply try_branch_good; [exact Hwf | exact Hc5 | apply Hre; intros; now apply consume_truth_good | intros c6 Hc6].
    apply perr_good, Hc6.
  Qed.

  Lemma build_loop_good L fuel : forall st,
    wf L st -> (L - s_head st + 1 < fuel)%nat ->
    good L (fun _ _ => True) (build_loop F fread fzero in01 is_alnum E fuel st).
  Proof.
    induction fuel as [|fuel IH]; intros st Hwf Hf; [lia|].
    cbn [build_loop].
    destruct (can_consume F st) eqn:Hc; [|cbn; split; [exact Hwf | exact I]].
    pose proof (can_consume_lt L st Hwf Hc) as Hlt.
    pose proof (wf_skip_spaces L st Hwf) as Hwf1. pose proof (head_skip_spaces L st Hwf) as Hh1.
    destruct (can_consume F (skip_spaces F E st)) eqn:Hc1.
    - pose proof (can_consume_lt L _ Hwf1 Hc1) as Hlt1.
      eapply pbind_good; [apply consume_one_good, Hwf1|].
      cbn beta. intros u st2 Hwf2 Hadv. unfold adv in Hadv. apply IH; [exact Hwf2 | lia].
    - pose proof (cannot_consume_ge L _ Hwf1 Hc1). apply IH; [exact Hwf1 | lia].
  Qed.

  Lemma transform_good L st : wf L st -> good L (fun _ _ => True) (transform_mid_result F st).
  Proof.
    intros Hwf. unfold transform_mid_result.
    destruct (m_term F (s_mid st)); [|apply perr_good, Hwf].
    destruct (m_punct F (s_mid st)); [destruct (m_budget F (s_mid st))|]; cbn; (split; [apply wf_set_mid, Hwf | exact I]).
  Qed.

  Lemma run_parse_good L st : wf L st -> good L (fun _ _ => True) (run_parse F fread fzero in01 is_alnum E st).
  Proof.
    intros Hwf. unfold run_parse, build_mid_result.
    eapply pbind_good; [apply build_loop_good; [exact Hwf | destruct Hwf as [_ Hr]; lia]|].
    cbn beta. intros u st' Hwf' _. apply transform_good, Hwf'.
  Qed.

  Lemma wf_new_state input : wf (length input) (new_state F input).
  Proof. split; cbn; [reflexivity | lia]. Qed.
  Lemma wf_reset_to st input : wf (length input) (reset_to F st input).
  Proof. split; cbn; [reflexivity | lia]. Qed.

  Lemma good_total {A} L P (r : pres A) : good L P r -> is_total r = true.
  Proof. destruct r; cbn; intuition. Qed.

  Theorem parse_narsese_total input : is_total (parse_narsese F fread fzero in01 is_alnum E input) = true.
  Proof. eapply good_total, run_parse_good, wf_new_state. Qed.

  Theorem parse_multi_total inputs : forall st,
    parse_multi_from F fread fzero in01 is_alnum E st inputs <> None /\
    (forall l, parse_multi_from F fread fzero in01 is_alnum E st inputs = Some l -> length l = length inputs).
  Proof.
    induction inputs as [|i inputs IH]; intros st; cbn [parse_multi_from].
    - split; [discriminate | intros l H; injection H as <-; reflexivity].
    - pose proof (run_parse_good _ _ (wf_reset_to st i)) as Hg.
      destruct (run_parse F fread fzero in01 is_alnum E (reset_to F st i)) as [v st'|st'| |]; cbn in Hg; try contradiction.
      + destruct (IH st') as [H1 H2]. destruct (parse_multi_from F fread fzero in01 is_alnum E st' inputs) as [l|]; [|congruence].
        cbn. split; [discriminate | intros l' H; injection H as <-; cbn; f_equal; apply H2; reflexivity].
      + destruct (IH st') as [H1 H2]. destruct (parse_multi_from F fread fzero in01 is_alnum E st' inputs) as [l|]; [|congruence].
        cbn. split; [discriminate | intros l' H; injection H as <-; cbn; f_equal; apply H2; reflexivity].
  Qed.

  Lemma door_total {A} (consume : pstate -> pres unit) (get : mid F -> option A) input :
    (forall L st, wf L st -> good L (adv st) (consume st)) ->
    is_total (door F consume get input) = true.
  Proof.
    intros Hc. unfold door. specialize (Hc _ _ (wf_new_state input)).
    destruct (consume (new_state F input)) as [u st|st| |]; cbn [good] in Hc; cbn [pbind]; try contradiction; try reflexivity.
    rewrite err_window_ok_true. destruct (get (s_mid st)); reflexivity.
  Qed.

  Theorem door_truth_total input : is_total (door_truth F fread fzero in01 E input) = true.
  Proof. apply door_total. intros L st. apply consume_truth_good. Qed.
  Theorem door_budget_total input : is_total (door_budget F fread fzero in01 E input) = true.
  Proof. apply door_total. intros L st. apply consume_budget_good. Qed.
  Theorem door_punctuation_total input : is_total (door_punctuation F E input) = true.
  Proof. apply door_total. intros L st. apply consume_punctuation_good. Qed.
  Theorem door_stamp_total input : is_total (door_stamp F E input) = true.
  Proof. unfold door_stamp. destruct input; [reflexivity|]. apply door_total. intros L st. apply consume_stamp_good. Qed.
End Total.

(* the three shipped formats satisfy the side-condition: a complete check of finite tables *)
Lemma shipped_total_ok : forallb total_ok shipped_formats = true /\ state_facts_ok = true.
Proof. split; vm_compute; reflexivity. Qed.

Lemma reset_clears_mid_true : reset_clears_mid = true.
Proof. reflexivity. Qed.

Definition shipped (E : efmt) : Prop := In E shipped_formats.

Lemma shipped_ok E : shipped E -> total_ok E = true.
Proof. intros H. destruct shipped_total_ok as [H1 _]. rewrite forallb_forall in H1. now apply H1. Qed.

Lemma shipped_total :
  forall (F : Type) (fread : str -> option F) (fzero : F) (in01 : F -> bool) (is_alnum : N -> bool) (E : efmt),
    shipped E -> forall input : str,
      is_total (parse_narsese F fread fzero in01 is_alnum E input) = true /\
      is_total (door_truth F fread fzero in01 E input) = true /\
      is_total (door_budget F fread fzero in01 E input) = true /\
      is_total (door_stamp F E input) = true /\
      is_total (door_punctuation F E input) = true.
Proof.
  intros F fread fzero in01 is_alnum E HE input.
  pose proof (shipped_ok E HE) as Hok. destruct shipped_total_ok as [_ Hf].
  repeat split.
  - now apply parse_narsese_total.
  - now apply door_truth_total.
  - now apply door_budget_total.
  - now apply door_stamp_total.
  - now apply door_punctuation_total.
Qed.
