(* Proofs/LexPFinal.v -- C02: lex_parse (lex_fmt x) = LOk x, and the derivation of the
   unambiguity conditions from vocab_ok for self-delimiting formats. *)
From Nv Require Import Model.LexSpec Proofs.LexPBase Proofs.LexPTotal Proofs.LexPDict Proofs.LexPStr
                       Proofs.LexPTerm Proofs.LexPRound Proofs.LexPAssemble Proofs.LexPStrip.
From Coq Require Import Lia.
Import ListNotations.

(* the three table obligations of the round trip *)
Definition lex_rt_ok (F : lfmt) (ia : N -> bool) : bool :=
  lex_term_ok F ia && lex_items_ok F && lex_space_ok F ia.

Theorem lex_roundtrip F ia v :
  lex_rt_ok F ia = true ->
  vocab_ok F ia v = true -> unamb_top F v -> top_clean F v ->
  lex_parse ia F (lex_fmt F v) = LOk v.
Proof.
  intros Hok Hv Hun Hclean. unfold lex_rt_ok in Hok. rewrite !andb_true_iff in Hok. destruct Hok as [[Ht Hi] Hs].
  unfold lex_parse, lex_parse_fuel. rewrite (idealize_fmt F ia Hs v Hv).
  apply parse_env_text0; auto.
  rewrite <- (strip_fmt F ia Hs v Hv). unfold lex_fuel. pose proof (strip_length F (lex_fmt F v)). lia.
Qed.

(* the term entry point: parse_term (format_term t) = t *)
Theorem lex_term_roundtrip F ia t :
  lex_term_ok F ia = true -> lex_space_ok F ia = true ->
  term_ok F ia t = true -> unamb F t [] ->
  lex_parse_term ia F (lex_fmt_term F t) = LOk t.
Proof.
  intros Ht Hs Hok Hun. unfold lex_parse_term, lex_parse_term_fuel.
  pose proof (idealize_fmt F ia Hs (NTerm t) Hok) as Hid. change (lex_fmt F (NTerm t)) with (lex_fmt_term F t) in Hid.
  rewrite Hid. change (text0 F (NTerm t)) with (f0 F t).
  pose proof (segment_term_f0 F ia Ht t [] (lex_fuel (lex_fmt_term F t)) Hok Hun eq_refl) as Hseg.
  rewrite app_nil_r in Hseg. rewrite Hseg; [reflexivity|].
  pose proof (strip_fmt F ia Hs (NTerm t) Hok) as Hst. change (text0 F (NTerm t)) with (f0 F t) in Hst.
  change (lex_fmt F (NTerm t)) with (lex_fmt_term F t) in Hst. rewrite <- Hst.
  unfold lex_fuel. pose proof (strip_length F (lex_fmt_term F t)). lia.
Qed.

(* ---- self-delimiting formats ---- *)
Section SelfDelim.
  Variable F : lfmt.
  Variable ia : N -> bool.
  Let C := compile F.
  Hypothesis Hsd : lex_selfdelim F ia = true.

  Lemma contains_starts k s : starts k s = true -> contains k s = true.
  Proof. intros H. destruct s; cbn [contains]; now rewrite H. Qed.

  Lemma contains_single c s : In c s -> contains [c] s = true.
  Proof.
    induction s as [|y s IH]; intros H; [destruct H|]. cbn [contains starts].
    destruct H as [->|H]; [now rewrite N.eqb_refl|]. rewrite (IH H). apply orb_true_r.
  Qed.

  Lemma keyword_prefix q : In q (c_prefixes C) -> q <> [] -> In q (keywords F).
  Proof.
    intros Hq Hne. unfold keywords. apply filter_In. split.
    - apply in_or_app. now left.
    - destruct q; [congruence | reflexivity].
  Qed.

  Lemma prefix_first dict p n k :
    prefix_first_ok F ia dict = true -> (forall q, In q dict -> In q (c_prefixes C)) ->
    In p dict -> name_ok F ia n = true ->
    match_prefix dict (p ++ n ++ k) = Some p.
  Proof.
    intros H Hsub Hin Hn. unfold name_ok in Hn. rewrite !andb_true_iff in Hn. destruct Hn as [[Hne Hid] Hkw].
    unfold match_prefix. induction dict as [|q d IH]; [destruct Hin|].
    cbn [prefix_first_ok] in H. apply andb_true_iff in H as [H1 H2]. cbn [find].
    destruct (str_eqb_spec q p) as [->|Hqp].
    - now rewrite starts_app.
    - destruct Hin as [Hq|Hin]; [congruence|].
      rewrite forallb_forall in H1. specialize (H1 _ Hin).
      assert (Hq : starts q (p ++ n ++ k) = false).
      { destruct p as [|c0 p0].
        - cbn [app]. destruct n as [|c n']; [discriminate|]. cbn [forallb] in Hid.
          apply andb_true_iff in Hid as [Hc _]. apply orb_true_iff in H1 as [H1|H1].
          + cbn [app]. eapply (first_is_mismatch (ident F ia)); eauto.
          + apply Nat.eqb_eq in H1. destruct q as [|x [|y q']]; try discriminate.
            cbn [app starts]. destruct (N.eqb_spec x c) as [->|]; [|reflexivity]. exfalso.
            rewrite forallb_forall in Hkw.
            assert (Hk : In [c] (keywords F)).
            { apply keyword_prefix; [apply Hsub; now left | discriminate]. }
            specialize (Hkw _ Hk). apply negb_true_iff in Hkw.
            rewrite contains_starts in Hkw; [discriminate|]. cbn [starts]. now rewrite N.eqb_refl.
        - apply negb_true_iff in H1. now apply compat_false_starts. }
      rewrite Hq. apply IH; auto. intros q' Hq'. apply Hsub. now right.
  Qed.

  Lemma atom_unamb_any p n k : In p (c_prefixes C) -> name_ok F ia n = true -> atom_unamb F p n k.
  Proof.
    intros Hp Hn. pose proof Hsd as H. unfold lex_selfdelim in H. apply andb_true_iff in H as [Hcop Hpre].
    split.
    - apply prefix_first; auto.
    - intros i Hi. apply match_prefix_none. intros q Hq.
      unfold name_ok in Hn. rewrite !andb_true_iff in Hn. destruct Hn as [[_ Hid] Hkw].
      destruct (drop i n) as [|c r] eqn:Ed.
      { pose proof (drop_length i n) as Hd. rewrite Ed in Hd. cbn in Hd. lia. }
      assert (Hin : In c n).
      { assert (Hin : In c (drop i n)) by (rewrite Ed; now left).
        clear -Hin. revert n Hin. induction i as [|i IH]; intros [|y n] Hin; cbn [drop] in Hin; auto.
        right. apply IH. exact Hin. }
      cbn [app]. rewrite forallb_forall in Hcop. specialize (Hcop _ Hq).
      apply first_is_nonempty in Hcop as [x [q' [-> Hx]]]. cbn [starts].
      destruct (N.eqb_spec x c) as [->|]; [|reflexivity]. exfalso.
      apply orb_true_iff in Hx as [Hx|Hx].
      + rewrite forallb_forall in Hid. rewrite (Hid _ Hin) in Hx. discriminate.
      + apply str_in_In in Hx. rewrite forallb_forall in Hkw. specialize (Hkw _ Hx).
        apply negb_true_iff in Hkw. rewrite contains_single in Hkw; [discriminate | exact Hin].
  Qed.

  Theorem vocab_unamb : forall t, term_ok F ia t = true -> forall k, unamb F t k.
  Proof.
    induction t as [p n | c ts IHts | l ts rb IHts | c s p IHs IHp] using lterm_ind2; intros Hok k.
    - cbn [term_ok] in Hok. apply andb_true_iff in Hok as [Hp Hn]. apply str_in_In in Hp.
      cbn [unamb]. now apply atom_unamb_any.
    - cbn [term_ok] in Hok. rewrite !andb_true_iff in Hok. destruct Hok as [_ Hts].
      cbn [unamb]. clear -IHts Hts. induction ts as [|t r IH]; [exact I|].
      inversion IHts as [|? ? Ht Hr]; subst. cbn [forallb] in Hts. apply andb_true_iff in Hts as [Hokt Hokr].
      split; [apply Ht; exact Hokt | apply IH; assumption].
    - cbn [term_ok] in Hok. rewrite !andb_true_iff in Hok. destruct Hok as [_ Hts].
      cbn [unamb]. clear -IHts Hts. induction ts as [|t r IH]; [exact I|].
      inversion IHts as [|? ? Ht Hr]; subst. cbn [forallb] in Hts. apply andb_true_iff in Hts as [Hokt Hokr].
      split; [apply Ht; exact Hokt | apply IH; assumption].
    - cbn [term_ok] in Hok. rewrite !andb_true_iff in Hok. destruct Hok as [[_ Hs] Hp].
      cbn [unamb]. split; auto.
  Qed.

  Lemma vocab_unamb_top v : vocab_ok F ia v = true -> unamb_top F v.
  Proof.
    destruct v as [t | s | k]; cbn [vocab_ok unamb_top]; intros H.
    - now apply vocab_unamb.
    - unfold sentence_ok in H. rewrite !andb_true_iff in H. destruct H as [[[Ht _] _] _]. now apply vocab_unamb.
    - apply andb_true_iff in H as [H _]. unfold sentence_ok in H. rewrite !andb_true_iff in H.
      destruct H as [[[Ht _] _] _]. now apply vocab_unamb.
  Qed.
End SelfDelim.

Theorem lex_roundtrip_selfdelim F ia v :
  lex_rt_ok F ia = true -> lex_selfdelim F ia = true ->
  vocab_ok F ia v = true -> top_clean F v ->
  lex_parse ia F (lex_fmt F v) = LOk v.
Proof.
  intros Hok Hsd Hv Hclean. apply lex_roundtrip; auto. now apply vocab_unamb_top with (ia := ia).
Qed.

(* tasks need no condition on the borders of the term text *)
Theorem lex_roundtrip_task F ia k :
  lex_rt_ok F ia = true ->
  vocab_ok F ia (NTask k) = true -> unamb F (ls_term (lt_sentence k)) [] ->
  lex_parse ia F (lex_fmt F (NTask k)) = LOk (NTask k).
Proof. intros Hok Hv Hun. apply lex_roundtrip; auto. exact I. Qed.

(* ---- the boolean version of [unamb] is sound ---- *)
Lemma atom_unamb_b_sound F p n k : atom_unamb_b F p n k = true -> atom_unamb F p n k.
Proof.
  unfold atom_unamb_b, atom_unamb. intros H. apply andb_true_iff in H as [H1 H2]. split.
  - destruct (match_prefix (c_prefixes (compile F)) (p ++ n ++ k)) as [q|]; [|discriminate].
    apply str_eqb_eq in H1. now subst.
  - intros i Hi. rewrite forallb_forall in H2. specialize (H2 i).
    assert (Hin : In i (seq 0 (length n))) by (apply in_seq; lia). specialize (H2 Hin).
    destruct (match_prefix (c_copulas (compile F)) (drop i n ++ k)); [discriminate | reflexivity].
Qed.

Lemma unamb_b_sound F : forall t k, unamb_b F t k = true -> unamb F t k.
Proof.
  induction t as [p n | c ts IHts | l ts rb IHts | c s p IHs IHp] using lterm_ind2; intros k H.
  - now apply atom_unamb_b_sound.
  - cbn [unamb unamb_b] in *. induction ts as [|t r IH]; [exact I|].
    inversion IHts as [|? ? Ht Hr]; subst. apply andb_true_iff in H as [H1 H2]. split; [now apply Ht | now apply IH].
  - cbn [unamb unamb_b] in *. induction ts as [|t r IH]; [exact I|].
    inversion IHts as [|? ? Ht Hr]; subst. apply andb_true_iff in H as [H1 H2]. split; [now apply Ht | now apply IH].
  - cbn [unamb unamb_b] in *. apply andb_true_iff in H as [H1 H2]. split; auto.
Qed.

Lemma unamb_top_b_sound F v : unamb_top_b F v = true -> unamb_top F v.
Proof. unfold unamb_top_b. destruct v; cbn [top_term unamb_top]; apply unamb_b_sound. Qed.
